/-
  C16 helper lemmas: what `fmtDoc` (= `fmtVal` = `_get_formatted_iterable`) does to a document tree.
-/
import PypyrModel.Codec

namespace Pypyr.Codec

mutual
/-- `DocMap ctx d d'`: `d'` is `d` with every string node — keys included — replaced by its formatted
    value (the result of `_format_keep_type` on it, for some recursion budget), every list rebuilt
    element-wise, every mapping rebuilt entry-wise (`rebuildDict` = Python's `dict(pairs)`: a later
    duplicate key overwrites the value of the earlier one), and every other node unchanged. -/
def DocMap (ctx : Ctx) : Val → Val → Prop
  | .str s, v => ∃ n, fmtKeepType n ctx false s = .ok v
  | .list xs, v => ∃ ys, v = .list ys ∧ DocMapList ctx xs ys
  | .dict kvs, v => ∃ kvs', v = .dict (rebuildDict kvs') ∧ DocMapPairs ctx kvs kvs'
  | .none, v => v = .none
  | .bool b, v => v = .bool b
  | .int i, v => v = .int i
  | .flt n k, v => v = .flt n k
  | .bytes s, v => v = .bytes s
  | .tuple xs, v => v = .tuple xs
  | .set xs, v => v = .set xs
  | .sic s, v => v = .sic s
  | .py e, v => v = .py e
  | .jsonify w, v => v = .jsonify w
  | .obj i, v => v = .obj i
def DocMapList (ctx : Ctx) : List Val → List Val → Prop
  | [], ys => ys = []
  | x :: xs, ys => ∃ y ys', ys = y :: ys' ∧ DocMap ctx x y ∧ DocMapList ctx xs ys'
def DocMapPairs (ctx : Ctx) : List (Val × Val) → List (Val × Val) → Prop
  | [], out => out = []
  | (k, v) :: rest, out =>
    ∃ k' v' out', out = (k', v') :: out' ∧ DocMap ctx k k' ∧ DocMap ctx v v' ∧ DocMapPairs ctx rest out'
end

theorem DocMapList.length {ctx : Ctx} : ∀ {xs ys : List Val}, DocMapList ctx xs ys → ys.length = xs.length
  | [], ys, h => by simp [DocMapList] at h; simp [h]
  | x :: xs, ys, h => by
    simp only [DocMapList] at h
    obtain ⟨y, ys', rfl, _, h'⟩ := h
    simp [DocMapList.length h']

theorem DocMapPairs.length {ctx : Ctx} :
    ∀ {xs ys : List (Val × Val)}, DocMapPairs ctx xs ys → ys.length = xs.length
  | [], ys, h => by simp [DocMapPairs] at h; simp [h]
  | (k, v) :: xs, ys, h => by
    simp only [DocMapPairs] at h
    obtain ⟨k', v', out', rfl, _, _, h'⟩ := h
    simp [DocMapPairs.length h']

/-- `mapE` lifted to `DocMapList`. -/
theorem mapE_docMapList {ctx : Ctx} (f : Val → Except Exc Val) :
    ∀ (xs ys : List Val), (∀ x ∈ xs, ∀ y, f x = .ok y → DocMap ctx x y) → mapE f xs = .ok ys →
      DocMapList ctx xs ys
  | [], ys, _, h => by
    simp only [mapE] at h
    cases h
    simp [DocMapList]
  | x :: xs, ys, hf, h => by
    simp only [mapE] at h
    cases hx : f x with
    | error e => simp [hx] at h
    | ok y =>
      simp only [hx] at h
      cases hr : mapE f xs with
      | error e => simp [hr] at h
      | ok ys' =>
        simp only [hr] at h
        cases h
        simp only [DocMapList]
        exact ⟨y, ys', rfl, hf x List.mem_cons_self y hx,
          mapE_docMapList f xs ys' (fun x' hx' => hf x' (List.mem_cons_of_mem _ hx')) hr⟩

/-- `mapE` over key/value pairs lifted to `DocMapPairs`. -/
theorem mapE_docMapPairs {ctx : Ctx} (g : Val → Except Exc Val) :
    ∀ (kvs out : List (Val × Val)),
      (∀ kv ∈ kvs, (∀ y, g kv.1 = .ok y → DocMap ctx kv.1 y) ∧ (∀ y, g kv.2 = .ok y → DocMap ctx kv.2 y)) →
      mapE (fun (kv : Val × Val) =>
          match g kv.1 with
          | .error e => .error e
          | .ok k => match g kv.2 with
            | .error e => .error e
            | .ok w => .ok (k, w)) kvs = .ok out →
      DocMapPairs ctx kvs out
  | [], out, _, h => by
    simp only [mapE] at h
    cases h
    simp [DocMapPairs]
  | (k, v) :: rest, out, hf, h => by
    simp only [mapE] at h
    cases hk : g k with
    | error e => simp [hk] at h
    | ok k' =>
      cases hv : g v with
      | error e => simp [hk, hv] at h
      | ok v' =>
        simp only [hk, hv] at h
        split at h
        · cases h
        · rename_i out' hr
          cases h
          simp only [DocMapPairs]
          have h1 := hf (k, v) List.mem_cons_self
          exact ⟨k', v', out', rfl, h1.1 k' hk, h1.2 v' hv,
            mapE_docMapPairs g rest out' (fun kv hkv => hf kv (List.mem_cons_of_mem _ hkv)) hr⟩

theorem isDocList_mem {xs : List Val} (h : isDocList xs = true) : ∀ x ∈ xs, isDoc x = true := by
  induction xs with
  | nil => intro x hx; simp at hx
  | cons a as ih =>
    simp only [isDocList, Bool.and_eq_true] at h
    intro x hx
    rcases List.mem_cons.mp hx with rfl | hx
    · exact h.1
    · exact ih h.2 x hx

theorem isDocPairs_mem {kvs : List (Val × Val)} (h : isDocPairs kvs = true) :
    ∀ kv ∈ kvs, isDoc kv.1 = true ∧ isDoc kv.2 = true := by
  induction kvs with
  | nil => intro x hx; simp at hx
  | cons a as ih =>
    obtain ⟨k, v⟩ := a
    simp only [isDocPairs, Bool.and_eq_true] at h
    intro x hx
    rcases List.mem_cons.mp hx with rfl | hx
    · exact ⟨h.1.1, h.1.2⟩
    · exact ih h.2 x hx

/-- The formatter on a document tree maps strings and nothing else (by induction on the fuel). -/
theorem fmtIter_docMap (ctx : Ctx) :
    ∀ (fuel : Nat) (d d' : Val), isDoc d = true → fmtIter fuel ctx false d = .ok d' → DocMap ctx d d' := by
  intro fuel
  induction fuel with
  | zero => intro d d' _ h; simp [fmtIter] at h
  | succ n ih =>
    intro d d' hd h
    cases d with
    | none => simp [fmtIter] at h; simp [DocMap, h]
    | bool b => simp [fmtIter] at h; simp [DocMap, h]
    | int i => simp [fmtIter] at h; simp [DocMap, h]
    | flt a b => simp [fmtIter] at h; simp [DocMap, h]
    | str s =>
      simp only [fmtIter] at h
      simp only [DocMap]
      exact ⟨n, h⟩
    | list xs =>
      simp only [fmtIter] at h
      simp only [isDoc] at hd
      cases hm : mapE (fmtIter n ctx false) xs with
      | error e => simp [hm, Except.map] at h
      | ok ys =>
        simp only [hm, Except.map] at h
        cases h
        simp only [DocMap]
        exact ⟨ys, rfl, mapE_docMapList _ xs ys
          (fun x hx y hy => ih x y (isDocList_mem hd x hx) hy) hm⟩
    | dict kvs =>
      simp only [fmtIter] at h
      simp only [isDoc] at hd
      split at h
      · cases h
      · rename_i out hm
        cases h
        simp only [DocMap]
        refine ⟨out, rfl, mapE_docMapPairs (fmtIter n ctx false) kvs out ?_ hm⟩
        intro kv hkv
        have := isDocPairs_mem hd kv hkv
        exact ⟨fun y hy => ih kv.1 y this.1 hy, fun y hy => ih kv.2 y this.2 hy⟩
    | bytes s => simp [isDoc] at hd
    | tuple xs => simp [isDoc] at hd
    | set xs => simp [isDoc] at hd
    | sic s => simp [isDoc] at hd
    | py e => simp [isDoc] at hd
    | jsonify w => simp [isDoc] at hd
    | obj i => simp [isDoc] at hd

/-! ### `rebuildDict` is the identity on pairwise distinct keys -/

def keysOf (kvs : List (Val × Val)) : List Val := kvs.map (·.1)

theorem dictSet_fresh (acc : List (Val × Val)) (k v : Val) (h : k ∉ keysOf acc) :
    dictSet acc k v = acc ++ [(k, v)] := by
  induction acc with
  | nil => simp [dictSet]
  | cons a as ih =>
    obtain ⟨k', v'⟩ := a
    simp only [keysOf, List.map_cons, List.mem_cons, not_or] at h
    have hne : ¬ k' = k := fun e => h.1 e.symm
    simp only [dictSet, hne, if_false, List.cons_append]
    rw [ih h.2]

theorem foldl_dictSet_distinct (kvs : List (Val × Val)) :
    ∀ (acc : List (Val × Val)), (keysOf kvs).Nodup → (∀ k ∈ keysOf kvs, k ∉ keysOf acc) →
      kvs.foldl (fun a kv => dictSet a kv.1 kv.2) acc = acc ++ kvs := by
  induction kvs with
  | nil => intro acc _ _; simp
  | cons a as ih =>
    obtain ⟨k, v⟩ := a
    intro acc hnd hdis
    simp only [keysOf, List.map_cons, List.nodup_cons] at hnd
    simp only [List.foldl_cons]
    rw [dictSet_fresh acc k v (hdis k (by simp [keysOf]))]
    rw [ih (acc ++ [(k, v)]) hnd.2]
    · simp
    · intro k' hk'
      simp only [keysOf, List.map_append, List.map_cons, List.map_nil, List.mem_append,
        List.mem_singleton, not_or]
      refine ⟨hdis k' (by simp [keysOf] at hk' ⊢; exact Or.inr hk'), ?_⟩
      intro e
      subst e
      exact hnd.1 hk'

/-- Python's `dict(pairs)` keeps the pairs as they are when the keys are pairwise distinct. -/
theorem rebuildDict_distinct (kvs : List (Val × Val)) (h : (keysOf kvs).Nodup) : rebuildDict kvs = kvs := by
  have := foldl_dictSet_distinct kvs [] h (fun _ _ => by simp [keysOf])
  simpa [rebuildDict] using this

end Pypyr.Codec
