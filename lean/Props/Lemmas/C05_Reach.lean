/-
  C05 helper lemmas: statements about the while loop whose hypotheses concern only the iterations
  that are actually EXECUTED. `WhileReaches … n k s` says "the loop gets as far as starting the
  `n`-th iteration after iteration `k`": every earlier one completed normally and its
  post-execution `stop` evaluated to false. All by induction on the number of iterations.
-/
import Props.Lemmas.C05_Loops

namespace Pypyr.C05
open Pypyr Pypyr.Flow Pypyr.C04

/-- the loop started at iteration number `k` in state `s` reaches (starts) iteration number `k+n`:
    each of the `n` iterations before it completed normally and `stop`, evaluated on the state it
    left, was false. (`n = 0`: the first iteration is always reached.) -/
def WhileReaches (cfg : WhileCfg) (fr : Frame) (inner : Frame → Body) (sleep : Num) (n k : Nat) (s : St) : Prop :=
  ∀ i, i < n → (whileOut fr inner sleep i k s).2 = .ok ∧
    stopEval cfg (whileOut fr inner sleep i k s).1 = .ok false

theorem whileReaches_zero (cfg : WhileCfg) (fr : Frame) (inner : Frame → Body) (sleep : Num) (k : Nat) (s : St) :
    WhileReaches cfg fr inner sleep 0 k s := fun _ hi => absurd hi (Nat.not_lt_zero _)

theorem whileReaches_mono (cfg : WhileCfg) (fr : Frame) (inner : Frame → Body) (sleep : Num) (n n' k : Nat) (s : St)
    (h : WhileReaches cfg fr inner sleep n k s) (hle : n' ≤ n) : WhileReaches cfg fr inner sleep n' k s :=
  fun i hi => h i (by omega)

theorem whileReaches_succ (cfg : WhileCfg) (fr : Frame) (inner : Frame → Body) (sleep : Num) (n k : Nat) (s : St)
    (h : WhileReaches cfg fr inner sleep n k s) (hok : (whileOut fr inner sleep n k s).2 = .ok)
    (hst : stopEval cfg (whileOut fr inner sleep n k s).1 = .ok false) :
    WhileReaches cfg fr inner sleep (n + 1) k s := by
  intro i hi
  by_cases hlt : i < n
  · exact h i hlt
  · have : i = n := by omega
    subst this; exact ⟨hok, hst⟩

/-- reaching iteration `k+(n+1)` from `k` = iteration `k` completing with `stop` false, and reaching
    `(k+1)+n` from `k+1` in the state after the sleep. -/
theorem whileReaches_shift (cfg : WhileCfg) (fr : Frame) (inner : Frame → Body) (sleep : Num) (n k : Nat) (s : St)
    (h : WhileReaches cfg fr inner sleep (n + 1) k s) :
    WhileReaches cfg fr inner sleep n (k + 1) (addSleep sleep (iterOut fr inner k s).1) :=
  fun i hi => h (i + 1) (by omega)

/-- **Skipping over the executed prefix**: when iteration `k+n` is reached (and lies within the
    bound), the loop from `k` is the loop from `k+n`, entered in the state `whilePre … n k s`,
    with `n` units of fuel spent. -/
theorem whileIter_skip (cfg : WhileCfg) (fr : Frame) (inner : Frame → Body) (max : Option Nat)
    (sleep : Num) (eom : Bool) (hnn : 0 ≤ sleep.n) :
    ∀ (n k : Nat) (s : St) (fuel : Nat), n ≤ fuel →
      WhileReaches cfg fr inner sleep n k s →
      (whileBounded max = true → k + n ≤ max.getD 0) →
      whileIter cfg fr inner max sleep eom fuel k s =
        whileIter cfg fr inner max sleep eom (fuel - n) (k + n) (whilePre fr inner sleep n k s) := by
  intro n
  induction n with
  | zero => intro k s fuel _ _ _; rfl
  | succ n ih =>
    intro k s fuel hf hr hb
    obtain ⟨f, rfl⟩ : ∃ f, fuel = f + 1 := ⟨fuel - 1, by omega⟩
    have h0 : (iterOut fr inner k s).2 = .ok ∧ stopEval cfg (iterOut fr inner k s).1 = .ok false :=
      hr 0 (Nat.succ_pos _)
    rw [whileIter_succ_of_ok _ _ _ _ _ _ _ _ _ h0.1]
    rw [whileAfter_continue cfg fr inner max sleep eom f k _ h0.2 (fun h => by have := hb h; omega) hnn]
    rw [ih (k + 1) _ f (by omega) (whileReaches_shift cfg fr inner sleep n k s hr)
      (fun h => by have := hb h; omega)]
    have e1 : f + 1 - (n + 1) = f - n := by omega
    have e2 : k + 1 + n = k + (n + 1) := by omega
    rw [e1, e2]
    rfl

/-- **The first iteration that does not complete normally ends the loop** with that iteration's
    outcome (an error that was not swallowed, a control-of-flow instruction): no `stop` evaluation,
    no sleep, nothing further. Only the iterations up to that one are mentioned. -/
theorem whileIter_first_nonok (cfg : WhileCfg) (fr : Frame) (inner : Frame → Body) (max : Option Nat)
    (sleep : Num) (eom : Bool) (hnn : 0 ≤ sleep.n) (n k : Nat) (s : St) (fuel : Nat) (hf : n < fuel)
    (hr : WhileReaches cfg fr inner sleep n k s)
    (hbad : (whileOut fr inner sleep n k s).2 ≠ .ok)
    (hb : whileBounded max = true → k + n ≤ max.getD 0) :
    whileIter cfg fr inner max sleep eom fuel k s = whileOut fr inner sleep n k s := by
  rw [whileIter_skip cfg fr inner max sleep eom hnn n k s fuel (by omega) hr hb]
  obtain ⟨f, hf'⟩ : ∃ f, fuel - n = f + 1 := ⟨fuel - n - 1, by omega⟩
  rw [hf', whileOut_eq] at *
  exact whileIter_succ_of_nonok _ _ _ _ _ _ _ _ _ hbad

/-- **A `stop` expression that cannot be evaluated** after a reached, normally completed iteration
    ends the loop with that error. -/
theorem whileIter_stop_error (cfg : WhileCfg) (fr : Frame) (inner : Frame → Body) (max : Option Nat)
    (sleep : Num) (eom : Bool) (hnn : 0 ≤ sleep.n) (n k : Nat) (s : St) (fuel : Nat) (hf : n < fuel)
    (hr : WhileReaches cfg fr inner sleep n k s)
    (hok : (whileOut fr inner sleep n k s).2 = .ok) (x : Exc)
    (hx : stopEval cfg (whileOut fr inner sleep n k s).1 = .error x)
    (hb : whileBounded max = true → k + n ≤ max.getD 0) :
    whileIter cfg fr inner max sleep eom fuel k s = raiseExc (whileOut fr inner sleep n k s).1 x := by
  rw [whileIter_skip cfg fr inner max sleep eom hnn n k s fuel (by omega) hr hb]
  obtain ⟨f, hf'⟩ : ∃ f, fuel - n = f + 1 := ⟨fuel - n - 1, by omega⟩
  rw [hf']
  rw [whileOut_eq] at hok hx ⊢
  rw [whileIter_succ_of_ok _ _ _ _ _ _ _ _ _ hok]
  unfold whileAfter; rw [hx]

/-- Under hypotheses about executed iterations only ("an iteration that is reached completes
    normally and its `stop` evaluates"), every iteration below the bound is either reached, or the
    loop has stopped before it at a reached iteration with a true `stop`. -/
theorem reached_or_stopped (cfg : WhileCfg) (fr : Frame) (inner : Frame → Body) (sleep : Num) (k : Nat) (s : St)
    (m : Nat)
    (hok : ∀ i, i < m → WhileReaches cfg fr inner sleep i k s → (whileOut fr inner sleep i k s).2 = .ok)
    (hst : ∀ i, i < m → WhileReaches cfg fr inner sleep i k s →
      ∃ b, stopEval cfg (whileOut fr inner sleep i k s).1 = .ok b) :
    ∀ n, n ≤ m → WhileReaches cfg fr inner sleep n k s ∨
      ∃ j, j < n ∧ WhileReaches cfg fr inner sleep j k s ∧ (whileOut fr inner sleep j k s).2 = .ok ∧
        stopEval cfg (whileOut fr inner sleep j k s).1 = .ok true := by
  intro n
  induction n with
  | zero => intro _; exact .inl (whileReaches_zero cfg fr inner sleep k s)
  | succ n ih =>
    intro hn
    rcases ih (by omega) with hr | ⟨j, hj, h1, h2, h3⟩
    · have hk := hok n (by omega) hr
      obtain ⟨b, hb⟩ := hst n (by omega) hr
      cases b with
      | false => exact .inl (whileReaches_succ cfg fr inner sleep n k s hr hk hb)
      | true => exact .inr ⟨n, by omega, hr, hk, hb⟩
    · exact .inr ⟨j, by omega, h1, h2, h3⟩

/-- The bounded loop under hypotheses about EXECUTED iterations only: each iteration that is
    reached completes normally and its `stop` evaluates. Either the loop ends at the first reached
    iteration whose post-execution `stop` is true, or all of `k .. max` were executed with `stop`
    false and it ends there — with the loop-exhausted error iff `errorOnMax`. -/
theorem whileIter_bounded_outcome' (cfg : WhileCfg) (fr : Frame) (inner : Frame → Body) (max : Option Nat)
    (sleep : Num) (eom : Bool) (hb : whileBounded max = true) (hnn : 0 ≤ sleep.n) (n k : Nat) (s : St) (fuel : Nat)
    (hf : n < fuel) (hk : k + n = max.getD 0)
    (hok : ∀ i, i ≤ n → WhileReaches cfg fr inner sleep i k s → (whileOut fr inner sleep i k s).2 = .ok)
    (hst : ∀ i, i ≤ n → WhileReaches cfg fr inner sleep i k s →
      ∃ b, stopEval cfg (whileOut fr inner sleep i k s).1 = .ok b) :
    (∃ j, j ≤ n ∧ WhileReaches cfg fr inner sleep j k s ∧ (whileOut fr inner sleep j k s).2 = .ok ∧
        stopEval cfg (whileOut fr inner sleep j k s).1 = .ok true ∧
        whileIter cfg fr inner max sleep eom fuel k s = ((whileOut fr inner sleep j k s).1, .ok)) ∨
    (WhileReaches cfg fr inner sleep (n + 1) k s ∧
        whileIter cfg fr inner max sleep eom fuel k s =
          (if eom then loopExhausted (whileOut fr inner sleep n k s).1
           else ((whileOut fr inner sleep n k s).1, .ok))) := by
  rcases reached_or_stopped cfg fr inner sleep k s (n + 1)
      (fun i hi => hok i (by omega)) (fun i hi => hst i (by omega)) (n + 1) (Nat.le_refl _) with
    hr | ⟨j, hj, h1, h2, h3⟩
  · right
    refine ⟨hr, ?_⟩
    exact whileIter_exhausted cfg fr inner max sleep eom hb hnn n k s fuel hf hk
      (fun i hi => (hr i (by omega)).1) (fun i hi => (hr i (by omega)).2)
  · left
    refine ⟨j, by omega, h1, h2, h3, ?_⟩
    exact whileIter_first_stop cfg fr inner max sleep eom hnn j k s fuel (by omega)
      (fun i hi => by
        by_cases hlt : i < j
        · exact (h1 i hlt).1
        · have : i = j := by omega
          subst this; exact h2)
      (fun i hi => (h1 i hi).2) h3 (fun _ => by omega)

end Pypyr.C05
