/-
  C11 helper lemmas, part 1: `pype.get_arguments` (`getPypeArgs`).

  `getPypeArgs` = assert `pype` has a value, format it, then read the keys of the formatted mapping.
  `pypeArgsOfDict` is that last part as a function of the formatted mapping alone, written with one
  named function per field (`useParentOf`, `skipParseOf`, …) so that the table of defaults can be
  stated field by field; `getPypeArgs_eq` shows that it is what `getPypeArgs` computes.
-/
import Props.Lemmas.FlowRunner

namespace Pypyr.C11
open Pypyr Pypyr.Flow

abbrev Dict := List (Val × Val)

/-- `'k' in pype` -/
def hasKey (kvs : Dict) (k : String) : Bool := (dictGet? kvs (.str k)).isSome

/-- `pype.get('args')` after the `isinstance(args, dict)` check -/
def argsOf (kvs : Dict) : Except (String × String) (Option (List (String × Val))) :=
  match dictGet? kvs (.str "args") with
  | none | some .none => .ok none
  | some (.dict a) => match dictToCtx? a with
    | some c => .ok (some c)
    | none => .error ("OutOfDomain", "pype args keys must be strings")
  | some _ => .error ("pypyr.errors.ContextError", "~pypyr.steps.pype 'args' in the 'pype' context item must be a dict.")

/-- `bool(args)`: a non-empty mapping was given -/
def argsGiven (args : Option (List (String × Val))) : Bool :=
  match args with | some (_ :: _) => true | _ => false

/-- `pipe_arg_string` when truthy -/
def pipeArgStrOf (kvs : Dict) : Option String :=
  match dictGet? kvs (.str "pipeArg") with
  | some (.str t) => if t == "" then none else some t
  | _ => none

def pipeArgOf (kvs : Dict) : Option (List String) :=
  (pipeArgStrOf kvs).map fun t => (t.splitOn " ").filter (· != "")

def skipParseOf (kvs : Dict) : Bool :=
  if (pipeArgStrOf kvs).isSome && !hasKey kvs "skipParse" then false
  else match dictGet? kvs (.str "skipParse") with | some v => v.truthy | none => true

def useParentOf (kvs : Dict) (args : Option (List (String × Val))) : Bool :=
  if (argsGiven args || (pipeArgStrOf kvs).isSome) && !hasKey kvs "useParentContext" then false
  else match dictGet? kvs (.str "useParentContext") with | some v => v.truthy | none => true

def outOf (kvs : Dict) : Option Val := (dictGet? kvs (.str "out")).filter Val.truthy

def raiseErrorOf (kvs : Dict) : Bool :=
  match dictGet? kvs (.str "raiseError") with | some v => v.truthy | none => true

/-- `groups = pype.get('groups'); if isinstance(groups, str): groups = [groups]` as `Pipeline(groups=…)`
    takes it: the list of names (a mapping: its keys) and whether it is a truthy value that cannot be
    iterated (`groups: 5`). -/
def groupsOf (kvs : Dict) : Except (String × String) (Option (List String) × Bool) :=
  match dictGet? kvs (.str "groups") with
  | none | some .none => .ok (none, false)
  | some (.str g) => .ok (some [g], false)
  | some (.list xs) | some (.tuple xs) => match strList? (.list xs) with
    | some gs => .ok (some gs, false)
    | none => .error ("OutOfDomain", "group names must be strings")
  | some (.dict gkvs) => match strList? (.list (gkvs.map (·.1))) with
    | some gs => .ok (some gs, false)
    | none => .error ("OutOfDomain", "group names must be strings")
  | some (.int i) => .ok (none, i != 0)
  | some (.bool b) => .ok (none, b)
  | some (.flt n _) => .ok (none, n != 0)
  | some _ => .error ("OutOfDomain", "pype groups outside the modelled shapes")

def optStrOf (kvs : Dict) (k : String) : Except (String × String) (Option String) :=
  match dictGet? kvs (.str k) with
  | some (.str t) => .ok (some t)
  | none | some .none => .ok none
  | some _ => .error ("OutOfDomain", "pype success/failure must be a string")

def outWithParentError : String × String :=
  ("pypyr.errors.ContextError", "~pypyr.steps.pype pype.out is only relevant if useParentContext = False.")

/-- the part of `get_arguments` after `pype = context.get_formatted('pype')` -/
def pypeArgsOfDict (kvs : Dict) : Except (String × String) PypeArgs :=
  match dictGet? kvs (.str "name") with
  | none => .error ("pypyr.errors.KeyNotInContextError", "~pypyr.steps.pype missing 'name' in the 'pype' context item.")
  | some .none => .error ("pypyr.errors.KeyInContextHasNoValueError", "~pypyr.steps.pype ['pype']['name'] exists but is empty.")
  | some (.str name) =>
    match argsOf kvs with
    | .error e => .error e
    | .ok args =>
      if (outOf kvs).isSome && useParentOf kvs args then .error outWithParentError
      else
        match groupsOf kvs, optStrOf kvs "success", optStrOf kvs "failure" with
        | .error e, _, _ | _, .error e, _ | _, _, .error e => .error e
        | .ok (groups, groupsBad), .ok success, .ok failure =>
          .ok { name, args, out := outOf kvs, useParent := useParentOf kvs args, pipeArg := pipeArgOf kvs,
                skipParse := skipParseOf kvs, raiseError := raiseErrorOf kvs, groups, groupsBad,
                success, failure }
  | some _ => .error ("OutOfDomain", "pype name must be a string")

/-- **`getPypeArgs` = assert, format, `pypeArgsOfDict`.** -/
theorem getPypeArgs_eq (s : St) :
    getPypeArgs s =
      (match assertKeyHasValue s "pype" "pypyr.steps.pype" with
       | .error e => .error e
       | .ok raw =>
         match fmtAtKey s raw with
         | .error x => .error (x.name, x.msg)
         | .ok (.dict kvs) => pypeArgsOfDict kvs
         | .ok _ => .error ("TypeError", "~pype must be a mapping")) := by
  unfold getPypeArgs
  cases assertKeyHasValue s "pype" "pypyr.steps.pype" with
  | error e => rfl
  | ok raw =>
    simp only []
    cases fmtAtKey s raw with
    | error x => rfl
    | ok v =>
      cases v with
      | dict kvs =>
        simp only []
        unfold pypeArgsOfDict
        cases dictGet? kvs (.str "name") with
        | none => rfl
        | some nm =>
          cases nm with
          | str name =>
            simp only [argsOf, outOf, useParentOf, argsGiven, pipeArgStrOf, hasKey, pipeArgOf, skipParseOf,
              raiseErrorOf, groupsOf, optStrOf, outWithParentError]
            rfl
          | _ => rfl
      | _ => rfl

/-- what a successful `get_arguments` means: `pype` is in the context with a value, it formats to a
    mapping `kvs`, and the arguments are `pypeArgsOfDict kvs` -/
theorem getPypeArgs_ok (s : St) (a : PypeArgs) (h : getPypeArgs s = .ok a) :
    ∃ raw kvs, assertKeyHasValue s "pype" "pypyr.steps.pype" = .ok raw ∧
      fmtAtKey s raw = .ok (.dict kvs) ∧ pypeArgsOfDict kvs = .ok a := by
  rw [getPypeArgs_eq] at h
  split at h
  · cases h
  · rename_i raw hraw
    split at h
    · cases h
    · rename_i kvs hk; exact ⟨raw, kvs, hraw, hk, h⟩
    · cases h

/-- closed form of a successful `pypeArgsOfDict` -/
theorem pypeArgsOfDict_ok (kvs : Dict) (a : PypeArgs) (h : pypeArgsOfDict kvs = .ok a) :
    dictGet? kvs (.str "name") = some (.str a.name) ∧
    argsOf kvs = .ok a.args ∧
    a.out = outOf kvs ∧ a.useParent = useParentOf kvs a.args ∧ a.pipeArg = pipeArgOf kvs ∧
    a.skipParse = skipParseOf kvs ∧ a.raiseError = raiseErrorOf kvs ∧ groupsOf kvs = .ok (a.groups, a.groupsBad) ∧
    optStrOf kvs "success" = .ok a.success ∧ optStrOf kvs "failure" = .ok a.failure ∧
    ((outOf kvs).isSome && useParentOf kvs a.args) = false := by
  unfold pypeArgsOfDict at h
  split at h
  · cases h
  · cases h
  · rename_i name hname
    split at h
    · cases h
    · rename_i args hargs
      split at h
      · cases h
      · rename_i hno
        split at h
        · cases h
        · cases h
        · cases h
        · rename_i groups groupsBad success failure hg hs hf
          injection h with h
          subst h
          exact ⟨hname, hargs, rfl, rfl, rfl, rfl, rfl, hg, hs, hf, by simpa using hno⟩
  · cases h

/-- `out` given together with the parent context is rejected -/
theorem pypeArgsOfDict_out_with_parent (kvs : Dict) (name : String) (args : Option (List (String × Val)))
    (hn : dictGet? kvs (.str "name") = some (.str name)) (ha : argsOf kvs = .ok args)
    (ho : (outOf kvs).isSome = true) (hu : useParentOf kvs args = true) :
    pypeArgsOfDict kvs = .error outWithParentError := by
  unfold pypeArgsOfDict
  simp only [hn, ha, ho, hu, Bool.and_self, if_true]

/-! ### the fields, one by one -/

theorem useParentOf_explicit (kvs : Dict) (args : Option (List (String × Val))) (v : Val)
    (h : dictGet? kvs (.str "useParentContext") = some v) : useParentOf kvs args = v.truthy := by
  simp [useParentOf, hasKey, h]

theorem useParentOf_default (kvs : Dict) (args : Option (List (String × Val)))
    (h : dictGet? kvs (.str "useParentContext") = none) :
    useParentOf kvs args = !(argsGiven args || (pipeArgStrOf kvs).isSome) := by
  simp only [useParentOf, hasKey, h, Option.isSome_none, Bool.not_false, Bool.and_true]
  cases (argsGiven args || (pipeArgStrOf kvs).isSome) <;> simp

theorem skipParseOf_explicit (kvs : Dict) (v : Val)
    (h : dictGet? kvs (.str "skipParse") = some v) : skipParseOf kvs = v.truthy := by
  simp [skipParseOf, hasKey, h]

theorem skipParseOf_default (kvs : Dict) (h : dictGet? kvs (.str "skipParse") = none) :
    skipParseOf kvs = !(pipeArgStrOf kvs).isSome := by
  simp only [skipParseOf, hasKey, h, Option.isSome_none, Bool.not_false, Bool.and_true]
  cases (pipeArgStrOf kvs).isSome <;> simp

theorem pipeArgStrOf_isSome (kvs : Dict) :
    (pipeArgStrOf kvs).isSome = true ↔ ∃ t, t ≠ "" ∧ dictGet? kvs (.str "pipeArg") = some (.str t) := by
  unfold pipeArgStrOf
  split
  · rename_i t ht
    by_cases he : t = ""
    · subst he
      simp only [beq_self_eq_true, if_true, Option.isSome_none, Bool.false_eq_true, false_iff]
      rintro ⟨t', hne, heq⟩
      rw [ht] at heq
      injection heq with heq; injection heq with heq
      exact hne heq.symm
    · simp only [beq_iff_eq, he, if_false, Option.isSome_some, true_iff]
      exact ⟨t, he, ht⟩
  · rename_i hnot
    simp only [Option.isSome_none, Bool.false_eq_true, false_iff]
    rintro ⟨t, _, heq⟩
    exact hnot t heq

theorem pipeArgOf_isSome (kvs : Dict) : (pipeArgOf kvs).isSome = (pipeArgStrOf kvs).isSome := by
  unfold pipeArgOf; cases pipeArgStrOf kvs <;> rfl

theorem raiseErrorOf_default (kvs : Dict) (h : dictGet? kvs (.str "raiseError") = none) :
    raiseErrorOf kvs = true := by simp [raiseErrorOf, h]

theorem raiseErrorOf_explicit (kvs : Dict) (v : Val) (h : dictGet? kvs (.str "raiseError") = some v) :
    raiseErrorOf kvs = v.truthy := by simp [raiseErrorOf, h]

theorem groupsOf_str (kvs : Dict) (g : String) (h : dictGet? kvs (.str "groups") = some (.str g)) :
    groupsOf kvs = .ok (some [g], false) := by simp [groupsOf, h]

theorem groupsOf_list (kvs : Dict) (xs : List Val) (gs : List String)
    (h : dictGet? kvs (.str "groups") = some (.list xs)) (hs : strList? (.list xs) = some gs) :
    groupsOf kvs = .ok (some gs, false) := by simp [groupsOf, h, hs]

theorem groupsOf_none (kvs : Dict) (h : dictGet? kvs (.str "groups") = none) :
    groupsOf kvs = .ok (none, false) := by simp [groupsOf, h]

/-- a number / bool under `groups`: falsy means "not given", truthy "given but not iterable". -/
theorem groupsOf_number (kvs : Dict) :
    (∀ i, dictGet? kvs (.str "groups") = some (.int i) → groupsOf kvs = .ok (none, i != 0)) ∧
    (∀ b, dictGet? kvs (.str "groups") = some (.bool b) → groupsOf kvs = .ok (none, b)) :=
  ⟨fun i h => by simp [groupsOf, h], fun b h => by simp [groupsOf, h]⟩

theorem strList?_strs (gs : List String) : strList? (.list (gs.map Val.str)) = some gs := by
  simp [strList?, List.filterMap_map, Function.comp_def]

theorem outOf_eq (kvs : Dict) :
    outOf kvs = match dictGet? kvs (.str "out") with
      | some v => if v.truthy then some v else none
      | none => none := by
  unfold outOf
  cases dictGet? kvs (.str "out") with
  | none => rfl
  | some v => simp [Option.filter]

/-! ### observing `get_arguments` in the concrete examples of Props/C11.lean (`Except` has no `DecidableEq`) -/

deriving instance DecidableEq for PypeArgs

/-- a `get_arguments` result (`none`: it failed) -/
def argsRow (s : St) : Option PypeArgs := (getPypeArgs s).toOption

/-- the error name of a failed `get_arguments` -/
def argsErr (s : St) : Option String :=
  match getPypeArgs s with | .error e => some e.1 | .ok _ => none

/-- (useParent, skipParse, raiseError, pipeArg passed on?, groups) of a `get_arguments` result -/
structure Brief where
  useParent : Bool
  skipParse : Bool
  raiseError : Bool
  pipeArgPassed : Bool
  groups : Option (List String)
  deriving DecidableEq

def argsBrief (s : St) : Option Brief :=
  (getPypeArgs s).toOption.map fun a => ⟨a.useParent, a.skipParse, a.raiseError, a.pipeArg.isSome, a.groups⟩

end Pypyr.C11
