/-
  C14 helper: under the arrangements the code runs with now (`.evalFixed`, `.exec`) the evaluator
  never looks at (nor writes) the raw dict slot `hidden` of the per-Context namespace object:
  evaluation commutes with replacing it. Consequence: rebuilding that object (what rehydrating the
  Context object does to it) is invisible to every expression.
-/
import Props.Lemmas.C14_Frame

namespace Pypyr.PyNs

/-- Replace the raw dict slot of the per-Context namespace object. -/
def St.withHidden (h : Env) (st : St) : St := { st with hidden := h }

variable (h : Env)

@[simp] theorem withHidden_heap (st : St) : (st.withHidden h).heap = st.heap := rfl
@[simp] theorem withHidden_cur (st : St) : (st.withHidden h).cur = st.cur := rfl
@[simp] theorem withHidden_setCur (st : St) (k : Nat) :
    (st.withHidden h).setCur k = (st.setCur k).withHidden h := rfl
@[simp] theorem withHidden_alloc (st : St) (c : Cell) :
    ((st.withHidden h).alloc c).2 = (st.alloc c).2.withHidden h := rfl
@[simp] theorem withHidden_heapSet (st : St) (r : Nat) (c : Cell) :
    (st.withHidden h).heapSet r c = (st.heapSet r c).withHidden h := rfl
@[simp] theorem withHidden_frameSet (st : St) (r : Nat) (x : String) (v : V) :
    (st.withHidden h).frameSet r x v = (st.frameSet r x v).withHidden h := by
  simp only [St.frameSet, withHidden_heap]; split <;> rfl
@[simp] theorem withHidden_target (a : Arr) (st : St) (j : Nat) :
    target a (st.withHidden h) j = target a st j := rfl
theorem withHidden_load {a : Arr} (ha : a.live) (sc : Scope) (st : St) (x : String) :
    load a sc (st.withHidden h) x = load a sc st x := by
  rcases ha with ha | ha <;> subst ha <;> rfl
theorem withHidden_store {a : Arr} (ha : a.live) (sc : Scope) (st : St) (x : String) (v : V) :
    store a sc (st.withHidden h) x v = (store a sc st x v).withHidden h := by
  simp only [store, withHidden_heap]
  split
  · exact withHidden_frameSet h st _ x v
  · rcases ha with ha | ha <;> subst ha <;> rfl
  · split
    · split <;> (rcases ha with ha | ha <;> subst ha <;> rfl)
    · rcases ha with ha | ha <;> subst ha <;> rfl
    · simp only [St.clsSet, withHidden_heap]; split <;> rfl
@[simp] theorem withHidden_doAppend (st : St) (t w : V) :
    doAppend (st.withHidden h) t w = (doAppend st t w).withHidden h := by
  simp only [doAppend, withHidden_heap]
  split
  · split <;> rfl
  · rfl

theorem withHidden_doSetItem (st : St) (t : V) (i : Nat) (w : V) :
    doSetItem (st.withHidden h) t i w = ((doSetItem st t i w).1, (doSetItem st t i w).2.withHidden h) := by
  simp only [doSetItem, withHidden_heap]
  repeat' split
  all_goals rfl

end Pypyr.PyNs

namespace Pypyr.PyNs

/-- Apply `withHidden` to the state component of an evaluator's answer. -/
def lift {β : Type} (h : Env) (p : β × St) : β × St := (p.1, p.2.withHidden h)

@[simp] theorem lift_mk {β : Type} (h : Env) (b : β) (st : St) : lift h (b, st) = (b, st.withHidden h) := rfl

theorem withHidden_nsopApply (h : Env) {a : Arr} (ha : a.live) (st : St) (m : NsMeth) (k : String) (w : V) :
    nsopApply a (st.withHidden h) m k w = lift h (nsopApply a st m k w) := by
  rcases ha with ha | ha <;> subst ha <;> rfl

theorem eval_hidden (h : Env) : ∀ fuel,
    (∀ a, a.live → ∀ sc e st, evalExpr a fuel sc e (st.withHidden h) = lift h (evalExpr a fuel sc e st)) ∧
    (∀ a, a.live → ∀ sc es st, evalList a fuel sc es (st.withHidden h) = lift h (evalList a fuel sc es st)) ∧
    (∀ a, a.live → ∀ sc cs st, evalConds a fuel sc cs (st.withHidden h) = lift h (evalConds a fuel sc cs st)) ∧
    (∀ a, a.live → ∀ sc fr elt t cs rest src i acc st,
      compLoop a fuel sc fr elt t cs rest src i acc (st.withHidden h) =
        lift h (compLoop a fuel sc fr elt t cs rest src i acc st)) ∧
    (∀ a, a.live → ∀ ex vf vs st, callFn a fuel ex vf vs (st.withHidden h) =
        lift h (callFn a fuel ex vf vs st)) ∧
    (∀ a, a.live → ∀ sc body st, runBody a fuel sc body (st.withHidden h) =
        lift h (runBody a fuel sc body st)) ∧
    (∀ a, a.live → ∀ sc fr elt cls stack st, genLoop a fuel sc fr elt cls stack (st.withHidden h) =
        lift h (genLoop a fuel sc fr elt cls stack st)) ∧
    (∀ a, a.live → ∀ r st, pullGen a fuel r (st.withHidden h) = lift h (pullGen a fuel r st)) ∧
    (∀ a, a.live → ∀ r acc st, drainGen a fuel r acc (st.withHidden h) = lift h (drainGen a fuel r acc st)) := by
  intro fuel
  induction fuel with
  | zero =>
    refine ⟨?_, ?_, ?_, ?_, ?_, ?_, ?_, ?_, ?_⟩ <;> intros <;>
      simp [evalExpr, evalList, evalConds, compLoop, callFn, runBody, genLoop, pullGen, drainGen]
  | succ n ih =>
    obtain ⟨ihE, ihL, ihC, ihLoop, ihCall, ihBody, ihGen, ihPull, ihDrain⟩ := ih
    refine ⟨?_, ?_, ?_, ?_, ?_, ?_, ?_, ?_, ?_⟩
    · intro a ha sc e st
      have ihE := ihE a ha
      have ihL := ihL a ha
      have ihCall := ihCall a ha
      have ihLoop := ihLoop a ha
      have ihDrain := ihDrain a ha
      unfold evalExpr
      cases e with
      | name x => simp [withHidden_load h ha]
      | const n => simp
      | walrus x e1 =>
        simp only [ihE]
        rcases hh : evalExpr a n sc e1 st with ⟨r, st1⟩
        cases r <;> simp [withHidden_store h ha]
      | tuple es =>
        simp only [ihL]
        rcases hh : evalList a n sc es st with ⟨r, st1⟩
        cases r <;> simp [lift, St.alloc, St.withHidden]
      | lam ps body => simp [lift, St.alloc, St.withHidden]
      | call f args =>
        simp only [ihE]
        rcases hh : evalExpr a n sc f st with ⟨r, st1⟩
        cases r with
        | err er => simp
        | ok vf =>
          simp only [lift_mk, ihL]
          rcases hh2 : evalList a n sc args st1 with ⟨r2, st2⟩
          cases r2 with
          | err er => simp
          | ok vs => simp only [lift_mk, ihCall]
      | append t e1 =>
        simp only [ihE]
        rcases hh : evalExpr a n sc t st with ⟨r, st1⟩
        cases r with
        | err er => simp
        | ok vt =>
          simp only [lift_mk, withHidden_heap]
          cases appendable st1.heap vt with
          | some er => simp
          | none =>
            simp only [ihE]
            rcases hh2 : evalExpr a n sc e1 st1 with ⟨r2, st2⟩
            cases r2 <;> simp
      | comp gen elt clauses =>
        cases clauses with
        | nil => simp
        | cons c rest =>
          obtain ⟨t1, it1, cs1⟩ := c
          simp only [ihE]
          rcases hh : evalExpr a n sc it1 st with ⟨r, st1⟩
          cases r with
          | err er => simp
          | ok src =>
            simp only [lift_mk, withHidden_heap]
            cases iterable st1.heap src with
            | some er => simp
            | none =>
              simp only [withHidden_alloc, ihLoop]
              rcases hh2 : compLoop a n { sc with kind := _, chain := _ } st1.heap.length elt t1 cs1 rest src 0 []
                (st1.alloc (.frame { declared := t1 :: rest.map (·.1), globals := [], isComp := true, vars := [] })).2 with ⟨r2, st3⟩
              cases r2 <;> simp [lift, St.alloc, St.withHidden]
      | gen elt clauses =>
        cases clauses with
        | nil => simp
        | cons c rest =>
          obtain ⟨t1, it1, cs1⟩ := c
          simp only [ihE]
          rcases hh : evalExpr a n sc it1 st with ⟨r, st1⟩
          cases r with
          | err er => simp
          | ok src =>
            simp only [lift_mk, withHidden_heap]
            cases iterable st1.heap src with
            | some er => simp
            | none => simp [lift, St.alloc, St.withHidden]
      | drain e1 =>
        simp only [ihE]
        rcases hh : evalExpr a n sc e1 st with ⟨r, st1⟩
        cases r with
        | err er => simp
        | ok v =>
          simp only [lift_mk, withHidden_heap]
          split
          · simp only [ihDrain]
            rename_i r _
            rcases hh2 : drainGen a n r [] st1 with ⟨r2, st2⟩
            cases r2 <;> simp [lift, St.alloc, St.withHidden]
          · cases iterable st1.heap v with
            | some er => simp
            | none =>
              simp only []
              cases seqItems st1.heap v <;> simp [lift, St.alloc, St.withHidden]
      | setitem t i e1 =>
        simp only [ihE]
        rcases hh : evalExpr a n sc t st with ⟨r, st1⟩
        cases r with
        | err er => simp
        | ok vt =>
          simp only [lift_mk, withHidden_heap]
          cases itemSettable st1.heap vt with
          | some er => simp
          | none =>
            simp only [ihE]
            rcases hh2 : evalExpr a n sc e1 st1 with ⟨r2, st2⟩
            cases r2 with
            | err er => simp
            | ok w =>
              simp only [lift_mk, withHidden_doSetItem]
              rcases hh3 : doSetItem st2 vt i w with ⟨r3, st3⟩
              cases r3 <;> simp
      | nsop m k e1 =>
        simp only []
        split
        · simp only [ihE]
          rcases hh : evalExpr a n sc e1 st with ⟨r, st1⟩
          cases r with
          | err er => simp
          | ok w => simp only [lift_mk, withHidden_nsopApply h ha]
        · exact withHidden_nsopApply h ha _ _ _ _
    · intro a ha sc es st
      have ihE := ihE a ha
      have ihL := ihL a ha
      unfold evalList
      cases es with
      | nil => simp
      | cons e rest =>
        simp only [ihE]
        rcases hh : evalExpr a n sc e st with ⟨r, st1⟩
        cases r with
        | err er => simp
        | ok v =>
          simp only [lift_mk, ihL]
          rcases hh2 : evalList a n sc rest st1 with ⟨r2, st2⟩
          cases r2 <;> simp
    · intro a ha sc cs st
      have ihE := ihE a ha
      have ihC := ihC a ha
      unfold evalConds
      cases cs with
      | nil => simp
      | cons c rest =>
        simp only [ihE]
        rcases hh : evalExpr a n sc c st with ⟨r, st1⟩
        cases r with
        | err er => simp
        | ok v =>
          simp only [lift_mk, withHidden_heap]
          by_cases ht : truthy st1.heap v = true
          · simp only [ht, if_true]; exact ihC _ _ _
          · simp [ht]
    · intro a ha sc fr elt t cs rest src i acc st
      have ihE := ihE a ha
      have ihC := ihC a ha
      have ihLoop := ihLoop a ha
      unfold compLoop
      simp only [withHidden_heap]
      cases elemAt st.heap src i with
      | none => simp
      | some v =>
        simp only [withHidden_frameSet, ihC]
        rcases hh : evalConds a n sc cs (st.frameSet fr t v) with ⟨r, st2⟩
        cases r with
        | err er => simp
        | ok b =>
          cases b with
          | false => simp only [lift_mk]; exact ihLoop _ _ _ _ _ _ _ _ _ _
          | true =>
            simp only [lift_mk]
            cases rest with
            | nil =>
              simp only [ihE]
              rcases hh2 : evalExpr a n sc elt st2 with ⟨r2, st3⟩
              cases r2 with
              | err er => simp
              | ok w => simp only [lift_mk]; exact ihLoop _ _ _ _ _ _ _ _ _ _
            | cons c2 rest2 =>
              obtain ⟨t2, it2, cs2⟩ := c2
              simp only [ihE]
              rcases hh2 : evalExpr a n sc it2 st2 with ⟨r2, st3⟩
              cases r2 with
              | err er => simp
              | ok src2 =>
                simp only [lift_mk, withHidden_heap]
                cases iterable st3.heap src2 with
                | some er => simp
                | none =>
                  simp only [ihLoop]
                  rcases hh3 : compLoop a n sc fr elt t2 cs2 rest2 src2 0 acc st3 with ⟨r3, st4⟩
                  cases r3 with
                  | err er => simp
                  | ok acc2 => simp only [lift_mk]; exact ihLoop _ _ _ _ _ _ _ _ _ _
    · intro a ha ex vf vs st
      unfold callFn
      simp only [withHidden_heap, withHidden_target]
      cases callee st.heap vf with
      | bad er => simp
      | clo c =>
        simp only []
        cases htg : target a st c.ns with
        | none => simp
        | some a' =>
          have ha' := target_live ha _ _ htg
          have ihE := ihE a' ha'
          have ihBody := ihBody a' ha'
          simp only []
          split
          · simp
          · simp only [withHidden_setCur, withHidden_alloc, ihBody, withHidden_cur]
            generalize runBody a' n _ c.body _ = res
            obtain ⟨r, st2⟩ := res
            cases r with
            | err er => simp
            | ok u =>
              simp only [lift_mk, ihE]
              rfl
    · intro a ha sc body st
      have ihE := ihE a ha
      have ihBody := ihBody a ha
      unfold runBody
      cases body with
      | nil => simp
      | cons p rest =>
        obtain ⟨x, e⟩ := p
        simp only [ihE]
        rcases hh : evalExpr a n sc e st with ⟨r, st1⟩
        cases r with
        | err er => simp
        | ok v => simp only [lift_mk, withHidden_store h ha]; exact ihBody _ _ _
    · intro a ha sc fr elt cls stack st
      have ihE := ihE a ha
      have ihC := ihC a ha
      have ihGen := ihGen a ha
      unfold genLoop
      cases stack with
      | nil => simp
      | cons top below =>
        obtain ⟨src, i⟩ := top
        simp only [withHidden_heap]
        cases cls[below.length]? with
        | none => simp
        | some cl =>
          obtain ⟨t, it, cs⟩ := cl
          simp only []
          cases elemAt st.heap src i with
          | none => simp only []; exact ihGen _ _ _ _ _ _
          | some v =>
            simp only [withHidden_frameSet, ihC]
            rcases hh : evalConds a n sc cs (st.frameSet fr t v) with ⟨r, st2⟩
            cases r with
            | err er => simp
            | ok b =>
              cases b with
              | false => simp only [lift_mk]; exact ihGen _ _ _ _ _ _
              | true =>
                simp only [lift_mk]
                cases cls[below.length + 1]? with
                | none =>
                  simp only [ihE]
                  rcases hh2 : evalExpr a n sc elt st2 with ⟨r2, st3⟩
                  cases r2 <;> simp
                | some cl2 =>
                  obtain ⟨t2, it2, cs2⟩ := cl2
                  simp only [ihE]
                  rcases hh2 : evalExpr a n sc it2 st2 with ⟨r2, st3⟩
                  cases r2 with
                  | err er => simp
                  | ok src2 =>
                    simp only [lift_mk, withHidden_heap]
                    cases iterable st3.heap src2 with
                    | some er => simp
                    | none => simp only []; exact ihGen _ _ _ _ _ _
    · intro a ha r st
      unfold pullGen
      simp only [withHidden_heap, withHidden_target]
      cases hc : st.heap[r]? with
      | none => simp
      | some cell =>
        cases cell with
        | gen g =>
          simp only []
          cases g.status with
          | done => simp
          | running => simp
          | suspended =>
            simp only []
            cases htg : target a st g.ns with
            | none => simp
            | some a' =>
              have ha' := target_live ha _ _ htg
              have ihGen := ihGen a' ha'
              simp only [withHidden_setCur, withHidden_heapSet, ihGen, withHidden_cur]
              generalize genLoop a' n _ g.frame g.elt g.clauses g.stack _ = res0
              obtain ⟨res, st1⟩ := res0
              cases res with
              | err er => simp
              | ok p =>
                obtain ⟨o, stk⟩ := p
                cases o <;> simp
        | _ => simp
    · intro a ha r acc st
      have ihPull := ihPull a ha
      have ihDrain := ihDrain a ha
      unfold drainGen
      simp only [ihPull]
      rcases hh : pullGen a n r st with ⟨res, st1⟩
      cases res with
      | err er => simp
      | ok o =>
        cases o with
        | none => simp
        | some w => simp only [lift_mk]; exact ihDrain _ _ _

end Pypyr.PyNs
