/-
  C14 helper: under the `!py` arrangement as it is now the evaluator never looks at (nor writes)
  the raw dict slot `hidden` of the per-Context namespace object: evaluation commutes with replacing
  it. Consequence: rehydrating the Context object (which rebuilds that object) is invisible to every
  expression.
-/
import Props.Lemmas.C14_Frame

namespace Pypyr.PyNs

/-- Replace the raw dict slot of the per-Context namespace object. -/
def St.withHidden (h : Env) (st : St) : St := { st with hidden := h }

variable (h : Env)

@[simp] theorem withHidden_heap (st : St) : (st.withHidden h).heap = st.heap := rfl
@[simp] theorem withHidden_alloc (st : St) (c : Cell) :
    ((st.withHidden h).alloc c).2 = (st.alloc c).2.withHidden h := rfl
@[simp] theorem withHidden_frameSet (st : St) (r : Nat) (x : String) (v : V) :
    (st.withHidden h).frameSet r x v = (st.frameSet r x v).withHidden h := by
  simp only [St.frameSet, withHidden_heap]; split <;> rfl
@[simp] theorem withHidden_load (sc : Scope) (st : St) (x : String) :
    load .evalFixed sc (st.withHidden h) x = load .evalFixed sc st x := rfl
@[simp] theorem withHidden_store (sc : Scope) (st : St) (x : String) (v : V) :
    store .evalFixed sc (st.withHidden h) x v = (store .evalFixed sc st x v).withHidden h := by
  simp only [store, withHidden_heap]
  split
  · exact withHidden_frameSet h st _ x v
  · rfl
  · split
    · split <;> rfl
    · rfl
    · simp only [St.clsSet, withHidden_heap]; split <;> rfl
@[simp] theorem withHidden_doAppend (st : St) (t w : V) :
    doAppend (st.withHidden h) t w = (doAppend st t w).withHidden h := by
  simp only [doAppend, withHidden_heap]
  split
  · split <;> rfl
  · rfl

end Pypyr.PyNs

namespace Pypyr.PyNs

/-- Apply `withHidden` to the state component of an evaluator's answer. -/
def lift {β : Type} (h : Env) (p : β × St) : β × St := (p.1, p.2.withHidden h)

@[simp] theorem lift_mk {β : Type} (h : Env) (b : β) (st : St) : lift h (b, st) = (b, st.withHidden h) := rfl

theorem eval_hidden (h : Env) : ∀ fuel,
    (∀ sc e st, evalExpr .evalFixed fuel sc e (st.withHidden h) = lift h (evalExpr .evalFixed fuel sc e st)) ∧
    (∀ sc es st, evalList .evalFixed fuel sc es (st.withHidden h) = lift h (evalList .evalFixed fuel sc es st)) ∧
    (∀ sc cs st, evalConds .evalFixed fuel sc cs (st.withHidden h) = lift h (evalConds .evalFixed fuel sc cs st)) ∧
    (∀ sc fr elt t cs rest src i acc st,
      compLoop .evalFixed fuel sc fr elt t cs rest src i acc (st.withHidden h) =
        lift h (compLoop .evalFixed fuel sc fr elt t cs rest src i acc st)) ∧
    (∀ ex bs vf vs st, callFn .evalFixed fuel ex bs vf vs (st.withHidden h) =
        lift h (callFn .evalFixed fuel ex bs vf vs st)) ∧
    (∀ sc body st, runBody .evalFixed fuel sc body (st.withHidden h) =
        lift h (runBody .evalFixed fuel sc body st)) := by
  intro fuel
  induction fuel with
  | zero =>
    refine ⟨?_, ?_, ?_, ?_, ?_, ?_⟩ <;> intros <;> simp [evalExpr, evalList, evalConds, compLoop, callFn, runBody]
  | succ n ih =>
    obtain ⟨ihE, ihL, ihC, ihLoop, ihCall, ihBody⟩ := ih
    refine ⟨?_, ?_, ?_, ?_, ?_, ?_⟩
    · intro sc e st
      unfold evalExpr
      cases e with
      | name x => simp
      | const n => simp
      | walrus x e1 =>
        simp only [ihE]
        rcases hh : evalExpr .evalFixed n sc e1 st with ⟨r, st1⟩
        cases r <;> simp
      | tuple es =>
        simp only [ihL]
        rcases hh : evalList .evalFixed n sc es st with ⟨r, st1⟩
        cases r <;> simp [lift, St.alloc, St.withHidden]
      | lam ps body => simp [lift, St.alloc, St.withHidden]
      | call f args =>
        simp only [ihE]
        rcases hh : evalExpr .evalFixed n sc f st with ⟨r, st1⟩
        cases r with
        | err er => simp
        | ok vf =>
          simp only [lift_mk, ihL]
          rcases hh2 : evalList .evalFixed n sc args st1 with ⟨r2, st2⟩
          cases r2 with
          | err er => simp
          | ok vs => simp only [lift_mk, ihCall]
      | append t e1 =>
        simp only [ihE]
        rcases hh : evalExpr .evalFixed n sc t st with ⟨r, st1⟩
        cases r with
        | err er => simp
        | ok vt =>
          simp only [lift_mk, withHidden_heap]
          cases appendable st1.heap vt with
          | some er => simp
          | none =>
            simp only [ihE]
            rcases hh2 : evalExpr .evalFixed n sc e1 st1 with ⟨r2, st2⟩
            cases r2 <;> simp
      | comp gen elt clauses =>
        cases clauses with
        | nil => simp
        | cons c rest =>
          obtain ⟨t1, it1, cs1⟩ := c
          simp only [ihE]
          rcases hh : evalExpr .evalFixed n sc it1 st with ⟨r, st1⟩
          cases r with
          | err er => simp
          | ok src =>
            simp only [lift_mk, withHidden_heap]
            cases iterable st1.heap src with
            | some er => simp
            | none =>
              simp only [withHidden_alloc, ihLoop]
              rcases hh2 : compLoop .evalFixed n { sc with kind := _, chain := _ } st1.heap.length elt t1 cs1 rest src 0 []
                (st1.alloc (.frame { declared := t1 :: rest.map (·.1), globals := [], isComp := true, vars := [] })).2 with ⟨r2, st3⟩
              cases r2 <;> simp [lift, St.alloc, St.withHidden]
    · intro sc es st
      unfold evalList
      cases es with
      | nil => simp
      | cons e rest =>
        simp only [ihE]
        rcases hh : evalExpr .evalFixed n sc e st with ⟨r, st1⟩
        cases r with
        | err er => simp
        | ok v =>
          simp only [lift_mk, ihL]
          rcases hh2 : evalList .evalFixed n sc rest st1 with ⟨r2, st2⟩
          cases r2 <;> simp
    · intro sc cs st
      unfold evalConds
      cases cs with
      | nil => simp
      | cons c rest =>
        simp only [ihE]
        rcases hh : evalExpr .evalFixed n sc c st with ⟨r, st1⟩
        cases r with
        | err er => simp
        | ok v =>
          simp only [lift_mk, withHidden_heap]
          by_cases ht : truthy st1.heap v = true
          · simp only [ht, if_true]; exact ihC _ _ _
          · simp [ht]
    · intro sc fr elt t cs rest src i acc st
      unfold compLoop
      simp only [withHidden_heap]
      cases elemAt st.heap src i with
      | none => simp
      | some v =>
        simp only [withHidden_frameSet, ihC]
        rcases hh : evalConds .evalFixed n sc cs (st.frameSet fr t v) with ⟨r, st2⟩
        cases r with
        | err er => simp
        | ok b =>
          cases b with
          | false => simp only [lift_mk]; exact ihLoop _ _ _ _ _ _ _ _ _ _
          | true =>
            simp only [lift_mk]
            cases rest with
            | nil =>
              simp only [ihE]
              rcases hh2 : evalExpr .evalFixed n sc elt st2 with ⟨r2, st3⟩
              cases r2 with
              | err er => simp
              | ok w => simp only [lift_mk]; exact ihLoop _ _ _ _ _ _ _ _ _ _
            | cons c2 rest2 =>
              obtain ⟨t2, it2, cs2⟩ := c2
              simp only [ihE]
              rcases hh2 : evalExpr .evalFixed n sc it2 st2 with ⟨r2, st3⟩
              cases r2 with
              | err er => simp
              | ok src2 =>
                simp only [lift_mk, withHidden_heap]
                cases iterable st3.heap src2 with
                | some er => simp
                | none =>
                  simp only [ihLoop]
                  rcases hh3 : compLoop .evalFixed n sc fr elt t2 cs2 rest2 src2 0 acc st3 with ⟨r3, st4⟩
                  cases r3 with
                  | err er => simp
                  | ok acc2 => simp only [lift_mk]; exact ihLoop _ _ _ _ _ _ _ _ _ _
    · intro ex bs vf vs st
      unfold callFn
      simp only [withHidden_heap]
      cases callee st.heap bs vf with
      | bad er => simp
      | clo c =>
        simp only []
        split
        · simp
        · simp only [withHidden_alloc, ihBody]
          rcases hh : runBody .evalFixed n { kind := .func, chain := st.heap.length :: c.chain, explicit := ex, base := bs } c.body
            (st.alloc (.frame { declared := fnDeclared c.params c.globals c.body c.ret, globals := c.globals,
                                isComp := false, vars := c.params.zip vs })).2 with ⟨r, st2⟩
          cases r with
          | err er => simp
          | ok u => simp only [lift_mk]; exact ihE _ _ _
    · intro sc body st
      unfold runBody
      cases body with
      | nil => simp
      | cons p rest =>
        obtain ⟨x, e⟩ := p
        simp only [ihE]
        rcases hh : evalExpr .evalFixed n sc e st with ⟨r, st1⟩
        cases r with
        | err er => simp
        | ok v => simp only [lift_mk, withHidden_store]; exact ihBody _ _ _

end Pypyr.PyNs
