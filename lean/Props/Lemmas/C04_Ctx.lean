/-
  C04 helper lemmas: the insertion-ordered context `Ctx` (`get?` / `set` / `erase` / `update`)
  and the two functions that put a step's `in` arguments into the context and take them out
  again (`setIn` / `unsetIn`). Everything for arbitrary contexts, keys, values, binding lists.
-/
import Props.Lemmas.FlowRunner

namespace Pypyr.C04
open Pypyr Pypyr.Flow

/-! ### get? / set / erase -/

theorem ctx_get_set_self (c : Ctx) (k : String) (v : Val) : Ctx.get? (Ctx.set c k v) k = some v := by
  induction c with
  | nil => simp [Ctx.set, Ctx.get?]
  | cons kv rest ih =>
    obtain ⟨k', v'⟩ := kv
    by_cases h : k' = k
    · simp [Ctx.set, Ctx.get?, h]
    · simp [Ctx.set, Ctx.get?, h, ih]

theorem ctx_get_set_ne (c : Ctx) (k k' : String) (v : Val) (h : k' ≠ k) :
    Ctx.get? (Ctx.set c k' v) k = Ctx.get? c k := by
  induction c with
  | nil => simp [Ctx.set, Ctx.get?, h]
  | cons kv rest ih =>
    obtain ⟨k2, v2⟩ := kv
    by_cases h2 : k2 = k'
    · subst h2; simp [Ctx.set, Ctx.get?, h]
    · by_cases h3 : k2 = k
      · subst h3; simp [Ctx.set, Ctx.get?, h2]
      · simp [Ctx.set, Ctx.get?, h2, h3, ih]

/-- `Ctx.erase` removes *all* occurrences: the key is gone afterwards. -/
theorem ctx_get_erase_self (c : Ctx) (k : String) : Ctx.get? (Ctx.erase c k) k = none := by
  induction c with
  | nil => simp [Ctx.erase, Ctx.get?]
  | cons kv rest ih =>
    obtain ⟨k', v'⟩ := kv
    by_cases h : k' = k
    · simp [Ctx.erase, h, ih]
    · simp [Ctx.erase, Ctx.get?, h, ih]

theorem ctx_get_erase_ne (c : Ctx) (k k' : String) (h : k' ≠ k) :
    Ctx.get? (Ctx.erase c k') k = Ctx.get? c k := by
  induction c with
  | nil => simp [Ctx.erase, Ctx.get?]
  | cons kv rest ih =>
    obtain ⟨k2, v2⟩ := kv
    by_cases h2 : k2 = k'
    · subst h2; simp [Ctx.erase, Ctx.get?, h, ih]
    · by_cases h3 : k2 = k
      · subst h3; simp [Ctx.erase, Ctx.get?, h2]
      · simp [Ctx.erase, Ctx.get?, h2, h3, ih]

/-- erasing any key keeps an absent key absent. -/
theorem ctx_get_erase_none (c : Ctx) (k k' : String) (h : Ctx.get? c k = none) :
    Ctx.get? (Ctx.erase c k') k = none := by
  by_cases hk : k' = k
  · subst hk; exact ctx_get_erase_self c k'
  · rw [ctx_get_erase_ne c k k' hk]; exact h

/-! ### update (dict.update) -/

theorem ctx_update_nil (c : Ctx) : Ctx.update c [] = c := rfl

theorem ctx_update_cons (c : Ctx) (k : String) (v : Val) (kvs : List (String × Val)) :
    Ctx.update c ((k, v) :: kvs) = Ctx.update (Ctx.set c k v) kvs := rfl

theorem ctx_update_append (c : Ctx) (a b : List (String × Val)) :
    Ctx.update c (a ++ b) = Ctx.update (Ctx.update c a) b := by
  simp [Ctx.update, List.foldl_append]

/-- keys that are not among the bindings are untouched by `update`. -/
theorem ctx_get_update_notin (kvs : List (String × Val)) (c : Ctx) (k : String)
    (h : k ∉ kvs.map (·.1)) : Ctx.get? (Ctx.update c kvs) k = Ctx.get? c k := by
  induction kvs generalizing c with
  | nil => rfl
  | cons kv rest ih =>
    obtain ⟨k', v'⟩ := kv
    simp only [List.map_cons, List.mem_cons, not_or] at h
    rw [ctx_update_cons, ih _ h.2, ctx_get_set_ne c k k' v' (fun e => h.1 e.symm)]

/-- `update`: the **last** binding of a key wins, whatever the context held before. -/
theorem ctx_get_update_last (pre post : List (String × Val)) (c : Ctx) (k : String) (v : Val)
    (h : k ∉ post.map (·.1)) : Ctx.get? (Ctx.update c (pre ++ (k, v) :: post)) k = some v := by
  rw [ctx_update_append, ctx_update_cons, ctx_get_update_notin post _ k h, ctx_get_set_self]

/-- every key that has a binding is present after `update`. -/
theorem ctx_get_update_mem (kvs : List (String × Val)) (c : Ctx) (k : String)
    (h : k ∈ kvs.map (·.1)) : ∃ v, (k, v) ∈ kvs ∧ Ctx.get? (Ctx.update c kvs) k = some v := by
  induction kvs generalizing c with
  | nil => simp at h
  | cons kv rest ih =>
    obtain ⟨k', v'⟩ := kv
    by_cases hr : k ∈ rest.map (·.1)
    · obtain ⟨v, hv, hg⟩ := ih (Ctx.set c k' v') hr
      exact ⟨v, List.mem_cons_of_mem _ hv, by rw [ctx_update_cons]; exact hg⟩
    · simp only [List.map_cons, List.mem_cons] at h
      have hk : k = k' := by
        rcases h with h | h
        · exact h
        · exact absurd h hr
      subst hk
      refine ⟨v', List.mem_cons_self, ?_⟩
      rw [ctx_update_cons, ctx_get_update_notin rest _ k hr, ctx_get_set_self]

/-! ### erasing a list of keys (the loop of `unset_step_input_context`) -/

def eraseAll (c : Ctx) (kvs : List (String × Val)) : Ctx := kvs.foldl (fun c kv => Ctx.erase c kv.1) c

theorem eraseAll_cons (c : Ctx) (kv : String × Val) (kvs : List (String × Val)) :
    eraseAll c (kv :: kvs) = eraseAll (Ctx.erase c kv.1) kvs := rfl

theorem ctx_get_eraseAll_none (kvs : List (String × Val)) (c : Ctx) (k : String)
    (h : Ctx.get? c k = none) : Ctx.get? (eraseAll c kvs) k = none := by
  induction kvs generalizing c with
  | nil => exact h
  | cons kv rest ih => rw [eraseAll_cons]; exact ih _ (ctx_get_erase_none c k kv.1 h)

/-- after the loop no key of the list is in the context — however often it occurred. -/
theorem ctx_get_eraseAll_mem (kvs : List (String × Val)) (c : Ctx) (k : String)
    (h : k ∈ kvs.map (·.1)) : Ctx.get? (eraseAll c kvs) k = none := by
  induction kvs generalizing c with
  | nil => simp at h
  | cons kv rest ih =>
    rw [eraseAll_cons]
    simp only [List.map_cons, List.mem_cons] at h
    by_cases hk : k = kv.1
    · subst hk; exact ctx_get_eraseAll_none rest _ _ (ctx_get_erase_self c _)
    · rcases h with h | h
      · exact absurd h hk
      · exact ih _ h

theorem ctx_get_eraseAll_notin (kvs : List (String × Val)) (c : Ctx) (k : String)
    (h : k ∉ kvs.map (·.1)) : Ctx.get? (eraseAll c kvs) k = Ctx.get? c k := by
  induction kvs generalizing c with
  | nil => rfl
  | cons kv rest ih =>
    simp only [List.map_cons, List.mem_cons, not_or] at h
    rw [eraseAll_cons, ih _ h.2, ctx_get_erase_ne c k kv.1 (fun e => h.1 e.symm)]

/-! ### setIn / unsetIn -/

/-- the keys of a step's `in` mapping (none when the step has no `in`). -/
def inKeys (d : StepDef) : List String := (d.inArgs.getD []).map (·.1)

theorem setIn_eq (d : StepDef) (s : St) :
    setIn d s = { s with ctx := Ctx.update s.ctx (d.inArgs.getD []) } := by
  unfold setIn; cases d.inArgs <;> rfl

theorem unsetIn_eq (d : StepDef) (s : St) :
    unsetIn d s = { s with ctx := eraseAll s.ctx (d.inArgs.getD []) } := by
  unfold unsetIn; cases d.inArgs <;> rfl

end Pypyr.C04
