/-
  C15 helper lemmas: what `exec` does on the in-place operation list, phase by phase, under an
  arbitrary fault plan. `Post` collects the facts every later theorem needs.
-/
import Props.Lemmas.C15_Fs

namespace Pypyr.FsRewrite

/-- The shapes a directory has during a rewrite or after a failed one: untouched, or untouched plus
    the temp entry (with any content). -/
def AB (fs0 : Fs) (tmp : String) (s : Fs) : Prop := s = fs0 ∨ ∃ c, s = fs0 ++ [(tmp, c)]

theorem final_nil (cur : Fs) : final cur [] = cur := rfl

theorem final_cons (cur : Fs) (e : String × Fs) (tr : Trace) : final cur (e :: tr) = final e.2 tr := by
  cases tr with
  | nil => simp [final]
  | cons e' tr' =>
    simp only [final, List.getLast?_cons_cons]
    cases h : (e' :: tr').getLast? with
    | none => simp at h
    | some x => simp

theorem final_append (cur : Fs) (a b : Trace) : final cur (a ++ b) = final (final cur a) b := by
  induction a generalizing cur with
  | nil => simp [final_nil]
  | cons e a ih => simp only [List.cons_append, final_cons, ih]

/-- Everything proved about one run of the in-place operation list (or a suffix of it) that started
    in directory `fs0` and is currently in `cur`. -/
structure Post (fs0 : Fs) (src tmp new : String) (cfg : Cfg) (plan : Plan) (cur : Fs)
    (r : Outcome × Trace) : Prop where
  shape : ∀ ev ∈ r.2, AB fs0 tmp ev.2 ∨ (ev.1 = "replace" ∧ ev.2 = fs0.set src new)
  ok : r.1 = .ok → final cur r.2 = fs0.set src new
  raised : ∀ j, r.1 = .raised j → cfg.cleanupWrite = true → plan (j + 1) ≠ .raise → final cur r.2 = fs0
  killed : ∀ j, r.1 = .killed j → AB fs0 tmp (final cur r.2)
  raisedAt : ∀ j, r.1 = .raised j → plan j = .raise

variable {fs0 : Fs} {src tmp new : String} {cfg : Cfg} {plan : Plan}

theorem Post.cons {cur cur' : Fs} {lbl : String} {r : Outcome × Trace}
    (h : Post fs0 src tmp new cfg plan cur' r)
    (hev : AB fs0 tmp cur' ∨ (lbl = "replace" ∧ cur' = fs0.set src new)) :
    Post fs0 src tmp new cfg plan cur (r.1, (lbl, cur') :: r.2) where
  shape := by
    intro ev hm
    simp only [List.mem_cons] at hm
    rcases hm with rfl | hm
    · exact hev
    · exact h.shape ev hm
  ok := by intro ho; simp only [final_cons]; exact h.ok ho
  raised := by intro j hj hc hp; simp only [final_cons]; exact h.raised j hj hc hp
  killed := by intro j hj; simp only [final_cons]; exact h.killed j hj
  raisedAt := h.raisedAt

/-- A kill before the operation: nothing more happens. -/
theorem Post.kill {cur : Fs} (i : Nat) (hcur : AB fs0 tmp cur) :
    Post fs0 src tmp new cfg plan cur (.killed i, []) where
  shape := by intro ev hm; simp at hm
  ok := by intro h; cases h
  raised := by intro j h; cases h
  killed := by intro j _; simpa [final_nil] using hcur
  raisedAt := by intro j h; cases h

/-- The `except` clauses when no temp file is bound yet: the error just propagates. -/
theorem handler_noTemp (i : Nat) (op : Op) (st : St) (hpi : plan i = .raise) (ht : st.temp = none)
    (hfs : st.fs = fs0) :
    Post fs0 src tmp new cfg plan st.fs (handler cfg plan i op st) := by
  simp only [handler, ht]
  constructor
  · intro ev hm
    simp only [List.mem_singleton] at hm
    subst hm
    exact Or.inl (Or.inl hfs)
  · intro h; cases h
  · intro j _ _ _; simp [final, hfs]
  · intro j h; cases h
  · intro j h; cases h; exact hpi

/-- The `except` clauses while the temp file exists. -/
theorem handler_temp (i : Nat) (op : Op) (st : St) (acc : String) (hpi : plan i = .raise)
    (h0 : fs0.get? tmp = none) (ht : st.temp = some tmp) (hfs : st.fs = fs0 ++ [(tmp, acc)]) :
    Post fs0 src tmp new cfg plan st.fs (handler cfg plan i op st) := by
  have hAB : AB fs0 tmp st.fs := Or.inr ⟨acc, hfs⟩
  simp only [handler, ht]
  by_cases hc : (op.isReplace || cfg.cleanupWrite) = true
  · simp only [hc, if_true]
    cases hp : plan (i + 1) with
    | kill =>
      constructor
      · intro ev hm
        simp only [List.mem_singleton] at hm
        subst hm
        exact Or.inl hAB
      · intro h; cases h
      · intro j h; cases h
      · intro j _; simpa [final] using hAB
      · intro j h; cases h
    | raise =>
      constructor
      · intro ev hm
        simp only [List.mem_cons, List.mem_nil_iff, or_false] at hm
        rcases hm with rfl | rfl <;> exact Or.inl hAB
      · intro h; cases h
      · intro j hj _ hne
        cases hj
        exact absurd hp hne
      · intro j h; cases h
      · intro j h; cases h; exact hpi
    | none =>
      have he : st.fs.erase tmp = fs0 := by rw [hfs]; exact Fs.erase_append_self h0
      constructor
      · intro ev hm
        simp only [List.mem_cons, List.mem_nil_iff, or_false] at hm
        rcases hm with rfl | rfl
        · exact Or.inl hAB
        · exact Or.inl (Or.inl he)
      · intro h; cases h
      · intro j _ _ _; simp [final, he]
      · intro j h; cases h
      · intro j h; cases h; exact hpi
  · simp only [hc]
    have hcw : cfg.cleanupWrite = false := by
      cases hcc : cfg.cleanupWrite with
      | false => rfl
      | true => simp [hcc] at hc
    constructor
    · intro ev hm
      simp only [Bool.false_eq_true, if_false, List.mem_singleton] at hm
      subst hm
      exact Or.inl hAB
    · intro h; simp at h
    · intro j _ hcl _; rw [hcw] at hcl; cases hcl
    · intro j h; simp at h
    · intro j h; simp at h; subst h; exact hpi

/-- State in the write phase: the temp holds `acc`. -/
def wst (fs0 : Fs) (tmp acc : String) : St :=
  { fs := fs0 ++ [(tmp, acc)], target := some tmp, temp := some tmp }

/-- `os.replace(temp, src)` as the last operation. -/
theorem exec_replace (i : Nat) (acc : String) (h0 : fs0.get? tmp = none) :
    Post fs0 src tmp acc cfg plan (wst fs0 tmp acc).fs
      (exec cfg plan i (wst fs0 tmp acc) [.replace src]) := by
  have hAB : AB fs0 tmp (wst fs0 tmp acc).fs := Or.inr ⟨acc, rfl⟩
  simp only [exec]
  cases hp : plan i with
  | kill => exact Post.kill i hAB
  | raise => exact handler_temp i _ _ acc hp h0 rfl rfl
  | none =>
    have hg : (fs0 ++ [(tmp, acc)]).get? tmp = some acc := Fs.get?_append_self h0
    have he : (fs0 ++ [(tmp, acc)]).erase tmp = fs0 := Fs.erase_append_self h0
    simp only [apply, wst, hg, he]
    constructor
    · intro ev hm
      simp only [List.mem_singleton] at hm
      subst hm
      exact Or.inr ⟨rfl, rfl⟩
    · intro _; simp [final]
    · intro j h; cases h
    · intro j h; cases h
    · intro j h; cases h

/-- `close` then `replace`. -/
theorem exec_close_replace (i : Nat) (acc : String) (h0 : fs0.get? tmp = none) :
    Post fs0 src tmp acc cfg plan (wst fs0 tmp acc).fs
      (exec cfg plan i (wst fs0 tmp acc) [.close, .replace src]) := by
  have hAB : AB fs0 tmp (wst fs0 tmp acc).fs := Or.inr ⟨acc, rfl⟩
  rw [exec]
  cases hp : plan i with
  | kill => exact Post.kill i hAB
  | raise => exact handler_temp i _ _ acc hp h0 rfl rfl
  | none =>
    simp only [apply]
    exact Post.cons (exec_replace (i + 1) acc h0) (Or.inl hAB)

/-- The write phase: any list of fmt/write operations, then close and replace. -/
theorem exec_body (body : List Op) (hb : ∀ op ∈ body, op.isBody = true) (h0 : fs0.get? tmp = none) :
    ∀ (i : Nat) (acc : String),
      Post fs0 src tmp (acc ++ newContent body) cfg plan (wst fs0 tmp acc).fs
        (exec cfg plan i (wst fs0 tmp acc) (body ++ [.close, .replace src])) := by
  induction body with
  | nil =>
    intro i acc
    simpa [newContent] using exec_close_replace (src := src) (cfg := cfg) (plan := plan) i acc h0
  | cons op rest ih =>
    intro i acc
    have hAB : AB fs0 tmp (wst fs0 tmp acc).fs := Or.inr ⟨acc, rfl⟩
    have hrest : ∀ op ∈ rest, op.isBody = true := fun o ho => hb o (List.mem_cons_of_mem _ ho)
    have hop := hb op List.mem_cons_self
    rw [List.cons_append, exec]
    cases hp : plan i with
    | kill => exact Post.kill i hAB
    | raise => exact handler_temp i _ _ acc hp h0 rfl rfl
    | none =>
      cases op with
      | fmt n =>
        simp only [apply, newContent]
        exact Post.cons (ih hrest (i + 1) acc) (Or.inl hAB)
      | write n c =>
        have hg : (fs0 ++ [(tmp, acc)]).get? tmp = some acc := Fs.get?_append_self h0
        have hs : (fs0 ++ [(tmp, acc)]).set tmp (acc ++ c) = fs0 ++ [(tmp, acc ++ c)] :=
          Fs.set_append_self h0
        simp only [apply, wst, hg, hs, newContent]
        have := ih hrest (i + 1) (acc ++ c)
        rw [String.append_assoc] at this
        exact Post.cons this (Or.inl (Or.inr ⟨acc ++ c, rfl⟩))
      | sameFile => simp [Op.isBody] at hop
      | openRead _ => simp [Op.isBody] at hop
      | mkTemp _ => simp [Op.isBody] at hop
      | openWrite _ _ => simp [Op.isBody] at hop
      | close => simp [Op.isBody] at hop
      | replace _ => simp [Op.isBody] at hop

/-- The whole in-place operation list from a directory that holds `src` and has no entry `tmp`. -/
theorem exec_inplace (body : List Op) (hb : ∀ op ∈ body, op.isBody = true)
    (h0 : fs0.get? tmp = none) (hs : (fs0.get? src).isSome) (i : Nat) :
    Post fs0 src tmp (newContent body) cfg plan fs0
      (exec cfg plan i { fs := fs0 } (inplaceOps src tmp body)) := by
  have hA : AB fs0 tmp fs0 := Or.inl rfl
  simp only [inplaceOps, List.cons_append, List.nil_append]
  -- sameFile
  rw [exec]
  cases hp0 : plan i with
  | kill => exact Post.kill i hA
  | raise => exact handler_noTemp i _ { fs := fs0 } hp0 rfl rfl
  | none =>
    simp only [apply]
    refine Post.cons ?_ (Or.inl hA)
    -- openRead
    rw [exec]
    cases hp1 : plan (i + 1) with
    | kill => exact Post.kill _ hA
    | raise => exact handler_noTemp _ _ { fs := fs0 } hp1 rfl rfl
    | none =>
      have hc : Fs.contains fs0 src = true := by simpa [Fs.contains] using hs
      simp only [apply, hc, if_true]
      refine Post.cons ?_ (Or.inl hA)
      -- mkTemp
      rw [exec]
      cases hp2 : plan (i + 1 + 1) with
      | kill => exact Post.kill _ hA
      | raise => exact handler_noTemp _ _ { fs := fs0 } hp2 rfl rfl
      | none =>
        simp only [apply, Fs.set_fresh h0]
        refine Post.cons (cur' := fs0 ++ [(tmp, "")]) ?_ (Or.inl (Or.inr ⟨"", rfl⟩))
        have := exec_body (src := src) (cfg := cfg) (plan := plan) body hb h0 (i + 1 + 1 + 1) ""
        simpa [wst] using this

/-- Hypotheses of one well-formed in-place rewrite: the source exists, the name the temp file will
    get is not in the directory (NamedTemporaryFile picks an unused name), the body consists of
    fmt/write operations. -/
structure WF (fs0 : Fs) (src tmp : String) (body : List Op) : Prop where
  srcExists : (fs0.get? src).isSome
  tmpFresh : fs0.get? tmp = none
  bodyOps : ∀ op ∈ body, op.isBody = true

theorem WF.ne {fs0 : Fs} {src tmp : String} {body : List Op} (wf : WF fs0 src tmp body) : src ≠ tmp := by
  intro h
  have := wf.srcExists
  rw [h, wf.tmpFresh] at this
  cases this

end Pypyr.FsRewrite
