/-
  C15 helper lemmas: what `exec` does on the in-place operation list, phase by phase, under an
  arbitrary fault plan. `Post` collects the facts every later theorem needs.
-/
import Props.Lemmas.C15_Fs

namespace Pypyr.FsRewrite

/-- The shapes a directory has during a rewrite or after a failed one: untouched, or untouched plus
    the temp entry (with any content). -/
def AB (fs0 : Fs) (tmp : String) (s : Fs) : Prop := s = fs0 ∨ ∃ c, s = fs0 ++ [(tmp, c)]

theorem final_nil (cur : Fs) : final cur [] = cur := rfl

theorem final_cons (cur : Fs) (e : String × Fs) (tr : Trace) : final cur (e :: tr) = final e.2 tr := by
  cases tr with
  | nil => simp [final]
  | cons e' tr' =>
    simp only [final, List.getLast?_cons_cons]
    cases h : (e' :: tr').getLast? with
    | none => simp at h
    | some x => simp

theorem final_append (cur : Fs) (a b : Trace) : final cur (a ++ b) = final (final cur a) b := by
  induction a generalizing cur with
  | nil => simp [final_nil]
  | cons e a ih => simp only [List.cons_append, final_cons, ih]

theorem closeIn_label : Op.closeIn.label ++ "!" = "closeIn!" := by decide +kernel

/-- No operation is labelled like the failed clean-up. -/
theorem Op.label_ne_rm (op : Op) : op.label ≠ "removeTemp!" := by
  cases op <;> simp only [Op.label] <;> decide
theorem Op.labelBang_ne_rm (op : Op) : op.label ++ "!" ≠ "removeTemp!" := by
  cases op <;> simp only [Op.label] <;> decide

/-- Operations `k` and `k+1` both raise (an Exception or a BaseException). -/
def TwoFaults (plan : Plan) (k : Nat) : Prop :=
  (plan k = .raise ∨ plan k = .raiseBase) ∧ (plan (k + 1) = .raise ∨ plan (k + 1) = .raiseBase)

/-- Everything proved about one run of the in-place operation list (or a suffix of it) that started
    in directory `fs0` and is currently in `cur`. `dst` is the entry `os.replace` lands on.
    * `raisedAB`: HOWEVER the run came to raise (whatever the `except` arrangement `cfg`) the directory is
      the original one or the original one plus the temp entry;
    * `raised`: for the code as it is now (all three arrangements of `cfg` on) it is exactly the original
      one whenever the clean-up itself did not fail (no `removeTemp!` event) — whether the error was an
      Exception or a BaseException, whichever operation failed. -/
structure Post (fs0 : Fs) (dst tmp new : String) (cfg : Cfg) (plan : Plan) (cur : Fs)
    (r : Outcome × Trace) : Prop where
  shape : ∀ ev ∈ r.2, AB fs0 tmp ev.2 ∨ (ev.1 = "replace" ∧ ev.2 = fs0.set dst new)
  ok : r.1 = .ok → final cur r.2 = fs0.set dst new
  raisedAB : ∀ j, r.1 = .raised j → AB fs0 tmp (final cur r.2)
  raised : ∀ j, r.1 = .raised j → cfg.cleanupWrite = true → cfg.cleanupBase = true → cfg.closeInTry = true →
    (∀ ev ∈ r.2, ev.1 ≠ "removeTemp!") → final cur r.2 = fs0
  killed : ∀ j, r.1 = .killed j → AB fs0 tmp (final cur r.2)
  raisedAt : ∀ j, r.1 = .raised j → plan j = .raise ∨ plan j = .raiseBase
  /-- a failed clean-up takes two adjacent faults: the operation, then the `os.remove` -/
  rmNeeds2 : ∀ ev ∈ r.2, ev.1 = "removeTemp!" → ∃ k, TwoFaults plan k

variable {fs0 : Fs} {src dst tmp new : String} {cfg : Cfg} {plan : Plan}

theorem Post.cons {cur cur' : Fs} {lbl : String} {r : Outcome × Trace}
    (h : Post fs0 dst tmp new cfg plan cur' r)
    (hev : AB fs0 tmp cur' ∨ (lbl = "replace" ∧ cur' = fs0.set dst new)) (hl : lbl ≠ "removeTemp!") :
    Post fs0 dst tmp new cfg plan cur (r.1, (lbl, cur') :: r.2) where
  shape := by
    intro ev hm
    simp only [List.mem_cons] at hm
    rcases hm with rfl | hm
    · exact hev
    · exact h.shape ev hm
  ok := by intro ho; simp only [final_cons]; exact h.ok ho
  raisedAB := by intro j hj; simp only [final_cons]; exact h.raisedAB j hj
  raised := by
    intro j hj hc hb ht hrm
    simp only [final_cons]
    exact h.raised j hj hc hb ht (fun ev hm => hrm ev (List.mem_cons_of_mem _ hm))
  killed := by intro j hj; simp only [final_cons]; exact h.killed j hj
  raisedAt := h.raisedAt
  rmNeeds2 := by
    intro ev hm he
    simp only [List.mem_cons] at hm
    rcases hm with rfl | hm
    · exact absurd he hl
    · exact h.rmNeeds2 ev hm he

/-- A kill before the operation: nothing more happens. -/
theorem Post.kill {cur : Fs} (i : Nat) (hcur : AB fs0 tmp cur) :
    Post fs0 dst tmp new cfg plan cur (.killed i, []) where
  shape := by intro ev hm; simp at hm
  ok := by intro h; cases h
  raisedAB := by intro j h; cases h
  raised := by intro j h; cases h
  killed := by intro j _; simpa [final_nil] using hcur
  raisedAt := by intro j h; cases h
  rmNeeds2 := by intro ev hm; simp at hm

/-- A BaseException at the operation under the OLD handlers (`except Exception:`): none runs, the directory
    stays as it is. -/
theorem Post.base {cur : Fs} (i : Nat) (lbl : String) (hcur : AB fs0 tmp cur) (hp : plan i = .raiseBase)
    (hb : cfg.cleanupBase = false) (hl : lbl ≠ "removeTemp!") :
    Post fs0 dst tmp new cfg plan cur (.raised i, [(lbl, cur)]) where
  shape := by
    intro ev hm
    simp only [List.mem_singleton] at hm
    subst hm
    exact Or.inl hcur
  ok := by intro h; cases h
  raisedAB := by intro j _; simpa [final] using hcur
  raised := by
    intro j _ _ hb' _ _
    rw [hb] at hb'
    cases hb'
  killed := by intro j h; cases h
  raisedAt := by intro j h; cases h; exact Or.inr hp
  rmNeeds2 := by
    intro ev hm he
    simp only [List.mem_singleton] at hm
    subst hm
    exact absurd he hl

/-- The clean-up clauses when no temp file is bound yet: the error just propagates. -/
theorem handler_noTemp (i : Nat) (op : Op) (st : St) (hpi : plan i = .raise ∨ plan i = .raiseBase)
    (ht : st.temp = none) (hfs : st.fs = fs0) :
    Post fs0 dst tmp new cfg plan st.fs (handler cfg plan i op st) := by
  simp only [handler, ht]
  constructor
  · intro ev hm
    simp only [List.mem_singleton] at hm
    subst hm
    exact Or.inl (Or.inl hfs)
  · intro h; cases h
  · intro j _; exact Or.inl (by simp [final, hfs])
  · intro j _ _ _ _ _; simp [final, hfs]
  · intro j h; cases h
  · intro j h; cases h; exact hpi
  · intro ev hm he
    simp only [List.mem_singleton] at hm
    subst hm
    exact absurd he op.labelBang_ne_rm

/-- The clean-up clauses while the temp file exists. -/
theorem handler_temp (i : Nat) (op : Op) (st : St) (acc : String) (hpi : plan i = .raise ∨ plan i = .raiseBase)
    (h0 : fs0.get? tmp = none) (ht : st.temp = some tmp) (hfs : st.fs = fs0 ++ [(tmp, acc)]) :
    Post fs0 dst tmp new cfg plan st.fs (handler cfg plan i op st) := by
  have hAB : AB fs0 tmp st.fs := Or.inr ⟨acc, hfs⟩
  simp only [handler, ht]
  by_cases hci : (op.isCloseIn && !cfg.closeInTry) = true
  · -- the close of the source file under the OLD arrangement: outside every try
    have hct : cfg.closeInTry = false := by
      simp only [Bool.and_eq_true, Bool.not_eq_true'] at hci
      exact hci.2
    simp only [hci, if_true]
    constructor
    · intro ev hm
      simp only [List.mem_singleton] at hm
      subst hm
      exact Or.inl hAB
    · intro h; cases h
    · intro j _; simpa [final] using hAB
    · intro j _ _ _ hct' _
      rw [hct] at hct'; cases hct'
    · intro j h; cases h
    · intro j h; cases h; exact hpi
    · intro ev hm he
      simp only [List.mem_singleton] at hm
      subst hm
      exact absurd he op.labelBang_ne_rm
  simp only [hci, Bool.false_eq_true, if_false]
  by_cases hc : (op.isReplace || cfg.cleanupWrite) = true
  · simp only [hc, if_true]
    cases hp : plan (i + 1) with
    | kill =>
      constructor
      · intro ev hm
        simp only [List.mem_singleton] at hm
        subst hm
        exact Or.inl hAB
      · intro h; cases h
      · intro j h; cases h
      · intro j h; cases h
      · intro j _; simpa [final] using hAB
      · intro j h; cases h
      · intro ev hm he
        simp only [List.mem_singleton] at hm
        subst hm
        exact absurd he op.labelBang_ne_rm
    | raise =>
      constructor
      · intro ev hm
        simp only [List.mem_cons, List.mem_nil_iff, or_false] at hm
        rcases hm with rfl | rfl <;> exact Or.inl hAB
      · intro h; cases h
      · intro j _; simpa [final] using hAB
      · intro j _ _ _ _ hrm
        exact absurd rfl (hrm ("removeTemp!", st.fs) (by simp))
      · intro j h; cases h
      · intro j h; cases h; exact hpi
      · intro ev _ _; exact ⟨i, hpi, Or.inl hp⟩
    | raiseBase =>
      constructor
      · intro ev hm
        simp only [List.mem_cons, List.mem_nil_iff, or_false] at hm
        rcases hm with rfl | rfl <;> exact Or.inl hAB
      · intro h; cases h
      · intro j _; simpa [final] using hAB
      · intro j _ _ _ _ hrm
        exact absurd rfl (hrm ("removeTemp!", st.fs) (by simp))
      · intro j h; cases h
      · intro j h; cases h; exact Or.inr hp
      · intro ev _ _; exact ⟨i, hpi, Or.inr hp⟩
    | none =>
      have he : st.fs.erase tmp = fs0 := by rw [hfs]; exact Fs.erase_append_self h0
      constructor
      · intro ev hm
        simp only [List.mem_cons, List.mem_nil_iff, or_false] at hm
        rcases hm with rfl | rfl
        · exact Or.inl hAB
        · exact Or.inl (Or.inl he)
      · intro h; cases h
      · intro j _; exact Or.inl (by simp [final, he])
      · intro j _ _ _ _ _; simp [final, he]
      · intro j h; cases h
      · intro j h; cases h; exact hpi
      · intro ev hm he
        simp only [List.mem_cons, List.mem_nil_iff, or_false] at hm
        rcases hm with rfl | rfl
        · exact absurd he op.labelBang_ne_rm
        · exact absurd he (show "removeTemp" ≠ "removeTemp!" by decide)
  · simp only [hc]
    have hcw : cfg.cleanupWrite = false := by
      cases hcc : cfg.cleanupWrite with
      | false => rfl
      | true => simp [hcc] at hc
    constructor
    · intro ev hm
      simp only [Bool.false_eq_true, if_false, List.mem_singleton] at hm
      subst hm
      exact Or.inl hAB
    · intro h; simp at h
    · intro j _; simpa [final] using hAB
    · intro j _ hcl _ _ _; rw [hcw] at hcl; cases hcl
    · intro j h; simp at h
    · intro j h; simp at h; subst h; exact hpi
    · intro ev hm he
      simp only [Bool.false_eq_true, if_false, List.mem_singleton] at hm
      subst hm
      exact absurd he op.labelBang_ne_rm

/-- State in the write phase: the temp holds `acc`. -/
def wst (fs0 : Fs) (tmp acc : String) : St :=
  { fs := fs0 ++ [(tmp, acc)], target := some tmp, temp := some tmp }

/-- A BaseException at operation `i` while the temp exists: the clean-up clauses (now), or nothing (before
    66bb5ed). -/
theorem base_temp (i : Nat) (op : Op) (acc : String) (hp : plan i = .raiseBase) (h0 : fs0.get? tmp = none) :
    Post fs0 dst tmp new cfg plan (wst fs0 tmp acc).fs
      (if cfg.cleanupBase then handler cfg plan i op (wst fs0 tmp acc)
        else (.raised i, [(op.label ++ "!", (wst fs0 tmp acc).fs)])) := by
  cases hb : cfg.cleanupBase with
  | true => simpa using handler_temp i op (wst fs0 tmp acc) acc (Or.inr hp) h0 rfl rfl
  | false =>
    simp only [Bool.false_eq_true, if_false]
    exact Post.base i _ (Or.inr ⟨acc, rfl⟩) hp hb op.labelBang_ne_rm

/-- … and before the temp exists. -/
theorem base_noTemp (i : Nat) (op : Op) (hp : plan i = .raiseBase) :
    Post fs0 dst tmp new cfg plan fs0
      (if cfg.cleanupBase then handler cfg plan i op { fs := fs0 }
        else (.raised i, [(op.label ++ "!", fs0)])) := by
  cases hb : cfg.cleanupBase with
  | true => simpa using handler_noTemp (fs0 := fs0) i op { fs := fs0 } (Or.inr hp) rfl rfl
  | false =>
    simp only [Bool.false_eq_true, if_false]
    exact Post.base i _ (Or.inl rfl) hp hb op.labelBang_ne_rm

/-- An operation without effect on the state (`fmt`, `close`, `closeIn`) while the temp exists. -/
theorem exec_idop (op : Op) (rest : List Op) (i : Nat) (acc : String) (h0 : fs0.get? tmp = none)
    (hid : apply op (wst fs0 tmp acc) = some (wst fs0 tmp acc))
    (hrest : Post fs0 dst tmp new cfg plan (wst fs0 tmp acc).fs (exec cfg plan (i + 1) (wst fs0 tmp acc) rest)) :
    Post fs0 dst tmp new cfg plan (wst fs0 tmp acc).fs (exec cfg plan i (wst fs0 tmp acc) (op :: rest)) := by
  have hAB : AB fs0 tmp (wst fs0 tmp acc).fs := Or.inr ⟨acc, rfl⟩
  rw [exec]
  cases hp : plan i with
  | kill => exact Post.kill i hAB
  | raise => exact handler_temp i _ _ acc (Or.inl hp) h0 rfl rfl
  | raiseBase => exact base_temp i _ acc hp h0
  | none =>
    simp only [hid]
    exact Post.cons hrest (Or.inl hAB) op.label_ne_rm

/-- An operation without effect on the state (`sameFile`, `openRead` of an existing file, the early
    `closeIn`) before the temp exists. -/
theorem exec_pre (op : Op) (rest : List Op) (i : Nat)
    (hid : apply op { fs := fs0 } = some { fs := fs0 })
    (hrest : Post fs0 dst tmp new cfg plan fs0 (exec cfg plan (i + 1) { fs := fs0 } rest)) :
    Post fs0 dst tmp new cfg plan fs0 (exec cfg plan i { fs := fs0 } (op :: rest)) := by
  have hA : AB fs0 tmp fs0 := Or.inl rfl
  rw [exec]
  cases hp : plan i with
  | kill => exact Post.kill i hA
  | raise => exact handler_noTemp i _ { fs := fs0 } (Or.inl hp) rfl rfl
  | raiseBase => exact base_noTemp i _ hp
  | none =>
    simp only [hid]
    exact Post.cons hrest (Or.inl hA) op.label_ne_rm

/-- `os.replace(temp, dst)` as the last operation. -/
theorem exec_replace (i : Nat) (acc : String) (h0 : fs0.get? tmp = none) :
    Post fs0 dst tmp acc cfg plan (wst fs0 tmp acc).fs
      (exec cfg plan i (wst fs0 tmp acc) [.replace dst]) := by
  have hAB : AB fs0 tmp (wst fs0 tmp acc).fs := Or.inr ⟨acc, rfl⟩
  simp only [exec]
  cases hp : plan i with
  | kill => exact Post.kill i hAB
  | raise => exact handler_temp i _ _ acc (Or.inl hp) h0 rfl rfl
  | raiseBase => exact base_temp i _ acc hp h0
  | none =>
    have hg : (fs0 ++ [(tmp, acc)]).get? tmp = some acc := Fs.get?_append_self h0
    have he : (fs0 ++ [(tmp, acc)]).erase tmp = fs0 := Fs.erase_append_self h0
    simp only [apply, wst, hg, he]
    constructor
    · intro ev hm
      simp only [List.mem_singleton] at hm
      subst hm
      exact Or.inr ⟨rfl, rfl⟩
    · intro _; simp [final]
    · intro j h; cases h
    · intro j h; cases h
    · intro j h; cases h
    · intro j h; cases h
    · intro ev hm he
      simp only [List.mem_singleton] at hm
      subst hm
      exact absurd he (Op.label_ne_rm (.replace dst))

/-- The operations after the write phase: `close`, (StreamRewriter: `closeIn`,) `replace`. -/
theorem exec_tail (early : Bool) (i : Nat) (acc : String) (h0 : fs0.get? tmp = none) :
    Post fs0 dst tmp acc cfg plan (wst fs0 tmp acc).fs
      (exec cfg plan i (wst fs0 tmp acc) (tailOps early dst)) := by
  cases early with
  | true =>
    simp only [tailOps, if_true]
    exact exec_idop _ _ i acc h0 rfl (exec_replace (i + 1) acc h0)
  | false =>
    simp only [tailOps, Bool.false_eq_true, if_false]
    exact exec_idop _ _ i acc h0 rfl (exec_idop _ _ (i + 1) acc h0 rfl (exec_replace (i + 1 + 1) acc h0))

/-- The write phase: any list of fmt/write operations, then the tail. -/
theorem exec_body (early : Bool) (body : List Op) (hb : ∀ op ∈ body, op.isBody = true)
    (h0 : fs0.get? tmp = none) :
    ∀ (i : Nat) (acc : String),
      Post fs0 dst tmp (acc ++ newContent body) cfg plan (wst fs0 tmp acc).fs
        (exec cfg plan i (wst fs0 tmp acc) (body ++ tailOps early dst)) := by
  induction body with
  | nil =>
    intro i acc
    simpa [newContent] using exec_tail (dst := dst) (cfg := cfg) (plan := plan) early i acc h0
  | cons op rest ih =>
    intro i acc
    have hAB : AB fs0 tmp (wst fs0 tmp acc).fs := Or.inr ⟨acc, rfl⟩
    have hrest : ∀ op ∈ rest, op.isBody = true := fun o ho => hb o (List.mem_cons_of_mem _ ho)
    have hop := hb op List.mem_cons_self
    rw [List.cons_append]
    cases op with
    | fmt n =>
      simp only [newContent]
      exact exec_idop _ _ i acc h0 rfl (ih hrest (i + 1) acc)
    | write n c =>
      rw [exec]
      cases hp : plan i with
      | kill => exact Post.kill i hAB
      | raise => exact handler_temp i _ _ acc (Or.inl hp) h0 rfl rfl
      | raiseBase => exact base_temp i _ acc hp h0
      | none =>
        have hg : (fs0 ++ [(tmp, acc)]).get? tmp = some acc := Fs.get?_append_self h0
        have hs : (fs0 ++ [(tmp, acc)]).set tmp (acc ++ c) = fs0 ++ [(tmp, acc ++ c)] :=
          Fs.set_append_self h0
        simp only [apply, wst, hg, hs, newContent]
        have := ih hrest (i + 1) (acc ++ c)
        rw [String.append_assoc] at this
        exact Post.cons this (Or.inl (Or.inr ⟨acc ++ c, rfl⟩)) (Op.label_ne_rm (.write n c))
    | sameFile => simp [Op.isBody] at hop
    | openRead _ => simp [Op.isBody] at hop
    | closeIn => simp [Op.isBody] at hop
    | mkTemp _ => simp [Op.isBody] at hop
    | openWrite _ _ => simp [Op.isBody] at hop
    | close => simp [Op.isBody] at hop
    | replace _ => simp [Op.isBody] at hop

/-- `NamedTemporaryFile(dir=…)` and everything after it. -/
theorem exec_mkTemp (early : Bool) (body : List Op) (hb : ∀ op ∈ body, op.isBody = true)
    (h0 : fs0.get? tmp = none) (i : Nat) :
    Post fs0 dst tmp (newContent body) cfg plan fs0
      (exec cfg plan i { fs := fs0 } (.mkTemp tmp :: (body ++ tailOps early dst))) := by
  have hA : AB fs0 tmp fs0 := Or.inl rfl
  rw [exec]
  cases hp : plan i with
  | kill => exact Post.kill _ hA
  | raise => exact handler_noTemp _ _ { fs := fs0 } (Or.inl hp) rfl rfl
  | raiseBase => exact base_noTemp i _ hp
  | none =>
    simp only [apply, Fs.set_fresh h0]
    refine Post.cons (cur' := fs0 ++ [(tmp, "")]) ?_ (Or.inl (Or.inr ⟨"", rfl⟩)) (Op.label_ne_rm (.mkTemp tmp))
    have := exec_body (dst := dst) (cfg := cfg) (plan := plan) early body hb h0 (i + 1) ""
    simpa [wst] using this

/-- The whole in-place operation list from a directory that holds `src` and has no entry `tmp`. -/
theorem exec_inplace (early : Bool) (body : List Op) (hb : ∀ op ∈ body, op.isBody = true)
    (h0 : fs0.get? tmp = none) (hs : (fs0.get? src).isSome) (i : Nat) :
    Post fs0 dst tmp (newContent body) cfg plan fs0
      (exec cfg plan i { fs := fs0 } (inplaceOps early src dst tmp body)) := by
  have hc : Fs.contains fs0 src = true := by simpa [Fs.contains] using hs
  have hopen : apply (.openRead src) { fs := fs0 } = some { fs := fs0 } := by simp [apply, hc]
  cases early with
  | true =>
    simp only [inplaceOps, headOps, if_true, List.cons_append, List.nil_append]
    exact exec_pre _ _ i rfl (exec_pre _ _ (i + 1) hopen (exec_pre _ _ (i + 1 + 1) rfl
      (exec_mkTemp true body hb h0 (i + 1 + 1 + 1))))
  | false =>
    simp only [inplaceOps, headOps, Bool.false_eq_true, if_false, List.cons_append, List.nil_append]
    exact exec_pre _ _ i rfl (exec_pre _ _ (i + 1) hopen (exec_mkTemp false body hb h0 (i + 1 + 1)))

/-- Hypotheses of one well-formed in-place rewrite: the source exists, the name the temp file will
    get is not in the directory (NamedTemporaryFile picks an unused name), the body consists of
    fmt/write operations; the entry `os.replace` lands on is the source itself, or — the in path's
    last component being a symlink — the link's entry, which is not a regular file of the directory. -/
structure WF (fs0 : Fs) (src dst tmp : String) (body : List Op) : Prop where
  srcExists : (fs0.get? src).isSome
  tmpFresh : fs0.get? tmp = none
  bodyOps : ∀ op ∈ body, op.isBody = true
  dstOk : dst = src ∨ fs0.get? dst = none
  dstNeTmp : dst ≠ tmp

theorem WF.ne {fs0 : Fs} {src dst tmp : String} {body : List Op} (wf : WF fs0 src dst tmp body) : src ≠ tmp := by
  intro h
  have := wf.srcExists
  rw [h, wf.tmpFresh] at this
  cases this

end Pypyr.FsRewrite
