/-
  C07: closing the knot over the fuel-indexed mutual recursion of `Runner.lean`
  (`runStep / runSteps / runStepGroup / runGroupList / runFailureGroup / runGroups / runPipeline`)
  for the invariant `Good` of `C07_Global.lean`, for every program satisfying `progOk`.
-/
import Props.Lemmas.C07_Global

namespace Pypyr.C07
open Pypyr Pypyr.Flow Pypyr.C04

theorem keeps_pair {R : St → St → Prop} {b : Body} (h : Keeps R b) {s s1 : St} {r : Res}
    (e : b s = (s1, r)) : R s s1 := by
  have := h s; rw [e] at this; exact this

theorem sameCtx_good (a b : St) (h : b.ctx = a.ctx) : Good a b := good_ctx_right a a b h (good.refl a)

/-- one decorated step of an allowed kind, given the invariant for the group runner it may call. -/
theorem runStep_good (prog : Program) (fuel : Nat) (pipe : String) (d : StepDef) (hd : stepOk d = true)
    (hG : ∀ pipe gs su fa, Keeps Good (runGroups fuel prog pipe gs su fa)) :
    Keeps Good (runStep (fuel + 1) prog pipe d) := by
  intro s
  unfold runStep
  simp only []
  cases hinit : stepInit d with
  | error p => obtain ⟨n, m⟩ := p; exact rel_raiseNew good _ _ _
  | ok kind =>
    simp only []
    have hk := stepOk_kind d kind hd hinit
    have hc : ∀ c : CofCfg, Keeps Good (fun s' =>
        runGroups fuel prog (s'.stack.head?.getD pipe) c.groups c.success c.failure s') :=
      fun c s' => hG _ _ _ _ s'
    have hW : ∀ k : String, k = "call" ∨ k = "jump" ∨ k = "switch" → k ∉ ["runErrors", "p"] := by
      intro k hk; rcases hk with rfl | rfl | rfl <;> decide
    have plain : ∀ r : Res, (∀ c, r ≠ .call c) →
        Good s (runStepDescribed d (fun s => (s, r))
          (fun (c : CofCfg) s' => runGroups fuel prog (s'.stack.head?.getD pipe) c.groups c.success c.failure s') fuel s).1 :=
      fun r hr => runStepDescribed_keeps good d _ _ fuel (fun s e sw _ => record_good d s e sw) (fun s e _ _ => log_good d s e)
        (fun s => good.refl s) hc
        (fun s s1 c h => by injection h with _ h2; exact absurd h2 (hr c))
        (setIn_good d hd) (unsetIn_good d hd) s
    cases kind with
    | probe =>
      exact runStepDescribed_keeps good d probeStep _ fuel (fun s e sw _ => record_good d s e sw)
        (fun s e _ _ => log_good d s e) probeStep_good hc
        (fun s s1 c h => absurd h (probeStep_not_call s s1 c)) (setIn_good d hd) (unsetIn_good d hd) s
    | stop => exact plain .stop (by intro c h; cases h)
    | stopPipeline => exact plain .stopPipeline (by intro c h; cases h)
    | stopGroup => exact plain .stopGroup (by intro c h; cases h)
    | call =>
      exact runStepDescribed_keeps good d (cofStep "call" true) _ fuel (fun s e sw _ => record_good d s e sw)
        (fun s e _ _ => log_good d s e)
        (fun s => sameCtx_good _ _ (cofStep_ctx _ _ s)) hc
        (fun s s1 c h => by rw [cofStep_callKey _ _ _ _ _ h]; exact hW _ (.inl rfl))
        (setIn_good d hd) (unsetIn_good d hd) s
    | jump =>
      exact runStepDescribed_keeps good d (cofStep "jump" false) _ fuel (fun s e sw _ => record_good d s e sw)
        (fun s e _ _ => log_good d s e)
        (fun s => sameCtx_good _ _ (cofStep_ctx _ _ s)) hc
        (fun s s1 c h => by rw [cofStep_callKey _ _ _ _ _ h]; exact hW _ (.inr (.inl rfl)))
        (setIn_good d hd) (unsetIn_good d hd) s
    | switch =>
      exact runStepDescribed_keeps good d switchStep _ fuel (fun s e sw _ => record_good d s e sw)
        (fun s e _ _ => log_good d s e)
        (fun s => sameCtx_good _ _ (switchStep_ctx s)) hc
        (fun s s1 c h => by rw [switchStep_callKey _ _ _ h]; exact hW _ (.inr (.inr rfl)))
        (setIn_good d hd) (unsetIn_good d hd) s
    | set => simp [allowedKind] at hk
    | contextClear => simp [allowedKind] at hk
    | contextClearAll => simp [allowedKind] at hk
    | pype => simp [allowedKind] at hk

/-- the invariant for every function of the mutual recursion at one fuel level. -/
def AllGood (prog : Program) (n : Nat) : Prop :=
  (∀ pipe d, stepOk d = true → Keeps Good (runStep n prog pipe d)) ∧
  (∀ pipe ds, (∀ d, d ∈ ds → stepOk d = true) → Keeps Good (runSteps n prog pipe ds)) ∧
  (∀ pipe g rs, Keeps Good (runStepGroup n prog pipe g rs)) ∧
  (∀ pipe gs, Keeps Good (runGroupList n prog pipe gs)) ∧
  (∀ pipe g, Keeps Good (runFailureGroup n prog pipe g)) ∧
  (∀ pipe gs su fa, Keeps Good (runGroups n prog pipe gs su fa)) ∧
  (∀ pi, Keeps Good (runPipeline n prog pi))

theorem allGood_zero (prog : Program) : AllGood prog 0 := by
  refine ⟨?_, ?_, ?_, ?_, ?_, ?_, ?_⟩
  · intro pipe d _ s; unfold runStep; exact good.refl s
  · intro pipe ds _ s; unfold runSteps; exact good.refl s
  · intro pipe g rs s; unfold runStepGroup; exact good.refl s
  · intro pipe gs s; unfold runGroupList; exact good.refl s
  · intro pipe g s; unfold runFailureGroup; exact good.refl s
  · intro pipe gs su fa s; unfold runGroups; exact good.refl s
  · intro pi s; unfold runPipeline; exact good.refl s

theorem allGood_succ (prog : Program) (hp : progOk prog = true) (n : Nat) (ih : AllGood prog n) :
    AllGood prog (n + 1) := by
  obtain ⟨ih1, ih2, ih3, ih4, ih5, ih6, ih7⟩ := ih
  refine ⟨?_, ?_, ?_, ?_, ?_, ?_, ?_⟩
  · -- runStep
    intro pipe d hd
    exact runStep_good prog n pipe d hd ih6
  · -- runSteps
    intro pipe ds hds s
    cases ds with
    | nil => unfold runSteps; exact good.refl s
    | cons d rest =>
      rw [runSteps_cons]
      generalize hr : runStep n prog pipe d s = p
      obtain ⟨s1, r⟩ := p
      have h1 : Good s s1 := keeps_pair (ih1 pipe d (hds d List.mem_cons_self)) hr
      cases r <;> simp only [] <;> first
        | exact h1
        | exact good.trans h1 (ih2 pipe rest (fun d' hd' => hds d' (List.mem_cons_of_mem _ hd')) s1)
  · -- runStepGroup
    intro pipe g rs s
    by_cases hg0 : g = ""
    · subst hg0; rw [runStepGroup_empty_name]; exact rel_raiseNew good _ _ _
    cases hgs : getPipelineSteps prog pipe g with
    | error e =>
      obtain ⟨en, em⟩ := e
      rw [runStepGroup_unsized n prog pipe g rs s en em hgs hg0]
      exact rel_raiseNew good _ _ _
    | ok ss =>
      have hss : groupSteps prog pipe g = ss := by unfold groupSteps; rw [hgs]
      rw [runStepGroup_eq' n prog pipe g rs s ss hgs hg0]
      generalize hr : runSteps n prog pipe ss s = p
      obtain ⟨s1, r⟩ := p
      have h1 : Good s s1 := keeps_pair (ih2 pipe _ (hss ▸ progOk_groupSteps prog hp pipe g)) hr
      cases r <;> simp only [] <;> first
        | exact h1
        | exact good.trans h1 (ih6 _ _ _ _ s1)
        | (split <;> exact h1)
  · -- runGroupList
    intro pipe gs s
    cases gs with
    | nil => unfold runGroupList; exact good.refl s
    | cons g rest =>
      rw [runGroupList_cons]
      generalize hr : runStepGroup n prog pipe g false s = p
      obtain ⟨s1, r⟩ := p
      have h1 : Good s s1 := keeps_pair (ih3 pipe g false) hr
      cases r <;> simp only [] <;> first
        | exact h1
        | exact good.trans h1 (ih4 pipe rest s1)
  · -- runFailureGroup
    intro pipe g s
    cases g with
    | none => unfold runFailureGroup; exact good.refl s
    | some name =>
      by_cases hn : name = ""
      · subst hn; unfold runFailureGroup; exact good.refl s
      · rw [runFailureGroup_eq n prog pipe name s hn]
        generalize hr : runStepGroup n prog pipe name true s = p
        obtain ⟨s1, r⟩ := p
        have h1 : Good s s1 := keeps_pair (ih3 pipe name true) hr
        cases r <;> exact h1
  · -- runGroups
    intro pipe gs su fa s
    cases gs with
    | nil => unfold runGroups; exact rel_raiseNew good _ _ _
    | cons g rest =>
      rw [runGroups_eq]
      have hmain : Good s (mainPhase n prog pipe (g :: rest) su s).1 := by
        unfold mainPhase
        generalize hr : runGroupList n prog pipe (g :: rest) s = p
        obtain ⟨s1, r⟩ := p
        have h1 : Good s s1 := keeps_pair (ih4 pipe (g :: rest)) hr
        cases r <;> simp only [] <;> try exact h1
        cases su with
        | none => exact h1
        | some sg =>
          simp only []
          split
          · exact h1
          · exact good.trans h1 (ih3 pipe sg false s1)
      generalize hm : mainPhase n prog pipe (g :: rest) su s = p at hmain
      obtain ⟨s1, r⟩ := p
      cases r <;> simp only [] <;> try exact hmain
      split
      · generalize hf : runFailureGroup n prog pipe fa s1 = q
        obtain ⟨s2, r2⟩ := q
        have h2 : Good s1 s2 := keeps_pair (ih5 pipe fa) hf
        cases r2 <;> exact good.trans hmain h2
      · exact hmain
  · -- runPipeline
    intro pi s
    cases hf : prog.find? pi.name with
    | none => rw [runPipeline_notFound n prog pi s hf]; exact rel_raiseNew good _ _ _
    | some pd =>
      have h0 : Good s { s with stack := pi.name :: s.stack } := sameCtx_good _ _ rfl
      by_cases hgb : pi.groupsBad = true
      · rw [runPipeline_groupsBad n prog pi pd s hf hgb]
        simp only [prepareContext_noParser pd pi _ (progOk_parser prog hp pi.name pd hf)]
        have h1' : Good { s with stack := pi.name :: s.stack }
            (raiseNew { s with stack := pi.name :: s.stack } "TypeError" "~object is not iterable").1 :=
          rel_raiseNew good _ _ _
        by_cases hf0 : hasFailureGroup pi.failure = true
        · simp only [hf0, if_true]
          generalize hq : runFailureGroup n prog pi.name pi.failure
            (raiseNew { s with stack := pi.name :: s.stack } "TypeError" "~object is not iterable").1 = q
          obtain ⟨s2, r2⟩ := q
          have h2 := keeps_pair (ih5 pi.name pi.failure) hq
          cases r2 <;> exact good.trans h0 (good.trans h1' (good.trans h2 (sameCtx_good _ _ rfl)))
        · simp only [hf0]
          exact good.trans h0 (good.trans h1' (sameCtx_good _ _ rfl))
      have hgb : pi.groupsBad = false := by simpa using hgb
      rw [runPipeline_eq n prog pi pd s hf hgb]
      simp only [prepareContext_noParser pd pi _ (progOk_parser prog hp pi.name pd hf)]
      generalize hr : runGroups n prog pi.name (effectiveGroups pi).1 (effectiveGroups pi).2.1
        (effectiveGroups pi).2.2 { s with stack := pi.name :: s.stack } = p
      obtain ⟨s2, r⟩ := p
      have h1 : Good { s with stack := pi.name :: s.stack } s2 := keeps_pair (ih6 _ _ _ _) hr
      cases r <;> exact good.trans h0 (good.trans h1 (sameCtx_good _ _ rfl))

theorem allGood (prog : Program) (hp : progOk prog = true) : ∀ n, AllGood prog n := by
  intro n
  induction n with
  | zero => exact allGood_zero prog
  | succ n ih => exact allGood_succ prog hp n ih

end Pypyr.C07
