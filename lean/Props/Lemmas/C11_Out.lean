/-
  C11 helper lemmas, part 2: `pype.write_child_context_to_parent` (`writeOut`).

  Closed form of the `for parent_key, child_key in save_me.items()` loop: the parent context is
  updated (`dict.__setitem__`, left to right) with the formatted child values of the longest prefix of
  the `out` pairs whose child keys exist and format (`outVals`); the loop ends normally iff that prefix
  is the whole list, otherwise with the first failure (`outFailure`) — the keys written before the
  failure stay written, nothing else of the parent is touched.
-/
import Props.Lemmas.FlowRunner
import Props.Lemmas.C04_Ctx

namespace Pypyr.C11
open Pypyr Pypyr.Flow

/-- `save_me` of `write_child_context_to_parent`: (parent key, child key) pairs, in order -/
def outPairs (out : Val) : Except (String × String) (List (String × String)) :=
  match out with
  | .str k => .ok [(k, k)]
  | .list xs => match strList? (.list xs) with
    | some ks => .ok (ks.map fun k => (k, k))
    | none => .error ("OutOfDomain", "out keys must be strings")
  | .dict kvs =>
    let ps := kvs.filterMap fun kv => match kv.1, kv.2 with | .str a, .str b => some (a, b) | _, _ => none
    if ps.length == kvs.length then .ok ps else .error ("OutOfDomain", "out keys must be strings")
  | _ => .error ("pypyr.errors.ContextError", "~pypyr.steps.pype pype.out should be a string, or a list or a dict.")

/-- `child_context.get_formatted(child_key)` -/
def childFormatted (cc : Ctx) (ck : String) : Except (String × String) Val :=
  match Ctx.get? cc ck with
  | none => .error ("pypyr.errors.KeyNotInContextError", ck ++ " not found in the pypyr context.")
  | some v =>
    -- `get_formatted(key)`: a KeyNotInContextError is re-raised with a longer text (`fmtAtKey`)
    match fmtAtKey { ctx := cc } v with
    | .error x => .error (x.name, x.msg)
    | .ok fv => .ok fv

/-- one round of the loop -/
def writeOutStep (child : St) (acc : St × Res) (x : String × String) : St × Res :=
  match acc with
  | (p, .ok) =>
    match Ctx.get? child.ctx x.2 with
    | none => raiseNew p "pypyr.errors.KeyNotInContextError" (x.2 ++ " not found in the pypyr context.")
    | some v =>
      match fmtAtKey child v with
      | .error e => raiseExc p e
      | .ok fv => ({ p with ctx := Ctx.set p.ctx x.1 fv }, .ok)
  | other => other

theorem writeOut_eq (out : Val) (parent child : St) :
    writeOut out parent child =
      (match outPairs out with
       | .error (n, m) => raiseNew parent n m
       | .ok ps => ps.foldl (writeOutStep child) (parent, .ok)) := by
  unfold writeOut outPairs
  rfl

theorem writeOutStep_ok (child p : St) (x : String × String) :
    writeOutStep child (p, .ok) x =
      (match childFormatted child.ctx x.2 with
       | .error (n, m) => raiseNew p n m
       | .ok fv => ({ p with ctx := Ctx.set p.ctx x.1 fv }, .ok)) := by
  unfold writeOutStep childFormatted
  simp only []
  cases Ctx.get? child.ctx x.2 with
  | none => rfl
  | some v =>
    simp only []
    have hf : fmtAtKey ({ ctx := child.ctx } : St) v = fmtAtKey child v := rfl
    rw [hf]
    cases fmtAtKey child v with
    | error e => rfl
    | ok fv => rfl

theorem writeOutFold_nonok (child : St) (ps : List (String × String)) (p : St) (r : Res) (hr : r ≠ .ok) :
    ps.foldl (writeOutStep child) (p, r) = (p, r) := by
  induction ps with
  | nil => rfl
  | cons x rest ih =>
    rw [List.foldl_cons]
    have : writeOutStep child (p, r) x = (p, r) := by
      unfold writeOutStep; cases r <;> first | rfl | exact absurd rfl hr
    rw [this, ih]

/-- the bindings written into the parent: formatted child values of the longest good prefix -/
def outVals (cc : Ctx) : List (String × String) → List (String × Val)
  | [] => []
  | x :: rest =>
    match childFormatted cc x.2 with
    | .ok fv => (x.1, fv) :: outVals cc rest
    | .error _ => []

/-- the first failure of the loop, if any -/
def outFailure (cc : Ctx) : List (String × String) → Option (String × String)
  | [] => none
  | x :: rest =>
    match childFormatted cc x.2 with
    | .ok _ => outFailure cc rest
    | .error e => some e

theorem outVals_cons (cc : Ctx) (x : String × String) (rest : List (String × String)) :
    outVals cc (x :: rest) =
      (match childFormatted cc x.2 with
       | .ok fv => (x.1, fv) :: outVals cc rest
       | .error _ => []) := rfl

theorem outFailure_cons (cc : Ctx) (x : String × String) (rest : List (String × String)) :
    outFailure cc (x :: rest) =
      (match childFormatted cc x.2 with
       | .ok _ => outFailure cc rest
       | .error e => some e) := rfl

/-- **closed form of the loop**, from any parent state -/
theorem writeOutFold_closed (child : St) (ps : List (String × String)) (p : St) :
    ps.foldl (writeOutStep child) (p, .ok) =
      (match outFailure child.ctx ps with
       | none => ({ p with ctx := Ctx.update p.ctx (outVals child.ctx ps) }, .ok)
       | some (n, m) => raiseNew { p with ctx := Ctx.update p.ctx (outVals child.ctx ps) } n m) := by
  induction ps generalizing p with
  | nil => rfl
  | cons x rest ih =>
    rw [List.foldl_cons, writeOutStep_ok]
    unfold outVals outFailure
    cases hcf : childFormatted child.ctx x.2 with
    | error e =>
      obtain ⟨n, m⟩ := e
      simp only []
      rw [show raiseNew p n m = ((raiseNew p n m).1, Res.err ⟨p.nextExc, n, m⟩ false) from rfl,
        writeOutFold_nonok child rest _ _ (by simp)]
      rfl
    | ok fv =>
      simp only []
      rw [ih]
      rfl

/-- **closed form of `write_child_context_to_parent`** -/
theorem writeOut_closed (out : Val) (parent child : St) :
    writeOut out parent child =
      (match outPairs out with
       | .error (n, m) => raiseNew parent n m
       | .ok ps =>
         match outFailure child.ctx ps with
         | none => ({ parent with ctx := Ctx.update parent.ctx (outVals child.ctx ps) }, .ok)
         | some (n, m) => raiseNew { parent with ctx := Ctx.update parent.ctx (outVals child.ctx ps) } n m) := by
  rw [writeOut_eq]
  cases outPairs out with
  | error e => rfl
  | ok ps => simp only []; exact writeOutFold_closed child ps parent

/-! ### what `outVals` contains -/

/-- the keys written are a prefix of the `out` keys -/
theorem outVals_keys_prefix (cc : Ctx) (ps : List (String × String)) :
    (outVals cc ps).map (·.1) <+: ps.map (·.1) := by
  induction ps with
  | nil => exact List.prefix_refl _
  | cons x rest ih =>
    unfold outVals
    cases childFormatted cc x.2 with
    | error e => exact List.nil_prefix
    | ok fv => simp only [List.map_cons]; exact (List.cons_prefix_cons).2 ⟨rfl, ih⟩

/-- no failure: every `out` key is written, in order -/
theorem outVals_keys_all (cc : Ctx) (ps : List (String × String)) (h : outFailure cc ps = none) :
    (outVals cc ps).map (·.1) = ps.map (·.1) := by
  induction ps with
  | nil => rfl
  | cons x rest ih =>
    unfold outVals
    unfold outFailure at h
    cases hcf : childFormatted cc x.2 with
    | error e => rw [hcf] at h; cases h
    | ok fv => rw [hcf] at h; simp only [List.map_cons]; rw [ih h]

/-- every binding written is (parent key ↦ formatted child value) for one of the `out` pairs -/
theorem outVals_mem (cc : Ctx) (ps : List (String × String)) (k : String) (v : Val)
    (h : (k, v) ∈ outVals cc ps) : ∃ ck, (k, ck) ∈ ps ∧ childFormatted cc ck = .ok v := by
  induction ps with
  | nil => simp [outVals] at h
  | cons x rest ih =>
    unfold outVals at h
    cases hcf : childFormatted cc x.2 with
    | error e => rw [hcf] at h; simp at h
    | ok fv =>
      rw [hcf] at h
      simp only [List.mem_cons] at h
      rcases h with h | h
      · injection h with h1 h2
        subst h1 h2
        exact ⟨x.2, List.mem_cons_self, hcf⟩
      · obtain ⟨ck, hm, hc⟩ := ih h
        exact ⟨ck, List.mem_cons_of_mem _ hm, hc⟩

/-- no failure: `outVals` is the pairs with the child key replaced by its formatted value -/
theorem outVals_append_of_ok (cc : Ctx) (pre post : List (String × String)) (h : outFailure cc (pre ++ post) = none) :
    outVals cc (pre ++ post) = outVals cc pre ++ outVals cc post ∧ outFailure cc post = none := by
  induction pre with
  | nil => exact ⟨rfl, h⟩
  | cons x rest ih =>
    rw [List.cons_append] at h ⊢
    rw [outFailure_cons] at h
    rw [outVals_cons cc x (rest ++ post), outVals_cons cc x rest]
    cases hcf : childFormatted cc x.2 with
    | error e => rw [hcf] at h; cases h
    | ok fv =>
      rw [hcf] at h
      simp only []
      obtain ⟨h1, h2⟩ := ih h
      exact ⟨by rw [h1]; rfl, h2⟩

/-- keys outside `out` are not written -/
theorem outVals_notin (cc : Ctx) (ps : List (String × String)) (k : String) (h : k ∉ ps.map (·.1)) :
    k ∉ (outVals cc ps).map (·.1) :=
  fun hk => h ((outVals_keys_prefix cc ps).subset hk)

/-- **frame**: a key that is not a parent key of `out` keeps its value (or its absence) -/
theorem get_update_outVals_notin (cc : Ctx) (ps : List (String × String)) (c : Ctx) (k : String)
    (h : k ∉ ps.map (·.1)) : Ctx.get? (Ctx.update c (outVals cc ps)) k = Ctx.get? c k :=
  C04.ctx_get_update_notin _ c k (outVals_notin cc ps k h)

/-- no failure: every parent key of `out` holds the formatted value of one of its child keys -/
theorem get_update_outVals_mem (cc : Ctx) (ps : List (String × String)) (c : Ctx) (k : String)
    (hf : outFailure cc ps = none) (h : k ∈ ps.map (·.1)) :
    ∃ ck fv, (k, ck) ∈ ps ∧ childFormatted cc ck = .ok fv ∧ Ctx.get? (Ctx.update c (outVals cc ps)) k = some fv := by
  rw [← outVals_keys_all cc ps hf] at h
  obtain ⟨v, hv, hg⟩ := C04.ctx_get_update_mem (outVals cc ps) c k h
  obtain ⟨ck, hm, hc⟩ := outVals_mem cc ps k v hv
  exact ⟨ck, v, hm, hc, hg⟩

/-- no failure: the **last** pair for a parent key decides its value -/
theorem get_update_outVals_last (cc : Ctx) (pre post : List (String × String)) (c : Ctx) (pk ck : String)
    (hf : outFailure cc (pre ++ (pk, ck) :: post) = none) (hlast : pk ∉ post.map (·.1)) :
    ∃ fv, childFormatted cc ck = .ok fv ∧
      Ctx.get? (Ctx.update c (outVals cc (pre ++ (pk, ck) :: post))) pk = some fv := by
  obtain ⟨happ, hf2⟩ := outVals_append_of_ok cc pre _ hf
  rw [happ]
  unfold outFailure at hf2
  unfold outVals
  cases hcf : childFormatted cc ck with
  | error e => simp only [hcf] at hf2; cases hf2
  | ok fv =>
    simp only []
    exact ⟨fv, rfl, C04.ctx_get_update_last _ _ c pk fv (outVals_notin cc post pk hlast)⟩

/-! ### the rest of the parent state -/

theorem writeOut_stack (out : Val) (parent child : St) : (writeOut out parent child).1.stack = parent.stack := by
  rw [writeOut_closed]
  cases outPairs out with
  | error e => rfl
  | ok ps => simp only []; cases outFailure child.ctx ps <;> rfl

theorem writeOut_trace (out : Val) (parent child : St) : (writeOut out parent child).1.trace = parent.trace := by
  rw [writeOut_closed]
  cases outPairs out with
  | error e => rfl
  | ok ps => simp only []; cases outFailure child.ctx ps <;> rfl

/-- `write_child_context_to_parent` ends normally or with an error, nothing else -/
theorem writeOut_result (out : Val) (parent child : St) :
    (writeOut out parent child).2 = .ok ∨ ∃ e, (writeOut out parent child).2 = .err e false := by
  rw [writeOut_closed]
  cases outPairs out with
  | error e => exact .inr ⟨_, rfl⟩
  | ok ps =>
    simp only []
    cases outFailure child.ctx ps with
    | none => exact .inl rfl
    | some e => exact .inr ⟨_, rfl⟩

/-- the parent keys of `out` (none when `out` is absent or malformed) -/
def outKeys (out : Option Val) : List String :=
  match out with
  | some o => match outPairs o with
    | .ok ps => ps.map (·.1)
    | .error _ => []
  | none => []

/-- **frame of `write_child_context_to_parent`**, in every case (also when it fails half way) -/
theorem writeOut_frame (o : Val) (parent child : St) (k : String) (h : k ∉ outKeys (some o)) :
    Ctx.get? (writeOut o parent child).1.ctx k = Ctx.get? parent.ctx k := by
  rw [writeOut_closed]
  cases hp : outPairs o with
  | error e => rfl
  | ok ps =>
    simp only [outKeys, hp] at h
    simp only []
    cases outFailure child.ctx ps with
    | none => exact get_update_outVals_notin child.ctx ps parent.ctx k h
    | some e => exact get_update_outVals_notin child.ctx ps parent.ctx k h

theorem outPairs_str (k : String) : outPairs (.str k) = .ok [(k, k)] := rfl

theorem outPairs_list (ks : List String) : outPairs (.list (ks.map Val.str)) = .ok (ks.map fun k => (k, k)) := by
  have : strList? (.list (ks.map Val.str)) = some ks := by
    simp [strList?, List.filterMap_map, Function.comp_def]
  simp only [outPairs, this]

end Pypyr.C11
