/-
  C06 helper lemmas, arithmetic: the rational value of a dyadic `Num` (n / 2^k), the
  operations of `Num` as operations on that value, `Num.cmp` as the order of the values,
  and from these the back-off arithmetic (cap, jitter bounds).
-/
import Mathlib.Tactic.Linarith
import Mathlib.Tactic.Ring
import Mathlib.Tactic.Positivity
import Mathlib.Tactic.FieldSimp
import Mathlib.Tactic.LinearCombination
import PypyrModel.Backoff

namespace Pypyr

/-- The number a `Num` stands for: `n / 2^k`. -/
def Num.toRat (x : Num) : ℚ := (x.n : ℚ) / 2 ^ x.k

/-- `a ≤ b` in the model's own comparison (`Num.cmp`, the one `Num.min` and the `!py` operators use). -/
def Num.le (a b : Num) : Prop := a.cmp b ≠ .gt

instance (a b : Num) : Decidable (a.le b) := by unfold Num.le; infer_instance

theorem two_pow_split (k a : Nat) (h : a ≤ k) : (2 : ℚ) ^ k = 2 ^ (k - a) * 2 ^ a := by
  rw [← pow_add]; congr 1; omega

theorem Num.toRat_mul (a b : Num) : (a.mul b).toRat = a.toRat * b.toRat := by
  simp only [Num.toRat, Num.mul]
  push_cast
  rw [pow_add, div_mul_div_comm]

theorem Num.toRat_add (a b : Num) : (a.add b).toRat = a.toRat + b.toRat := by
  simp only [Num.toRat, Num.add]
  have ha := two_pow_split (max a.k b.k) a.k (Nat.le_max_left _ _)
  have hb := two_pow_split (max a.k b.k) b.k (Nat.le_max_right _ _)
  push_cast
  rw [div_add_div _ _ (by positivity) (by positivity), div_eq_div_iff (by positivity) (by positivity)]
  generalize (2 : ℚ) ^ (max a.k b.k) = K at *
  subst ha
  have hb' := hb
  generalize (2 : ℚ) ^ (max a.k b.k - a.k) = A at *
  generalize (2 : ℚ) ^ (max a.k b.k - b.k) = B at *
  generalize (2 : ℚ) ^ a.k = P at *
  generalize (2 : ℚ) ^ b.k = Q at *
  linear_combination (-(b.n : ℚ) * P) * hb'

theorem Num.toRat_sub (a b : Num) : (a.sub b).toRat = a.toRat - b.toRat := by
  simp only [Num.toRat, Num.sub]
  have ha := two_pow_split (max a.k b.k) a.k (Nat.le_max_left _ _)
  have hb := two_pow_split (max a.k b.k) b.k (Nat.le_max_right _ _)
  push_cast
  rw [div_sub_div _ _ (by positivity) (by positivity), div_eq_div_iff (by positivity) (by positivity)]
  generalize (2 : ℚ) ^ (max a.k b.k) = K at *
  subst ha
  have hb' := hb
  generalize (2 : ℚ) ^ (max a.k b.k - a.k) = A at *
  generalize (2 : ℚ) ^ (max a.k b.k - b.k) = B at *
  generalize (2 : ℚ) ^ a.k = P at *
  generalize (2 : ℚ) ^ b.k = Q at *
  linear_combination ((b.n : ℚ) * P) * hb'

theorem Num.toRat_ofNat (n : Nat) : (Num.ofNat n).toRat = n := by
  simp [Num.toRat, Num.ofNat]

theorem Num.toRat_zero : numZero.toRat = 0 := by
  simp [Num.toRat, numZero]

theorem Num.toRat_pow (b : Num) (n : Nat) : (b.pow n).toRat = b.toRat ^ n := by
  induction n with
  | zero => simp [Num.pow, Num.toRat]
  | succ n ih => rw [Num.pow, Num.toRat_mul, ih, pow_succ]

theorem Num.isZero_iff (x : Num) : x.isZero = true ↔ x.toRat = 0 := by
  simp only [Num.isZero, Num.toRat, beq_iff_eq]
  constructor
  · intro h; simp [h]
  · intro h
    have hp : (2 : ℚ) ^ x.k ≠ 0 := by positivity
    rcases div_eq_zero_iff.mp h with h | h
    · exact_mod_cast h
    · exact absurd h hp

/-- cross-multiplied integers compare like the quotients. -/
theorem Num.cross_lt (a b : Num) : a.n * 2 ^ b.k < b.n * 2 ^ a.k ↔ a.toRat < b.toRat := by
  simp only [Num.toRat]
  rw [div_lt_div_iff₀ (by positivity) (by positivity)]
  exact_mod_cast Iff.rfl

theorem Num.cross_eq (a b : Num) : a.n * 2 ^ b.k = b.n * 2 ^ a.k ↔ a.toRat = b.toRat := by
  simp only [Num.toRat]
  rw [div_eq_div_iff (by positivity) (by positivity)]
  exact_mod_cast Iff.rfl

theorem Num.cmp_lt_iff (a b : Num) : a.cmp b = .lt ↔ a.toRat < b.toRat := by
  rw [← Num.cross_lt]
  simp only [Num.cmp, compare, compareOfLessAndEq]
  split
  · simp_all
  · split <;> simp_all

theorem Num.cmp_eq_iff (a b : Num) : a.cmp b = .eq ↔ a.toRat = b.toRat := by
  rw [← Num.cross_eq]
  simp only [Num.cmp, compare, compareOfLessAndEq]
  split
  · rename_i h; simp only [reduceCtorEq, false_iff]; omega
  · split <;> simp_all

theorem Num.cmp_gt_iff (a b : Num) : a.cmp b = .gt ↔ b.toRat < a.toRat := by
  rw [← Num.cross_lt]
  simp only [Num.cmp, compare, compareOfLessAndEq]
  split
  · rename_i h; simp only [reduceCtorEq, false_iff]; omega
  · split
    · rename_i h; simp only [reduceCtorEq, false_iff]; omega
    · simp only [true_iff]; omega

/-- `Num.cmp` is the order of the values. -/
theorem Num.le_iff (a b : Num) : a.le b ↔ a.toRat ≤ b.toRat := by
  unfold Num.le
  rw [Ne, Num.cmp_gt_iff, not_lt]

/-! ### min / cap -/

theorem Num.min_def (a b : Num) : Num.min a b = if b.toRat < a.toRat then b else a := by
  unfold Num.min
  by_cases h : b.toRat < a.toRat
  · have := (Num.cmp_lt_iff b a).mpr h; simp [this, h]
  · have : b.cmp a ≠ .lt := fun hc => h ((Num.cmp_lt_iff b a).mp hc)
    simp [this, h]

theorem Num.toRat_min (a b : Num) : (Num.min a b).toRat = Min.min a.toRat b.toRat := by
  rw [Num.min_def]
  split
  · rename_i h; rw [min_eq_right (le_of_lt h)]
  · rename_i h; rw [min_eq_left (not_lt.mp h)]

/-- `Num.min a b` is one of its arguments, below both w.r.t. `Num.cmp`, and anything below both is below it. -/
theorem Num.min_is_minimum (a b : Num) :
    (Num.min a b = a ∨ Num.min a b = b) ∧ (Num.min a b).le a ∧ (Num.min a b).le b ∧
    ∀ c : Num, c.le a → c.le b → c.le (Num.min a b) := by
  refine ⟨?_, ?_, ?_, ?_⟩
  · rw [Num.min_def]; split <;> simp
  · rw [Num.le_iff, Num.toRat_min]; exact min_le_left _ _
  · rw [Num.le_iff, Num.toRat_min]; exact min_le_right _ _
  · intro c h1 h2; rw [Num.le_iff] at *; rw [Num.toRat_min]; exact le_min h1 h2

/-- the rational reading of `BackoffBase.min`. -/
def capQ (m : Option ℚ) (d : ℚ) : ℚ :=
  match m with
  | none => d
  | some m => if m = 0 then d else min d m

theorem capSleep_toRat (m : Option Num) (d : Num) :
    (capSleep m d).toRat = capQ (m.map Num.toRat) d.toRat := by
  cases m with
  | none => rfl
  | some m =>
    simp only [capSleep, capQ, Option.map]
    by_cases h : m.isZero = true
    · have := (Num.isZero_iff m).mp h; simp [h, this]
    · have h' : ¬ m.toRat = 0 := fun hc => h ((Num.isZero_iff m).mpr hc)
      simp [h, h', Num.toRat_min]

theorem capQ_le (m : Option ℚ) (d : ℚ) : capQ m d ≤ d := by
  unfold capQ; split
  · exact le_refl _
  · split
    · exact le_refl _
    · exact min_le_left _ _

theorem capQ_nonneg (m : Option ℚ) (d : ℚ) (hd : 0 ≤ d) (hm : ∀ x, m = some x → 0 ≤ x) : 0 ≤ capQ m d := by
  unfold capQ; split
  · exact hd
  · split
    · exact hd
    · exact le_min hd (hm _ rfl)

/-! ### jitter -/

theorem uniform_toRat (a b r : Num) : (uniform a b r).toRat = a.toRat + (b.toRat - a.toRat) * r.toRat := by
  simp only [uniform, Num.toRat_add, Num.toRat_mul, Num.toRat_sub]

theorem randomize_toRat (jrc d r : Num) :
    (randomize jrc d r).toRat = d.toRat * jrc.toRat + (d.toRat - d.toRat * jrc.toRat) * r.toRat := by
  simp only [randomize, uniform_toRat, Num.toRat_mul]

/-- the jittered duration lies in `[jrc·d, d]` (the lower end does not even need `0 ≤ jrc`). -/
theorem randomize_bounds_rat (jrc d r : Num)
    (hj1 : jrc.toRat ≤ 1) (hd : 0 ≤ d.toRat) (hr0 : 0 ≤ r.toRat) (hr1 : r.toRat ≤ 1) :
    jrc.toRat * d.toRat ≤ (randomize jrc d r).toRat ∧ (randomize jrc d r).toRat ≤ d.toRat := by
  rw [randomize_toRat]
  generalize jrc.toRat = J at *
  generalize d.toRat = D at *
  generalize r.toRat = R at *
  have h1 : 0 ≤ D * (1 - J) := mul_nonneg hd (by linarith)
  have h2 : 0 ≤ D * (1 - J) * R := mul_nonneg h1 hr0
  have h3 : 0 ≤ D * (1 - J) * (1 - R) := mul_nonneg h1 (by linarith)
  constructor <;> nlinarith

/-! ### jitter without sign conditions; signs of the numerators -/

/-- a point `a + (b − a)·R` with `0 ≤ R ≤ 1` lies between its ends, whichever of them is the larger. -/
theorem between_ends_rat (a b R : ℚ) (h0 : 0 ≤ R) (h1 : R ≤ 1) :
    min a b ≤ a + (b - a) * R ∧ a + (b - a) * R ≤ max a b := by
  rcases le_total a b with hab | hab
  · rw [min_eq_left hab, max_eq_right hab]
    have h2 : 0 ≤ (b - a) * R := mul_nonneg (by linarith) h0
    have h3 : 0 ≤ (b - a) * (1 - R) := mul_nonneg (by linarith) (by linarith)
    constructor <;> nlinarith
  · rw [min_eq_right hab, max_eq_left hab]
    have h2 : 0 ≤ (a - b) * R := mul_nonneg (by linarith) h0
    have h3 : 0 ≤ (a - b) * (1 - R) := mul_nonneg (by linarith) (by linarith)
    constructor <;> nlinarith

/-- `random.uniform(a, b)` with a fraction in `[0, 1]` lies between `a` and `b` in either order. -/
theorem uniform_between_ends (a b r : Num) (hr0 : 0 ≤ r.toRat) (hr1 : r.toRat ≤ 1) :
    min a.toRat b.toRat ≤ (uniform a b r).toRat ∧ (uniform a b r).toRat ≤ max a.toRat b.toRat := by
  rw [uniform_toRat]; exact between_ends_rat _ _ _ hr0 hr1

/-- the jittered duration lies between `jrc·d` and `d`, for `jrc` and `d` of ANY sign and size. -/
theorem randomize_between_ends (jrc d r : Num) (hr0 : 0 ≤ r.toRat) (hr1 : r.toRat ≤ 1) :
    min (jrc.toRat * d.toRat) d.toRat ≤ (randomize jrc d r).toRat ∧
    (randomize jrc d r).toRat ≤ max (jrc.toRat * d.toRat) d.toRat := by
  have h := uniform_between_ends (d.mul jrc) d r hr0 hr1
  rw [Num.toRat_mul, mul_comm d.toRat jrc.toRat] at h
  exact h

/-- the sign of a `Num` is the sign of its numerator (what `time.sleep`'s check looks at in the model). -/
theorem Num.toRat_nonneg_iff (x : Num) : 0 ≤ x.toRat ↔ 0 ≤ x.n := by
  simp only [Num.toRat]
  have hp : (0 : ℚ) < 2 ^ x.k := by positivity
  constructor
  · intro h
    by_contra hn
    have hneg : (x.n : ℚ) < 0 := by exact_mod_cast (not_le.mp hn)
    exact absurd h (not_le.mpr (div_neg_of_neg_of_pos hneg hp))
  · intro h
    exact div_nonneg (by exact_mod_cast h) (le_of_lt hp)

theorem Num.toRat_le_one_iff (x : Num) : x.toRat ≤ 1 ↔ x.n ≤ 2 ^ x.k := by
  simp only [Num.toRat]
  rw [div_le_one (by positivity)]
  exact_mod_cast Iff.rfl

theorem Num.mul_n_nonneg (a b : Num) (ha : 0 ≤ a.n) (hb : 0 ≤ b.n) : 0 ≤ (a.mul b).n :=
  Int.mul_nonneg ha hb

theorem Num.pow_n_nonneg (b : Num) (hb : 0 ≤ b.n) (n : Nat) : 0 ≤ (b.pow n).n := by
  induction n with
  | zero => simp [Num.pow]
  | succ n ih => exact Num.mul_n_nonneg _ _ ih hb

theorem Num.ofNat_n_nonneg (n : Nat) : 0 ≤ (Num.ofNat n).n := Int.natCast_nonneg n

/-- the cap keeps a non-negative duration non-negative when `sleepMax` (if given) is not negative.
    The condition on `sleepMax` cannot be dropped: `capSleep (some (-1)) 2 = -1` (see the `example` in
    Props/C06.lean). -/
theorem capSleep_n_nonneg (ms : Option Num) (d : Num) (hd : 0 ≤ d.n) (hm : ∀ m, ms = some m → 0 ≤ m.n) :
    0 ≤ (capSleep ms d).n := by
  rw [← Num.toRat_nonneg_iff, capSleep_toRat]
  apply capQ_nonneg _ _ ((Num.toRat_nonneg_iff d).mpr hd)
  intro x hx
  cases ms with
  | none => simp at hx
  | some m =>
    simp only [Option.map, Option.some.injEq] at hx
    rw [← hx]; exact (Num.toRat_nonneg_iff m).mpr (hm m rfl)

/-- jitter on a non-negative duration with a non-negative `jrc` and a fraction in `[0, 1]` is not negative
    (`jrc > 1` included: then the value lies in `[d, jrc·d]`). -/
theorem randomize_n_nonneg (jrc d r : Num) (hj : 0 ≤ jrc.n) (hd : 0 ≤ d.n)
    (hr0 : 0 ≤ r.toRat) (hr1 : r.toRat ≤ 1) : 0 ≤ (randomize jrc d r).n := by
  rw [← Num.toRat_nonneg_iff] at hj hd ⊢
  exact le_trans (le_min (mul_nonneg hj hd) hd) (randomize_between_ends jrc d r hr0 hr1).1

end Pypyr
