/-
  C15 helper lemmas: the loop of `files_in_to_out` (`runJobs`) over several in-place rewrites.
-/
import Props.Lemmas.C15_Exec

namespace Pypyr.FsRewrite

/-- Well-formed list of in-place rewrites against the directory `fs0`. -/
structure JobsWF (fs0 : Fs) (J : List Job) : Prop where
  srcExists : ∀ j ∈ J, (fs0.get? j.src).isSome
  tmpFresh : ∀ j ∈ J, fs0.get? j.tmp = none
  bodyOps : ∀ j ∈ J, ∀ op ∈ j.body, op.isBody = true
  /-- "no out, or out equal to in" -/
  inplace : ∀ j ∈ J, j.out = none ∨ j.out = some j.src
  /-- no in path is a symlink in its last component (single files: `symlink_in_replaces_link`) -/
  noLink : ∀ j ∈ J, j.dst = none

theorem jobOps_inplace (fs : Fs) (j : Job) (hc : (fs.get? j.src).isSome)
    (ho : j.out = none ∨ j.out = some j.src) :
    jobOps fs j = inplaceOps j.early j.src j.target j.tmp j.body := by
  have hcc : fs.contains j.src = true := by simpa [Fs.contains] using hc
  rcases ho with ho | ho
  · simp [jobOps, ho, isSameFile]
  · by_cases he : j.src = ""
    · simp [jobOps, ho, isSameFile, he]
    · simp [jobOps, ho, isSameFile, he, hcc]

/-- Every path that is not a temp name holds what it held in `fs0`, or it is a source holding its
    complete new content. -/
def Whole (fs0 : Fs) (J : List Job) (s : Fs) : Prop :=
  ∀ p, (∀ j ∈ J, p ≠ j.tmp) →
    s.get? p = fs0.get? p ∨ ∃ j ∈ J, p = j.src ∧ s.get? p = some (newContent j.body)

def NamesOk (fs0 : Fs) (J : List Job) (s : Fs) : Prop :=
  s.names = fs0.names ∨ ∃ j ∈ J, s.names = fs0.names ++ [j.tmp]

variable {fs0 : Fs} {J : List Job}

theorem whole_AB {cur s : Fs} {j : Job} (hj : j ∈ J) (hw : Whole fs0 J cur) (hs : AB cur j.tmp s) :
    Whole fs0 J s := by
  intro p hp
  rcases hs with rfl | ⟨c, rfl⟩
  · exact hw p hp
  · rw [Fs.get?_append_other (hp j hj)]
    exact hw p hp

theorem whole_C {cur : Fs} {j : Job} (hj : j ∈ J) (hw : Whole fs0 J cur) :
    Whole fs0 J (cur.set j.src (newContent j.body)) := by
  intro p hp
  by_cases hps : p = j.src
  · subst hps
    exact Or.inr ⟨j, hj, rfl, Fs.get?_set_self⟩
  · rw [Fs.get?_set_other hps]
    exact hw p hp

theorem isSome_of_names_eq {a b : Fs} (h : a.names = b.names) (p : String) :
    (a.get? p).isSome = (b.get? p).isSome := by
  have ha := @Fs.get?_eq_none_iff_not_mem a p
  have hb := @Fs.get?_eq_none_iff_not_mem b p
  rw [h] at ha
  cases hx : a.get? p <;> cases hy : b.get? p <;> simp_all

/-- The LAST job of the list whose source is `p` (`in` may match a file more than once: `get_glob`
    chains the per-pattern globs without de-duplication; the later rewrite works on the result of the
    earlier one). -/
def lastJob (js : List Job) (p : String) : Option Job := js.reverse.find? (·.src == p)

theorem lastJob_cons (j : Job) (js : List Job) (p : String) :
    lastJob (j :: js) p = match lastJob js p with
      | some x => some x
      | none => if j.src == p then some j else none := by
  simp only [lastJob, List.reverse_cons, List.find?_append]
  cases h : List.find? (fun x => x.src == p) js.reverse with
  | some x => simp
  | none =>
    cases hp : (j.src == p) <;> simp [List.find?, hp]

theorem lastJob_none {js : List Job} {p : String} (h : lastJob js p = none) : ∀ j ∈ js, p ≠ j.src := by
  intro j hj he
  simp only [lastJob, List.find?_eq_none] at h
  have := h j (List.mem_reverse.mpr hj)
  simp [he] at this

theorem lastJob_mem {js : List Job} {p : String} {j : Job} (h : lastJob js p = some j) : j ∈ js ∧ j.src = p := by
  simp only [lastJob] at h
  have h1 := List.mem_of_find?_eq_some h
  have h2 := List.find?_some h
  exact ⟨List.mem_reverse.mp h1, by simpa using h2⟩

theorem lastJob_isSome {js : List Job} {j : Job} (hj : j ∈ js) : ∃ j', lastJob js j.src = some j' := by
  cases h : lastJob js j.src with
  | some x => exact ⟨x, rfl⟩
  | none => exact absurd rfl (lastJob_none h j hj)

/-- With pairwise distinct sources the last job for a source is the job itself. -/
theorem lastJob_of_nodup : ∀ {js : List Job}, (js.map (·.src)).Nodup → ∀ {j : Job}, j ∈ js →
    lastJob js j.src = some j := by
  intro js
  induction js with
  | nil => intro _ j hj; simp at hj
  | cons x xs ih =>
    intro hnd j hj
    simp only [List.map_cons, List.nodup_cons] at hnd
    rw [lastJob_cons]
    rcases List.mem_cons.mp hj with rfl | hj'
    · cases h : lastJob xs j.src with
      | none => simp
      | some y =>
        have := lastJob_mem h
        exact absurd (List.mem_map.mpr ⟨y, this.1, this.2⟩) hnd.1
    · rw [ih hnd.2 hj']

/-- What is proved about a run of `runJobs` over the jobs `js ⊆ J` from directory `cur` — for ANY list
    of in-place jobs: sources may repeat. -/
structure MPost (fs0 : Fs) (J js : List Job) (cfg : Cfg) (plan : Plan) (cur : Fs)
    (r : Outcome × Trace) : Prop where
  whole : ∀ ev ∈ r.2, Whole fs0 J ev.2
  names : ∀ ev ∈ r.2, NamesOk fs0 J ev.2
  frame : ∀ p, (∀ j ∈ js, p ≠ j.src) → (∀ j ∈ J, p ≠ j.tmp) → ∀ ev ∈ r.2, ev.2.get? p = cur.get? p
  ok : r.1 = .ok → (final cur r.2).names = fs0.names ∧
        ∀ p j, lastJob js p = some j → (final cur r.2).get? p = some (newContent j.body)
  raised : ∀ i, r.1 = .raised i → cfg.cleanupWrite = true → cfg.cleanupBase = true → cfg.closeInTry = true →
        (∀ ev ∈ r.2, ev.1 ≠ "removeTemp!") → (final cur r.2).names = fs0.names
  raisedNames : ∀ i, r.1 = .raised i → NamesOk fs0 J (final cur r.2)
  killed : ∀ i, r.1 = .killed i → NamesOk fs0 J (final cur r.2)
  raisedAt : ∀ i, r.1 = .raised i → plan i = .raise ∨ plan i = .raiseBase
  rmNeeds2 : ∀ ev ∈ r.2, ev.1 = "removeTemp!" → ∃ k, TwoFaults plan k

theorem final_mem_or (cur : Fs) (tr : Trace) : final cur tr = cur ∨ ∃ ev ∈ tr, ev.2 = final cur tr := by
  induction tr generalizing cur with
  | nil => exact Or.inl rfl
  | cons e tr ih =>
    rw [final_cons]
    rcases ih e.2 with h | ⟨ev, hm, he⟩
    · exact Or.inr ⟨e, List.mem_cons_self, h.symm⟩
    · exact Or.inr ⟨ev, List.mem_cons_of_mem _ hm, he⟩

theorem runJobs_post (cfg : Cfg) (plan : Plan) (wf : JobsWF fs0 J) :
    ∀ (js : List Job), (∀ j ∈ js, j ∈ J) →
    ∀ (i : Nat) (cur : Fs), Whole fs0 J cur → cur.names = fs0.names →
      MPost fs0 J js cfg plan cur (runJobs cfg plan i cur js) := by
  intro js
  induction js with
  | nil =>
    intro _ i cur hw hn
    simp only [runJobs]
    exact {
      whole := by intro ev hm; simp at hm
      names := by intro ev hm; simp at hm
      frame := by intro p _ _ ev hm; simp at hm
      ok := by intro _; exact ⟨by simpa [final_nil] using hn, by intro p j hj; simp [lastJob] at hj⟩
      raised := by intro i h; cases h
      raisedNames := by intro i h; cases h
      killed := by intro i h; cases h
      raisedAt := by intro i h; cases h
      rmNeeds2 := by intro ev hm; simp at hm }
  | cons j js ih =>
    intro hsub i cur hw hn
    have hjJ : j ∈ J := hsub j List.mem_cons_self
    have hsub' : ∀ j' ∈ js, j' ∈ J := fun j' h => hsub j' (List.mem_cons_of_mem _ h)
    -- facts about the current directory
    have hs : (cur.get? j.src).isSome := by
      rw [isSome_of_names_eq hn]; exact wf.srcExists j hjJ
    have h0 : cur.get? j.tmp = none := by
      have := isSome_of_names_eq hn j.tmp
      rw [wf.tmpFresh j hjJ] at this
      cases hx : cur.get? j.tmp with
      | none => rfl
      | some _ => simp [hx] at this
    have hne : j.src ≠ j.tmp := by
      intro he; rw [he, h0] at hs; cases hs
    have htgt : j.target = j.src := by simp [Job.target, wf.noLink j hjJ]
    have hops := jobOps_inplace cur j hs (wf.inplace j hjJ)
    rw [htgt] at hops
    have P := exec_inplace (fs0 := cur) (src := j.src) (dst := j.src) (tmp := j.tmp) (cfg := cfg) (plan := plan)
      j.early j.body (wf.bodyOps j hjJ) h0 hs i
    -- per-event facts of this job
    have hshapeW : ∀ ev ∈ (exec cfg plan i { fs := cur } (inplaceOps j.early j.src j.src j.tmp j.body)).2,
        Whole fs0 J ev.2 := by
      intro ev hm
      rcases P.shape ev hm with hab | ⟨_, hc⟩
      · exact whole_AB hjJ hw hab
      · rw [hc]; exact whole_C hjJ hw
    have hnamesAB : ∀ s, AB cur j.tmp s → NamesOk fs0 J s := by
      intro s hab
      rcases hab with rfl | ⟨c, rfl⟩
      · exact Or.inl hn
      · exact Or.inr ⟨j, hjJ, by rw [Fs.names_append, hn]⟩
    have hnamesC : (cur.set j.src (newContent j.body)).names = fs0.names := by
      rw [Fs.names_set_of_mem hs, hn]
    have hshapeN : ∀ ev ∈ (exec cfg plan i { fs := cur } (inplaceOps j.early j.src j.src j.tmp j.body)).2,
        NamesOk fs0 J ev.2 := by
      intro ev hm
      rcases P.shape ev hm with hab | ⟨_, hc⟩
      · exact hnamesAB _ hab
      · rw [hc]; exact Or.inl hnamesC
    have hframe1 : ∀ p, p ≠ j.src → (∀ j' ∈ J, p ≠ j'.tmp) →
        ∀ ev ∈ (exec cfg plan i { fs := cur } (inplaceOps j.early j.src j.src j.tmp j.body)).2,
          ev.2.get? p = cur.get? p := by
      intro p hps hpt ev hm
      rcases P.shape ev hm with hab | ⟨_, hc⟩
      · rcases hab with h | ⟨c, h⟩
        · rw [h]
        · rw [h, Fs.get?_append_other (hpt j hjJ)]
      · rw [hc, Fs.get?_set_other hps]
    simp only [runJobs, runJob, hops]
    cases hout : (exec cfg plan i { fs := cur } (inplaceOps j.early j.src j.src j.tmp j.body)).1 with
    | ok =>
      simp only []
      have hfin := P.ok hout
      have hw' : Whole fs0 J (cur.set j.src (newContent j.body)) := whole_C hjJ hw
      have Q := ih hsub' (i + (inplaceOps j.early j.src j.src j.tmp j.body).length)
        (cur.set j.src (newContent j.body)) hw' hnamesC
      rw [hfin]
      have htmp_ne : ∀ j' ∈ J, j.src ≠ j'.tmp := by
        intro j' hj' he
        have := wf.tmpFresh j' hj'
        have h2 := wf.srcExists j hjJ
        rw [he, this] at h2; cases h2
      exact {
        whole := by
          intro ev hm
          rcases List.mem_append.mp hm with h | h
          · exact hshapeW ev h
          · exact Q.whole ev h
        names := by
          intro ev hm
          rcases List.mem_append.mp hm with h | h
          · exact hshapeN ev h
          · exact Q.names ev h
        frame := by
          intro p hps hpt ev hm
          have hp1 : p ≠ j.src := hps j List.mem_cons_self
          rcases List.mem_append.mp hm with h | h
          · exact hframe1 p hp1 hpt ev h
          · rw [Q.frame p (fun j' hj' => hps j' (List.mem_cons_of_mem _ hj')) hpt ev h,
              Fs.get?_set_other hp1]
        ok := by
          intro ho
          have := Q.ok ho
          rw [final_append, hfin]
          refine ⟨this.1, ?_⟩
          intro p j' hj'
          rw [lastJob_cons] at hj'
          cases hl : lastJob js p with
          | some x =>
            rw [hl] at hj'
            cases hj'
            exact this.2 p _ hl
          | none =>
            rw [hl] at hj'
            by_cases hp : (j.src == p) = true
            · simp only [hp, if_true, Option.some.injEq] at hj'
              subst hj'
              have hp' : j.src = p := by simpa using hp
              subst hp'
              -- the later jobs do not touch this source
              rcases final_mem_or (cur.set j.src (newContent j.body))
                  (runJobs cfg plan (i + (inplaceOps j.early j.src j.src j.tmp j.body).length)
                    (cur.set j.src (newContent j.body)) js).2 with h | ⟨ev, hm, he⟩
              · rw [h]; exact Fs.get?_set_self
              · rw [← he, Q.frame j.src (lastJob_none hl) htmp_ne ev hm]; exact Fs.get?_set_self
            · simp [hp] at hj'
        raised := by
          intro i' hr hc hb ht hrm
          rw [final_append, hfin]
          exact Q.raised i' hr hc hb ht (fun ev hm => hrm ev (List.mem_append_right _ hm))
        raisedNames := by
          intro i' hr
          rw [final_append, hfin]
          exact Q.raisedNames i' hr
        killed := by
          intro i' hk
          rw [final_append, hfin]
          exact Q.killed i' hk
        raisedAt := Q.raisedAt
        rmNeeds2 := by
          intro ev hm he
          rcases List.mem_append.mp hm with h | h
          · exact P.rmNeeds2 ev h he
          · exact Q.rmNeeds2 ev h he }
    | raised i' =>
      simp only []
      exact {
        whole := hshapeW
        names := hshapeN
        frame := by
          intro p hps hpt ev hm
          exact hframe1 p (hps j List.mem_cons_self) hpt ev hm
        ok := by intro h; cases h
        raised := by
          intro i'' h hc hb ht hrm
          cases h
          rw [P.raised i' hout hc hb ht hrm]; exact hn
        raisedNames := by
          intro i'' h
          exact hnamesAB _ (P.raisedAB i' hout)
        killed := by intro i'' h; cases h
        raisedAt := by intro i'' h; cases h; exact P.raisedAt i' hout
        rmNeeds2 := P.rmNeeds2 }
    | killed i' =>
      simp only []
      exact {
        whole := hshapeW
        names := hshapeN
        frame := by
          intro p hps hpt ev hm
          exact hframe1 p (hps j List.mem_cons_self) hpt ev hm
        ok := by intro h; cases h
        raised := by intro i'' h; cases h
        raisedNames := by intro i'' h; cases h
        killed := by
          intro i'' h
          exact hnamesAB _ (P.killed i' hout)
        raisedAt := by intro i'' h; cases h
        rmNeeds2 := P.rmNeeds2 }

end Pypyr.FsRewrite
