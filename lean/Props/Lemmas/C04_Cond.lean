/-
  C04 helper lemmas: `run_conditional_decorators` as "decide, then run the body and post-process
  its result", and the evaluation of a `'{key}'` decorator expression against the context.
-/
import Props.Lemmas.C04_Ctx

namespace Pypyr.C04
open Pypyr Pypyr.Flow

/-- What `run_conditional_decorators` does with the outcome of the body it decided to run:
    an error makes it evaluate `swallow` on the state the body left, record the error
    (unless it came out of called groups, where it is already recorded) and then either
    suppress or re-raise it; every other outcome passes unchanged. -/
def swallowWrap (d : StepDef) (p : St × Res) : St × Res :=
  match p.2 with
  | .err e handled =>
    let s1 := logEscape d p.1 e handled      -- ghost log of the event; nothing observable changes
    match fmtB s1 d.swallow with
    | .error x => raiseExc s1 x
    | .ok sw =>
      match (if handled then (s1, Res.ok) else saveError d s1 e sw) with
      | (s2, .ok) => if sw then (s2, .ok) else (s2, .err e false)
      | other => other
  | other => (p.1, other)

/-- the ghost log changes nothing but `escapes`. -/
theorem logEscape_ctx (d : StepDef) (s1 : St) (e : ExcV) (h : Bool) : (logEscape d s1 e h).ctx = s1.ctx := by
  unfold logEscape; split <;> rfl
theorem logEscape_trace (d : StepDef) (s1 : St) (e : ExcV) (h : Bool) : (logEscape d s1 e h).trace = s1.trace := by
  unfold logEscape; split <;> rfl
theorem logEscape_sleeps (d : StepDef) (s1 : St) (e : ExcV) (h : Bool) : (logEscape d s1 e h).sleeps = s1.sleeps := by
  unfold logEscape; split <;> rfl
theorem logEscape_stack (d : StepDef) (s1 : St) (e : ExcV) (h : Bool) : (logEscape d s1 e h).stack = s1.stack := by
  unfold logEscape; split <;> rfl
theorem logEscape_nextExc (d : StepDef) (s1 : St) (e : ExcV) (h : Bool) : (logEscape d s1 e h).nextExc = s1.nextExc := by
  unfold logEscape; split <;> rfl
theorem logEscape_rnd (d : StepDef) (s1 : St) (e : ExcV) (h : Bool) : (logEscape d s1 e h).rnd = s1.rnd := by
  unfold logEscape; split <;> rfl
theorem fmtB_logEscape (d : StepDef) (s1 : St) (e : ExcV) (h : Bool) (v : Val) :
    fmtB (logEscape d s1 e h) v = fmtB s1 v := by
  unfold fmtB; rw [logEscape_ctx]

theorem runConditional_eq (d : StepDef) (inner : Body) (s : St) :
    runConditional d inner s =
      (match fmtB s d.run with
       | .error x => raiseExc s x
       | .ok false => (s, .ok)
       | .ok true =>
         match fmtB s d.skip with
         | .error x => raiseExc s x
         | .ok true => (s, .ok)
         | .ok false => swallowWrap d (inner s)) := by
  unfold runConditional
  cases fmtB s d.run with
  | error x => rfl
  | ok r =>
    cases r with
    | false => rfl
    | true =>
      simp only []
      cases fmtB s d.skip with
      | error x => rfl
      | ok k =>
        cases k with
        | true => rfl
        | false =>
          simp only [swallowWrap]
          generalize inner s = p
          obtain ⟨s1, r⟩ := p
          cases r <;> rfl

theorem swallowWrap_nonerr (d : StepDef) (s1 : St) (r : Res) (hr : r.isErr = false) :
    swallowWrap d (s1, r) = (s1, r) := by
  cases r <;> simp_all [swallowWrap, Res.isErr]

theorem swallowWrap_trace (d : StepDef) (p : St × Res) : (swallowWrap d p).1.trace = p.1.trace := by
  obtain ⟨s1, r⟩ := p
  unfold swallowWrap
  cases r with
  | err e handled =>
    simp only []
    have hl := logEscape_trace d s1 e handled
    generalize logEscape d s1 e handled = s1' at hl ⊢
    split
    · exact hl
    · rename_i sw _
      by_cases hh : handled = true
      · simp only [hh, if_true]; split <;> exact hl
      · simp only [hh]
        have hs : (saveError d s1' e sw).1.trace = s1.trace := by
          rw [← hl]
          unfold saveError; simp only []
          repeat' split
          all_goals rfl
        generalize saveError d s1' e sw = q at hs ⊢
        obtain ⟨s2, r2⟩ := q
        cases r2 <;> simp only [Bool.false_eq_true, if_false] <;> first | exact hs | (split <;> exact hs)
  | _ => rfl

/-! ### a decorator given as the expression `'{key}'` -/

instance {ε α} [DecidableEq ε] [DecidableEq α] : DecidableEq (Except ε α) := fun a b =>
  match a, b with
  | .ok x, .ok y => if h : x = y then isTrue (by rw [h]) else isFalse (by intro h'; cases h'; exact h rfl)
  | .error x, .error y => if h : x = y then isTrue (by rw [h]) else isFalse (by intro h'; cases h'; exact h rfl)
  | .ok _, .error _ => isFalse (by intro h; cases h)
  | .error _, .ok _ => isFalse (by intro h; cases h)

/-- formatting the expression `'{k}'` (text `fs`) when the context holds a bool under `k`
    yields that bool. -/
theorem fmtB_key_bool (s : St) (fs k : String) (b : Bool)
    (hp : parsePieces fs = .ok [.field k ""])
    (hk : Ctx.get? s.ctx k = some (.bool b)) :
    fmtB s (.str fs) = .ok b := by
  have h1 : fmtIter FMT_FUEL s.ctx false (.str fs) = .ok (.bool b) := by
    simp [FMT_FUEL, fmtIter, fmtKeepType, fmtField, hp, hk]
  simp [fmtB, fmtAsBool, isSpecialTag, h1]

/-! ### the decorator stack of one step -/

/-- retry (if declared) around invoke. -/
def retriedLayer (d : StepDef) (body : Body) (callee : CofCfg → Body) (fuel : Nat) : Frame → Body := fun fr =>
  match d.retry with
  | some rc => retryLoop rc { fr with retryC := some 0 } (fun fr => invokeStep fr body callee) fuel
  | none => invokeStep fr body callee

/-- run/skip/swallow around retry. -/
def conditionalLayer (d : StepDef) (body : Body) (callee : CofCfg → Body) (fuel : Nat) : Frame → Body :=
  fun fr => runConditional d (retriedLayer d body callee fuel fr)

/-- foreach (if declared) around run/skip/swallow. -/
def foreachLayer (d : StepDef) (body : Body) (callee : CofCfg → Body) (fuel : Nat) : Frame → Body :=
  fun fr => foreachOrConditional d fr (conditionalLayer d body callee fuel)

/-- while (if declared) around foreach: everything `run_step` does between putting the `in`
    arguments into the context and taking them out again. -/
def stepCore (d : StepDef) (body : Body) (callee : CofCfg → Body) (fuel : Nat) : Body :=
  match d.while_ with
  | some wc => whileLoop wc { whileC := some 0 } (foreachLayer d body callee fuel) fuel
  | none => foreachLayer d body callee fuel {}

theorem runStepWith_eq (d : StepDef) (body : Body) (callee : CofCfg → Body) (fuel : Nat) (s : St) :
    runStepWith d body callee fuel s =
      (match stepCore d body callee fuel (setIn d s) with
       | (s1, .ok) => (unsetIn d s1, .ok)
       | other => other) := by
  unfold runStepWith stepCore foreachLayer conditionalLayer retriedLayer
  cases d.while_ <;> rfl

end Pypyr.C04
