/- `CacheTS.Scan`: `LoaderCache.clear_pipes` (as repaired: snapshot under the lock, clears outside it) next to
   the one-lock system, and `CacheTS.ScanPre` (before the repair: unlocked iteration).
   * the sweeping steps only READ the table, so the inductive invariant of the one-lock system — and with it
     every safety clause — survives (both variants);
   * repaired variant: every finished `clear_pipes` call cleared exactly the list it read, and the list read
     under the lock is the table of that moment (`mem_visible`);
   * pre-fix variant: the sweep itself can fail (`Props/C13.lean`, `clear_pipes_race_pre_fix`). -/
import Props.Lemmas.C13_Inv
import Props.Lemmas.C13_Spec

namespace Pypyr.CacheTS

/-- handing a thread its next operations (the program counter and everything shared stay as they are)
    keeps the invariant: no component of it mentions `ops` -/
theorem inv_feed (cfg : Cfg) (st : State) (t : Tid) (ops' : List Op) (h : Inv cfg st) :
    Inv cfg (st.setThread t { st.threads t with ops := ops' }) := by
  have hpc : ∀ u, ((st.setThread t { st.threads t with ops := ops' }).threads u).pc = (st.threads u).pc := by
    intro u; by_cases hut : u = t <;> simp [hut]
  have hres : ∀ u, ((st.setThread t { st.threads t with ops := ops' }).threads u).results = (st.threads u).results := by
    intro u; by_cases hut : u = t <;> simp [hut]
  have heff : effCache (st.setThread t { st.threads t with ops := ops' }) = effCache st := by
    unfold effCache
    simp only [setThread_lock, setThread_cache, hpc]
  refine ⟨?_, ?_, ?_, ?_, ?_, ⟨?_, ?_, ?_, ?_, ?_⟩, ?_⟩
  · intro u; rw [hpc]; exact h.mutex u
  · intro u k; rw [hpc]; exact h.miss u k
  · intro u; rw [hpc]; exact h.mode u
  · intro hnc; rw [heff]; exact h.refines hnc
  · intro u; rw [hpc, hres]; exact h.results u
  · exact h.fresh.histLt
  · intro u c; rw [hpc]; exact h.fresh.inflLt u c
  · intro u c; rw [hpc]; exact h.fresh.inflNotHist u c
  · intro u w c; rw [hpc, hpc]; exact h.fresh.inflDistinct u w c
  · exact h.fresh.nodup
  · exact h.bypass

namespace Scan

@[simp] theorem setScan_base (x : XState) (t : Tid) (sc : SThread) : (x.setScan t sc).base = x.base := rfl
@[simp] theorem setScan_scan (x : XState) (t : Tid) (sc : SThread) (u : Tid) :
    (x.setScan t sc).scan u = if u = t then sc else x.scan u := rfl

/-- one step of the extended system changes the one-lock state by a step of the one-lock system
    (possibly after handing the thread its next operation), or not at all -/
theorem xstep_inv (cfg : Cfg) (sk : Key) (x : XState) (t : Tid) (h : Inv cfg x.base) : Inv cfg (xstep cfg sk x t).base := by
  unfold xstep
  simp only []
  split
  · split
    · exact h
    · split
      · exact inv_step cfg _ t h
      · exact inv_step cfg _ t h
  · split <;> exact h
  · split <;> exact h
  · exact h
  · split
    · split
      · exact h
      · exact inv_step cfg _ t (inv_feed cfg x.base t _ h)
      · exact inv_step cfg _ t (inv_feed cfg x.base t _ h)
      · exact h
    · exact inv_step cfg _ t h

theorem xrun_inv (cfg : Cfg) (sk : Key) : ∀ (sched : List Tid) (x : XState), Inv cfg x.base →
    Inv cfg (xrun cfg sk x sched).base := by
  intro sched
  induction sched with
  | nil => intro x h; exact h
  | cons t ts ih => intro x h; exact ih _ (xstep_inv cfg sk x t h)

theorem xinit_inv (cfg : Cfg) (prog : Tid → List SOp) : Inv cfg (xinit cfg prog).base := inv_init cfg _

/-! #### what a sweep clears -/

def SRes.cleared : SRes → List Obj
  | .swept cs | .sizeChanged cs => cs

def SRes.ok : SRes → Bool
  | .swept _ => true
  | .sizeChanged _ => false

/-- bookkeeping of one thread's sweeps: every finished call cleared exactly the list it had read, without
    failing; the call in progress has cleared a prefix of its list and will clear the rest -/
def SweepOk (sc : SThread) : Prop :=
  (∀ r ∈ sc.sres, r.ok = true) ∧
  match sc.spc with
  | .off | .snapping _ => sc.sres.map SRes.cleared = sc.snaps
  | .iter todo done => sc.snaps = (done.reverse ++ todo) :: sc.sres.map SRes.cleared
  | .clrWant todo done c | .clrRel todo done c => sc.snaps = (done.reverse ++ c :: todo) :: sc.sres.map SRes.cleared

theorem sweepOk_step (cfg : Cfg) (sk : Key) (x : XState) (t u : Tid) (h : SweepOk (x.scan u)) :
    SweepOk ((xstep cfg sk x t).scan u) := by
  by_cases hut : u = t
  · subst hut
    unfold xstep
    simp only []
    unfold SweepOk at h ⊢
    cases hpc : (x.scan u).spc with
    | off =>
      simp only [hpc] at h ⊢
      split
      · split <;> simp_all
      · simpa [hpc] using h
    | snapping snap =>
      simp only [hpc] at h ⊢
      split
      · simp_all
      · split <;> simp_all
    | iter todo done =>
      simp only [hpc] at h ⊢
      cases todo with
      | nil => simp_all [SRes.ok, SRes.cleared]
      | cons c rest => simp_all
    | clrWant todo done c =>
      simp only [hpc] at h ⊢
      split <;> simp_all
    | clrRel todo done c =>
      simp only [hpc] at h ⊢
      simp_all
  · have : (xstep cfg sk x t).scan u = x.scan u := by
      unfold xstep
      simp only []
      split
      · split
        · simp [hut]
        · split <;> simp [hut]
      · split <;> simp [hut]
      · split <;> simp [hut]
      · simp [hut]
      · split
        · split <;> simp [hut]
        · rfl
    rw [this]; exact h

theorem sweepOk_run (cfg : Cfg) (sk : Key) : ∀ (sched : List Tid) (x : XState), (∀ u, SweepOk (x.scan u)) →
    ∀ u, SweepOk ((xrun cfg sk x sched).scan u) := by
  intro sched
  induction sched with
  | nil => intro x h; exact h
  | cons t ts ih => intro x h; exact ih _ (fun u => sweepOk_step cfg sk x t u (h u))

theorem sweepOk_init (cfg : Cfg) (prog : Tid → List SOp) (u : Tid) : SweepOk ((xinit cfg prog).scan u) := by
  simp [SweepOk, xinit]

/-! #### the list read under the lock is the table -/

/-- what the atomic specification's table holds for an unseeded key = the creations since the last clear -/
theorem spec_epochCreates {cfg : Cfg} {k : Key} (hseed : cfg.seed k = none) :
    ∀ {h : List Ev} {s}, specRun cfg h = some s → ∀ c, (s k = some c ↔ (k, c) ∈ epochCreates h) := by
  intro h
  induction h with
  | nil => intro s hr c; simp [specRun] at hr; subst hr; simp [epochCreates, hseed]
  | cons e h ih =>
    intro s hr c
    obtain ⟨s', hs', hstep⟩ := specRun_cons hr
    have ih' := ih hs'
    cases e with
    | clear t => simp [specStep] at hstep; subst hstep; simp [epochCreates, hseed]
    | hit t k' c' =>
      simp only [specStep] at hstep
      split at hstep
      · simp only [Option.some.injEq] at hstep; subst hstep; simpa [epochCreates] using ih' c
      · cases hstep
    | create t k' c' =>
      simp only [specStep] at hstep
      split at hstep
      · rename_i hk
        simp only [Option.some.injEq] at hstep
        subst hstep
        simp only [epochCreates, List.mem_append, List.mem_singleton, Prod.mk.injEq]
        by_cases hkk : k = k'
        · subst hkk
          have hno : ∀ c'', (k, c'') ∉ epochCreates h := by
            intro c'' hm
            have := (ih' c'').2 hm
            rw [hk.1] at this; cases this
          simp only [setKey, if_true, Option.some.injEq]
          constructor
          · intro e; exact .inr ⟨trivial, e.symm⟩
          · rintro (hm | ⟨_, e⟩)
            · exact absurd hm (hno c)
            · exact e.symm
        · simp only [setKey, hkk, if_false, false_and, or_false]
          exact ih' c
      · cases hstep
    | fail t k' c' =>
      simp only [specStep] at hstep
      split at hstep
      · simp only [Option.some.injEq] at hstep; subst hstep; simpa [epochCreates] using ih' c
      · cases hstep

/-- `mem_visible`: in cached mode the entries a reader sees (`visible`) are exactly the table's entries for the
    unseeded keys: whatever the table holds was created since the last clear, and a creation whose store has
    not happened yet is not seen -/
theorem mem_visible {cfg : Cfg} {st : State} (hi : Inv cfg st) (hnc : cfg.noCache = false) {k : Key} {c : Obj}
    (hseed : cfg.seed k = none) : (k, c) ∈ visible st ↔ st.cache k = some c := by
  unfold visible
  simp only [List.mem_filter, beq_iff_eq]
  constructor
  · exact fun h => h.2
  · intro hc
    refine ⟨?_, hc⟩
    have href := hi.refines hnc
    apply (spec_epochCreates hseed href c).1
    -- the specification's table agrees with the stored one except at the pending store, whose key is absent
    unfold effCache
    cases hl : st.lock with
    | none => exact hc
    | some w =>
      simp only []
      cases hp : (st.threads w).pc.pendingStore with
      | none => exact hc
      | some kc =>
        obtain ⟨k', c'⟩ := kc
        simp only []
        have hmiss : st.cache k' = none := by
          apply hi.miss w k'
          cases hpc : (st.threads w).pc <;> simp_all [Pc.pendingStore, Pc.creating]
        have hne : k ≠ k' := by
          intro e; subst e; rw [hmiss] at hc; cases hc
        simp [setKey, hne, hc]

/-- the snapshot step: when thread `t` is at the lock-protected read of its `clear_pipes()` call, the step records
    the table of that moment -/
theorem snapshot_step (cfg : Cfg) (sk : Key) (x : XState) (t : Tid) (snap : Option (List Obj))
    (hs : (x.scan t).spc = .snapping snap) (hl : (x.base.threads t).pc = .locked (.get sk)) :
    ((xstep cfg sk x t).scan t).spc = .snapping (some ((visible x.base).map (·.2))) := by
  unfold xstep
  simp [hs, hl]

end Scan

end Pypyr.CacheTS
