/-
  C08 helper lemmas about the code-shaped model (`PypyrModel/Format.lean`): the per-field step and
  the loop of `_format_keep_type` expressed through `Spec` (the base-class `_vformat` on the format
  spec is `Spec.expandSpec`: Lemmas/C08_Nested.lean), and the finishing rule.
-/
import Props.Lemmas.C08_Parse
import Props.Lemmas.C08_Nested

set_option linter.unusedSimpArgs false

namespace Pypyr.Format

/-- The hypothesis under which a string is in the documented grammar: every TOP-LEVEL expression is a
    named reference (`Named`: not empty / all-digit — those are positional arguments, of which
    formatting with a context has none). Format specs are unrestricted: they may contain nested
    replacement fields to any depth, with any names. -/
def NamedTups (ts : List Tup) : Prop := ∀ t ∈ ts, ∀ f, t.field = some f → Named f.name

/-- Boolean check of `NamedTups`, for concrete examples. -/
def namedTupsB (ts : List Tup) : Bool :=
  ts.all fun t => match t.field with
    | none => true
    | some f => !f.name.isEmpty && !isDigitStr f.name

theorem namedTups_of_check (ts : List Tup) (h : namedTupsB ts = true) : NamedTups ts := by
  intro t ht f hf
  unfold namedTupsB at h
  have := List.all_eq_true.mp h t ht
  simp only [hf, Bool.and_eq_true, Bool.not_eq_true'] at this
  obtain ⟨h1, h2⟩ := this
  refine ⟨?_, h2⟩
  intro hn; rw [hn] at h1; simp at h1

/-! ## `RecursionSpec` in terms of the documented flags -/

theorem rf_ne_ff : (['r', 'f'] : List Char) ≠ ['f', 'f'] := by decide

theorem RSpec.parse_isRecursive (spec : List Char) : (RSpec.parse spec).isRecursive = Spec.isRf spec := by
  unfold RSpec.parse Spec.isRf
  by_cases h1 : spec.take 2 = ['r', 'f']
  · simp [h1]
  · by_cases h2 : spec.take 2 = ['f', 'f'] <;> simp [h1, h2]

theorem RSpec.parse_isFlat (spec : List Char) : (RSpec.parse spec).isFlat = Spec.isFf spec := by
  unfold RSpec.parse Spec.isFf
  by_cases h1 : spec.take 2 = ['r', 'f']
  · simp [h1]
  · by_cases h2 : spec.take 2 = ['f', 'f'] <;> simp [h1, h2]

theorem RSpec.parse_hasRecursed (spec : List Char) : (RSpec.parse spec).hasRecursed = false := by
  unfold RSpec.parse
  by_cases h1 : spec.take 2 = ['r', 'f']
  · simp [h1]
  · by_cases h2 : spec.take 2 = ['f', 'f'] <;> simp [h1, h2]

theorem RSpec.parse_formatSpec (spec : List Char) : (RSpec.parse spec).formatSpec = Spec.specBody spec := by
  unfold RSpec.parse Spec.specBody Spec.isRf Spec.isFf
  by_cases h1 : spec.take 2 = ['r', 'f']
  · simp [h1]
  · by_cases h2 : spec.take 2 = ['f', 'f'] <;> simp [h1, h2]

theorem RSpec.parse_conversion (spec : List Char) : (RSpec.parse spec).conversion = none := by
  unfold RSpec.parse
  by_cases h1 : spec.take 2 = ['r', 'f']
  · simp [h1]
  · by_cases h2 : spec.take 2 = ['f', 'f'] <;> simp [h1, h2]

/-- the `RecursionSpec` a field ends up with in `result` (before a pending conversion is noted) -/
def rsOf (isRec : Bool) (spec : List Char) : RSpec :=
  let rs := RSpec.parse spec
  if rs.isRecursive || (isRec && !rs.isFlat) then { rs with hasRecursed := true } else rs

theorem rsOf_formatSpec (isRec : Bool) (spec : List Char) : (rsOf isRec spec).formatSpec = Spec.specBody spec := by
  unfold rsOf; simp only []; split <;> simp [RSpec.parse_formatSpec]

theorem rsOf_skip (isRec : Bool) (spec : List Char) :
    ((rsOf isRec spec).hasRecursed || (rsOf isRec spec).isFlat) = (Spec.isRf spec || Spec.isFf spec || isRec) := by
  unfold rsOf; simp only []
  split
  · rename_i h
    simp only [RSpec.parse_isRecursive, RSpec.parse_isFlat] at h ⊢
    cases h1 : Spec.isRf spec <;> cases h2 : Spec.isFf spec <;> cases isRec <;> simp_all
  · rename_i h
    simp only [RSpec.parse_isRecursive, RSpec.parse_isFlat, RSpec.parse_hasRecursed] at h ⊢
    cases h1 : Spec.isRf spec <;> cases h2 : Spec.isFf spec <;> cases isRec <;> simp_all

theorem rsOf_isRecursive (isRec : Bool) (spec : List Char) : (rsOf isRec spec).isRecursive = Spec.isRf spec := by
  unfold rsOf; simp only []; split <;> simp [RSpec.parse_isRecursive]

theorem RSpec.parse_eq (spec : List Char) :
    RSpec.parse spec = ⟨Spec.isRf spec, Spec.isFf spec, false, Spec.specBody spec, none⟩ := by
  have h1 := RSpec.parse_isRecursive spec
  have h2 := RSpec.parse_isFlat spec
  have h3 := RSpec.parse_hasRecursed spec
  have h4 := RSpec.parse_formatSpec spec
  have h5 := RSpec.parse_conversion spec
  cases h : RSpec.parse spec
  rw [h] at h1 h2 h3 h4 h5
  simp only at h1 h2 h3 h4 h5
  simp [h1, h2, h3, h4, h5]

theorem rsOf_eq (isRec : Bool) (spec : List Char) :
    rsOf isRec spec =
      ⟨Spec.isRf spec, Spec.isFf spec, Spec.isRf spec || (isRec && !Spec.isFf spec), Spec.specBody spec, none⟩ := by
  unfold rsOf
  simp only [RSpec.parse_eq]
  by_cases hc : (Spec.isRf spec || (isRec && !Spec.isFf spec)) = true
  · simp [hc]
  · have hc' : (Spec.isRf spec || (isRec && !Spec.isFf spec)) = false := by simpa using hc
    simp [hc']

/-! ## one field -/

theorem rsOf_conversion (isRec : Bool) (spec : List Char) : (rsOf isRec spec).conversion = none := by
  unfold rsOf; simp only []; split <;> simp [RSpec.parse_conversion]

theorem rsOf_with_none (isRec : Bool) (spec : List Char) :
    { rsOf isRec spec with conversion := none } = rsOf isRec spec := by
  have := rsOf_conversion isRec spec
  cases h : rsOf isRec spec
  rw [h] at this
  simp only at this
  simp [this]

theorem rsOf_of_cond (isRec : Bool) (spec : List Char)
    (h : (Spec.isRf spec || (isRec && !Spec.isFf spec)) = true) :
    rsOf isRec spec = { RSpec.parse spec with hasRecursed := true } := by
  unfold rsOf
  simp only [RSpec.parse_isRecursive, RSpec.parse_isFlat, h, if_true]

theorem rsOf_of_not_cond (isRec : Bool) (spec : List Char)
    (h : (Spec.isRf spec || (isRec && !Spec.isFf spec)) = false) :
    rsOf isRec spec = RSpec.parse spec := by
  unfold rsOf
  simp only [RSpec.parse_isRecursive, RSpec.parse_isFlat, h, Bool.false_eq_true, if_false]

/-- what an expression stands for in each of the three modes -/
theorem mode_rec (deep : Bool → Val → Except Exc Val) (isRec : Bool) (conv : Option Char) (obj : Val) (spec : List Char)
    (h : (Spec.isRf spec || (isRec && !Spec.isFf spec)) = true) :
    Spec.applyMode deep isRec conv obj spec =
      (match deep true obj with
       | .error e => .error e
       | .ok o => match convertField o conv with
         | .error e => .error e
         | .ok o' => .ok (o', none, spec)) := by
  simp only [Spec.applyMode, h, if_true, bind, Except.bind, pure, Except.pure]
  cases deep true obj with
  | error e => rfl
  | ok o => simp only []; cases hc : convertField o conv <;> simp [hc]

theorem isRf_isFf_excl (spec : List Char) (h : Spec.isRf spec = true) : Spec.isFf spec = false := by
  unfold Spec.isRf Spec.isFf at *
  simp only [decide_eq_true_eq] at h
  simp [h, rf_ne_ff]

theorem mode_ff (deep : Bool → Val → Except Exc Val) (isRec : Bool) (conv : Option Char) (obj : Val) (spec : List Char)
    (h : Spec.isFf spec = true) :
    Spec.applyMode deep isRec conv obj spec =
      (match convertField obj conv with
       | .error e => .error e
       | .ok o => .ok (o, none, spec)) := by
  have hrf : Spec.isRf spec = false := by
    cases h' : Spec.isRf spec
    · rfl
    · have := isRf_isFf_excl _ h'; rw [h] at this; cases this
  simp only [Spec.applyMode, h, hrf, bind, Except.bind, pure, Except.pure]
  simp only [Bool.false_eq_true, if_false, if_true, Bool.not_true, Bool.and_false, Bool.or_false]
  cases hc : convertField obj conv <;> simp [hc]

theorem mode_plain (deep : Bool → Val → Except Exc Val) (isRec : Bool) (conv : Option Char) (obj : Val) (spec : List Char)
    (h : (Spec.isRf spec || (isRec && !Spec.isFf spec)) = false) (hff : Spec.isFf spec = false) :
    Spec.applyMode deep isRec conv obj spec = .ok (obj, conv, spec) := by
  simp only [Spec.applyMode, h, Bool.false_eq_true, if_false, pure, Except.pure]
  simp only [hff, Bool.false_eq_true, if_false]

/-- `Spec.fieldObj` spelled out -/
theorem fieldObj_eq (deep : Bool → Val → Except Exc Val) (ctx : Ctx) (isRec : Bool) (f : FieldT) :
    Spec.fieldObj deep ctx isRec f =
      (match getField ctx f.name with
       | .error e => .error e
       | .ok obj => match Spec.expandSpec ctx f.spec with
         | .error e => .error e
         | .ok spec => Spec.applyMode deep isRec f.conv obj spec) := by
  simp only [Spec.fieldObj, bind, Except.bind]
  cases getField ctx f.name with
  | error e => rfl
  | ok obj => simp only []; cases Spec.expandSpec ctx f.spec <;> rfl

theorem formatSingle_eq (deep : Bool → Val → Except Exc Val) (ctx : Ctx) (isRec : Bool) (f : FieldT) :
    Spec.formatSingle deep ctx isRec f =
      (match getField ctx f.name with
       | .error e => .error e
       | .ok obj => match Spec.expandSpec ctx f.spec with
         | .error e => .error e
         | .ok spec => Spec.singleObj deep isRec f.conv obj spec) := by
  simp only [Spec.formatSingle, bind, Except.bind]
  cases getField ctx f.name with
  | error e => rfl
  | ok obj => simp only []; cases Spec.expandSpec ctx f.spec <;> rfl

/-- the entry a part contributes to `result` -/
def entryOf (fi : Bool → Val → Except Exc Val) (ctx : Ctx) (isRec : Bool) : Part → Except Exc Entry
  | .lit t => .ok (.lit t)
  | .fld f =>
    match Spec.fieldObj fi ctx isRec f with
    | .error e => .error e
    | .ok (obj, pending, spec) => .ok (.fld obj { rsOf isRec spec with conversion := pending })

/-- the body of the loop of `_format_keep_type` on a named expression (numbering state `some 0`): lookup,
    spec expansion by the base class, `RecursionSpec` of the EXPANDED spec, recursion, conversion -/
theorem ktField_named (fi : Bool → Val → Except Exc Val) (ctx : Ctx) (isRec : Bool) (f : FieldT)
    (h : Named f.name) :
    ktField fi ctx isRec f (some 0) =
      (match entryOf fi ctx isRec (.fld f) with
       | .error e => .error e
       | .ok en => .ok (en, some 0)) := by
  unfold ktField
  rw [autoNumber_named _ _ h]
  simp only [entryOf, fieldObj_eq]
  cases hg : getField ctx f.name with
  | error e => rfl
  | ok obj =>
    simp only []
    rw [vfmt2_expandSpec]
    cases hx : Spec.expandSpec ctx f.spec with
    | error e => rfl
    | ok spec =>
      simp only [rsOf_eq]
      by_cases hc : (Spec.isRf spec || (isRec && !Spec.isFf spec)) = true
      · rw [mode_rec _ _ _ _ _ hc]
        simp only [RSpec.parse_eq, hc, if_true]
        cases hfi : fi true obj with
        | error e => rfl
        | ok o =>
          simp only [Bool.true_or, if_true]
          cases hcv : convertField o f.conv <;> simp [hcv] <;> simpa using hc
      · have hc' : (Spec.isRf spec || (isRec && !Spec.isFf spec)) = false := by simpa using hc
        have hrf : Spec.isRf spec = false := by cases h' : Spec.isRf spec <;> simp_all
        by_cases hff : Spec.isFf spec = true
        · rw [mode_ff _ _ _ _ _ hff]
          simp only [RSpec.parse_eq, hc', Bool.false_eq_true, if_false]
          simp only [hff, Bool.or_true, if_true]
          cases hcv : convertField obj f.conv <;> simp [hcv, hff, hrf]
        · have hff' : Spec.isFf spec = false := by simpa using hff
          rw [mode_plain _ _ _ _ _ hc' hff']
          simp only [RSpec.parse_eq, hc', Bool.false_eq_true, if_false]
          simp only [hff', Bool.or_false, Bool.false_eq_true, if_false]

/-! ## the loop -/

theorem mapE_append {α β} (f : α → Except Exc β) (xs ys : List α) :
    mapE f (xs ++ ys) =
      (match mapE f xs with
       | .error e => .error e
       | .ok as => match mapE f ys with
         | .error e => .error e
         | .ok bs => .ok (as ++ bs)) := by
  induction xs with
  | nil => simp [mapE]; cases mapE f ys <;> rfl
  | cons x xs ih =>
    simp only [List.cons_append, mapE]
    cases f x with
    | error e => rfl
    | ok y =>
      simp only [ih]
      cases mapE f xs with
      | error e => rfl
      | ok as => cases mapE f ys <;> rfl

theorem mapE_length {α β} (f : α → Except Exc β) (xs : List α) (ys : List β) (h : mapE f xs = .ok ys) :
    ys.length = xs.length := by
  induction xs generalizing ys with
  | nil => simp [mapE] at h; subst h; rfl
  | cons x xs ih =>
    simp only [mapE] at h
    cases hx : f x with
    | error e => simp [hx] at h
    | ok y =>
      simp only [hx] at h
      cases hm : mapE f xs with
      | error e => simp [hm] at h
      | ok zs =>
        simp only [hm] at h
        cases h; simp [ih zs hm]

/-- on named expressions the loop of `_format_keep_type` computes the entries of the parts, left to right
    (and the numbering state stays `some 0`) -/
theorem ktLoop_named (fi : Bool → Val → Except Exc Val) (ctx : Ctx) (isRec : Bool) (ts : List Tup)
    (result : List Entry) (h : NamedTups ts) :
    ktLoop fi ctx isRec ts none (some 0) result =
      (match mapE (entryOf fi ctx isRec) (parts ts) with
       | .error e => .error e
       | .ok es => .ok (result ++ es)) := by
  induction ts generalizing result with
  | nil => simp [ktLoop, parts, mapE]
  | cons t ts ih =>
    have hts : NamedTups ts := fun u hu f hf => h u (by simp [hu]) f hf
    unfold ktLoop
    simp only [parts, Tup.parts, mapE_append]
    cases hf : t.field with
    | none =>
      simp only []
      rw [ih _ hts]
      by_cases hl : t.lit = []
      · simp only [hl, if_true, mapE]
        cases mapE (entryOf fi ctx isRec) (parts ts) <;> simp
      · simp only [hl, if_false, mapE, entryOf]
        cases mapE (entryOf fi ctx isRec) (parts ts) <;> simp
    | some f =>
      have hg : Named f.name := h t (by simp) f hf
      simp only []
      rw [ktField_named _ _ _ _ hg]
      by_cases hl : t.lit = []
      · simp only [hl, if_true, List.nil_append, mapE]
        cases he : entryOf fi ctx isRec (.fld f) with
        | error e => simp
        | ok en =>
          simp only []
          rw [ih _ hts]
          cases mapE (entryOf fi ctx isRec) (parts ts) <;> simp
      · simp only [hl, if_false, mapE, List.cons_append, List.nil_append]
        have hlit : entryOf fi ctx isRec (.lit t.lit) = .ok (.lit t.lit) := rfl
        rw [hlit]
        cases he : entryOf fi ctx isRec (.fld f) with
        | error e => simp
        | ok en =>
          simp only []
          rw [ih _ hts]
          cases mapE (entryOf fi ctx isRec) (parts ts) <;> simp

/-! ## after the loop -/

/-- what phase 2 of the spec sees of an entry -/
def Entry.toSum : Entry → List Char ⊕ (Val × Option Char × List Char)
  | .lit t => .inl t
  | .fld obj rs => .inr (obj, rs.conversion, rs.formatSpec)

theorem joinEntries_render (es : List Entry) : joinEntries es = Spec.render (es.map Entry.toSum) := by
  induction es with
  | nil => rfl
  | cons e es ih =>
    cases e with
    | lit t =>
      simp only [joinEntries, entryText, List.map, Entry.toSum, Spec.render, ← ih, bind, Except.bind, pure, Except.pure]
      cases joinEntries es <;> rfl
    | fld obj rs =>
      simp only [joinEntries, entryText, List.map, Entry.toSum, Spec.render, ← ih, bind, Except.bind, pure, Except.pure]
      cases convertField obj rs.conversion with
      | error e => rfl
      | ok o =>
        simp only []
        cases formatField o rs.formatSpec with
        | error e => rfl
        | ok t => cases joinEntries es <;> rfl

theorem resolve_entries (fi : Bool → Val → Except Exc Val) (ctx : Ctx) (isRec : Bool) (ps : List Part) :
    Spec.resolve fi ctx isRec ps =
      (match mapE (entryOf fi ctx isRec) ps with
       | .error e => .error e
       | .ok es => .ok (es.map Entry.toSum)) := by
  induction ps with
  | nil => rfl
  | cons p ps ih =>
    cases p with
    | lit t =>
      simp only [Spec.resolve, mapE, entryOf, ih, bind, Except.bind, pure, Except.pure]
      cases mapE (entryOf fi ctx isRec) ps <;> rfl
    | fld f =>
      simp only [Spec.resolve, mapE, entryOf, ih, bind, Except.bind, pure, Except.pure]
      cases Spec.fieldObj fi ctx isRec f with
      | error e => rfl
      | ok r =>
        obtain ⟨obj, pending, spec⟩ := r
        simp only []
        cases mapE (entryOf fi ctx isRec) ps <;> simp [Entry.toSum, rsOf_formatSpec]

theorem convertField_none (v : Val) : convertField v none = .ok v := rfl

/-- the last step of a single expression: only a format spec turns the object into text -/
def finText (o : Val) (spec : List Char) : Except Exc Val :=
  if spec = [] then .ok o
  else match formatField o spec with
    | .error e => .error e
    | .ok t => .ok (.str (String.ofList t))

theorem ktFinish_single_skip (fi : Bool → Val → Except Exc Val) (obj : Val) (rs : RSpec)
    (h : (rs.hasRecursed || rs.isFlat) = true) :
    ktFinish fi [.fld obj rs] = finText obj rs.formatSpec := by
  unfold ktFinish finText
  simp only [h, Bool.not_true]
  by_cases hb : rs.formatSpec = []
  · simp [hb]
  · cases hf : formatField obj rs.formatSpec <;> simp [hb, hf]

theorem ktFinish_single_go (fi : Bool → Val → Except Exc Val) (obj : Val) (rs : RSpec)
    (h : (rs.hasRecursed || rs.isFlat) = false) :
    ktFinish fi [.fld obj rs] =
      (match fi rs.isRecursive obj with
       | .error e => .error e
       | .ok o => match convertField o rs.conversion with
         | .error e => .error e
         | .ok o' => finText o' rs.formatSpec) := by
  unfold ktFinish finText
  simp only [h, Bool.not_false, if_true]
  cases fi rs.isRecursive obj with
  | error e => rfl
  | ok o =>
    simp only []
    cases convertField o rs.conversion with
    | error e => rfl
    | ok o' =>
      by_cases hb : rs.formatSpec = []
      · simp [hb]
      · cases hf : formatField o' rs.formatSpec <;> simp [hb, hf]

theorem spec_tail (o : Val) (spec : List Char) :
    (if spec = [] then (pure o : Except Exc Val)
     else do
       let t ← formatField o spec
       pure (.str (String.ofList t))) = finText o spec := by
  unfold finText
  by_cases hb : spec = []
  · simp [hb, pure, Except.pure]
  · cases hf : formatField o spec <;> simp [hb, hf, bind, Except.bind, pure, Except.pure]

/-- a single expression, after lookup and spec expansion: the entry the loop built, finished by the
    `len(result) == 1` rule, is the documented single-expression result — in each of the three modes -/
theorem single_mode (fi : Bool → Val → Except Exc Val) (isRec : Bool) (conv : Option Char) (obj0 : Val)
    (spec : List Char) :
    (match Spec.applyMode fi isRec conv obj0 spec with
     | .error e => (Except.error e : Except Exc Val)
     | .ok (obj, pending, sp) => ktFinish fi [.fld obj { rsOf isRec sp with conversion := pending }]) =
    Spec.singleObj fi isRec conv obj0 spec := by
  have hs := rsOf_skip isRec spec
  simp only [Spec.singleObj, spec_tail]
  simp only [bind, Except.bind, pure, Except.pure]
  -- the three documented modes
  by_cases hff : Spec.isFf spec = true
  · -- flat
    rw [mode_ff _ _ _ _ _ hff]
    have hs' : ((rsOf isRec spec).hasRecursed || (rsOf isRec spec).isFlat) = true := by
      rw [hs, hff]; simp
    simp only [hff, if_true]
    cases hc : convertField obj0 conv with
    | error e => rfl
    | ok obj =>
      simp only []
      rw [ktFinish_single_skip _ _ _ (by simpa using hs')]
      simp [rsOf_formatSpec]
  · have hff' : Spec.isFf spec = false := by simpa using hff
    by_cases hrec : (Spec.isRf spec || isRec) = true
    · -- recursive: recursion first, then conversion
      have hcond : (Spec.isRf spec || (isRec && !Spec.isFf spec)) = true := by
        simp only [hff', Bool.not_false, Bool.and_true]; exact hrec
      rw [mode_rec _ _ _ _ _ hcond]
      have hs' : ((rsOf isRec spec).hasRecursed || (rsOf isRec spec).isFlat) = true := by
        rw [hs]; cases h1 : Spec.isRf spec <;> cases h3 : isRec <;> simp_all
      simp only [hff', hrec, Bool.false_eq_true, if_false]
      cases hd : fi true obj0 with
      | error e => rfl
      | ok o =>
        simp only []
        cases hc : convertField o conv with
        | error e => rfl
        | ok obj =>
          simp only []
          rw [ktFinish_single_skip _ _ _ (by simpa using hs')]
          simp [rsOf_formatSpec]
    · -- default: recursive formatting with the flag off, then the conversion
      have hrec' : (Spec.isRf spec || isRec) = false := by simpa using hrec
      have hrf : Spec.isRf spec = false := by cases h : Spec.isRf spec <;> simp_all
      have hir : isRec = false := by cases h : isRec <;> simp_all
      subst hir
      have hcond : (Spec.isRf spec || (false && !Spec.isFf spec)) = false := by simp [hrf]
      rw [mode_plain _ _ _ _ _ hcond hff']
      have hs' : ((rsOf false spec).hasRecursed || (rsOf false spec).isFlat) = false := by
        rw [hs, hrf, hff']; rfl
      simp only [hff', hrf, Bool.false_eq_true, if_false, Bool.or_false]
      rw [ktFinish_single_go _ _ _ (by simpa using hs')]
      simp only [rsOf_formatSpec, rsOf_isRecursive, hrf]
      cases fi false obj0 with
      | error e => rfl
      | ok o =>
        simp only []
        cases convertField o conv <;> simp [finText]

/-- the `len(result) == 1` rule and the join, against the documented cases -/
theorem ktFinish_spec (fi : Bool → Val → Except Exc Val) (ctx : Ctx) (isRec : Bool) (ps : List Part) :
    (match mapE (entryOf fi ctx isRec) ps with
     | .error e => .error e
     | .ok es => ktFinish fi es) = Spec.format fi ctx isRec ps := by
  match ps with
  | [] => simp [mapE, ktFinish, joinEntries, Spec.format, Spec.formatFlat, Spec.resolve, Spec.render, bind, Except.bind, pure, Except.pure]
  | [.lit t] => simp [mapE, entryOf, ktFinish, Spec.format, pure, Except.pure]
  | [.fld f] =>
    have hL : (match mapE (entryOf fi ctx isRec) [.fld f] with
        | .error e => (Except.error e : Except Exc Val)
        | .ok es => ktFinish fi es) =
        (match Spec.fieldObj fi ctx isRec f with
         | .error e => .error e
         | .ok (obj, pending, spec) => ktFinish fi [.fld obj { rsOf isRec spec with conversion := pending }]) := by
      simp only [mapE, entryOf]
      cases Spec.fieldObj fi ctx isRec f with
      | error e => rfl
      | ok r => obtain ⟨obj, pending, spec⟩ := r; rfl
    rw [hL]
    simp only [Spec.format, formatSingle_eq, fieldObj_eq]
    cases hgf : getField ctx f.name with
    | error e => rfl
    | ok obj0 =>
      simp only []
      cases hx : Spec.expandSpec ctx f.spec with
      | error e => rfl
      | ok spec =>
        simp only []
        exact single_mode fi isRec f.conv obj0 spec
  | p :: q :: rest =>
    have hfmt : Spec.format fi ctx isRec (p :: q :: rest) = Spec.formatFlat fi ctx isRec (p :: q :: rest) := by
      cases p <;> rfl
    rw [hfmt]
    simp only [Spec.formatFlat, resolve_entries, bind, Except.bind, pure, Except.pure]
    cases hm : mapE (entryOf fi ctx isRec) (p :: q :: rest) with
    | error e => rfl
    | ok es =>
      have hl := mapE_length _ _ _ hm
      simp only [List.length_cons] at hl
      match es, hl with
      | e1 :: e2 :: es', _ =>
        simp only [ktFinish, joinEntries_render]
        cases Spec.render (List.map Entry.toSum (e1 :: e2 :: es')) <;> rfl

/-- **`_format_keep_type` computes the documented result** on every string that parses and whose
    top-level expressions are named references (format specs unrestricted: nested fields included). -/
theorem keepType_refines_spec (fi : Bool → Val → Except Exc Val) (ctx : Ctx) (isRec : Bool) (s : List Char)
    (ts : List Tup) (hp : parseTuples s = (ts, none)) (hg : NamedTups ts) :
    keepType fi ctx isRec s = Spec.format fi ctx isRec (parts ts) := by
  unfold keepType
  simp only [hp]
  rw [ktLoop_named _ _ _ _ _ hg, ← ktFinish_spec]
  cases mapE (entryOf fi ctx isRec) (parts ts) <;> simp

end Pypyr.Format
