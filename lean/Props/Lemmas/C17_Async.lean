/- Helper lemmas for C17 (concurrent steps): the final lane states do not depend on the schedule. -/
import PypyrModel.Cmd
import Props.Lemmas.C17_Serial

set_option linter.unusedSimpArgs false

namespace Pypyr.Cmd

theorem drain_complete (l : Lane) : l.complete.drain = l.drain := by
  obtain ⟨done, cur, todo, dec⟩ := l
  cases cur with
  | none => simp [Lane.complete]
  | some p =>
    cases todo with
    | nil =>
      by_cases h : p.halts dec = true <;> simp [Lane.complete, Lane.drain, drainFrom, launch, h]
    | cons q qs =>
      by_cases h : p.halts dec = true
      · simp [Lane.complete, Lane.drain, drainFrom, h]
      · simp only [Lane.complete, Lane.drain, h]
        conv => rhs; unfold drainFrom
        simp only [h, launch]
        cases q.spawn <;> simp [drainFrom]

theorem map_drain_modifyAt (ls : List Lane) (i : Nat) :
    (modifyAt Lane.complete ls i).map Lane.drain = ls.map Lane.drain := by
  induction ls generalizing i with
  | nil => simp [modifyAt]
  | cons l ls ih =>
    cases i with
    | zero => simp [modifyAt, drain_complete]
    | succ i => simp [modifyAt, ih]

theorem runSched_drain (ls : List Lane) (sched : List Nat) :
    drainAll (runSched ls sched).1 = drainAll ls := by
  induction sched generalizing ls with
  | nil => simp [runSched]
  | cons i rest ih =>
    simp only [runSched]
    rw [ih]
    exact map_drain_modifyAt ls i

/-- A running (hence startable) process followed by the rest of its sub-list: the lane ends having
    dealt with exactly the prefix through the first instruction that stops. -/
theorem drainFrom_some (dec : Bool) (done : List Proc) (p : Proc) (qs : List Proc) (hp : p.spawn = none) :
    drainFrom dec done (some p) qs =
      ⟨done ++ takeThrough dec (p :: qs), none, (p :: qs).drop (takeThrough dec (p :: qs)).length, dec⟩ := by
  induction qs generalizing done p with
  | nil => by_cases h : p.halts dec = true <;> simp [drainFrom, takeThrough, Proc.stops, hp, h]
  | cons q qs ih =>
    unfold drainFrom
    by_cases h : p.halts dec = true
    · simp [takeThrough, Proc.stops, hp, h]
    · simp only [h]
      cases hq : q.spawn with
      | some k =>
        simp [takeThrough, Proc.stops, hp, h, hq]
      | none =>
        simp only []
        rw [ih _ _ hq]
        conv => rhs; unfold takeThrough
        simp [Proc.stops, hp, h]

theorem drain_start (dec : Bool) (ps : List Proc) : (Lane.start dec ps).drain = finalLane dec ps := by
  cases ps with
  | nil => simp [Lane.start, launch, Lane.drain, drainFrom, finalLane, takeThrough]
  | cons p ps =>
    cases hp : p.spawn with
    | some k => simp [Lane.start, launch, hp, Lane.drain, drainFrom, finalLane, takeThrough, Proc.stops]
    | none => simp [Lane.start, launch, hp, Lane.drain, drainFrom_some, finalLane]

/-- The lanes once `asyncio.gather` has returned, whatever the schedule. -/
theorem final_lanes (cs : List ACommand) (sched : List Nat) :
    drainAll (runSched ((lanesOf cs).map (fun l => Lane.start l.dec l.procs)) sched).1 =
      (lanesOf cs).map (fun l => finalLane l.dec l.procs) := by
  rw [runSched_drain]
  simp [drainAll, drain_start]

theorem flatMap_congr_mem {α β} {l : List α} {f g : α → List β} (h : ∀ x ∈ l, f x = g x) :
    l.flatMap f = l.flatMap g := by
  induction l with
  | nil => rfl
  | cons x xs ih =>
    simp only [List.flatMap_cons, h x (by simp), ih (fun y hy => h y (by simp [hy]))]

/-! ### Declarative description of what is collected -/

theorem lanes_all_save (cs : List ACommand) (hs : ∀ c ∈ cs, c.save = true) :
    ∀ l ∈ lanesOf cs, l.save = true := by
  induction cs with
  | nil => simp [lanesOf]
  | cons c cs ih =>
    intro l hl
    simp only [lanesOf, List.mem_append] at hl
    cases hl with
    | inl h =>
      unfold ACommand.lanes at h
      cases ho : c.redir.openError with
      | some e => simp [ho] at h
      | none =>
        simp only [ho, List.mem_map] at h
        obtain ⟨ps, _, rfl⟩ := h
        exact hs c (by simp)
    | inr h => exact ih (fun c' hc' => hs c' (by simp [hc'])) l h

/-- Items of a lane: one per instruction attempted, in the order of the sub-list. -/
def ALane.items (l : ALane) : List Item := (takeThrough l.dec l.procs).map (mkItem l.save l.text)

/-- Results of a lane: one per process that existed and whose output could be decoded, in the order of
    the sub-list. -/
def ALane.results (l : ALane) : List Result :=
  ((takeThrough l.dec l.procs).filter (fun p => p.ran && !(l.dec && p.decodeFails))).map
    (mkResultAsync l.save l.text)

def ALane.errors (l : ALane) : List CmdErr := l.items.flatMap itemErrors

/-- Items of a command: the exception of its output handles, or the items of its lanes. -/
def ACommand.items (c : ACommand) : List Item :=
  match c.redir.openError with
  | some e => [.exc e]
  | none => c.lanes.flatMap ALane.items

def ACommand.errors (c : ACommand) : List CmdErr := c.items.flatMap itemErrors

/-- Flatten `cmdOut` (items and nested sub-list items) to the sequence of items. -/
def slotItems : List Slot → List Item
  | [] => []
  | .one i :: ss => i :: slotItems ss
  | .sub is :: ss => is ++ slotItems ss

/-- The `SubprocessResult`s among some items. -/
def itemResults : List Item → List Result
  | [] => []
  | .res r :: is => r :: itemResults is
  | .exc _ :: is => itemResults is

theorem itemResults_append (a b : List Item) : itemResults (a ++ b) = itemResults a ++ itemResults b := by
  induction a with
  | nil => rfl
  | cons i is ih => cases i <;> simp [itemResults, ih]

theorem itemResults_flatMap {α} (f : α → List Item) (xs : List α) :
    itemResults (xs.flatMap f) = xs.flatMap (fun x => itemResults (f x)) := by
  induction xs with
  | nil => rfl
  | cons x xs ih => simp [List.flatMap_cons, itemResults_append, ih]

/-- Flatten `cmdOut` to the sequence of `SubprocessResult`s it holds. -/
def slotResults (ss : List Slot) : List Result := itemResults (slotItems ss)

theorem slotItems_append (a b : List Slot) : slotItems (a ++ b) = slotItems a ++ slotItems b := by
  induction a with
  | nil => rfl
  | cons s ss ih => cases s <;> simp [slotItems, ih]

theorem slotErrors_append (a b : List Slot) : slotErrors (a ++ b) = slotErrors a ++ slotErrors b := by
  induction a with
  | nil => rfl
  | cons s ss ih => cases s <;> simp [slotErrors, ih]

theorem slotErrors_eq (ss : List Slot) : slotErrors ss = (slotItems ss).flatMap itemErrors := by
  induction ss with
  | nil => rfl
  | cons s ss ih => cases s <;> simp [slotErrors, slotItems, ih]

theorem takeThrough_one (dec : Bool) (p : Proc) : takeThrough dec [p] = [p] := by
  by_cases h : p.stops dec = true <;> simp [takeThrough, h]

/-- The results among the items of a lane are the results of the processes that existed and whose
    output could be decoded. -/
theorem itemResults_items (save text : Bool) (ps : List Proc) :
    itemResults (ps.map (mkItem save text)) =
      (ps.filter (fun p => p.ran && !(save && text && p.decodeFails))).map (mkResultAsync save text) := by
  induction ps with
  | nil => rfl
  | cons p ps ih =>
    cases hp : p.spawn with
    | some k => simp [mkItem, hp, itemResults, Proc.ran, ih]
    | none =>
      cases hd : p.decodeFails <;> cases save <;> cases text <;>
        simp [mkItem, hp, itemResults, Proc.ran, hd, List.filter_cons] at ih ⊢ <;> exact ih

theorem ALane.results_eq (l : ALane) : l.results = itemResults l.items :=
  (itemResults_items l.save l.text (takeThrough l.dec l.procs)).symm

/-- The errors of an item built from an instruction: exactly when the instruction `stops`. -/
theorem itemErrors_mkItem (save text : Bool) (p : Proc) :
    itemErrors (mkItem save text p) =
      if p.stops (save && text) then [p.error (save && text)] else [] := by
  cases hp : p.spawn with
  | some k => simp [mkItem, hp, itemErrors, Proc.stops, Proc.error]
  | none =>
    have hc : (mkResultAsync save text p).code = p.code ∧ (mkResultAsync save text p).id = p.id := by
      simp only [mkResultAsync]
      split <;> try split
      all_goals exact ⟨rfl, rfl⟩
    by_cases hu : (save && text && p.decodeFails) = true
    · simp [mkItem, hp, itemErrors, Proc.stops, Proc.halts, Proc.error, hu]
    · have hu' : (save && text && p.decodeFails) = false := by simpa using hu
      by_cases h : p.code ≠ 0
      · simp [mkItem, hp, itemErrors, Proc.stops, Proc.halts, Proc.error, hc.1, hc.2, h, hu']
      · have hz : p.code = 0 := by omega
        simp [mkItem, hp, itemErrors, Proc.stops, Proc.halts, hc.1, hz, hu']

theorem flatMap_itemErrors (save text : Bool) (ps : List Proc) :
    (ps.map (mkItem save text)).flatMap itemErrors =
      (ps.filter (Proc.stops (save && text))).map (Proc.error (save && text)) := by
  induction ps with
  | nil => rfl
  | cons p ps ih =>
    simp only [List.map_cons, List.flatMap_cons, ih, itemErrors_mkItem, List.filter_cons]
    by_cases h : p.stops (save && text) = true <;> simp [h]

theorem ALane.errors_eq (l : ALane) :
    l.errors = ((takeThrough l.dec l.procs).filter (Proc.stops l.dec)).map (Proc.error l.dec) :=
  flatMap_itemErrors l.save l.text (takeThrough l.dec l.procs)

/-- What `entrySlots` yields on the final lanes of its entries. -/
theorem entrySlots_final (save text : Bool) (es : List Entry) (rest : List Lane) :
    let r := entrySlots save text es
      ((es.map Entry.procs).map (fun ps => finalLane (save && text) ps) ++ rest)
    r.2 = rest ∧
    slotItems r.1 = (es.map Entry.procs).flatMap (fun ps => (⟨ps, save, text⟩ : ALane).items) := by
  induction es with
  | nil => simp [entrySlots, slotItems]
  | cons e es ih =>
    simp only [] at ih
    cases e with
    | one p =>
      simp only [List.map_cons, List.cons_append, entrySlots, Entry.procs]
      refine ⟨ih.1, ?_⟩
      rw [slotItems_append, ih.2]
      simp [finalLane, takeThrough_one, slotItems, ALane.items, ALane.dec]
    | serial ps =>
      simp only [List.map_cons, List.cons_append, entrySlots, Entry.procs]
      refine ⟨ih.1, ?_⟩
      simp only [slotItems, List.flatMap_cons]
      rw [ih.2]
      simp [finalLane, ALane.items, ALane.dec]

theorem commandSlots_final (c : ACommand) (rest : List Lane) :
    let r := commandSlots c (c.lanes.map (fun l => finalLane l.dec l.procs) ++ rest)
    r.2 = rest ∧ slotItems r.1 = c.items := by
  obtain ⟨run, save, text, redir⟩ := c
  cases ho : redir.openError with
  | some e => simp [commandSlots, ACommand.lanes, ACommand.items, ho, slotItems]
  | none =>
    cases run with
    | single p =>
      have h := entrySlots_final save text [.one p] rest
      simp only [] at h
      simpa [commandSlots, ACommand.lanes, ACommand.items, ho, ARun.lanes, Entry.procs, List.flatMap_map,
        ALane.dec, Function.comp_def] using h
    | many es =>
      have h := entrySlots_final save text es rest
      simp only [] at h
      simpa [commandSlots, ACommand.lanes, ACommand.items, ho, ARun.lanes, List.flatMap_map, ALane.dec,
        Function.comp_def] using h

/-- What `Commands.run` collects from the final lanes: items of the `save` commands and the errors of
    all commands, both in declaration order. -/
theorem collect_final (cs : List ACommand) :
    let r := collect cs ((lanesOf cs).map (fun l => finalLane l.dec l.procs))
    slotItems r.1 = (cs.filter (·.save)).flatMap ACommand.items ∧
    r.2 = cs.flatMap ACommand.errors := by
  induction cs with
  | nil => simp [collect, slotItems]
  | cons c cs ih =>
    simp only [] at ih
    have hc := commandSlots_final c ((lanesOf cs).map (fun l => finalLane l.dec l.procs))
    simp only [] at hc
    simp only [lanesOf, List.map_append, collect, List.flatMap_cons]
    rw [hc.1]
    refine ⟨?_, ?_⟩
    · rw [slotItems_append, ih.1]
      cases hs : c.save <;> simp [hs, slotItems, hc.2]
    · rw [ih.2, slotErrors_eq, hc.2]
      rfl

/-- Started processes of a final lane. -/
theorem laneStarted_final (dec : Bool) (ps : List Proc) :
    laneStarted (finalLane dec ps) = ((takeThrough dec ps).filter Proc.ran).map (·.id) := by
  simp [laneStarted, finalLane]

/-- `takeThrough` is what its name says: a prefix; nothing in it but its last element stops. -/
theorem takeThrough_split (dec : Bool) (ps : List Proc) :
    ∃ rest, ps = takeThrough dec ps ++ rest ∧
      ((rest = [] ∧ ∀ p ∈ takeThrough dec ps, p.stops dec = false) ∨
       ∃ init p, takeThrough dec ps = init ++ [p] ∧ (∀ x ∈ init, x.stops dec = false) ∧
         p.stops dec = true) := by
  induction ps with
  | nil => exact ⟨[], rfl, .inl ⟨rfl, by simp [takeThrough]⟩⟩
  | cons p ps ih =>
    obtain ⟨rest, h1, h2⟩ := ih
    by_cases hc : p.stops dec = true
    · exact ⟨ps, by simp [takeThrough, hc], .inr ⟨[], p, by simp [takeThrough, hc], by simp, hc⟩⟩
    · have hz : p.stops dec = false := by simpa using hc
      refine ⟨rest, ?_, ?_⟩
      · simp only [takeThrough, if_neg hc, List.cons_append]
        rw [← h1]
      · simp only [takeThrough, if_neg hc]
        cases h2 with
        | inl h => exact .inl ⟨h.1, by
            intro x hx
            cases hx with
            | head => exact hz
            | tail _ hx => exact h.2 x hx⟩
        | inr h =>
          obtain ⟨init, q, h3, h4, h5⟩ := h
          refine .inr ⟨p :: init, q, by simp [h3], ?_, h5⟩
          intro x hx
          cases hx with
          | head => exact hz
          | tail _ hx => exact h4 x hx

end Pypyr.Cmd
