/- Helper lemmas for C17 (concurrent steps): the final lane states do not depend on the schedule. -/
import PypyrModel.Cmd

namespace Pypyr.Cmd

theorem drain_complete (l : Lane) : l.complete.drain = l.drain := by
  obtain ⟨done, cur, todo⟩ := l
  cases cur with
  | none => simp [Lane.complete]
  | some p =>
    cases todo with
    | nil =>
      by_cases h : p.code ≠ 0 <;> simp [Lane.complete, Lane.drain, drainFrom, launch, h]
    | cons q qs =>
      by_cases h : p.code ≠ 0
      · simp [Lane.complete, Lane.drain, drainFrom, h]
      · simp only [Lane.complete, Lane.drain, if_neg h]
        conv => rhs; unfold drainFrom
        simp only [if_neg h, launch]
        cases q.spawn <;> simp [drainFrom]

theorem map_drain_modifyAt (ls : List Lane) (i : Nat) :
    (modifyAt Lane.complete ls i).map Lane.drain = ls.map Lane.drain := by
  induction ls generalizing i with
  | nil => simp [modifyAt]
  | cons l ls ih =>
    cases i with
    | zero => simp [modifyAt, drain_complete]
    | succ i => simp [modifyAt, ih]

theorem runSched_drain (ls : List Lane) (sched : List Nat) :
    drainAll (runSched ls sched).1 = drainAll ls := by
  induction sched generalizing ls with
  | nil => simp [runSched]
  | cons i rest ih =>
    simp only [runSched]
    rw [ih]
    exact map_drain_modifyAt ls i

/-- A running (hence startable) process followed by the rest of its sub-list: the lane ends having
    dealt with exactly the prefix through the first instruction that stops. -/
theorem drainFrom_some (done : List Proc) (p : Proc) (qs : List Proc) (hp : p.spawn = none) :
    drainFrom done (some p) qs =
      ⟨done ++ takeThrough (p :: qs), none, (p :: qs).drop (takeThrough (p :: qs)).length⟩ := by
  induction qs generalizing done p with
  | nil => by_cases h : p.code ≠ 0 <;> simp [drainFrom, takeThrough, Proc.stops, hp, h]
  | cons q qs ih =>
    unfold drainFrom
    by_cases h : p.code ≠ 0
    · simp [takeThrough, Proc.stops, hp, h]
    · have hz : p.code = 0 := by omega
      simp only [if_neg h]
      cases hq : q.spawn with
      | some k =>
        simp [takeThrough, Proc.stops, hp, hz, hq]
      | none =>
        simp only []
        rw [ih _ _ hq]
        conv => rhs; unfold takeThrough
        simp [Proc.stops, hp, hz]

theorem drain_start (ps : List Proc) : (Lane.start ps).drain = finalLane ps := by
  cases ps with
  | nil => simp [Lane.start, launch, Lane.drain, drainFrom, finalLane, takeThrough]
  | cons p ps =>
    cases hp : p.spawn with
    | some k => simp [Lane.start, launch, hp, Lane.drain, drainFrom, finalLane, takeThrough, Proc.stops]
    | none => simp [Lane.start, launch, hp, Lane.drain, drainFrom_some, finalLane]

/-- The lanes once `asyncio.gather` has returned, whatever the schedule. -/
theorem final_lanes (cs : List ACommand) (sched : List Nat) :
    drainAll (runSched ((lanesOf cs).map Lane.start) sched).1 = (lanesOf cs).map finalLane := by
  rw [runSched_drain]
  simp [drainAll, drain_start]

/-! ### Declarative description of what is collected -/

/-- A lane with the settings of the command it belongs to. -/
structure ALane where
  procs : List Proc
  save  : Bool
  text  : Bool
  deriving Repr, DecidableEq

def alanesOfCmd (c : ACommand) : List ALane := c.run.lanes.map (fun ps => ⟨ps, c.save, c.text⟩)

def alanesOf : List ACommand → List ALane
  | [] => []
  | c :: cs => alanesOfCmd c ++ alanesOf cs

theorem alanesOf_procs (cs : List ACommand) : (alanesOf cs).map (·.procs) = lanesOf cs := by
  induction cs with
  | nil => rfl
  | cons c cs ih => simp [alanesOf, lanesOf, alanesOfCmd, ih, Function.comp_def]

theorem alanes_all_save (cs : List ACommand) (hs : ∀ c ∈ cs, c.save = true) :
    ∀ l ∈ alanesOf cs, l.save = true := by
  induction cs with
  | nil => simp [alanesOf]
  | cons c cs ih =>
    intro l hl
    simp only [alanesOf, alanesOfCmd, List.mem_append, List.mem_map] at hl
    cases hl with
    | inl h => obtain ⟨ps, _, rfl⟩ := h; exact hs c (by simp)
    | inr h => exact ih (fun c' hc' => hs c' (by simp [hc'])) l h

/-- Items of a lane: one per instruction attempted, in the order of the sub-list. -/
def ALane.items (l : ALane) : List Item := (takeThrough l.procs).map (mkItem l.save l.text)

/-- Results of a lane: one per process that existed, in the order of the sub-list. -/
def ALane.results (l : ALane) : List Result :=
  ((takeThrough l.procs).filter Proc.ran).map (mkResultAsync l.save l.text)

def ALane.errors (l : ALane) : List CmdErr := l.items.flatMap itemErrors

/-- Flatten `cmdOut` (items and nested sub-list items) to the sequence of items. -/
def slotItems : List Slot → List Item
  | [] => []
  | .one i :: ss => i :: slotItems ss
  | .sub is :: ss => is ++ slotItems ss

/-- The `SubprocessResult`s among some items. -/
def itemResults : List Item → List Result
  | [] => []
  | .res r :: is => r :: itemResults is
  | .exc _ _ :: is => itemResults is

theorem itemResults_append (a b : List Item) : itemResults (a ++ b) = itemResults a ++ itemResults b := by
  induction a with
  | nil => rfl
  | cons i is ih => cases i <;> simp [itemResults, ih]

theorem itemResults_flatMap {α} (f : α → List Item) (xs : List α) :
    itemResults (xs.flatMap f) = xs.flatMap (fun x => itemResults (f x)) := by
  induction xs with
  | nil => rfl
  | cons x xs ih => simp [List.flatMap_cons, itemResults_append, ih]

/-- Flatten `cmdOut` to the sequence of `SubprocessResult`s it holds. -/
def slotResults (ss : List Slot) : List Result := itemResults (slotItems ss)

theorem slotItems_append (a b : List Slot) : slotItems (a ++ b) = slotItems a ++ slotItems b := by
  induction a with
  | nil => rfl
  | cons s ss ih => cases s <;> simp [slotItems, ih]

theorem slotErrors_append (a b : List Slot) : slotErrors (a ++ b) = slotErrors a ++ slotErrors b := by
  induction a with
  | nil => rfl
  | cons s ss ih => cases s <;> simp [slotErrors, ih]

theorem slotErrors_eq (ss : List Slot) : slotErrors ss = (slotItems ss).flatMap itemErrors := by
  induction ss with
  | nil => rfl
  | cons s ss ih => cases s <;> simp [slotErrors, slotItems, ih]

theorem takeThrough_one (p : Proc) : takeThrough [p] = [p] := by
  by_cases h : p.stops = true <;> simp [takeThrough, h]

/-- The results among the items of a lane are the results of the processes that existed. -/
theorem itemResults_items (save text : Bool) (ps : List Proc) :
    itemResults (ps.map (mkItem save text)) = (ps.filter Proc.ran).map (mkResultAsync save text) := by
  induction ps with
  | nil => rfl
  | cons p ps ih =>
    cases hp : p.spawn <;> simp [mkItem, hp, itemResults, Proc.ran, ih]

theorem ALane.results_eq (l : ALane) : l.results = itemResults l.items :=
  (itemResults_items l.save l.text (takeThrough l.procs)).symm

/-- The errors of an item built from an instruction: exactly when the instruction `stops`. -/
theorem itemErrors_mkItem (save text : Bool) (p : Proc) :
    itemErrors (mkItem save text p) = if p.stops then [p.error] else [] := by
  cases hp : p.spawn with
  | some k => simp [mkItem, hp, itemErrors, Proc.stops, Proc.error]
  | none =>
    have hc : (mkResultAsync save text p).code = p.code ∧ (mkResultAsync save text p).id = p.id := by
      simp only [mkResultAsync]
      split <;> try split
      all_goals exact ⟨rfl, rfl⟩
    by_cases h : p.code ≠ 0
    · simp [mkItem, hp, itemErrors, Proc.stops, Proc.error, hc.1, hc.2, h]
    · have hz : p.code = 0 := by omega
      simp [mkItem, hp, itemErrors, Proc.stops, hc.1, hz]

theorem flatMap_itemErrors (save text : Bool) (ps : List Proc) :
    (ps.map (mkItem save text)).flatMap itemErrors = (ps.filter Proc.stops).map Proc.error := by
  induction ps with
  | nil => rfl
  | cons p ps ih =>
    simp only [List.map_cons, List.flatMap_cons, ih, itemErrors_mkItem, List.filter_cons]
    by_cases h : p.stops = true <;> simp [h]

theorem ALane.errors_eq (l : ALane) :
    l.errors = ((takeThrough l.procs).filter Proc.stops).map Proc.error :=
  flatMap_itemErrors l.save l.text (takeThrough l.procs)

/-- What `entrySlots` yields on the final lanes of its entries. -/
theorem entrySlots_final (save text : Bool) (es : List Entry) (rest : List Lane) :
    let r := entrySlots save text es ((es.map Entry.procs).map finalLane ++ rest)
    r.2 = rest ∧
    slotItems r.1 = (es.map Entry.procs).flatMap (fun ps => (⟨ps, save, text⟩ : ALane).items) := by
  induction es with
  | nil => simp [entrySlots, slotItems]
  | cons e es ih =>
    simp only [] at ih
    cases e with
    | one p =>
      simp only [List.map_cons, List.cons_append, entrySlots, Entry.procs]
      refine ⟨ih.1, ?_⟩
      rw [slotItems_append, ih.2]
      simp [finalLane, takeThrough_one, slotItems, ALane.items]
    | serial ps =>
      simp only [List.map_cons, List.cons_append, entrySlots, Entry.procs]
      refine ⟨ih.1, ?_⟩
      simp only [slotItems, List.flatMap_cons]
      rw [ih.2]
      simp [finalLane, ALane.items]

theorem commandSlots_final (c : ACommand) (rest : List Lane) :
    let r := commandSlots c (c.run.lanes.map finalLane ++ rest)
    r.2 = rest ∧ slotItems r.1 = (alanesOfCmd c).flatMap ALane.items := by
  obtain ⟨run, save, text⟩ := c
  cases run with
  | single p =>
    have h := entrySlots_final save text [.one p] rest
    simp only [] at h
    simpa [commandSlots, ARun.lanes, alanesOfCmd, Entry.procs, List.flatMap_map] using h
  | many es =>
    have h := entrySlots_final save text es rest
    simp only [] at h
    simpa [commandSlots, ARun.lanes, alanesOfCmd, List.flatMap_map] using h

/-- What `Commands.run` collects from the final lanes: items of the `save` lanes and the errors of
    all lanes, both in declaration order. -/
theorem collect_final (cs : List ACommand) :
    let r := collect cs ((lanesOf cs).map finalLane)
    slotItems r.1 = ((alanesOf cs).filter (·.save)).flatMap ALane.items ∧
    r.2 = (alanesOf cs).flatMap ALane.errors := by
  induction cs with
  | nil => simp [collect, slotItems, alanesOf]
  | cons c cs ih =>
    simp only [] at ih
    have hc := commandSlots_final c ((lanesOf cs).map finalLane)
    simp only [] at hc
    simp only [lanesOf, List.map_append, collect, alanesOf, List.filter_append, List.flatMap_append]
    rw [hc.1]
    refine ⟨?_, ?_⟩
    · rw [slotItems_append, ih.1]
      congr 1
      cases hs : c.save
      · have : (alanesOfCmd c).filter (·.save) = [] := by
          simp [alanesOfCmd, hs]
        simp [this, slotItems]
      · have : (alanesOfCmd c).filter (·.save) = alanesOfCmd c := by
          simp [alanesOfCmd, hs]
        simp [this, hc.2]
    · rw [ih.2, slotErrors_eq, hc.2]
      congr 1
      simp only [List.flatMap_assoc]
      rfl

/-- Started processes of a final lane. -/
theorem laneStarted_final (ps : List Proc) :
    laneStarted (finalLane ps) = ((takeThrough ps).filter Proc.ran).map (·.id) := by
  simp [laneStarted, finalLane]

/-- `takeThrough` is what its name says: a prefix; nothing in it but its last element stops. -/
theorem takeThrough_split (ps : List Proc) :
    ∃ rest, ps = takeThrough ps ++ rest ∧
      ((rest = [] ∧ ∀ p ∈ takeThrough ps, p.stops = false) ∨
       ∃ init p, takeThrough ps = init ++ [p] ∧ (∀ x ∈ init, x.stops = false) ∧ p.stops = true) := by
  induction ps with
  | nil => exact ⟨[], rfl, .inl ⟨rfl, by simp [takeThrough]⟩⟩
  | cons p ps ih =>
    obtain ⟨rest, h1, h2⟩ := ih
    by_cases hc : p.stops = true
    · exact ⟨ps, by simp [takeThrough, hc], .inr ⟨[], p, by simp [takeThrough, hc], by simp, hc⟩⟩
    · have hz : p.stops = false := by simpa using hc
      refine ⟨rest, ?_, ?_⟩
      · simp only [takeThrough, if_neg hc, List.cons_append]
        rw [← h1]
      · simp only [takeThrough, if_neg hc]
        cases h2 with
        | inl h => exact .inl ⟨h.1, by
            intro x hx
            cases hx with
            | head => exact hz
            | tail _ hx => exact h.2 x hx⟩
        | inr h =>
          obtain ⟨init, q, h3, h4, h5⟩ := h
          refine .inr ⟨p :: init, q, by simp [h3], ?_, h5⟩
          intro x hx
          cases hx with
          | head => exact hz
          | tail _ hx => exact h4 x hx

end Pypyr.Cmd
