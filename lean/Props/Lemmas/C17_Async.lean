/- Helper lemmas for C17 (concurrent steps): the final lane states do not depend on the schedule. -/
import PypyrModel.Cmd

namespace Pypyr.Cmd

theorem drain_complete (l : Lane) : l.complete.drain = l.drain := by
  obtain ⟨done, cur, todo⟩ := l
  cases cur with
  | none => simp [Lane.complete]
  | some p =>
    cases todo with
    | nil =>
      by_cases h : p.code ≠ 0 <;> simp [Lane.complete, Lane.drain, drainFrom, h]
    | cons q qs =>
      by_cases h : p.code ≠ 0
      · simp [Lane.complete, Lane.drain, drainFrom, h]
      · simp only [Lane.complete, Lane.drain, if_neg h]
        conv => rhs; unfold drainFrom
        simp only [if_neg h]

theorem map_drain_modifyAt (ls : List Lane) (i : Nat) :
    (modifyAt Lane.complete ls i).map Lane.drain = ls.map Lane.drain := by
  induction ls generalizing i with
  | nil => simp [modifyAt]
  | cons l ls ih =>
    cases i with
    | zero => simp [modifyAt, drain_complete]
    | succ i => simp [modifyAt, ih]

theorem runSched_drain (ls : List Lane) (sched : List Nat) :
    drainAll (runSched ls sched).1 = drainAll ls := by
  induction sched generalizing ls with
  | nil => simp [runSched]
  | cons i rest ih =>
    simp only [runSched]
    rw [ih]
    exact map_drain_modifyAt ls i

theorem drainFrom_some (done : List Proc) (p : Proc) (qs : List Proc) :
    drainFrom done (some p) qs =
      ⟨done ++ takeThrough (p :: qs), none, (p :: qs).drop (takeThrough (p :: qs)).length⟩ := by
  induction qs generalizing done p with
  | nil => by_cases h : p.code ≠ 0 <;> simp [drainFrom, takeThrough, h]
  | cons q qs ih =>
    unfold drainFrom
    by_cases h : p.code ≠ 0
    · simp [takeThrough, h]
    · simp only [if_neg h]
      rw [ih]
      conv => rhs; unfold takeThrough
      simp [if_neg h]

theorem drain_start (ps : List Proc) : (Lane.start ps).drain = finalLane ps := by
  cases ps with
  | nil => simp [Lane.start, Lane.drain, drainFrom, finalLane, takeThrough]
  | cons p ps => simp [Lane.start, Lane.drain, drainFrom_some, finalLane]

/-- The lanes once `asyncio.gather` has returned, whatever the schedule. -/
theorem final_lanes (cs : List ACommand) (sched : List Nat) :
    drainAll (runSched ((lanesOf cs).map Lane.start) sched).1 = (lanesOf cs).map finalLane := by
  rw [runSched_drain]
  simp [drainAll, drain_start]

/-! ### Declarative description of what is collected -/

/-- A lane with the settings of the command it belongs to. -/
structure ALane where
  procs : List Proc
  save  : Bool
  text  : Bool
  deriving Repr, DecidableEq

def alanesOfCmd (c : ACommand) : List ALane := c.run.lanes.map (fun ps => ⟨ps, c.save, c.text⟩)

def alanesOf : List ACommand → List ALane
  | [] => []
  | c :: cs => alanesOfCmd c ++ alanesOf cs

theorem alanesOf_procs (cs : List ACommand) : (alanesOf cs).map (·.procs) = lanesOf cs := by
  induction cs with
  | nil => rfl
  | cons c cs ih => simp [alanesOf, lanesOf, alanesOfCmd, ih, Function.comp_def]

/-- Results of a lane: one per process actually run, in the order of the sub-list. -/
def ALane.results (l : ALane) : List Result := (takeThrough l.procs).map (mkResultAsync l.save l.text)

def toErr (r : Result) : CmdErr := ⟨r.id, r.code⟩

def ALane.errors (l : ALane) : List CmdErr := ((l.results).filter (fun r => r.code ≠ 0)).map toErr

/-- Flatten `cmdOut` (results and nested sub-list results) to the sequence of results. -/
def slotResults : List Slot → List Result
  | [] => []
  | .res r :: ss => r :: slotResults ss
  | .sub rs :: ss => rs ++ slotResults ss

theorem slotResults_append (a b : List Slot) : slotResults (a ++ b) = slotResults a ++ slotResults b := by
  induction a with
  | nil => rfl
  | cons s ss ih => cases s <;> simp [slotResults, ih]

theorem slotErrors_append (a b : List Slot) : slotErrors (a ++ b) = slotErrors a ++ slotErrors b := by
  induction a with
  | nil => rfl
  | cons s ss ih => cases s <;> simp [slotErrors, ih]

theorem slotErrors_eq (ss : List Slot) :
    slotErrors ss = ((slotResults ss).filter (fun r => r.code ≠ 0)).map toErr := by
  induction ss with
  | nil => rfl
  | cons s ss ih =>
    cases s with
    | res r =>
      by_cases h : r.code ≠ 0
      · simp [slotErrors, slotResults, ih, h, toErr]
      · have : r.code = 0 := by omega
        simp [slotErrors, slotResults, ih, this]
    | sub rs => simp [slotErrors, slotResults, ih, toErr]

theorem takeThrough_one (p : Proc) : takeThrough [p] = [p] := by
  by_cases h : p.code ≠ 0 <;> simp [takeThrough, h]

/-- What `entrySlots` yields on the final lanes of its entries. -/
theorem entrySlots_final (save text : Bool) (es : List Entry) (rest : List Lane) :
    let r := entrySlots save text es ((es.map Entry.procs).map finalLane ++ rest)
    r.2 = rest ∧
    slotResults r.1 = (es.map Entry.procs).flatMap (fun ps => (⟨ps, save, text⟩ : ALane).results) := by
  induction es with
  | nil => simp [entrySlots, slotResults]
  | cons e es ih =>
    simp only [] at ih
    cases e with
    | one p =>
      simp only [List.map_cons, List.cons_append, entrySlots, Entry.procs]
      refine ⟨ih.1, ?_⟩
      rw [slotResults_append, ih.2]
      simp [finalLane, takeThrough_one, slotResults, ALane.results]
    | serial ps =>
      simp only [List.map_cons, List.cons_append, entrySlots, Entry.procs]
      refine ⟨ih.1, ?_⟩
      simp only [slotResults, List.flatMap_cons]
      rw [ih.2]
      simp [finalLane, ALane.results]

theorem commandSlots_final (c : ACommand) (rest : List Lane) :
    let r := commandSlots c (c.run.lanes.map finalLane ++ rest)
    r.2 = rest ∧ slotResults r.1 = (alanesOfCmd c).flatMap ALane.results := by
  obtain ⟨run, save, text⟩ := c
  cases run with
  | single p =>
    have h := entrySlots_final save text [.one p] rest
    simp only [] at h
    simpa [commandSlots, ARun.lanes, alanesOfCmd, Entry.procs, List.flatMap_map] using h
  | many es =>
    have h := entrySlots_final save text es rest
    simp only [] at h
    simpa [commandSlots, ARun.lanes, alanesOfCmd, List.flatMap_map] using h

/-- What `Commands.run` collects from the final lanes: results of the `save` lanes and the errors of
    all lanes, both in declaration order. -/
theorem collect_final (cs : List ACommand) :
    let r := collect cs ((lanesOf cs).map finalLane)
    slotResults r.1 = ((alanesOf cs).filter (·.save)).flatMap ALane.results ∧
    r.2 = (alanesOf cs).flatMap ALane.errors := by
  induction cs with
  | nil => simp [collect, slotResults, alanesOf]
  | cons c cs ih =>
    simp only [] at ih
    have hc := commandSlots_final c ((lanesOf cs).map finalLane)
    simp only [] at hc
    simp only [lanesOf, List.map_append, collect, alanesOf, List.filter_append, List.flatMap_append]
    rw [hc.1]
    refine ⟨?_, ?_⟩
    · rw [slotResults_append, ih.1]
      congr 1
      cases hs : c.save
      · have : (alanesOfCmd c).filter (·.save) = [] := by
          simp [alanesOfCmd, hs]
        simp [this, slotResults]
      · have : (alanesOfCmd c).filter (·.save) = alanesOfCmd c := by
          simp [alanesOfCmd, hs]
        simp [this, hc.2]
    · rw [ih.2, slotErrors_eq, hc.2]
      congr 1
      simp only [List.filter_flatMap, List.map_flatMap]
      refine congrArg (fun f => List.flatMap f _) (funext fun a => ?_)
      simp [ALane.errors]

end Pypyr.Cmd
