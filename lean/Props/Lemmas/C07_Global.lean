/-
  C07 helper lemmas for the global statement: over the whole fuel-indexed mutual recursion of
  `Runner.lean`, for programs whose steps cannot overwrite `runErrors` behind the interpreter's
  back (`progOk`), the `runErrors` list of the shared context only ever grows by appending.

  The probe step reads its instructions from the context key `p` at run time, so the invariant
  carried through the induction is `Good`: "if the `p` in the context is harmless before, it is
  harmless after and the old `runErrors` list is a prefix of the new one".
-/
import Props.Lemmas.C07_Layers

namespace Pypyr.C07
open Pypyr Pypyr.Flow Pypyr.C04

/-! ### the static predicate -/

/-- a context key the probe may write without disturbing the invariant. -/
def keySafe (k : Val) : Bool := k != .str "runErrors" && k != .str "p"

/-- a probe configuration that neither sets, deletes nor clears `runErrors` (nor the probe's own
    configuration key `p`). -/
def probeCfgSafe (cfg : List (Val × Val)) : Bool :=
  (match dictGet? cfg (.str "set") with
   | some (.dict kvs) => kvs.all fun kv => keySafe kv.1
   | _ => true) &&
  (match dictGet? cfg (.str "del") with
   | some v => !((strList? v).getD []).contains "runErrors" && !((strList? v).getD []).contains "p"
   | none => true) &&
  (match dictGet? cfg (.str "clearAll") with
   | some (.bool true) => false
   | _ => true)

/-- the step modules that do not write arbitrary context keys:
    everything except `set`, `contextclear`, `contextclearall` and `pype`. -/
def allowedKind : StepKind → Bool
  | .probe | .stop | .stopPipeline | .stopGroup | .call | .jump | .switch => true
  | _ => false

/-- one `in` binding: not `runErrors`; and if it is `p` and a mapping, a harmless probe configuration. -/
def bindingOk (kv : String × Val) : Bool :=
  kv.1 != "runErrors" &&
  (if kv.1 == "p" then (match kv.2 with | .dict cfg => probeCfgSafe cfg | _ => true) else true)

/-- the decidable condition on a step. -/
def stepOk (d : StepDef) : Bool :=
  (match d.name with
   | some n => (match stepKind? n with | some k => allowedKind k | none => true)
   | none => true) &&
  (d.inArgs.getD []).all bindingOk

/-- the decidable condition on a program: no context parser (it could write any key), all steps ok. -/
def progOk (p : Program) : Bool :=
  p.pipes.all fun pd =>
    pd.parser.isNone &&
    pd.groups.all fun g => match g.2.items with
      | .ok ss => ss.all stepOk        -- every item the body denotes (also of a string / mapping body)
      | .error _ => true                -- a body without a length runs nothing

/-! ### the invariant -/

/-- whatever probe configuration is in the context is harmless. -/
def SafeP (s : St) : Prop := ∀ cfg, Ctx.get? s.ctx "p" = some (.dict cfg) → probeCfgSafe cfg = true

def Good (a b : St) : Prop := SafeP a → SafeP b ∧ runErrorsOf a <+: runErrorsOf b

theorem good : CtxRel ["runErrors", "p"] Good where
  trans := fun h1 h2 ha =>
    ⟨(h2 (h1 ha).1).1, List.IsPrefix.trans (h1 ha).2 (h2 (h1 ha).1).2⟩
  same := fun a b h _ ha => by
    refine ⟨fun cfg hc => ha cfg (by rw [← h "p" (by simp)]; exact hc), ?_⟩
    rw [runErrorsOf_congr a b (h "runErrors" (by simp))]
    exact List.prefix_refl _
  noRetry := by decide
  noI := by decide
  noWhile := by decide

theorem good_of_keys (a b : St) (h1 : Ctx.get? b.ctx "runErrors" = Ctx.get? a.ctx "runErrors")
    (h2 : Ctx.get? b.ctx "p" = Ctx.get? a.ctx "p") : Good a b := by
  -- `Good` does not look at the ghost log: go through a state with `a`'s log
  intro ha
  have hk : ∀ k, k ∈ ["runErrors", "p"] → Ctx.get? b.ctx k = Ctx.get? a.ctx k := by
    intro k hk
    simp only [List.mem_cons, List.not_mem_nil, or_false] at hk
    rcases hk with rfl | rfl
    · exact h1
    · exact h2
  have := good.same a { b with escapes := a.escapes } hk rfl ha
  exact ⟨fun cfg hc => this.1 cfg hc, by
    have e : runErrorsOf b = runErrorsOf { b with escapes := a.escapes } := rfl
    rw [e]; exact this.2⟩

/-- `Good` reads only the context: a state with the same context is as good. -/
theorem good_ctx_right (a b b' : St) (h : b'.ctx = b.ctx) (hg : Good a b) : Good a b' := by
  intro ha
  obtain ⟨h1, h2⟩ := hg ha
  exact ⟨fun cfg hc => h1 cfg (by rw [← h]; exact hc), by
    have e : runErrorsOf b' = runErrorsOf b := by unfold runErrorsOf; rw [h]
    rw [e]; exact h2⟩

theorem good_ctx_left (a a' b : St) (h : a'.ctx = a.ctx) (hg : Good a b) : Good a' b := by
  intro ha
  have ha' : SafeP a := fun cfg hc => ha cfg (by rw [h]; exact hc)
  obtain ⟨h1, h2⟩ := hg ha'
  exact ⟨h1, by
    have e : runErrorsOf a' = runErrorsOf a := by unfold runErrorsOf; rw [h]
    rw [e]; exact h2⟩

theorem saveError_good (d : StepDef) (s : St) (e : ExcV) (sw : Bool) : Good s (saveError d s e sw).1 := by
  intro hs
  refine ⟨?_, saveError_prefix d s e sw⟩
  intro cfg hc
  apply hs cfg
  rcases saveError_ctx d s e sw with h | ⟨ent, h⟩
  · rw [← h]; exact hc
  · rw [h, ctx_get_set_ne _ _ _ _ (by decide)] at hc; exact hc

theorem record_good (d : StepDef) (s : St) (e : ExcV) (sw : Bool) :
    Good s (saveError d (logEscape d s e false) e sw).1 :=
  good_ctx_left _ _ _ (logEscape_ctx d s e false).symm (saveError_good d (logEscape d s e false) e sw)

theorem log_good (d : StepDef) (s : St) (e : ExcV) : Good s (logEscape d s e false) :=
  good_ctx_right s s _ (logEscape_ctx d s e false) (good.refl s)

/-! ### `in` arguments of an ok step -/

theorem setIn_good (d : StepDef) (hd : stepOk d = true) (s : St) : Good s (setIn d s) := by
  have hall : ∀ kv, kv ∈ d.inArgs.getD [] → bindingOk kv = true := by
    have := hd
    simp only [stepOk, Bool.and_eq_true, List.all_eq_true] at this
    exact this.2
  have hre : "runErrors" ∉ (d.inArgs.getD []).map (·.1) := by
    intro hm
    obtain ⟨kv, hkv, hk⟩ := List.mem_map.mp hm
    have := hall kv hkv
    simp [bindingOk, hk] at this
  intro hs
  rw [setIn_eq]
  constructor
  · intro cfg hc
    by_cases hp : "p" ∈ (d.inArgs.getD []).map (·.1)
    · obtain ⟨v, hv, hg⟩ := ctx_get_update_mem _ s.ctx "p" hp
      simp only [] at hc
      rw [hg] at hc
      injection hc with hc
      subst hc
      have := hall ("p", .dict cfg) hv
      simpa [bindingOk] using this
    · simp only [] at hc
      rw [ctx_get_update_notin _ _ _ hp] at hc
      exact hs cfg hc
  · have e1 := runErrorsOf_congr s { s with ctx := Ctx.update s.ctx (d.inArgs.getD []) }
      (ctx_get_update_notin _ _ _ hre)
    rw [e1]
    exact List.prefix_refl _

theorem unsetIn_good (d : StepDef) (hd : stepOk d = true) (s : St) : Good s (unsetIn d s) := by
  have hall : ∀ kv, kv ∈ d.inArgs.getD [] → bindingOk kv = true := by
    have := hd
    simp only [stepOk, Bool.and_eq_true, List.all_eq_true] at this
    exact this.2
  have hre : "runErrors" ∉ (d.inArgs.getD []).map (·.1) := by
    intro hm
    obtain ⟨kv, hkv, hk⟩ := List.mem_map.mp hm
    have := hall kv hkv
    simp [bindingOk, hk] at this
  intro hs
  rw [unsetIn_eq]
  constructor
  · intro cfg hc
    by_cases hp : "p" ∈ (d.inArgs.getD []).map (·.1)
    · simp only [] at hc
      rw [ctx_get_eraseAll_mem _ _ _ hp] at hc
      cases hc
    · simp only [] at hc
      rw [ctx_get_eraseAll_notin _ _ _ hp] at hc
      exact hs cfg hc
  · have e1 := runErrorsOf_congr s { s with ctx := eraseAll s.ctx (d.inArgs.getD []) }
      (ctx_get_eraseAll_notin _ _ _ hre)
    rw [e1]
    exact List.prefix_refl _

/-! ### the probe -/

theorem applySets_get (k : String) : ∀ (kvs : List (Val × Val)) (c : Ctx),
    (∀ kv, kv ∈ kvs → kv.1 ≠ .str k) → Ctx.get? (applySets c kvs) k = Ctx.get? c k := by
  intro kvs
  induction kvs with
  | nil => intro c _; rfl
  | cons kv rest ih =>
    intro c h
    obtain ⟨a, b⟩ := kv
    have hrest : ∀ kv, kv ∈ rest → kv.1 ≠ .str k := fun kv hk => h kv (List.mem_cons_of_mem _ hk)
    cases a with
    | str k' =>
      show Ctx.get? (applySets (Ctx.set c k' b) rest) k = _
      rw [ih _ hrest]
      have : k' ≠ k := fun e => h (.str k', b) List.mem_cons_self (by rw [e])
      exact ctx_get_set_ne c k k' b this
    | _ => exact ih _ hrest

theorem eraseList_get (k : String) : ∀ (ks : List String) (c : Ctx),
    k ∉ ks → Ctx.get? (ks.foldl Ctx.erase c) k = Ctx.get? c k := by
  intro ks
  induction ks with
  | nil => intro c _; rfl
  | cons k' rest ih =>
    intro c h
    simp only [List.mem_cons, not_or] at h
    rw [List.foldl_cons, ih _ h.2]
    exact ctx_get_erase_ne c k k' (fun e => h.1 e.symm)

/-- the context the probe leaves, given its configuration and the context after counting. -/
def probeCtx (cfg : List (Val × Val)) (ctx1 : Ctx) : Ctx :=
  let ctx2 := match dictGet? cfg (.str "set") with
    | some (.dict kvs) => applySets ctx1 kvs
    | _ => ctx1
  let ctx3 := match dictGet? cfg (.str "del") with
    | some v => ((strList? v).getD []).foldl Ctx.erase ctx2
    | none => ctx2
  match dictGet? cfg (.str "clearAll") with
    | some (.bool true) => []
    | _ => ctx3

def probeTag (cfg : List (Val × Val)) : String :=
  match dictGet? cfg (.str "tag") with | some (.str t) => t | _ => "?"

theorem probeCtx_get (cfg : List (Val × Val)) (ctx1 : Ctx) (k : String)
    (hsafe : probeCfgSafe cfg = true) (hk : k = "runErrors" ∨ k = "p") :
    Ctx.get? (probeCtx cfg ctx1) k = Ctx.get? ctx1 k := by
  simp only [probeCfgSafe, Bool.and_eq_true] at hsafe
  obtain ⟨⟨h1, h2⟩, h3⟩ := hsafe
  have e2 : Ctx.get? (match dictGet? cfg (.str "set") with
      | some (.dict kvs) => applySets ctx1 kvs
      | _ => ctx1) k = Ctx.get? ctx1 k := by
    split
    · rename_i kvs heq
      rw [heq] at h1
      simp only [List.all_eq_true] at h1
      apply applySets_get
      intro kv hkv e
      have := h1 kv hkv
      rcases hk with rfl | rfl <;> simp [keySafe, e] at this
    · rfl
  have e3 : ∀ c2 : Ctx, Ctx.get? (match dictGet? cfg (.str "del") with
      | some v => ((strList? v).getD []).foldl Ctx.erase c2
      | none => c2) k = Ctx.get? c2 k := by
    intro c2
    split
    · rename_i v heq
      rw [heq] at h2
      simp only [Bool.and_eq_true, Bool.not_eq_true', List.contains_eq_mem, decide_eq_false_iff_not] at h2
      apply eraseList_get
      rcases hk with rfl | rfl
      · exact h2.1
      · exact h2.2
    · rfl
  unfold probeCtx
  simp only []
  split
  · rename_i heq
    rw [heq] at h3
    simp at h3
  · rw [e3, e2]

/-- every way the probe ends leaves the context it built. -/
theorem probeTail_ctx (s1 : St) (fi : Except Exc Bool) (sc : Val) (msg : String) (g : String → String) :
    (match fi with
     | .error x => raiseExc s1 x
     | .ok true => raiseNew s1 "vprobe.ProbeError" msg
     | .ok false =>
       match sc with
       | .str name => raiseNew s1 name (g name)
       | _ => (s1, .ok)).1.ctx = s1.ctx := by
  cases fi with
  | error x => rfl
  | ok b =>
    cases b with
    | true => rfl
    | false => cases sc <;> rfl

theorem probeTail_res (s1 : St) (fi : Except Exc Bool) (sc : Val) (msg : String) (g : String → String) (c : CofCfg) :
    (match fi with
     | .error x => raiseExc s1 x
     | .ok true => raiseNew s1 "vprobe.ProbeError" msg
     | .ok false =>
       match sc with
       | .str name => raiseNew s1 name (g name)
       | _ => (s1, .ok)).2 ≠ .call c := by
  cases fi with
  | error x => simp [raiseExc, raiseNew]
  | ok b =>
    cases b with
    | true => simp [raiseNew]
    | false => cases sc <;> simp [raiseNew]

theorem probeStep_ctx (s : St) (cfg : List (Val × Val)) (hp : Ctx.get? s.ctx "p" = some (.dict cfg)) :
    ∃ n : Nat, (probeStep s).1.ctx = probeCtx cfg (Ctx.set s.ctx ("_n_" ++ probeTag cfg) (.int n)) := by
  unfold probeStep
  rw [hp]
  simp only []
  exact ⟨_, probeTail_ctx _ _ _ _ (fun name => excStr name _)⟩

theorem probeStep_not_call (s s1 : St) (c : CofCfg) : probeStep s ≠ (s1, .call c) := by
  intro h
  have h2 : (probeStep s).2 = .call c := by rw [h]
  unfold probeStep at h2
  split at h2
  · simp only [] at h2
    exact probeTail_res _ _ _ _ (fun name => excStr name _) c h2
  · simp [raiseNew] at h2

theorem cntKey_ne (t k : String) (hk : k = "runErrors" ∨ k = "p") : "_n_" ++ t ≠ k := by
  intro h
  have := congrArg String.toList h
  rcases hk with rfl | rfl <;> simp at this

theorem probeStep_good : Keeps Good probeStep := by
  intro s hs
  cases hp : Ctx.get? s.ctx "p" with
  | none =>
    have : (probeStep s).1.ctx = s.ctx := by unfold probeStep; rw [hp]; rfl
    exact good_ctx_right s s _ this (good.refl s) hs
  | some v =>
    cases v with
    | dict cfg =>
      obtain ⟨n, hn⟩ := probeStep_ctx s cfg hp
      have hsafe := hs cfg hp
      have hk : ∀ k, k = "runErrors" ∨ k = "p" → Ctx.get? (probeStep s).1.ctx k = Ctx.get? s.ctx k := by
        intro k hk
        rw [hn, probeCtx_get cfg _ k hsafe hk, ctx_get_set_ne _ _ _ _ (cntKey_ne _ k hk)]
      exact good_of_keys s _ (hk _ (.inl rfl)) (hk _ (.inr rfl)) hs
    | _ =>
      have : (probeStep s).1.ctx = s.ctx := by unfold probeStep; rw [hp]; rfl
      exact good_ctx_right s s _ this (good.refl s) hs

/-! ### call / jump / switch -/

theorem instructionFromVal_key (cfg : Val) (key : String) (original : Val) (c : CofCfg)
    (h : instructionFromVal cfg key original = .ok c) : c.key = key := by
  unfold instructionFromVal at h
  repeat' split at h
  all_goals first
    | (injection h with h; rw [← h])
    | cases h
    | (simp only [] at h; split at h <;> first | (injection h with h; rw [← h]) | cases h)

theorem cofStep_ctx (key : String) (isCall : Bool) (s : St) : (cofStep key isCall s).1.ctx = s.ctx := by
  unfold cofStep
  repeat' split
  all_goals rfl

theorem cofStep_callKey (key : String) (isCall : Bool) (s s1 : St) (c : CofCfg)
    (h : cofStep key isCall s = (s1, .call c)) : c.key = key := by
  unfold cofStep at h
  repeat' split at h
  all_goals first
    | (simp [raiseNew, raiseExc] at h; done)
    | (simp at h; obtain ⟨_, rfl⟩ := h; exact instructionFromVal_key _ _ _ _ (by assumption))

theorem switchScan_ctx (s : St) (original : Val) :
    ∀ (cases : List Val) (idx : Nat), (switchScan s original cases idx).1.ctx = s.ctx := by
  intro cases
  induction cases with
  | nil => intro idx; rfl
  | cons c rest ih =>
    intro idx
    unfold switchScan
    repeat' split
    all_goals first
      | rfl
      | exact ih _

theorem switchScan_callKey (s : St) (original : Val) :
    ∀ (cases : List Val) (idx : Nat) (s1 : St) (c : CofCfg),
      switchScan s original cases idx = (s1, .call c) → c.key = "switch" := by
  intro cases
  induction cases with
  | nil => intro idx s1 c h; simp [switchScan] at h
  | cons cs rest ih =>
    intro idx s1 c h
    unfold switchScan at h
    repeat' split at h
    all_goals first
      | exact ih _ _ _ h
      | (simp [raiseNew, raiseExc] at h; done)
      | (simp at h; obtain ⟨_, rfl⟩ := h; exact instructionFromVal_key _ _ _ _ (by assumption))

theorem switchStep_ctx (s : St) : (switchStep s).1.ctx = s.ctx := by
  unfold switchStep
  repeat' split
  all_goals first
    | rfl
    | exact switchScan_ctx _ _ _ _

theorem switchStep_callKey (s s1 : St) (c : CofCfg) (h : switchStep s = (s1, .call c)) : c.key = "switch" := by
  unfold switchStep at h
  repeat' split at h
  all_goals first
    | exact switchScan_callKey _ _ _ _ _ _ h
    | (simp [raiseNew] at h; done)

/-! ### Step.__init__ -/

theorem stepInit_ok (d : StepDef) (kind : StepKind) (h : stepInit d = .ok kind) :
    ∃ n, d.name = some n ∧ stepKind? n = some kind := by
  unfold stepInit at h
  cases hr : d.rawName with
  | some v =>
    rw [hr] at h
    simp only [] at h
    repeat' split at h
    all_goals cases h
  | none =>
    rw [hr] at h
    simp only [] at h
    cases hn : d.name with
    | none => rw [hn] at h; cases h
    | some n =>
      rw [hn] at h
      simp only [] at h
      refine ⟨n, rfl, ?_⟩
      repeat' split at h
      all_goals first
        | (cases h; assumption)
        | cases h

theorem stepOk_kind (d : StepDef) (kind : StepKind) (hd : stepOk d = true) (h : stepInit d = .ok kind) :
    allowedKind kind = true := by
  obtain ⟨n, hn, hk⟩ := stepInit_ok d kind h
  simp only [stepOk, Bool.and_eq_true] at hd
  have := hd.1
  rw [hn] at this
  simp only [hk] at this
  exact this

/-! ### programs -/

theorem progOk_groupSteps (prog : Program) (hp : progOk prog = true) (pipe g : String) :
    ∀ d, d ∈ groupSteps prog pipe g → stepOk d = true := by
  intro d hd
  unfold groupSteps getPipelineSteps at hd
  cases hf : prog.find? pipe with
  | none => rw [hf] at hd; cases hd
  | some pd =>
    rw [hf] at hd
    simp only [] at hd
    have hmem : pd ∈ prog.pipes := List.mem_of_find?_eq_some hf
    simp only [progOk, List.all_eq_true, Bool.and_eq_true] at hp
    have h2 := (hp pd hmem).2
    unfold PipeDef.group? at hd
    cases hfg : pd.groups.find? (·.1 == g) with
    | none => rw [hfg] at hd; cases hd
    | some gg =>
      rw [hfg] at hd
      simp only [Option.map_some] at hd
      have hgm : gg ∈ pd.groups := List.mem_of_find?_eq_some hfg
      have := h2 gg hgm
      cases hit : gg.2.items with
      | error e => rw [hit] at hd; cases hd
      | ok ss =>
        rw [hit] at hd this
        simp only [List.all_eq_true] at this
        exact this d hd

theorem progOk_parser (prog : Program) (hp : progOk prog = true) (name : String) (pd : PipeDef)
    (hf : prog.find? name = some pd) : pd.parser = none := by
  have hmem : pd ∈ prog.pipes := List.mem_of_find?_eq_some hf
  simp only [progOk, List.all_eq_true, Bool.and_eq_true] at hp
  have := (hp pd hmem).1
  cases h : pd.parser with
  | none => rfl
  | some p => rw [h] at this; cases this

theorem prepareContext_noParser (pd : PipeDef) (pi : PipeInst) (s : St) (h : pd.parser = none) :
    prepareContext pd pi s = (s, .ok) := by
  unfold prepareContext
  rw [h]
  cases pi.parseInput <;> rfl

end Pypyr.C07
