/-
  C09 — the heap-level model simulates the tree-level model, for ANY sound memo.

  Part 1: fuel monotonicity of the tree-level formatter (`Pypyr.fmtIter` / `fmtField` / `fmtKeepType`):
          a result obtained with some fuel is the result with any larger fuel. Hence the formatted value of a
          tree value is unique (`fmtIter_unique`).
  Part 2: reading tree values off a heap (`Reads`), monotone in the fuel and stable under extension;
          functional.
  Part 3: `MemoSound`: every entry `(x, d)` of the memo that answers holds, at `d`, the formatted value of
          the value that the CURRENT heap has at `x`.
  Part 4: the simulation (`fmtH_sim_all`): mutual fuel induction over `fmtH` / `fmtHField` / `fmtHKeep`.
-/
import PypyrModel.Fmt
import PypyrModel.FmtHeap
import Props.Lemmas.C09_Tree
import Props.Lemmas.C09_Heap

namespace Pypyr.C09
open Pypyr Pypyr.FmtHeap

/-! ## Part 1: fuel monotonicity of the tree-level formatter -/

theorem mapE_mono {α β} {f g : α → Except Exc β} (hfg : ∀ x y, f x = .ok y → g x = .ok y) :
    ∀ {xs : List α} {ys : List β}, mapE f xs = .ok ys → mapE g xs = .ok ys
  | [], ys, h => by simpa [mapE] using h
  | x :: xs, ys, h => by
    simp only [mapE] at h
    split at h
    · cases h
    · rename_i y hy
      split at h
      · cases h
      · rename_i ys' hys
        cases h
        simp [mapE, hfg x y hy, mapE_mono hfg hys]

/-- The three mutually recursive functions, one more unit of fuel. -/
theorem fmt_mono_succ : ∀ n : Nat,
    (∀ c b v w, fmtIter n c b v = .ok w → fmtIter (n + 1) c b v = .ok w) ∧
    (∀ c b name spec r, fmtField n c b name spec = .ok r → fmtField (n + 1) c b name spec = .ok r) ∧
    (∀ c b s w, fmtKeepType n c b s = .ok w → fmtKeepType (n + 1) c b s = .ok w) := by
  intro n
  induction n with
  | zero =>
    refine ⟨?_, ?_, ?_⟩
    · intro c b v w h; simp [fmtIter] at h
    · intro c b name spec r h; simp [fmtField] at h
    · intro c b s w h; simp [fmtKeepType] at h
  | succ n ih =>
    obtain ⟨ihI, ihF, ihK⟩ := ih
    refine ⟨?_, ?_, ?_⟩
    · intro c b v w h
      cases v with
      | sic s => simpa [fmtIter] using h
      | py e => simpa [fmtIter] using h
      | jsonify x =>
        rw [fmtIter] at h ⊢
        split at h
        · cases h
        · rename_i fw hfw
          rw [ihI c false x fw hfw]
          exact h
      | str s =>
        rw [fmtIter] at h ⊢
        exact ihK c b s w h
      | dict kvs =>
        rw [fmtIter] at h ⊢
        split at h
        · cases h
        · rename_i kvs' hm
          have hstep : ∀ (kv : Val × Val) (y : Val × Val),
              (match fmtIter n c b kv.1 with
               | .error e => Except.error e
               | .ok k => match fmtIter n c b kv.2 with
                 | .error e => .error e
                 | .ok w => .ok (k, w)) = .ok y →
              (match fmtIter (n + 1) c b kv.1 with
               | .error e => Except.error e
               | .ok k => match fmtIter (n + 1) c b kv.2 with
                 | .error e => .error e
                 | .ok w => .ok (k, w)) = .ok y := by
            intro kv y hy
            split at hy
            · cases hy
            · rename_i k hk
              split at hy
              · cases hy
              · rename_i w' hw'
                cases hy
                simp [ihI c b kv.1 k hk, ihI c b kv.2 w' hw']
          split
          · rename_i e he
            have : Except.error e = Except.ok kvs' := he.symm.trans (mapE_mono hstep hm)
            cases this
          · rename_i kvs2 hm2
            have : Except.ok kvs2 = Except.ok kvs' := hm2.symm.trans (mapE_mono hstep hm)
            cases this
            exact h
      | list xs =>
        rw [fmtIter] at h ⊢
        cases hm : mapE (fmtIter n c b) xs with
        | error e => rw [hm] at h; cases h
        | ok ys => rw [hm] at h; rw [mapE_mono (ihI c b) hm]; exact h
      | tuple xs =>
        rw [fmtIter] at h ⊢
        cases hm : mapE (fmtIter n c b) xs with
        | error e => rw [hm] at h; cases h
        | ok ys => rw [hm] at h; rw [mapE_mono (ihI c b) hm]; exact h
      | set xs =>
        rw [fmtIter] at h ⊢
        cases hm : mapE (fmtIter n c b) xs with
        | error e => rw [hm] at h; cases h
        | ok ys => rw [hm] at h; rw [mapE_mono (ihI c b) hm]; exact h
      | none => simpa [fmtIter] using h
      | bool x => simpa [fmtIter] using h
      | int x => simpa [fmtIter] using h
      | flt x y => simpa [fmtIter] using h
      | bytes x => simpa [fmtIter] using h
      | obj x => simpa [fmtIter] using h
    · intro c b name spec r h
      rw [fmtField] at h ⊢
      split at h
      · cases h
      · rename_i obj hobj
        split at h
        · rename_i hc
          simp only [hc, if_true]
          split at h
          · cases h
          · rename_i o ho
            rw [ihI c true obj o ho]
            exact h
        · rename_i hc
          simp only [hc]
          exact h
    · intro c b s w h
      rw [fmtKeepType] at h ⊢
      split at h
      · cases h
      · rename_i pieces hp
        split at h
        · exact h
        · exact h
        · rename_i name spec
          split at h
          · cases h
          · rename_i obj recursed hf
            rw [ihF c b name spec (obj, recursed) hf]
            simp only []
            split at h
            · rename_i hc; simp only [hc, if_true]; exact h
            · rename_i hc; simp only [hc]; exact ihI c (spec == "rf") obj w h
        · rename_i hne1 hne2 hne3
          split at h
          · cases h
          · rename_i strs hm
            have hstep : ∀ (p : Piece) (y : String),
                (match p with
                 | Piece.lit t => Except.ok t
                 | Piece.field name spec =>
                   match fmtField n c b name spec with
                   | .error e => .error e
                   | .ok (obj, _) => .ok (pyStr obj)) = .ok y →
                (match p with
                 | Piece.lit t => Except.ok t
                 | Piece.field name spec =>
                   match fmtField (n + 1) c b name spec with
                   | .error e => .error e
                   | .ok (obj, _) => .ok (pyStr obj)) = .ok y := by
              intro p y hy
              cases p with
              | lit t => exact hy
              | field name spec =>
                simp only at hy ⊢
                split at hy
                · cases hy
                · rename_i obj rc hf
                  rw [ihF c b name spec (obj, rc) hf]
                  exact hy
            split
            · rename_i e he
              have : Except.error e = Except.ok strs := he.symm.trans (mapE_mono hstep hm)
              cases this
            · rename_i strs2 hm2
              have : Except.ok strs2 = Except.ok strs := hm2.symm.trans (mapE_mono hstep hm)
              cases this
              exact h

theorem fmtIter_mono {n m : Nat} (hnm : n ≤ m) {c : Ctx} {b : Bool} {v w : Val}
    (h : fmtIter n c b v = .ok w) : fmtIter m c b v = .ok w := by
  induction hnm with
  | refl => exact h
  | step _ ih => exact (fmt_mono_succ _).1 c b v w ih

theorem fmtField_mono {n m : Nat} (hnm : n ≤ m) {c : Ctx} {b : Bool} {name spec : String} {r : Val × Bool}
    (h : fmtField n c b name spec = .ok r) : fmtField m c b name spec = .ok r := by
  induction hnm with
  | refl => exact h
  | step _ ih => exact (fmt_mono_succ _).2.1 c b name spec r ih

theorem fmtKeepType_mono {n m : Nat} (hnm : n ≤ m) {c : Ctx} {b : Bool} {s : String} {w : Val}
    (h : fmtKeepType n c b s = .ok w) : fmtKeepType m c b s = .ok w := by
  induction hnm with
  | refl => exact h
  | step _ ih => exact (fmt_mono_succ _).2.2 c b s w ih

/-- The formatted value of a tree value does not depend on the fuel that was enough. -/
theorem fmtIter_unique {n m : Nat} {c : Ctx} {b : Bool} {v w1 w2 : Val}
    (h1 : fmtIter n c b v = .ok w1) (h2 : fmtIter m c b v = .ok w2) : w1 = w2 := by
  have a := fmtIter_mono (Nat.le_max_left n m) h1
  have b' := fmtIter_mono (Nat.le_max_right n m) h2
  rw [a] at b'
  cases b'; rfl


/-! ## Part 2: reading tree values off a heap -/

/-- The object at `r` reads as the tree value `v` (with some fuel: the structure below `r` is finite). -/
def Reads (h : Heap) (r : Ref) (v : Val) : Prop := ∃ f, readVal f h r = some v

/-- the pair reader of `readVal`'s dict case -/
def readPair (f : Nat) (h : Heap) (kv : Ref × Ref) : Option (Val × Val) :=
  match readVal f h kv.1 with
  | none => none
  | some k => match readVal f h kv.2 with
    | none => none
    | some v => some (k, v)

theorem readVal_dict_eq (f : Nat) (h : Heap) (r : Ref) (t : Nat) (kvs : List (Ref × Ref))
    (hc : h[r]? = some (.dict t kvs)) :
    readVal (f + 1) h r = (mapO (readPair f h) kvs).map .dict := by
  rw [readVal]; simp only [hc]; rfl

theorem readVal_mono_succ : ∀ (n : Nat) (h : Heap) (r : Ref) (v : Val),
    readVal n h r = some v → readVal (n + 1) h r = some v := by
  intro n
  induction n with
  | zero => intro h r v hv; simp [readVal] at hv
  | succ n ih =>
    intro h r v hv
    cases hc : h[r]? with
    | none => rw [readVal] at hv; simp [hc] at hv
    | some cell =>
      cases cell with
      | leaf x => rw [readVal] at hv ⊢; simpa [hc] using hv
      | mbytes b => rw [readVal] at hv ⊢; simpa [hc] using hv
      | str s => rw [readVal] at hv ⊢; simpa [hc] using hv
      | pyName nm => rw [readVal] at hv ⊢; simpa [hc] using hv
      | list t rs =>
        rw [readVal] at hv ⊢
        simp only [hc] at hv ⊢
        simp only [Option.map_eq_some_iff] at hv ⊢
        obtain ⟨ys, hm, rfl⟩ := hv
        exact ⟨ys, mapO_mono (ih h) rs ys hm, rfl⟩
      | tuple t rs =>
        rw [readVal] at hv ⊢
        simp only [hc] at hv ⊢
        simp only [Option.map_eq_some_iff] at hv ⊢
        obtain ⟨ys, hm, rfl⟩ := hv
        exact ⟨ys, mapO_mono (ih h) rs ys hm, rfl⟩
      | set t rs =>
        rw [readVal] at hv ⊢
        simp only [hc] at hv ⊢
        simp only [Option.map_eq_some_iff] at hv ⊢
        obtain ⟨ys, hm, rfl⟩ := hv
        exact ⟨ys, mapO_mono (ih h) rs ys hm, rfl⟩
      | dict t kvs =>
        rw [readVal_dict_eq _ _ _ _ _ hc] at hv ⊢
        simp only [Option.map_eq_some_iff] at hv ⊢
        obtain ⟨ys, hm, rfl⟩ := hv
        refine ⟨ys, mapO_mono ?_ kvs ys hm, rfl⟩
        intro kv y hy
        unfold readPair at hy ⊢
        split at hy
        · cases hy
        · rename_i k hk
          split at hy
          · cases hy
          · rename_i w hw
            cases hy
            simp [ih h _ _ hk, ih h _ _ hw]
      | sic p =>
        rw [readVal] at hv ⊢
        simp only [hc] at hv ⊢
        split at hv
        · rename_i s hs; simp only [ih h _ _ hs]; exact hv
        · cases hv
      | jsonify p =>
        rw [readVal] at hv ⊢
        simp only [hc] at hv ⊢
        simp only [Option.map_eq_some_iff] at hv ⊢
        obtain ⟨w, hw, rfl⟩ := hv
        exact ⟨w, ih h _ _ hw, rfl⟩

theorem readVal_mono {n m : Nat} (hnm : n ≤ m) {h : Heap} {r : Ref} {v : Val}
    (hv : readVal n h r = some v) : readVal m h r = some v := by
  induction hnm with
  | refl => exact hv
  | step _ ih => exact readVal_mono_succ _ h r v ih

theorem Reads.functional {h : Heap} {r : Ref} {v1 v2 : Val} (h1 : Reads h r v1) (h2 : Reads h r v2) : v1 = v2 := by
  obtain ⟨f1, e1⟩ := h1
  obtain ⟨f2, e2⟩ := h2
  have a := readVal_mono (Nat.le_max_left f1 f2) e1
  have b := readVal_mono (Nat.le_max_right f1 f2) e2
  rw [a] at b; cases b; rfl

theorem Reads.ext {h h' : Heap} (e : Ext h h') {r : Ref} {v : Val} (hr : Reads h r v) : Reads h' r v := by
  obtain ⟨f, hf⟩ := hr
  exact ⟨f, readVal_ext e f r v hf⟩

theorem Reads.of_deepVal {h : Heap} {r : Ref} {v : Val} (hd : deepVal h r = some v) : Reads h r v :=
  ⟨_, hd⟩

theorem Reads.lt {h : Heap} {r : Ref} {v : Val} (hr : Reads h r v) : r < h.length := by
  obtain ⟨f, hf⟩ := hr
  cases f with
  | zero => simp [readVal] at hf
  | succ n =>
    rcases Nat.lt_or_ge r h.length with hlt | hge
    · exact hlt
    · rw [readVal, List.getElem?_eq_none hge] at hf; cases hf

/-- `mapO` of a reader with one fuel, as an element-wise relation. -/
theorem mapO_all₂ {α β} {f : α → Option β} :
    ∀ {xs : List α} {ys : List β}, mapO f xs = some ys → All₂ (fun x y => f x = some y) xs ys
  | [], ys, h => by simp only [mapO] at h; cases h; exact All₂.nil
  | x :: xs, ys, h => by
    simp only [mapO] at h
    split at h
    · cases h
    · rename_i y hy
      split at h
      · cases h
      · rename_i ys' hys
        cases h
        exact All₂.cons hy (mapO_all₂ hys)

theorem all₂_mapO {α β} {f : α → Option β} :
    ∀ {xs : List α} {ys : List β}, All₂ (fun x y => f x = some y) xs ys → mapO f xs = some ys
  | _, _, .nil => rfl
  | _, _, .cons hxy t => by simp [mapO, hxy, all₂_mapO t]

theorem All₂.imp {α β} {R S : α → β → Prop} (hRS : ∀ x y, R x y → S x y) :
    ∀ {xs : List α} {ys : List β}, All₂ R xs ys → All₂ S xs ys
  | _, _, .nil => .nil
  | _, _, .cons h t => .cons (hRS _ _ h) (All₂.imp hRS t)

/-- element-wise readable with individual fuels ⇒ readable with one common fuel -/
theorem reads_common {h : Heap} : ∀ {rs : List Ref} {vs : List Val}, All₂ (Reads h) rs vs →
    ∃ F, All₂ (fun r v => readVal F h r = some v) rs vs
  | _, _, .nil => ⟨0, .nil⟩
  | _, _, .cons (x := r) (y := v) ⟨f, hf⟩ t => by
    obtain ⟨F, hF⟩ := reads_common t
    refine ⟨max f F, .cons (readVal_mono (Nat.le_max_left f F) hf) ?_⟩
    exact All₂.imp (fun r v hrv => readVal_mono (Nat.le_max_right f F) hrv) hF

def PairReads (h : Heap) (kv : Ref × Ref) (p : Val × Val) : Prop := Reads h kv.1 p.1 ∧ Reads h kv.2 p.2

theorem pairReads_common {h : Heap} : ∀ {kvs : List (Ref × Ref)} {ps : List (Val × Val)}, All₂ (PairReads h) kvs ps →
    ∃ F, All₂ (fun kv p => readPair F h kv = some p) kvs ps
  | _, _, .nil => ⟨0, .nil⟩
  | _, _, .cons (x := kv) (y := p) ⟨⟨f1, h1⟩, ⟨f2, h2⟩⟩ t => by
    obtain ⟨F, hF⟩ := pairReads_common t
    refine ⟨f1 + f2 + F, .cons ?_ ?_⟩
    · have a := readVal_mono (n := f1) (m := f1 + f2 + F) (by omega) h1
      have b := readVal_mono (n := f2) (m := f1 + f2 + F) (by omega) h2
      obtain ⟨p1, p2⟩ := p
      simp only [readPair, a, b]
    · refine All₂.imp ?_ hF
      intro kv p hkp
      unfold readPair at hkp ⊢
      split at hkp
      · cases hkp
      · rename_i k hk
        split at hkp
        · cases hkp
        · rename_i w hw
          cases hkp
          rw [readVal_mono (n := F) (m := f1 + f2 + F) (by omega) hk,
            readVal_mono (n := F) (m := f1 + f2 + F) (by omega) hw]

/-! ### constructors and inversions of `Reads`, per cell kind -/

theorem Reads.leaf {h : Heap} {r : Ref} {x : Val} (hc : h[r]? = some (.leaf x)) : Reads h r x :=
  ⟨1, by rw [readVal]; simp [hc]⟩

theorem Reads.str {h : Heap} {r : Ref} {s : String} (hc : h[r]? = some (.str s)) : Reads h r (.str s) :=
  ⟨1, by rw [readVal]; simp [hc]⟩

theorem Reads.mk_list {h : Heap} {r : Ref} {t : Nat} {rs : List Ref} {vs : List Val}
    (hc : h[r]? = some (.list t rs)) (ha : All₂ (Reads h) rs vs) : Reads h r (.list vs) := by
  obtain ⟨F, hF⟩ := reads_common ha
  exact ⟨F + 1, by rw [readVal]; simp [hc, all₂_mapO hF]⟩

theorem Reads.mk_tuple {h : Heap} {r : Ref} {t : Nat} {rs : List Ref} {vs : List Val}
    (hc : h[r]? = some (.tuple t rs)) (ha : All₂ (Reads h) rs vs) : Reads h r (.tuple vs) := by
  obtain ⟨F, hF⟩ := reads_common ha
  exact ⟨F + 1, by rw [readVal]; simp [hc, all₂_mapO hF]⟩

theorem Reads.mk_set {h : Heap} {r : Ref} {t : Nat} {rs : List Ref} {vs : List Val}
    (hc : h[r]? = some (.set t rs)) (ha : All₂ (Reads h) rs vs) : Reads h r (.set vs) := by
  obtain ⟨F, hF⟩ := reads_common ha
  exact ⟨F + 1, by rw [readVal]; simp [hc, all₂_mapO hF]⟩

theorem Reads.mk_dict {h : Heap} {r : Ref} {t : Nat} {kvs : List (Ref × Ref)} {ps : List (Val × Val)}
    (hc : h[r]? = some (.dict t kvs)) (ha : All₂ (PairReads h) kvs ps) : Reads h r (.dict ps) := by
  obtain ⟨F, hF⟩ := pairReads_common ha
  exact ⟨F + 1, by rw [readVal_dict_eq _ _ _ _ _ hc]; simp [all₂_mapO hF]⟩

theorem Reads.inv_list {h : Heap} {r : Ref} {t : Nat} {rs : List Ref} {v : Val}
    (hc : h[r]? = some (.list t rs)) (hr : Reads h r v) : ∃ vs, v = .list vs ∧ All₂ (Reads h) rs vs := by
  obtain ⟨f, hf⟩ := hr
  cases f with
  | zero => simp [readVal] at hf
  | succ n =>
    rw [readVal] at hf
    simp only [hc, Option.map_eq_some_iff] at hf
    obtain ⟨ys, hm, rfl⟩ := hf
    exact ⟨ys, rfl, All₂.imp (fun r v hrv => ⟨n, hrv⟩) (mapO_all₂ hm)⟩

theorem Reads.inv_tuple {h : Heap} {r : Ref} {t : Nat} {rs : List Ref} {v : Val}
    (hc : h[r]? = some (.tuple t rs)) (hr : Reads h r v) : ∃ vs, v = .tuple vs ∧ All₂ (Reads h) rs vs := by
  obtain ⟨f, hf⟩ := hr
  cases f with
  | zero => simp [readVal] at hf
  | succ n =>
    rw [readVal] at hf
    simp only [hc, Option.map_eq_some_iff] at hf
    obtain ⟨ys, hm, rfl⟩ := hf
    exact ⟨ys, rfl, All₂.imp (fun r v hrv => ⟨n, hrv⟩) (mapO_all₂ hm)⟩

theorem Reads.inv_set {h : Heap} {r : Ref} {t : Nat} {rs : List Ref} {v : Val}
    (hc : h[r]? = some (.set t rs)) (hr : Reads h r v) : ∃ vs, v = .set vs ∧ All₂ (Reads h) rs vs := by
  obtain ⟨f, hf⟩ := hr
  cases f with
  | zero => simp [readVal] at hf
  | succ n =>
    rw [readVal] at hf
    simp only [hc, Option.map_eq_some_iff] at hf
    obtain ⟨ys, hm, rfl⟩ := hf
    exact ⟨ys, rfl, All₂.imp (fun r v hrv => ⟨n, hrv⟩) (mapO_all₂ hm)⟩

theorem Reads.inv_dict {h : Heap} {r : Ref} {t : Nat} {kvs : List (Ref × Ref)} {v : Val}
    (hc : h[r]? = some (.dict t kvs)) (hr : Reads h r v) : ∃ ps, v = .dict ps ∧ All₂ (PairReads h) kvs ps := by
  obtain ⟨f, hf⟩ := hr
  cases f with
  | zero => simp [readVal] at hf
  | succ n =>
    rw [readVal_dict_eq _ _ _ _ _ hc] at hf
    simp only [Option.map_eq_some_iff] at hf
    obtain ⟨ys, hm, rfl⟩ := hf
    refine ⟨ys, rfl, All₂.imp ?_ (mapO_all₂ hm)⟩
    intro kv p hkp
    unfold readPair at hkp
    split at hkp
    · cases hkp
    · rename_i k hk
      split at hkp
      · cases hkp
      · rename_i w hw
        cases hkp
        exact ⟨⟨n, hk⟩, ⟨n, hw⟩⟩

theorem Reads.inv_sic {h : Heap} {r p : Ref} {v : Val}
    (hc : h[r]? = some (.sic p)) (hr : Reads h r v) : ∃ s, v = .sic s ∧ Reads h p (.str s) := by
  obtain ⟨f, hf⟩ := hr
  cases f with
  | zero => simp [readVal] at hf
  | succ n =>
    rw [readVal] at hf
    simp only [hc] at hf
    split at hf
    · rename_i s hs; cases hf; exact ⟨s, rfl, ⟨n, hs⟩⟩
    · cases hf

theorem Reads.inv_jsonify {h : Heap} {r p : Ref} {v : Val}
    (hc : h[r]? = some (.jsonify p)) (hr : Reads h r v) : ∃ w, v = .jsonify w ∧ Reads h p w := by
  obtain ⟨f, hf⟩ := hr
  cases f with
  | zero => simp [readVal] at hf
  | succ n =>
    rw [readVal] at hf
    simp only [hc, Option.map_eq_some_iff] at hf
    obtain ⟨w, hw, rfl⟩ := hf
    exact ⟨w, rfl, ⟨n, hw⟩⟩

theorem Reads.inv_simple {h : Heap} {r : Ref} {v : Val} (hr : Reads h r v) :
    (∀ x, h[r]? = some (.leaf x) → v = x) ∧ (∀ b, h[r]? = some (.mbytes b) → v = .bytes b) ∧
    (∀ s, h[r]? = some (.str s) → v = .str s) ∧ (∀ n, h[r]? = some (.pyName n) → v = .py (.name n)) := by
  obtain ⟨f, hf⟩ := hr
  cases f with
  | zero => simp [readVal] at hf
  | succ n =>
    rw [readVal] at hf
    refine ⟨?_, ?_, ?_, ?_⟩ <;> intro x hc <;> simp [hc] at hf <;> exact hf.symm


/-! ## Part 3: the invariants -/

/-- the objects an object holds -/
def cellRefs : Cell → List Ref
  | .list _ rs | .tuple _ rs | .set _ rs => rs
  | .dict _ kvs => kvs.map (·.1) ++ kvs.map (·.2)
  | .sic r | .jsonify r => [r]
  | _ => []

/-- Every object refers to objects at LOWER addresses only (what a heap built bottom-up satisfies; the driver's
    `heapOk`). On such a heap `deepVal` has enough fuel for every object (`Ordered.deepVal`). -/
def Ordered (h : Heap) : Prop := ∀ i c, h[i]? = some c → ∀ y ∈ cellRefs c, y < i

theorem getElem?_snoc' {α} (l : List α) (a : α) (x : Nat) :
    (l ++ [a])[x]? = if x < l.length then l[x]? else if x = l.length then some a else none := by
  rw [List.getElem?_append]
  split
  · rfl
  · rename_i hx
    split
    · rename_i he; subst he; simp
    · rename_i hne
      rw [List.getElem?_eq_none]; simp; omega

theorem Ordered.alloc {h : Heap} (o : Ordered h) (c : Cell) (hc : ∀ y ∈ cellRefs c, y < h.length) :
    Ordered (h ++ [c]) := by
  intro i c' hi y hy
  rw [getElem?_snoc'] at hi
  split at hi
  · exact o i c' hi y hy
  · split at hi
    · rename_i he; cases hi; subst he; exact hc y hy
    · cases hi

/-- a `leaf` cell holds a non-string leaf value (what the driver admits) -/
def LeafOk (h : Heap) : Prop := ∀ (i : Nat) (x : Val), h[i]? = some (Cell.leaf x) → isLeafVal x = true

theorem LeafOk.ext {h h' : Heap} (l : LeafOk h) (e : Ext h h') : LeafOk h' := by
  intro i x hi
  rcases Nat.lt_or_ge i h.length with hlt | hge
  · cases hc : h[i]? with
    | none => rw [List.getElem?_eq_none_iff] at hc; omega
    | some c0 =>
      have h2 := e.get hc
      rw [h2] at hi
      cases hi
      exact l i x hc
  · have := e.new_isAlloc hge hi
    simp [isAllocCell] at this

/-- The tree reading of the context: the same keys in the same order, every bound object readable. -/
def CtxReads (h : Heap) (hc : HCtx) (c : Ctx) : Prop :=
  All₂ (fun (a : String × Ref) (b : String × Val) => a.1 = b.1 ∧ Reads h a.2 b.2) hc c

theorem CtxReads.ext {h h' : Heap} {hc : HCtx} {c : Ctx} (cr : CtxReads h hc c) (e : Ext h h') : CtxReads h' hc c :=
  All₂.imp (fun _ _ hab => ⟨hab.1, hab.2.ext e⟩) cr

theorem CtxReads.get {h : Heap} : ∀ {hc : HCtx} {c : Ctx}, CtxReads h hc c → ∀ {k : String} {o : Ref},
    HCtx.get? hc k = some o → ∃ v, Ctx.get? c k = some v ∧ Reads h o v
  | _, _, .nil, k, o, hk => by simp [HCtx.get?] at hk
  | _, _, .cons (x := a) (y := b) hab t, k, o, hk => by
    obtain ⟨a1, a2⟩ := a
    obtain ⟨b1, b2⟩ := b
    simp only at hab
    obtain ⟨e1, hr⟩ := hab
    subst e1
    simp only [HCtx.get?] at hk
    by_cases hkk : a1 = k
    · simp only [hkk, if_true] at hk
      cases hk
      exact ⟨b2, by simp [Ctx.get?, hkk], hr⟩
    · simp only [hkk, if_false] at hk
      obtain ⟨v, hv, hrv⟩ := CtxReads.get t hk
      exact ⟨v, by simp [Ctx.get?, hkk, hv], hrv⟩

/-- **`MemoSound`**: every memo entry `(x, d)` that answers (`already_done is not None`) holds at `d` the
    formatted value of the value that the CURRENT heap has at `x` — formatted against the context `c` with
    the recursion flag `b` of the traversal the memo belongs to. -/
def MemoSound (c : Ctx) (b : Bool) (st : St) : Prop :=
  ∀ x d, memoHit st x = some d →
    ∃ v fuel w, Reads st.heap x v ∧ fmtIter fuel c b v = .ok w ∧ Reads st.heap d w

theorem MemoSound.nil (c : Ctx) (b : Bool) (h : Heap) : MemoSound c b { heap := h, memo := [] } := by
  intro x d hx; simp [memoHit, memoGet] at hx

theorem isNoneCell_of_ext {h h' : Heap} (e : Ext h h') {d : Ref} (hd : isNoneCell h' d = false) :
    isNoneCell h d = false := by
  cases hc : h[d]? with
  | none => simp [isNoneCell, hc]
  | some c =>
    have := e.get hc
    simp only [isNoneCell, this] at hd
    simp only [isNoneCell, hc]
    exact hd

/-- Closing step of every branch of `fmtH` that writes the memo: the heap was extended, and
    `memo[id(obj)] = new` was (perhaps) executed with an entry that is sound. -/
theorem MemoSound.finish {c : Ctx} {b : Bool} {st : St} {h2 : Heap} {r nr : Ref}
    (hs : MemoSound c b st) (e : Ext st.heap h2)
    (hnew : ∃ v fuel w, Reads h2 r v ∧ fmtIter fuel c b v = .ok w ∧ Reads h2 nr w) :
    MemoSound c b { heap := h2, memo := memoIf st.memo r nr } := by
  intro x d hx
  have ⟨hg, hnc⟩ := memoHit_some hx
  simp only at hg hnc
  have old : memoGet st.memo x = some d → ∃ v fuel w, Reads h2 x v ∧ fmtIter fuel c b v = .ok w ∧ Reads h2 d w := by
    intro hgo
    have : memoHit st x = some d := memoHit_of hgo (isNoneCell_of_ext e hnc)
    obtain ⟨v, fuel, w, h1, h2', h3⟩ := hs x d this
    exact ⟨v, fuel, w, h1.ext e, h2', h3.ext e⟩
  simp only [memoIf] at hg
  split at hg
  · exact old hg
  · rw [memoGet_memoSet] at hg
    by_cases hxr : x = r
    · simp only [hxr, if_true] at hg
      cases hg
      subst hxr
      exact hnew
    · simp only [hxr, if_false] at hg
      exact old hg

/-- the state invariant of a traversal -/
def SInv (hc : HCtx) (c : Ctx) (b : Bool) (st : St) : Prop :=
  LeafOk st.heap ∧ CtxReads st.heap hc c ∧ MemoSound c b st

def HInv (hc : HCtx) (c : Ctx) (h : Heap) : Prop := LeafOk h ∧ CtxReads h hc c

theorem HInv.ext {hc : HCtx} {c : Ctx} {h h' : Heap} (i : HInv hc c h) (e : Ext h h') : HInv hc c h' :=
  ⟨i.1.ext e, i.2.ext e⟩

/-- what a call does to the state -/
def StepS (st st' : St) : Prop := Good st st' ∧ (Ordered st.heap → Ordered st'.heap)
def StepH (h h' : Heap) : Prop := Ext h h' ∧ (Ordered h → Ordered h')

theorem StepS.refl (st : St) : StepS st st := ⟨Good.refl st, id⟩
theorem StepS.trans {a b c : St} (h1 : StepS a b) (h2 : StepS b c) : StepS a c :=
  ⟨h1.1.trans h2.1, fun o => h2.2 (h1.2 o)⟩
theorem StepH.refl (h : Heap) : StepH h h := ⟨Ext.refl h, id⟩
theorem StepH.trans {a b c : Heap} (h1 : StepH a b) (h2 : StepH b c) : StepH a c :=
  ⟨h1.1.trans h2.1, fun o => h2.2 (h1.2 o)⟩

/-! ### the generic fold -/

theorem mapE_cons_ok {α β} {f : α → Except Exc β} {x : α} {y : β} {xs : List α} {ys : List β}
    (h1 : f x = .ok y) (h2 : mapE f xs = .ok ys) : mapE f (x :: xs) = .ok (y :: ys) := by
  simp [mapE, h1, h2]

/-- `mapS` of a heap-level step against `mapE` of a fuel-indexed tree-level step. -/
theorem mapS_sim {σ α β γ δ : Type} {f : α → σ → Except Exc (β × σ)} (hp : σ → Heap)
    (P : σ → Prop) (Q : σ → σ → Prop) (hQrefl : ∀ s, Q s s) (hQtrans : ∀ a b c, Q a b → Q b c → Q a c)
    (hQext : ∀ s s', Q s s' → Ext (hp s) (hp s'))
    (RIn : Heap → α → γ → Prop) (ROut : Heap → β → δ → Prop) (T : Nat → γ → Except Exc δ)
    (hRIn : ∀ h h' x v, Ext h h' → RIn h x v → RIn h' x v)
    (hROut : ∀ h h' y w, Ext h h' → ROut h y w → ROut h' y w)
    (hT : ∀ n m x y, n ≤ m → T n x = .ok y → T m x = .ok y)
    (hstep : ∀ x s y s' v, f x s = .ok (y, s') → P s → RIn (hp s) x v →
        Q s s' ∧ P s' ∧ ∃ fuel w, T fuel v = .ok w ∧ ROut (hp s') y w) :
    ∀ (xs : List α) (s : σ) (ys : List β) (s' : σ) (vs : List γ),
      mapS f xs s = .ok (ys, s') → P s → All₂ (RIn (hp s)) xs vs →
      Q s s' ∧ P s' ∧ ∃ F ws, mapE (T F) vs = .ok ws ∧ All₂ (ROut (hp s')) ys ws
  | [], s, ys, s', vs, h, hP, hall => by
    simp only [mapS] at h
    cases h
    cases hall
    exact ⟨hQrefl s, hP, 0, [], rfl, .nil⟩
  | x :: xs, s, ys, s', vs, h, hP, hall => by
    simp only [mapS] at h
    split at h
    · cases h
    · rename_i y s1 hy
      split at h
      · cases h
      · rename_i ys' s2 hys
        cases h
        cases hall with
        | cons hxv hrest =>
          rename_i v vs'
          obtain ⟨q1, p1, f1, w, ht, ho⟩ := hstep x s y s1 v hy hP hxv
          have e1 := hQext _ _ q1
          obtain ⟨q2, p2, F, ws, hm, hall2⟩ := mapS_sim hp P Q hQrefl hQtrans hQext RIn ROut T hRIn hROut hT hstep
            xs s1 ys' _ vs' hys p1 (All₂.imp (fun a b hab => hRIn _ _ a b e1 hab) hrest)
          refine ⟨hQtrans _ _ _ q1 q2, p2, f1 + F, w :: ws, ?_, .cons (hROut _ _ _ _ (hQext _ _ q2) ho) hall2⟩
          exact mapE_cons_ok (hT f1 (f1 + F) v w (by omega) ht)
            (mapE_mono (fun a b' hab => hT F (f1 + F) a b' (by omega) hab) hm)

/-! ### rebuilding a dict / a set: the heap-level insertion against `dictSet` / `setInsert` -/

def AccRel (h : Heap) (e : Val × Ref × Ref) (p : Val × Val) : Prop :=
  e.1 = p.1 ∧ Reads h e.2.1 p.1 ∧ Reads h e.2.2 p.2

theorem insKey_rel {h : Heap} {kv vv : Val} {k v : Ref} (hk : Reads h k kv) (hv : Reads h v vv) :
    ∀ {acc : List (Val × Ref × Ref)} {accT : List (Val × Val)}, All₂ (AccRel h) acc accT →
      All₂ (AccRel h) (insKey acc kv k v) (dictSet accT kv vv)
  | _, _, .nil => .cons ⟨rfl, hk, hv⟩ .nil
  | _, _, .cons (x := e) (y := p) hep t => by
    obtain ⟨e1, e2, e3⟩ := e
    obtain ⟨p1, p2⟩ := p
    obtain ⟨h1, h2, h3⟩ := hep
    simp only at h1 h2 h3
    subst h1
    simp only [insKey, dictSet]
    by_cases hc : e1 = kv
    · simp only [hc, if_true]
      subst hc
      exact .cons ⟨rfl, h2, hv⟩ t
    · simp only [hc, if_false]
      exact .cons ⟨rfl, h2, h3⟩ (insKey_rel hk hv t)

theorem rebuildDictH_sim {h : Heap} : ∀ (kvs : List (Ref × Ref)) (ps : List (Val × Val))
    (acc : List (Val × Ref × Ref)) (accT : List (Val × Val)) (out : List (Ref × Ref)),
    All₂ (PairReads h) kvs ps → All₂ (AccRel h) acc accT → rebuildDictH h kvs acc = .ok out →
    All₂ (PairReads h) out (ps.foldl (fun a kv => dictSet a kv.1 kv.2) accT)
  | [], _, acc, accT, out, .nil, hacc, hr => by
    simp only [rebuildDictH] at hr
    cases hr
    simp only [List.foldl_nil]
    induction hacc with
    | nil => exact .nil
    | cons hep _ ih => exact .cons ⟨hep.2.1, hep.2.2⟩ ih
  | (k, v) :: rest, _, acc, accT, out, .cons (y := p) hkp t, hacc, hr => by
    simp only [rebuildDictH] at hr
    split at hr
    · cases hr
    · rename_i kv hkv
      have : kv = p.1 := (Reads.of_deepVal hkv).functional hkp.1
      subst this
      simp only [List.foldl_cons]
      exact rebuildDictH_sim rest _ _ _ out t (insKey_rel hkp.1 hkp.2 hacc) hr

def AccRelS (h : Heap) (e : Val × Ref) (p : Val) : Prop := e.1 = p ∧ Reads h e.2 p

theorem insMem_rel {h : Heap} {mv : Val} {m : Ref} (hm : Reads h m mv) :
    ∀ {acc : List (Val × Ref)} {accT : List Val}, All₂ (AccRelS h) acc accT →
      All₂ (AccRelS h) (insMem acc mv m) (if accT.contains mv then accT else accT ++ [mv])
  | _, _, .nil => by simpa [insMem] using All₂.cons (R := AccRelS h) (x := (mv, m)) (y := mv) ⟨rfl, hm⟩ .nil
  | _, _, .cons (x := e) (y := p) (xs := acc') (ys := accT') hep t => by
    obtain ⟨e1, e2⟩ := e
    obtain ⟨h1, h2⟩ := hep
    simp only at h1 h2
    subst h1
    simp only [insMem]
    by_cases hc : e1 = mv
    · subst hc
      simp only [if_true, List.contains_cons, beq_self_eq_true, Bool.true_or]
      exact .cons ⟨rfl, h2⟩ t
    · have hne : (mv == e1) = false := by simp [Ne.symm hc]
      simp only [hc, if_false, List.contains_cons, hne, Bool.false_or]
      have ih := insMem_rel hm t
      split
      · rename_i hcont
        rw [if_pos hcont] at ih
        exact .cons ⟨rfl, h2⟩ ih
      · rename_i hcont
        rw [if_neg hcont] at ih
        exact .cons ⟨rfl, h2⟩ ih

theorem rebuildSetH_sim {h : Heap} : ∀ (rs : List Ref) (vs : List Val)
    (acc : List (Val × Ref)) (accT : List Val) (out : List Ref),
    All₂ (Reads h) rs vs → All₂ (AccRelS h) acc accT → rebuildSetH h rs acc = .ok out →
    All₂ (Reads h) out (vs.foldl setInsert accT)
  | [], _, acc, accT, out, .nil, hacc, hr => by
    simp only [rebuildSetH] at hr
    cases hr
    simp only [List.foldl_nil]
    induction hacc with
    | nil => exact .nil
    | cons hep _ ih => exact .cons hep.2 ih
  | m :: rest, _, acc, accT, out, .cons (y := p) hmp t, hacc, hr => by
    simp only [rebuildSetH] at hr
    split at hr
    · cases hr
    · rename_i mv hmv
      have : mv = p := (Reads.of_deepVal hmv).functional hmp
      subst this
      simp only [List.foldl_cons]
      have := insMem_rel hmp hacc
      exact rebuildSetH_sim rest _ _ _ out t (by simpa [setInsert] using this) hr


/-! ## Part 4: the simulation -/

/-- the (key, value) step of the tree-level dict case -/
def fmtPair (n : Nat) (c : Ctx) (b : Bool) (kv : Val × Val) : Except Exc (Val × Val) :=
  match fmtIter n c b kv.1 with
  | .error e => .error e
  | .ok k => match fmtIter n c b kv.2 with
    | .error e => .error e
    | .ok w => .ok (k, w)

/-- the per-piece step of the tree-level mixed-string case -/
def fmtPiece (n : Nat) (c : Ctx) (b : Bool) (p : Piece) : Except Exc String :=
  match p with
  | Piece.lit t => Except.ok t
  | Piece.field name spec =>
    match fmtField n c b name spec with
    | .error e => .error e
    | .ok (obj, _) => .ok (pyStr obj)

theorem fmtPair_mono {n m : Nat} (hnm : n ≤ m) {c : Ctx} {b : Bool} {kv y : Val × Val}
    (h : fmtPair n c b kv = .ok y) : fmtPair m c b kv = .ok y := by
  unfold fmtPair at h ⊢
  split at h
  · cases h
  · rename_i k hk
    split at h
    · cases h
    · rename_i w hw
      cases h
      simp [fmtIter_mono hnm hk, fmtIter_mono hnm hw]

theorem fmtPiece_mono {n m : Nat} (hnm : n ≤ m) {c : Ctx} {b : Bool} {p : Piece} {y : String}
    (h : fmtPiece n c b p = .ok y) : fmtPiece m c b p = .ok y := by
  cases p with
  | lit t => exact h
  | field name spec =>
    simp only [fmtPiece] at h ⊢
    split at h
    · cases h
    · rename_i obj rc hf
      rw [fmtField_mono hnm hf]
      exact h

def SimH (n : Nat) : Prop :=
  ∀ (hc : HCtx) (b : Bool) (r : Ref) (st : St) (r' : Ref) (st' : St) (c : Ctx) (v : Val),
    fmtH n hc b r st = .ok (r', st') → SInv hc c b st → Reads st.heap r v →
    (Ordered st.heap → Ordered st'.heap) ∧ SInv hc c b st' ∧
      ∃ fuel w, fmtIter fuel c b v = .ok w ∧ Reads st'.heap r' w

def SimF (n : Nat) : Prop :=
  ∀ (hc : HCtx) (b : Bool) (name spec : String) (h : Heap) (o : Ref) (rc : Bool) (h' : Heap) (c : Ctx),
    fmtHField n hc b name spec h = .ok (o, rc, h') → HInv hc c h →
    (Ordered h → Ordered h') ∧ ∃ fuel w, fmtField fuel c b name spec = .ok (w, rc) ∧ Reads h' o w

def SimK (n : Nat) : Prop :=
  ∀ (hc : HCtx) (b : Bool) (r : Ref) (s : String) (h : Heap) (r' : Ref) (h' : Heap) (c : Ctx),
    fmtHKeep n hc b r s h = .ok (r', h') → HInv hc c h → h[r]? = some (.str s) →
    (Ordered h → Ordered h') ∧ ∃ fuel w, fmtKeepType fuel c b s = .ok w ∧ Reads h' r' w

theorem All₂.left_mem {α β} {R : α → β → Prop} : ∀ {xs : List α} {ys : List β}, All₂ R xs ys →
    ∀ x ∈ xs, ∃ y, R x y
  | _, _, .nil, x, hx => by simp at hx
  | _, _, .cons (y := y) h t, x, hx => by
    rcases List.mem_cons.mp hx with rfl | hx'
    · exact ⟨y, h⟩
    · exact All₂.left_mem t x hx'

theorem All₂.eq_of_eq {α} : ∀ {xs ys : List α}, All₂ (fun x y => x = y) xs ys → xs = ys
  | _, _, .nil => rfl
  | _, _, .cons h t => by rw [h, All₂.eq_of_eq t]

theorem All₂.refl_eq {α} : ∀ (xs : List α), All₂ (fun x y => x = y) xs xs
  | [] => .nil
  | _ :: xs => .cons rfl (All₂.refl_eq xs)

/-- closing step of a branch that allocated the result `cell` -/
theorem finish_alloc {hc : HCtx} {c : Ctx} {b : Bool} {st st1 : St} {r : Ref} {v w : Val} {cell : Cell}
    {fuel : Nat} (q : StepS st st1) (inv1 : SInv hc c b st1) (hrv : Reads st.heap r v)
    (hcell : isAllocCell cell = true) (hrefs : ∀ y ∈ cellRefs cell, y < st1.heap.length)
    (htree : fmtIter fuel c b v = .ok w) (hread : Reads (st1.heap ++ [cell]) st1.heap.length w) :
    (Ordered st.heap → Ordered (st1.heap ++ [cell])) ∧
    SInv hc c b { heap := st1.heap ++ [cell], memo := memoIf st1.memo r st1.heap.length } ∧
    ∃ fuel w, fmtIter fuel c b v = .ok w ∧ Reads (st1.heap ++ [cell]) st1.heap.length w := by
  have e2 : Ext st1.heap (st1.heap ++ [cell]) := Ext.alloc st1.heap cell hcell
  refine ⟨fun o => (q.2 o).alloc cell hrefs, ⟨inv1.1.ext e2, inv1.2.1.ext e2, ?_⟩, fuel, w, htree, hread⟩
  exact MemoSound.finish inv1.2.2 e2 ⟨v, fuel, w, hrv.ext (q.1.ext.trans e2), htree, hread⟩

theorem getElem?_snoc_len {α} (l : List α) (a : α) : (l ++ [a])[l.length]? = some a := by simp

theorem fmtIter_leaf {c : Ctx} {b : Bool} {x : Val} (hl : isLeafVal x = true) : fmtIter 1 c b x = .ok x := by
  cases x <;> simp [isLeafVal] at hl <;> simp [fmtIter]

theorem dictStep_sim {n : Nat} {hc : HCtx} {c : Ctx} {b : Bool} (ihH : SimH n)
    (kv : Ref × Ref) (s : St) (y : Ref × Ref) (s' : St) (p : Val × Val)
    (h : (match fmtH n hc b kv.1 s with
          | .error e => Except.error e
          | .ok (k, s1) => match fmtH n hc b kv.2 s1 with
            | .error e => .error e
            | .ok (v, s2) =>
              if hashableH (s2.heap.length + 1) s2.heap k then .ok ((k, v), s2)
              else .error unhashable) = .ok (y, s'))
    (hP : SInv hc c b s) (hR : PairReads s.heap kv p) :
    StepS s s' ∧ SInv hc c b s' ∧ ∃ fuel w, fmtPair fuel c b p = .ok w ∧ PairReads s'.heap y w := by
  split at h
  · cases h
  · rename_i k s1 hk
    split at h
    · cases h
    · rename_i v s2 hv
      obtain ⟨o1, i1, f1, w1, t1, r1⟩ := ihH hc b kv.1 s k s1 c p.1 hk hP hR.1
      have g1 := fmtH_good hk
      obtain ⟨o2, i2, f2, w2, t2, r2⟩ := ihH hc b kv.2 s1 v s2 c p.2 hv i1 (hR.2.ext g1.ext)
      have g2 := fmtH_good hv
      split at h
      · cases h
        refine ⟨⟨g1.trans g2, fun o => o2 (o1 o)⟩, i2, f1 + f2, (w1, w2), ?_, ⟨r1.ext g2.ext, r2⟩⟩
        simp [fmtPair, fmtIter_mono (n := f1) (m := f1 + f2) (by omega) t1,
          fmtIter_mono (n := f2) (m := f1 + f2) (by omega) t2]
      · cases h

theorem setStep_sim {n : Nat} {hc : HCtx} {c : Ctx} {b : Bool} (ihH : SimH n)
    (m : Ref) (s : St) (y : Ref) (s' : St) (p : Val)
    (h : (match fmtH n hc b m s with
          | .error e => Except.error e
          | .ok (m', s1) =>
            if hashableH (s1.heap.length + 1) s1.heap m' then .ok (m', s1)
            else .error unhashable) = .ok (y, s'))
    (hP : SInv hc c b s) (hR : Reads s.heap m p) :
    StepS s s' ∧ SInv hc c b s' ∧ ∃ fuel w, fmtIter fuel c b p = .ok w ∧ Reads s'.heap y w := by
  split at h
  · cases h
  · rename_i m' s1 hm
    obtain ⟨o1, i1, t⟩ := ihH hc b m s m' s1 c p hm hP hR
    have g1 := fmtH_good hm
    split at h
    · cases h
      exact ⟨⟨g1, o1⟩, i1, t⟩
    · cases h

theorem pieceStep_sim {n : Nat} {hc : HCtx} {c : Ctx} {b : Bool} (ihF : SimF n)
    (ihFe : ∀ ctx isRec name spec h o b h', fmtHField n ctx isRec name spec h = .ok (o, b, h') → Ext h h')
    (p : Piece) (hh : Heap) (y : String) (h' : Heap) (p' : Piece)
    (h : (match p with
          | Piece.lit t => Except.ok (t, hh)
          | Piece.field name spec =>
            match fmtHField n hc b name spec hh with
            | .error e => .error e
            | .ok (o, _, h1) => match deepVal h1 o with
              | none => .error outOfFuel
              | some v => .ok (pyStr v, h1)) = .ok (y, h'))
    (hP : HInv hc c hh) (hR : p = p') :
    StepH hh h' ∧ HInv hc c h' ∧ ∃ fuel w, fmtPiece fuel c b p' = .ok w ∧ y = w := by
  subst hR
  split at h
  · cases h; exact ⟨StepH.refl _, hP, 0, _, rfl, rfl⟩
  · rename_i name spec
    split at h
    · cases h
    · rename_i o rc h1 hf
      split at h
      · cases h
      · rename_i v hv
        cases h
        obtain ⟨o1, fuel, w, t, rd⟩ := ihF hc b name spec hh o rc h' c hf hP
        have e := ihFe _ _ _ _ _ _ _ _ hf
        have : v = w := (Reads.of_deepVal hv).functional rd
        subst this
        refine ⟨⟨e, o1⟩, hP.ext e, fuel, _, ?_, rfl⟩
        simp [fmtPiece, t]

theorem fmtH_sim_all : ∀ n : Nat, SimH n ∧ SimF n ∧ SimK n := by
  intro n
  induction n with
  | zero =>
    refine ⟨?_, ?_, ?_⟩
    · intro hc b r st r' st' c v h; simp [fmtH] at h
    · intro hc b name spec h o rc h' c hh; simp [fmtHField] at hh
    · intro hc b r s h r' h' c hh; simp [fmtHKeep] at hh
  | succ n ih =>
    obtain ⟨ihH, ihF, ihK⟩ := ih
    have ihFe := (fmtH_good_all n).2.1
    have ihKe := (fmtH_good_all n).2.2
    refine ⟨?_, ?_, ?_⟩
    · -- fmtH
      intro hc b r st r' st' c v h inv hrv
      unfold fmtH at h
      split at h
      · -- memo hit
        rename_i done hhit
        obtain ⟨v0, fuel, w, h1, h2, h3⟩ := inv.2.2 r done hhit
        have : v0 = v := h1.functional hrv
        subst this
        cases h
        exact ⟨id, inv, fuel, w, h2, h3⟩
      · rename_i hmiss
        split at h
        · cases h
        · rename_i cell hcell
          split at h
          · -- leaf
            rename_i x
            cases h
            have hx : v = x := hrv.inv_simple.1 x hcell
            subst hx
            exact ⟨id, inv, 1, v, fmtIter_leaf (inv.1 r v hcell), hrv⟩
          · -- mbytes
            rename_i bb
            cases h
            have hx : v = .bytes bb := hrv.inv_simple.2.1 bb hcell
            subst hx
            exact ⟨id, inv, 1, _, by simp [fmtIter], hrv⟩
          · -- sic
            rename_i p
            cases h
            obtain ⟨s, rfl, hp⟩ := Reads.inv_sic hcell hrv
            have ht : fmtIter 1 c b (.sic s) = .ok (.str s) := by simp [fmtIter]
            refine ⟨id, ⟨inv.1, inv.2.1, ?_⟩, 1, _, ht, hp⟩
            exact MemoSound.finish inv.2.2 (Ext.refl _) ⟨_, 1, _, hrv, ht, hp⟩
          · -- pyName
            rename_i nm
            split at h
            · cases h
            · rename_i o ho
              cases h
              have hx : v = .py (.name nm) := hrv.inv_simple.2.2.2 nm hcell
              subst hx
              obtain ⟨vo, hvo, hro⟩ := inv.2.1.get ho
              have ht : fmtIter 1 c b (.py (.name nm)) = .ok vo := by simp [fmtIter, evalPy, hvo]
              refine ⟨id, ⟨inv.1, inv.2.1, ?_⟩, 1, _, ht, hro⟩
              exact MemoSound.finish inv.2.2 (Ext.refl _) ⟨_, 1, _, hrv, ht, hro⟩
          · -- jsonify
            rename_i p
            split at h
            · cases h
            · rename_i fp st1 hin
              split at h
              · cases h
              · rename_i v' hv'
                split at h
                · cases h
                · rename_i js hjs
                  simp only [alloc] at h
                  cases h
                  obtain ⟨wv, rfl, hp⟩ := Reads.inv_jsonify hcell hrv
                  obtain ⟨o1, i1, f, w', t, rd⟩ := ihH hc false p { heap := st.heap, memo := [] } fp st1 c wv hin
                    ⟨inv.1, inv.2.1, MemoSound.nil _ _ _⟩ hp
                  have g1 := fmtH_good hin
                  have e1 : Ext st.heap st1.heap := g1.ext
                  have : v' = w' := (Reads.of_deepVal hv').functional rd
                  subst this
                  have e2 : Ext st1.heap (st1.heap ++ [Cell.str js]) := Ext.alloc _ _ rfl
                  have ht : fmtIter (f + 1) c b (.jsonify wv) = .ok (.str js) := by
                    rw [fmtIter]; simp [t, hjs]
                  have hrd : Reads (st1.heap ++ [Cell.str js]) st1.heap.length (.str js) :=
                    Reads.str (getElem?_snoc_len _ _)
                  refine ⟨fun o => (o1 o).alloc _ (by intro y hy; simp [cellRefs] at hy),
                    ⟨inv.1.ext (e1.trans e2), inv.2.1.ext (e1.trans e2), ?_⟩, f + 1, _, ht, hrd⟩
                  exact MemoSound.finish inv.2.2 (e1.trans e2) ⟨_, f + 1, _, hrv.ext (e1.trans e2), ht, hrd⟩
          · -- str
            rename_i s
            split at h
            · cases h
            · rename_i nr h1 hk
              have hx : v = .str s := hrv.inv_simple.2.2.1 s hcell
              subst hx
              obtain ⟨o1, f, w, t, rd⟩ := ihK hc b r s st.heap nr h1 c hk ⟨inv.1, inv.2.1⟩ hcell
              have e1 : Ext st.heap h1 := ihKe _ _ _ _ _ _ _ hk
              cases h
              have ht : fmtIter (f + 1) c b (.str s) = .ok w := by rw [fmtIter]; exact t
              refine ⟨o1, ⟨inv.1.ext e1, inv.2.1.ext e1, ?_⟩, f + 1, w, ht, rd⟩
              exact MemoSound.finish inv.2.2 e1 ⟨_, f + 1, w, hrv.ext e1, ht, rd⟩
          · -- dict
            rename_i tag kvs
            split at h
            · cases h
            · rename_i kvs' st1 hm
              split at h
              · cases h
              · rename_i kvs'' hr
                simp only [alloc] at h
                cases h
                obtain ⟨ps, rfl, hall⟩ := Reads.inv_dict hcell hrv
                obtain ⟨q, inv1, F, qs, hmE, hallW⟩ := mapS_sim St.heap (SInv hc c b) StepS StepS.refl
                  (fun _ _ _ => StepS.trans) (fun _ _ q => q.1.ext) PairReads PairReads (fun n => fmtPair n c b)
                  (fun _ _ _ _ e hr => ⟨hr.1.ext e, hr.2.ext e⟩) (fun _ _ _ _ e hr => ⟨hr.1.ext e, hr.2.ext e⟩)
                  (fun _ _ _ _ hnm ht => fmtPair_mono hnm ht) (dictStep_sim ihH) kvs st kvs' st1 ps hm inv hall
                have hreb := rebuildDictH_sim kvs' qs [] [] kvs'' hallW .nil hr
                have e2 : Ext st1.heap (st1.heap ++ [Cell.dict tag kvs'']) := Ext.alloc _ _ rfl
                have hrd : Reads (st1.heap ++ [Cell.dict tag kvs'']) st1.heap.length (.dict (rebuildDict qs)) :=
                  Reads.mk_dict (getElem?_snoc_len _ _)
                    (All₂.imp (fun _ _ hr => ⟨hr.1.ext e2, hr.2.ext e2⟩) hreb)
                have ht : fmtIter (F + 1) c b (.dict ps) = .ok (.dict (rebuildDict qs)) := by
                  rw [fmtIter]
                  split
                  · rename_i e he
                    have : Except.error e = Except.ok qs := he.symm.trans hmE
                    cases this
                  · rename_i qs2 hm2
                    have : Except.ok qs2 = Except.ok qs := hm2.symm.trans hmE
                    cases this; rfl
                refine finish_alloc q inv1 hrv rfl ?_ ht hrd
                intro y hy
                simp only [cellRefs, List.mem_append, List.mem_map] at hy
                rcases hy with ⟨kv, hkv, rfl⟩ | ⟨kv, hkv, rfl⟩
                · obtain ⟨p, hp⟩ := All₂.left_mem hreb kv hkv; exact hp.1.lt
                · obtain ⟨p, hp⟩ := All₂.left_mem hreb kv hkv; exact hp.2.lt
          · -- list
            rename_i tag rs
            split at h
            · cases h
            · rename_i rs' st1 hm
              simp only [alloc] at h
              cases h
              obtain ⟨vs, rfl, hall⟩ := Reads.inv_list hcell hrv
              obtain ⟨q, inv1, F, ws, hmE, hallW⟩ := mapS_sim St.heap (SInv hc c b) StepS StepS.refl
                (fun _ _ _ => StepS.trans) (fun _ _ q => q.1.ext) Reads Reads (fun n => fmtIter n c b)
                (fun _ _ _ _ e hr => hr.ext e) (fun _ _ _ _ e hr => hr.ext e)
                (fun _ _ _ _ hnm ht => fmtIter_mono hnm ht)
                (fun x s y s' v hxy hP hR =>
                  let ⟨o, i, t⟩ := ihH hc b x s y s' c v hxy hP hR
                  ⟨⟨fmtH_good hxy, o⟩, i, t⟩) rs st rs' st1 vs hm inv hall
              have e2 : Ext st1.heap (st1.heap ++ [Cell.list tag rs']) := Ext.alloc _ _ rfl
              have hrd : Reads (st1.heap ++ [Cell.list tag rs']) st1.heap.length (.list ws) :=
                Reads.mk_list (getElem?_snoc_len _ _) (All₂.imp (fun _ _ hr => hr.ext e2) hallW)
              have ht : fmtIter (F + 1) c b (.list vs) = .ok (.list ws) := by
                rw [fmtIter]; simp [hmE, Except.map]
              refine finish_alloc q inv1 hrv rfl ?_ ht hrd
              intro y hy
              obtain ⟨w, hw⟩ := All₂.left_mem hallW y hy
              exact hw.lt
          · -- tuple
            rename_i tag rs
            split at h
            · cases h
            · rename_i rs' st1 hm
              simp only [alloc] at h
              cases h
              obtain ⟨vs, rfl, hall⟩ := Reads.inv_tuple hcell hrv
              obtain ⟨q, inv1, F, ws, hmE, hallW⟩ := mapS_sim St.heap (SInv hc c b) StepS StepS.refl
                (fun _ _ _ => StepS.trans) (fun _ _ q => q.1.ext) Reads Reads (fun n => fmtIter n c b)
                (fun _ _ _ _ e hr => hr.ext e) (fun _ _ _ _ e hr => hr.ext e)
                (fun _ _ _ _ hnm ht => fmtIter_mono hnm ht)
                (fun x s y s' v hxy hP hR =>
                  let ⟨o, i, t⟩ := ihH hc b x s y s' c v hxy hP hR
                  ⟨⟨fmtH_good hxy, o⟩, i, t⟩) rs st rs' st1 vs hm inv hall
              have e2 : Ext st1.heap (st1.heap ++ [Cell.tuple tag rs']) := Ext.alloc _ _ rfl
              have hrd : Reads (st1.heap ++ [Cell.tuple tag rs']) st1.heap.length (.tuple ws) :=
                Reads.mk_tuple (getElem?_snoc_len _ _) (All₂.imp (fun _ _ hr => hr.ext e2) hallW)
              have ht : fmtIter (F + 1) c b (.tuple vs) = .ok (.tuple ws) := by
                rw [fmtIter]; simp [hmE, Except.map]
              refine finish_alloc q inv1 hrv rfl ?_ ht hrd
              intro y hy
              obtain ⟨w, hw⟩ := All₂.left_mem hallW y hy
              exact hw.lt
          · -- set
            rename_i tag rs
            split at h
            · cases h
            · rename_i rs' st1 hm
              split at h
              · cases h
              · rename_i rs'' hr
                simp only [alloc] at h
                cases h
                obtain ⟨vs, rfl, hall⟩ := Reads.inv_set hcell hrv
                obtain ⟨q, inv1, F, ws, hmE, hallW⟩ := mapS_sim St.heap (SInv hc c b) StepS StepS.refl
                  (fun _ _ _ => StepS.trans) (fun _ _ q => q.1.ext) Reads Reads (fun n => fmtIter n c b)
                  (fun _ _ _ _ e hr => hr.ext e) (fun _ _ _ _ e hr => hr.ext e)
                  (fun _ _ _ _ hnm ht => fmtIter_mono hnm ht) (setStep_sim ihH) rs st rs' st1 vs hm inv hall
                have hreb := rebuildSetH_sim rs' ws [] [] rs'' hallW .nil hr
                have e2 : Ext st1.heap (st1.heap ++ [Cell.set tag rs'']) := Ext.alloc _ _ rfl
                have hrd : Reads (st1.heap ++ [Cell.set tag rs'']) st1.heap.length (.set (setOfList ws)) :=
                  Reads.mk_set (getElem?_snoc_len _ _) (All₂.imp (fun _ _ hr => hr.ext e2) hreb)
                have ht : fmtIter (F + 1) c b (.set vs) = .ok (.set (setOfList ws)) := by
                  rw [fmtIter]; simp [hmE, Except.map]
                refine finish_alloc q inv1 hrv rfl ?_ ht hrd
                intro y hy
                obtain ⟨w, hw⟩ := All₂.left_mem hreb y hy
                exact hw.lt
    · -- fmtHField
      intro hc b name spec h o rc h' c hh inv
      unfold fmtHField at hh
      split at hh
      · cases hh
      · rename_i o0 ho
        obtain ⟨vo, hvo, hro⟩ := inv.2.get ho
        split at hh
        · rename_i hcond
          split at hh
          · cases hh
          · rename_i o' st2 hin
            obtain ⟨o1, _, f, w, t, rd⟩ := ihH hc true o0 { heap := h, memo := [] } o' st2 c vo hin
              ⟨inv.1, inv.2, MemoSound.nil _ _ _⟩ hro
            cases hh
            refine ⟨o1, f + 1, w, ?_, rd⟩
            rw [fmtField]; simp [hvo, hcond, t]
        · rename_i hcond
          cases hh
          refine ⟨id, 1, vo, ?_, hro⟩
          rw [fmtField]; simp [hvo, hcond]
    · -- fmtHKeep
      intro hc b r s h r' h' c hh inv hcell
      unfold fmtHKeep at hh
      split at hh
      · cases hh
      · rename_i pieces hp
        split at hh
        · -- []
          simp only [alloc, Prod.swap] at hh
          cases hh
          refine ⟨fun o => o.alloc _ (by intro y hy; simp [cellRefs] at hy), 1, .str "", ?_,
            Reads.str (getElem?_snoc_len _ _)⟩
          rw [fmtKeepType]; simp [hp]
        · -- [.lit t]
          rename_i t
          split at hh
          · rename_i hts
            cases hh
            subst hts
            refine ⟨id, 1, .str t, ?_, Reads.str hcell⟩
            rw [fmtKeepType]; simp [hp]
          · simp only [alloc, Prod.swap] at hh
            cases hh
            refine ⟨fun o => o.alloc _ (by intro y hy; simp [cellRefs] at hy), 1, .str t, ?_,
              Reads.str (getElem?_snoc_len _ _)⟩
            rw [fmtKeepType]; simp [hp]
        · -- [.field name spec]
          rename_i name spec
          split at hh
          · cases hh
          · rename_i o recursed h1 hf
            obtain ⟨o1, f, w, t, rd⟩ := ihF hc b name spec h o recursed h1 c hf inv
            have e1 : Ext h h1 := ihFe _ _ _ _ _ _ _ _ hf
            split at hh
            · rename_i hcond
              cases hh
              refine ⟨o1, f + 1, w, ?_, rd⟩
              rw [fmtKeepType]; simp only [hp, t]; simp [hcond]
            · rename_i hcond
              split at hh
              · cases hh
              · rename_i o' st2 hin
                obtain ⟨o2, _, f2, w2, t2, rd2⟩ := ihH hc (spec == "rf") o { heap := h1, memo := [] } o' st2 c w hin
                  ⟨inv.1.ext e1, inv.2.ext e1, MemoSound.nil _ _ _⟩ rd
                cases hh
                refine ⟨fun od => o2 (o1 od), f + f2 + 1, w2, ?_, rd2⟩
                rw [fmtKeepType]
                simp only [hp, fmtField_mono (n := f) (m := f + f2) (by omega) t]
                simp [hcond, fmtIter_mono (n := f2) (m := f + f2) (by omega) t2]
        · -- mixed
          rename_i hne1 hne2 hne3
          split at hh
          · cases hh
          · rename_i strs h1 hm
            simp only [alloc, Prod.swap] at hh
            cases hh
            obtain ⟨q, _, F, ws, hmE, hallW⟩ := mapS_sim (σ := Heap) (fun x => x) (HInv hc c) StepH StepH.refl
              (fun _ _ _ => StepH.trans) (fun _ _ q => q.1) (fun _ (p p' : Piece) => p = p')
              (fun _ (y w : String) => y = w) (fun n => fmtPiece n c b)
              (fun _ _ _ _ _ hr => hr) (fun _ _ _ _ _ hr => hr)
              (fun _ _ _ _ hnm ht => fmtPiece_mono hnm ht) (pieceStep_sim ihF ihFe) pieces h strs h1 pieces hm inv
              (All₂.refl_eq pieces)
            have : strs = ws := All₂.eq_of_eq hallW
            subst this
            refine ⟨fun o => (q.2 o).alloc _ (by intro y hy; simp [cellRefs] at hy), F + 1, .str (String.join strs), ?_,
              Reads.str (getElem?_snoc_len _ _)⟩
            rw [fmtKeepType]
            simp only [hp]
            split
            · rename_i e he
              have : Except.error e = Except.ok strs := he.symm.trans hmE
              cases this
            · rename_i strs2 hm2
              have : Except.ok strs2 = Except.ok strs := hm2.symm.trans hmE
              cases this; rfl


/-! ## Part 5: on an ordered heap `deepVal` has enough fuel -/

theorem All₂.imp_mem {α β} {R S : α → β → Prop} : ∀ {xs : List α} {ys : List β},
    (∀ x ∈ xs, ∀ y, R x y → S x y) → All₂ R xs ys → All₂ S xs ys
  | _, _, _, .nil => .nil
  | _, _, hRS, .cons h t =>
    .cons (hRS _ List.mem_cons_self _ h) (All₂.imp_mem (fun x hx y hxy => hRS x (List.mem_cons_of_mem _ hx) y hxy) t)

/-- On an ordered heap the object at `r` is read with fuel `r + 1`. -/
theorem Ordered.readVal {h : Heap} (o : Ordered h) : ∀ (r : Ref) (v : Val), Reads h r v →
    readVal (r + 1) h r = some v := by
  intro r
  induction r using Nat.strongRecOn with
  | _ r ih =>
    intro v hr
    have down : ∀ x, x < r → ∀ y, Reads h x y → FmtHeap.readVal r h x = some y := by
      intro x hx y hxy
      exact readVal_mono (n := x + 1) (m := r) (by omega) (ih x hx y hxy)
    cases hc : h[r]? with
    | none => exact absurd hr.lt (Nat.not_lt.mpr (List.getElem?_eq_none_iff.mp hc))
    | some cell =>
      have ord := o r cell hc
      cases cell with
      | leaf x => rw [hr.inv_simple.1 x hc, FmtHeap.readVal]; simp [hc]
      | mbytes b => rw [hr.inv_simple.2.1 b hc, FmtHeap.readVal]; simp [hc]
      | str s => rw [hr.inv_simple.2.2.1 s hc, FmtHeap.readVal]; simp [hc]
      | pyName nm => rw [hr.inv_simple.2.2.2 nm hc, FmtHeap.readVal]; simp [hc]
      | list t rs =>
        obtain ⟨vs, rfl, hall⟩ := Reads.inv_list hc hr
        have : All₂ (fun x y => FmtHeap.readVal r h x = some y) rs vs :=
          All₂.imp_mem (fun x hx y hxy => down x (ord x (by simpa [cellRefs] using hx)) y hxy) hall
        rw [FmtHeap.readVal]; simp [hc, all₂_mapO this]
      | tuple t rs =>
        obtain ⟨vs, rfl, hall⟩ := Reads.inv_tuple hc hr
        have : All₂ (fun x y => FmtHeap.readVal r h x = some y) rs vs :=
          All₂.imp_mem (fun x hx y hxy => down x (ord x (by simpa [cellRefs] using hx)) y hxy) hall
        rw [FmtHeap.readVal]; simp [hc, all₂_mapO this]
      | set t rs =>
        obtain ⟨vs, rfl, hall⟩ := Reads.inv_set hc hr
        have : All₂ (fun x y => FmtHeap.readVal r h x = some y) rs vs :=
          All₂.imp_mem (fun x hx y hxy => down x (ord x (by simpa [cellRefs] using hx)) y hxy) hall
        rw [FmtHeap.readVal]; simp [hc, all₂_mapO this]
      | dict t kvs =>
        obtain ⟨ps, rfl, hall⟩ := Reads.inv_dict hc hr
        have : All₂ (fun kv p => readPair r h kv = some p) kvs ps := by
          refine All₂.imp_mem ?_ hall
          intro kv hkv p hkp
          have h1 := down kv.1 (ord kv.1 (by simp only [cellRefs, List.mem_append, List.mem_map]; exact Or.inl ⟨kv, hkv, rfl⟩)) p.1 hkp.1
          have h2 := down kv.2 (ord kv.2 (by simp only [cellRefs, List.mem_append, List.mem_map]; exact Or.inr ⟨kv, hkv, rfl⟩)) p.2 hkp.2
          simp [readPair, h1, h2]
        rw [readVal_dict_eq _ _ _ _ _ hc]; simp [all₂_mapO this]
      | sic p =>
        obtain ⟨s, rfl, hp⟩ := Reads.inv_sic hc hr
        have := down p (ord p (by simp [cellRefs])) _ hp
        rw [FmtHeap.readVal]; simp [hc, this]
      | jsonify p =>
        obtain ⟨w, rfl, hp⟩ := Reads.inv_jsonify hc hr
        have := down p (ord p (by simp [cellRefs])) _ hp
        rw [FmtHeap.readVal]; simp [hc, this]

/-- On an ordered heap: readable (with whatever fuel) = `deepVal` answers. -/
theorem Ordered.deepVal {h : Heap} (o : Ordered h) {r : Ref} {v : Val} (hr : Reads h r v) :
    deepVal h r = some v :=
  readVal_mono (n := r + 1) (m := h.length + 1) (Nat.succ_le_succ (Nat.le_of_lt hr.lt)) (o.readVal r v hr)

/-- the tree reading of a context on an ordered heap, computed -/
def ctxVal (h : Heap) : HCtx → Option Ctx
  | [] => some []
  | (k, r) :: rest =>
    match deepVal h r, ctxVal h rest with
    | some v, some c => some ((k, v) :: c)
    | _, _ => none

theorem ctxVal_reads {h : Heap} : ∀ {hc : HCtx} {c : Ctx}, ctxVal h hc = some c → CtxReads h hc c
  | [], c, hcv => by simp only [ctxVal] at hcv; cases hcv; exact .nil
  | (k, r) :: rest, c, hcv => by
    simp only [ctxVal] at hcv
    split at hcv
    · rename_i v c' hv hc'
      cases hcv
      exact .cons ⟨rfl, Reads.of_deepVal hv⟩ (ctxVal_reads hc')
    · cases hcv


/-! ## Part 6: boolean checkers of the heap hypotheses (for concrete heaps) -/

def leafOkB (h : Heap) : Bool := h.all fun c => match c with
  | .leaf x => isLeafVal x
  | _ => true

theorem leafOk_of_check {h : Heap} (hb : leafOkB h = true) : LeafOk h := by
  intro i x hi
  have hm : Cell.leaf x ∈ h := List.mem_of_getElem? hi
  have := List.all_eq_true.mp hb _ hm
  simpa using this

def orderedFrom : Nat → Heap → Bool
  | _, [] => true
  | i, c :: rest => (cellRefs c).all (· < i) && orderedFrom (i + 1) rest

def orderedB (h : Heap) : Bool := orderedFrom 0 h

theorem orderedFrom_spec : ∀ (h : Heap) (i : Nat), orderedFrom i h = true →
    ∀ (j : Nat) (c : Cell), h[j]? = some c → ∀ y ∈ cellRefs c, y < i + j
  | [], i, _, j, c, hj, _, _ => by simp at hj
  | c0 :: rest, i, hb, j, c, hj, y, hy => by
    simp only [orderedFrom, Bool.and_eq_true, List.all_eq_true, decide_eq_true_eq] at hb
    cases j with
    | zero => simp at hj; subst hj; exact hb.1 y hy
    | succ j' =>
      simp at hj
      have := orderedFrom_spec rest (i + 1) hb.2 j' c hj y hy
      exact Nat.lt_of_lt_of_eq this (by omega)

theorem ordered_of_check {h : Heap} (hb : orderedB h = true) : Ordered h := by
  intro i c hi y hy
  have := orderedFrom_spec h 0 hb i c hi y hy
  exact Nat.lt_of_lt_of_eq this (by omega)

end Pypyr.C09
