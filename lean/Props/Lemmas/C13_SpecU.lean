/- The script-free atomic specification `specRunU` (a hit serves what the table holds, create/fail only
   for an absent key, clear resets) and the property clauses as facts about ANY history that is one
   of its traces. Used for both layers of `CacheTS.Nest`; `specRun` traces are `specRunU` traces. -/
import PypyrModel.CacheTS
import Props.Lemmas.C13_Spec

namespace Pypyr.CacheTS

theorem specRunU_cons {seed : Key → Option Obj} {e : Ev} {h : List Ev} {s} (hr : specRunU seed (e :: h) = some s) :
    ∃ s', specRunU seed h = some s' ∧ specStepU seed s' e = some s := by
  simp only [specRunU] at hr
  split at hr
  · cases hr
  · rename_i s' hs'; exact ⟨s', hs', hr⟩

theorem specRunU_suffix {seed : Key → Option Obj} {h' h : List Ev} {s} (hs : h' <:+ h) (hr : specRunU seed h = some s) :
    ∃ s', specRunU seed h' = some s' := by
  obtain ⟨pre, rfl⟩ := hs
  induction pre generalizing s with
  | nil => exact ⟨s, hr⟩
  | cons e pre ih =>
    obtain ⟨s', hs', _⟩ := specRunU_cons hr
    exact ih hs'

/-- a trace of the scripted specification is a trace of the script-free one -/
theorem specRunU_of_specRun {cfg : Cfg} : ∀ {h : List Ev} {s}, specRun cfg h = some s → specRunU cfg.seed h = some s := by
  intro h
  induction h with
  | nil => intro s hr; simpa [specRun, specRunU] using hr
  | cons e h ih =>
    intro s hr
    obtain ⟨s', hs', hstep⟩ := specRun_cons hr
    simp only [specRunU, ih hs']
    cases e <;> simp only [specStep, specStepU] at hstep ⊢ <;> (try split at hstep) <;> simp_all

theorem specU_epoch {seed : Key → Option Obj} {k : Key} {c : Obj} : ∀ {h : List Ev} {s}, specRunU seed h = some s →
    c ∈ epochIds k h → s k = some c := by
  intro h
  induction h with
  | nil => intro s _ hc; simp [epochIds] at hc
  | cons e h ih =>
    intro s hr hc
    obtain ⟨s', hs', hstep⟩ := specRunU_cons hr
    have ih' := ih hs'
    cases e with
    | clear t => simp [epochIds] at hc
    | hit t k' c' =>
      simp only [specStepU] at hstep
      split at hstep <;> simp_all [epochIds]
      by_cases hk : k' = k <;> simp_all
      rcases hc with e | e <;> simp_all
    | create t k' c' =>
      simp only [specStepU] at hstep
      split at hstep <;> simp_all [epochIds]
      subst hstep
      by_cases hk : k' = k <;> simp_all [setKey]
      intro e; exact absurd e.symm hk
    | fail t k' c' =>
      simp only [specStepU] at hstep
      split at hstep <;> simp_all [epochIds]

theorem specU_lastOn {seed : Key → Option Obj} {k : Key} {c : Obj} : ∀ {h : List Ev} {s}, specRunU seed h = some s →
    s k = some c →
    seed k = some c ∨ (∃ t, lastOn k h = some (.hit t k c)) ∨ (∃ t, lastOn k h = some (.create t k c)) := by
  intro h
  induction h with
  | nil => intro s hr hc; simp [specRunU] at hr; subst hr; exact .inl hc
  | cons e h ih =>
    intro s hr hc
    obtain ⟨s', hs', hstep⟩ := specRunU_cons hr
    have ih' := ih hs'
    cases e with
    | clear t => simp [specStepU] at hstep; subst hstep; exact .inl hc
    | hit t k' c' =>
      simp only [specStepU] at hstep
      split at hstep <;> simp_all [lastOn, Ev.touches]
      by_cases hk : k' = k <;> simp_all
    | create t k' c' =>
      simp only [specStepU] at hstep
      split at hstep <;> simp_all [lastOn, Ev.touches]
      subst hstep
      by_cases hk : k' = k <;> simp_all [setKey]
      have : ¬ k = k' := fun e => hk e.symm
      simp_all
    | fail t k' c' =>
      simp only [specStepU] at hstep
      split at hstep <;> simp_all [lastOn, Ev.touches]
      by_cases hk : k' = k <;> simp_all

theorem specU_created {seed : Key → Option Obj} {k : Key} {c : Obj} : ∀ {h : List Ev} {s}, specRunU seed h = some s →
    s k = some c → seed k = some c ∨ ∃ t, .create t k c ∈ h := by
  intro h
  induction h with
  | nil => intro s hr hc; simp [specRunU] at hr; subst hr; exact .inl hc
  | cons e h ih =>
    intro s hr hc
    obtain ⟨s', hs', hstep⟩ := specRunU_cons hr
    have ih' := ih hs'
    cases e with
    | clear t => simp [specStepU] at hstep; subst hstep; exact .inl hc
    | hit t k' c' =>
      simp only [specStepU] at hstep
      split at hstep <;> simp_all
    | create t k' c' =>
      simp only [specStepU] at hstep
      split at hstep <;> simp_all
      subst hstep
      by_cases hk : k = k' <;> simp_all [setKey]
    | fail t k' c' =>
      simp only [specStepU] at hstep
      split at hstep <;> simp_all

/-! #### the clauses, for any trace `H` of the script-free specification -/

theorem traceU_event {seed : Key → Option Obj} {H : List Ev} {S} (hH : specRunU seed H = some S) {e : Ev} {h : List Ev}
    (hs : (e :: h) <:+ H) : ∃ s s', specRunU seed h = some s ∧ specStepU seed s e = some s' := by
  obtain ⟨s', hs'⟩ := specRunU_suffix hs hH
  obtain ⟨s, h1, h2⟩ := specRunU_cons hs'
  exact ⟨s, s', h1, h2⟩

/-- single flight: a creation for `k` succeeds only when nothing was created or served for `k` since the last clear -/
theorem traceU_single_flight {seed : Key → Option Obj} {H : List Ev} {S} (hH : specRunU seed H = some S)
    {t : Tid} {k : Key} {c : Obj} {h : List Ev} (hs : (.create t k c :: h) <:+ H) : epochIds k h = [] := by
  obtain ⟨s, s', h1, h2⟩ := traceU_event hH hs
  simp only [specStepU] at h2
  split at h2
  · rename_i hk
    cases hids : epochIds k h with
    | nil => rfl
    | cons c' rest =>
      have := specU_epoch h1 (c := c') (k := k) (by rw [hids]; exact List.mem_cons_self)
      simp_all
  · cases h2

/-- same object: whatever is created for or served under `k` equals everything created or served under `k` since the last clear -/
theorem traceU_same_object {seed : Key → Option Obj} {H : List Ev} {S} (hH : specRunU seed H = some S)
    {e : Ev} {t : Tid} {k : Key} {c : Obj} {h : List Ev} (hs : (e :: h) <:+ H)
    (he : e = .hit t k c ∨ e = .create t k c) : ∀ c' ∈ epochIds k h, c' = c := by
  intro c' hc'
  obtain ⟨s, s', h1, h2⟩ := traceU_event hH hs
  have hk := specU_epoch h1 hc'
  rcases he with rfl | rfl <;> simp only [specStepU] at h2 <;> split at h2 <;> simp_all

/-- a hit is justified by a seed or by the newest event on that key having created/served that object: in
    particular never right after a failure or a clear -/
theorem traceU_hit_justified {seed : Key → Option Obj} {H : List Ev} {S} (hH : specRunU seed H = some S)
    {t : Tid} {k : Key} {c : Obj} {h : List Ev} (hs : (.hit t k c :: h) <:+ H) :
    seed k = some c ∨ (∃ t', lastOn k h = some (.hit t' k c)) ∨ (∃ t', lastOn k h = some (.create t' k c)) := by
  obtain ⟨s, s', h1, h2⟩ := traceU_event hH hs
  simp only [specStepU] at h2
  split at h2
  · rename_i hk; exact specU_lastOn h1 hk
  · cases h2

/-- a served object was made by a creator call for that very key (or is a seed) -/
theorem traceU_made_for_key {seed : Key → Option Obj} {H : List Ev} {S} (hH : specRunU seed H = some S)
    {t : Tid} {k : Key} {c : Obj} {h : List Ev} (hs : (.hit t k c :: h) <:+ H) :
    seed k = some c ∨ ∃ t', .create t' k c ∈ h := by
  obtain ⟨s, s', h1, h2⟩ := traceU_event hH hs
  simp only [specStepU] at h2
  split at h2
  · rename_i hk; exact specU_created h1 hk
  · cases h2

end Pypyr.CacheTS
