/-
  C07: no exception object is recorded twice.

  The ghost log `St.escapes` gets one entry per event "an error escaped a step's body and this step is the one
  to record it" (`logEscape`, in `run_conditional_decorators`). This file proves, for every program without
  context parser whose steps are probes, stop instructions, call / jump / switch (`progOk`, the hypothesis of
  `runErrors_are_the_escapes` too), every fuel and every start state with a well-formed log:

      the exception ids in the log are STRICTLY INCREASING in log order - in particular pairwise distinct.

  Why it is true: an exception object gets its id when it is raised (`nextExc`, counted up); between the raise and
  the `except` clause of the step that records it nothing else is recorded; an error that comes back out of
  called groups is marked as handled and never recorded again. (With `pypyr.steps.pype` it is false, and false in
  pypyr: the error that leaves a child pipeline is recorded by the failing step in the child and again by the
  pype step in the parent - DESIGN section 6; `progOk` has no pype steps.)

  The invariant is result-dependent (`Fr`: "the error this body ended with is newer than everything in the log"),
  so it does not fit the state-relation frameworks (`GlobalRel`, `CtxRel`); the layers are done by hand here.
-/
import Props.Lemmas.C07_Escapes

namespace Pypyr.C07
open Pypyr Pypyr.Flow Pypyr.C04

/-- the log is well-formed: every logged exception exists (`id < nextExc`) and the ids increase strictly. -/
def K (s : St) : Prop :=
  (∀ x ∈ s.escapes, x.exc.id < s.nextExc) ∧ s.escapes.Pairwise (fun x y => x.exc.id < y.exc.id)

/-- an unrecorded error this piece of execution ended with is newer than everything in the log. -/
def Fr (p : St × Res) : Prop :=
  ∀ e, p.2 = .err e false → (∀ x ∈ p.1.escapes, x.exc.id < e.id) ∧ e.id < p.1.nextExc

/-- upper layers (loops, step, groups, pipeline): keep the log well-formed -/
def UpOk (b : Body) : Prop := ∀ s, K s → K (b s).1

/-- the layers below the recording `except` clause: … and what they end with is new -/
def InOk (b : Body) : Prop := ∀ s, K s → K (b s).1 ∧ Fr (b s)

theorem K_congr {s s' : St} (he : s'.escapes = s.escapes) (hn : s.nextExc ≤ s'.nextExc) (h : K s) : K s' := by
  refine ⟨?_, ?_⟩
  · intro x hx; rw [he] at hx; exact Nat.lt_of_lt_of_le (h.1 x hx) hn
  · rw [he]; exact h.2

theorem Fr_nonerr (s : St) (r : Res) (h : ∀ e, r ≠ .err e false) : Fr (s, r) :=
  fun e he => absurd he (h e)

theorem raiseNew_in (s : St) (n m : String) (h : K s) : K (raiseNew s n m).1 ∧ Fr (raiseNew s n m) := by
  refine ⟨K_congr (s := s) rfl (Nat.le_succ _) h, ?_⟩
  intro e he
  have : e = ⟨s.nextExc, n, m⟩ := by
    have h2 : (raiseNew s n m).2 = .err ⟨s.nextExc, n, m⟩ false := rfl
    rw [h2] at he; injection he with he _; exact he.symm
  subst this
  exact ⟨fun x hx => h.1 x hx, Nat.lt_succ_self _⟩

theorem raiseExc_in (s : St) (x : Exc) (h : K s) : K (raiseExc s x).1 ∧ Fr (raiseExc s x) :=
  raiseNew_in s x.name x.msg h

theorem raiseNew_K (s : St) (n m : String) (h : K s) : K (raiseNew s n m).1 := (raiseNew_in s n m h).1
theorem raiseExc_K (s : St) (x : Exc) (h : K s) : K (raiseExc s x).1 := (raiseExc_in s x h).1

/-- recording: the log gets the error (new by `Fr`), then `save_error` writes the context or raises -/
theorem logEscape_K (d : StepDef) (s1 : St) (e : ExcV) (h : K s1) (hf : Fr (s1, .err e false)) :
    K (logEscape d s1 e false) := by
  obtain ⟨hlt, hn⟩ := hf e rfl
  refine ⟨?_, ?_⟩
  · intro x hx
    have hx' : x ∈ s1.escapes ++ [(⟨d, e, s1.ctx⟩ : Escape)] := hx
    rcases List.mem_append.mp hx' with hx' | hx'
    · exact h.1 x hx'
    · rw [List.mem_singleton.mp hx']; exact hn
  · show (s1.escapes ++ [(⟨d, e, s1.ctx⟩ : Escape)]).Pairwise _
    rw [List.pairwise_append]
    refine ⟨h.2, List.pairwise_singleton _ _, ?_⟩
    intro a ha b hb
    rw [List.mem_singleton.mp hb]
    exact hlt a ha

theorem saveError_K (d : StepDef) (s : St) (e : ExcV) (sw : Bool) (h : K s) : K (saveError d s e sw).1 := by
  rw [saveError_eq]
  repeat' split
  all_goals first
    | exact raiseExc_K _ _ h
    | exact raiseNew_K _ _ _ h
    | exact h

/-! ### invoke_step -/

theorem resetCounters_K (fr : Frame) (c : CofCfg) (s : St) (h : K s) : K (resetCounters fr c s) := by
  refine K_congr (s := s) ?_ ?_ h
  · unfold resetCounters; simp only []; repeat' split
    all_goals rfl
  · unfold resetCounters; simp only []; repeat' split
    all_goals exact Nat.le_refl _

theorem resetLoopCounters_K (fr : Frame) (s : St) (h : K s) : K (resetLoopCounters fr s) := by
  refine K_congr (s := s) ?_ ?_ h
  · unfold resetLoopCounters; simp only []; repeat' split
    all_goals rfl
  · unfold resetLoopCounters; simp only []; repeat' split
    all_goals exact Nat.le_refl _

theorem invokeStep_in (fr : Frame) (body : Body) (callee : CofCfg → Body)
    (hb : InOk body) (hc : ∀ c, UpOk (callee c)) : InOk (invokeStep fr body callee) := by
  intro s hs
  unfold invokeStep
  generalize hbs : body s = p
  obtain ⟨s1, r⟩ := p
  have h1 := hb s hs
  rw [hbs] at h1
  cases r with
  | call c =>
    simp only []
    generalize hcs : callee c s1 = q
    obtain ⟨s2, r2⟩ := q
    have h2 : K s2 := by have := hc c s1 h1.1; rw [hcs] at this; exact this
    split
    · cases r2 <;> exact ⟨resetCounters_K fr c s2 h2, Fr_nonerr _ _ (by intro e h; cases h)⟩
    · cases r2 <;> first
        | exact raiseNew_in _ _ _ (resetLoopCounters_K fr s2 h2)
        | exact ⟨h2, Fr_nonerr _ _ (by intro e h; cases h)⟩
  | _ => exact h1

/-! ### retry -/

/-- a state that differs from a well-formed one in nothing the log cares about -/
theorem K_same {s s' : St} (he : s'.escapes = s.escapes) (hn : s'.nextExc = s.nextExc) (h : K s) : K s' :=
  K_congr he (by rw [hn]; exact Nat.le_refl _) h

theorem Fr_same {s s' : St} {r : Res} (he : s'.escapes = s.escapes) (hn : s'.nextExc = s.nextExc)
    (h : Fr (s, r)) : Fr (s', r) := by
  intro e hr
  obtain ⟨h1, h2⟩ := h e hr
  exact ⟨fun x hx => h1 x (by rw [← he]; exact hx), by show e.id < s'.nextExc; rw [hn]; exact h2⟩

theorem retryIter_in (cfg : RetryCfg) (fr : Frame) (inner : Frame → Body) (max : Option Int)
    (hi : ∀ fr, InOk (inner fr)) :
    ∀ (fuel k : Nat) (bo : BackoffState), InOk (retryIter cfg fr inner max fuel k bo) := by
  intro fuel
  induction fuel with
  | zero => intro k bo s hs; exact ⟨hs, Fr_nonerr _ _ (by intro e h; cases h)⟩
  | succ n ih =>
    intro k bo s hs
    unfold retryIter
    simp only []
    generalize hin : inner { fr with retryC := some k } { s with ctx := Ctx.set s.ctx "retryCounter" (.int k) } = p
    obtain ⟨s1, r⟩ := p
    have h1 := hi { fr with retryC := some k } { s with ctx := Ctx.set s.ctx "retryCounter" (.int k) } hs
    rw [hin] at h1
    cases r with
    | err e handled =>
      simp only []
      repeat' split
      all_goals first
        | exact h1
        | exact raiseExc_in _ _ h1.1
        | exact raiseNew_in _ _ _ (K_same (s := s1) rfl rfl h1.1)
        | exact ih _ _ _ (K_same (s := s1) rfl rfl h1.1)
    | _ => exact h1

theorem retryFaulty_in (cfg : RetryCfg) (fr : Frame) (inner : Frame → Body) (max : Option Int) (y : Bool)
    (hi : ∀ fr, InOk (inner fr)) : InOk (retryFaulty cfg fr inner max y) := by
  intro s hs
  unfold retryFaulty
  simp only []
  generalize hin : inner { fr with retryC := some 1 } { s with ctx := Ctx.set s.ctx "retryCounter" (.int 1) } = p
  obtain ⟨s1, r⟩ := p
  have h1 := hi { fr with retryC := some 1 } { s with ctx := Ctx.set s.ctx "retryCounter" (.int 1) } hs
  rw [hin] at h1
  cases r with
  | err e handled =>
    simp only []
    repeat' split
    all_goals first
      | exact h1
      | exact raiseExc_in _ _ h1.1
      | exact raiseNew_in _ _ _ h1.1
  | _ => exact h1

theorem retryLoop_in (cfg : RetryCfg) (fr : Frame) (inner : Frame → Body) (fuel : Nat)
    (hi : ∀ fr, InOk (inner fr)) : InOk (retryLoop cfg fr inner fuel) := by
  intro s hs
  have hs0 : K { s with ctx := Ctx.set s.ctx "retryCounter" (.int 0) } := hs
  unfold retryLoop
  simp only []
  repeat' split
  all_goals first
    | exact raiseExc_in _ _ hs0
    | exact raiseNew_in _ _ _ hs0
    | exact retryIter_in cfg fr inner _ hi _ _ _ _ hs0
    | exact retryFaulty_in cfg fr inner _ _ hi _ hs0
    | exact ⟨hs0, Fr_nonerr _ _ (by intro e h; cases h)⟩

/-! ### run / skip / swallow: the recording layer -/

theorem runConditional_up (d : StepDef) (inner : Body) (hi : InOk inner) : UpOk (runConditional d inner) := by
  intro s hs
  rw [runConditional_eq]
  repeat' split
  all_goals first
    | exact raiseExc_K _ _ hs
    | exact hs
    | skip
  -- the body ran
  generalize hin : inner s = p
  obtain ⟨s1, r⟩ := p
  have h1 := hi s hs
  rw [hin] at h1
  cases r with
  | err e handled =>
    cases handled with
    | true =>
      unfold swallowWrap
      simp only [logEscape_handled, if_true]
      cases fmtB s1 d.swallow with
      | error x => exact raiseExc_K _ _ h1.1
      | ok sw => cases sw <;> exact h1.1
    | false =>
      have hl : K (logEscape d s1 e false) := logEscape_K d s1 e h1.1 h1.2
      unfold swallowWrap
      simp only [Bool.false_eq_true, if_false]
      cases fmtB (logEscape d s1 e false) d.swallow with
      | error x => exact raiseExc_K _ _ hl
      | ok sw =>
        simp only []
        generalize hsv : saveError d (logEscape d s1 e false) e sw = q
        obtain ⟨s2, r2⟩ := q
        have h2 : K s2 := by
          have := saveError_K d (logEscape d s1 e false) e sw hl
          rw [hsv] at this; exact this
        cases r2 <;> simp only [] <;> first
          | exact h2
          | (split <;> exact h2)
  | _ => rw [swallowWrap_nonerr _ _ _ rfl]; exact h1.1

/-! ### foreach, while, the step -/

theorem foreachItems_up (fr : Frame) (inner : Frame → Body) (hi : ∀ fr, UpOk (inner fr)) :
    ∀ items, UpOk (foreachItems fr inner items) := by
  intro items
  induction items with
  | nil => intro s hs; exact hs
  | cons x rest ih =>
    intro s hs
    unfold foreachItems
    simp only []
    generalize hin : inner { fr with forI := some x } { s with ctx := Ctx.set s.ctx "i" x } = p
    obtain ⟨s1, r⟩ := p
    have h1 : K s1 := by
      have := hi { fr with forI := some x } { s with ctx := Ctx.set s.ctx "i" x } hs
      rw [hin] at this; exact this
    cases r <;> first
      | exact ih s1 h1
      | exact h1

theorem foreachLoop_up (raw : Val) (fr : Frame) (inner : Frame → Body) (hi : ∀ fr, UpOk (inner fr)) :
    UpOk (foreachLoop raw fr inner) := by
  intro s hs
  unfold foreachLoop
  repeat' split
  all_goals first
    | exact raiseExc_K _ _ hs
    | exact foreachItems_up fr inner hi _ s hs

theorem foreachOrConditional_up (d : StepDef) (fr : Frame) (inner : Frame → Body) (hi : ∀ fr, UpOk (inner fr)) :
    UpOk (foreachOrConditional d fr inner) := by
  unfold foreachOrConditional
  repeat' split
  all_goals first
    | exact foreachLoop_up _ fr inner hi
    | exact hi fr

theorem whileIter_up (cfg : WhileCfg) (fr : Frame) (inner : Frame → Body) (max : Option Nat) (sleep : Num)
    (eom : Bool) (hi : ∀ fr, UpOk (inner fr)) :
    ∀ (fuel k : Nat), UpOk (whileIter cfg fr inner max sleep eom fuel k) := by
  intro fuel
  induction fuel with
  | zero => intro k s hs; exact hs
  | succ n ih =>
    intro k s hs
    unfold whileIter
    simp only []
    generalize hin : inner { fr with whileC := some k } { s with ctx := Ctx.set s.ctx "whileCounter" (.int k) } = p
    obtain ⟨s1, r⟩ := p
    have h1 : K s1 := by
      have := hi { fr with whileC := some k } { s with ctx := Ctx.set s.ctx "whileCounter" (.int k) } hs
      rw [hin] at this; exact this
    cases r with
    | ok =>
      simp only []
      repeat' split
      all_goals first
        | exact h1
        | exact raiseExc_K _ _ h1
        | exact raiseNew_K _ _ _ h1
        | exact ih _ _ (K_same (s := s1) rfl rfl h1)
    | _ => exact h1

theorem whileLoop_up (cfg : WhileCfg) (fr : Frame) (inner : Frame → Body) (fuel : Nat)
    (hi : ∀ fr, UpOk (inner fr)) : UpOk (whileLoop cfg fr inner fuel) := by
  intro s hs
  have hs0 : K { s with ctx := Ctx.set s.ctx "whileCounter" (.int 0) } := hs
  unfold whileLoop
  simp only []
  repeat' split
  all_goals first
    | exact raiseExc_K _ _ hs0
    | exact raiseNew_K _ _ _ hs0
    | exact whileIter_up cfg fr inner _ _ _ hi _ _ _ hs0
    | exact hs0

theorem setIn_K (d : StepDef) (s : St) (h : K s) : K (setIn d s) := by
  rw [setIn_eq]; exact h

theorem unsetIn_K (d : StepDef) (s : St) (h : K s) : K (unsetIn d s) := by
  rw [unsetIn_eq]; exact h

theorem runStepWith_up (d : StepDef) (body : Body) (callee : CofCfg → Body) (fuel : Nat)
    (hb : InOk body) (hc : ∀ c, UpOk (callee c)) : UpOk (runStepWith d body callee fuel) := by
  have hinv : ∀ fr, InOk (invokeStep fr body callee) := fun fr => invokeStep_in fr body callee hb hc
  have hret : ∀ fr, InOk (retriedLayer d body callee fuel fr) := by
    intro fr
    unfold retriedLayer
    split
    · exact retryLoop_in _ _ _ fuel hinv
    · exact hinv fr
  have hcond : ∀ fr, UpOk (conditionalLayer d body callee fuel fr) :=
    fun fr => runConditional_up d _ (hret fr)
  have hfe : ∀ fr, UpOk (foreachLayer d body callee fuel fr) :=
    fun fr => foreachOrConditional_up d fr _ hcond
  have hcore : UpOk (stepCore d body callee fuel) := by
    unfold stepCore
    split
    · exact whileLoop_up _ _ _ fuel hfe
    · exact hfe {}
  intro s hs
  rw [runStepWith_eq]
  generalize hr : stepCore d body callee fuel (setIn d s) = p
  obtain ⟨s1, r⟩ := p
  have h1 : K s1 := by
    have := hcore (setIn d s) (setIn_K d s hs)
    rw [hr] at this; exact this
  cases r <;> first
    | exact unsetIn_K d s1 h1
    | exact h1

theorem runStepDescribed_up (d : StepDef) (body : Body) (callee : CofCfg → Body) (fuel : Nat)
    (hb : InOk body) (hc : ∀ c, UpOk (callee c)) : UpOk (runStepDescribed d body callee fuel) := by
  intro s hs
  unfold runStepDescribed
  repeat' split
  all_goals first
    | exact raiseExc_K _ _ hs
    | exact raiseExc_K _ _ (setIn_K d s hs)
    | exact runStepWith_up d body callee fuel hb hc s hs

/-! ### the step bodies of `progOk` programs -/

theorem const_in (r : Res) (hr : ∀ e, r ≠ .err e false) : InOk (fun s => (s, r)) :=
  fun s hs => ⟨hs, Fr_nonerr s r hr⟩

theorem probeStep_in : InOk probeStep := by
  intro s hs
  unfold probeStep
  split
  · simp only []
    generalize hS : St.mk _ s.stack (s.trace ++ [_]) s.sleeps s.nextExc s.rnd s.ood s.escapes s.defaultBackoff = S1
    have h1 : K S1 := by rw [← hS]; exact hs
    clear hS
    repeat' split
    all_goals first
      | exact raiseExc_in _ _ h1
      | exact raiseNew_in _ _ _ h1
      | exact ⟨h1, Fr_nonerr _ _ (by intro e h; cases h)⟩
  · exact raiseNew_in _ _ _ hs

theorem cofStep_in (key : String) (isCall : Bool) : InOk (cofStep key isCall) := by
  intro s hs
  unfold cofStep
  repeat' split
  all_goals first
    | exact raiseExc_in _ _ hs
    | exact raiseNew_in _ _ _ hs
    | exact ⟨hs, Fr_nonerr _ _ (by intro e h; cases h)⟩

theorem switchScan_in (s : St) (original : Val) (hs : K s) :
    ∀ (cases : List Val) (idx : Nat), K (switchScan s original cases idx).1 ∧ Fr (switchScan s original cases idx) := by
  intro cases
  induction cases with
  | nil => intro idx; exact ⟨hs, Fr_nonerr _ _ (by intro e h; cases h)⟩
  | cons c rest ih =>
    intro idx
    unfold switchScan
    repeat' split
    all_goals first
      | exact raiseExc_in _ _ hs
      | exact raiseNew_in _ _ _ hs
      | exact ih _
      | exact ⟨hs, Fr_nonerr _ _ (by intro e h; cases h)⟩

theorem switchStep_in : InOk switchStep := by
  intro s hs
  unfold switchStep
  repeat' split
  all_goals first
    | exact raiseNew_in _ _ _ hs
    | exact switchScan_in s _ hs _ _

/-! ### one step, then the knot -/

theorem runStep_up (prog : Program) (fuel : Nat) (pipe : String) (d : StepDef) (hd : stepOk d = true)
    (hG : ∀ pipe gs su fa, UpOk (runGroups fuel prog pipe gs su fa)) :
    UpOk (runStep (fuel + 1) prog pipe d) := by
  intro s hs
  unfold runStep
  simp only []
  cases hinit : stepInit d with
  | error p => obtain ⟨n, m⟩ := p; exact raiseNew_K _ _ _ hs
  | ok kind =>
    simp only []
    have hk := stepOk_kind d kind hd hinit
    have hc : ∀ c : CofCfg, UpOk (fun s' =>
        runGroups fuel prog (s'.stack.head?.getD pipe) c.groups c.success c.failure s') :=
      fun c s' => hG _ _ _ _ s'
    cases kind with
    | probe => exact runStepDescribed_up d probeStep _ fuel probeStep_in hc s hs
    | stop => exact runStepDescribed_up d _ _ fuel (const_in .stop (by intro e h; cases h)) hc s hs
    | stopPipeline => exact runStepDescribed_up d _ _ fuel (const_in .stopPipeline (by intro e h; cases h)) hc s hs
    | stopGroup => exact runStepDescribed_up d _ _ fuel (const_in .stopGroup (by intro e h; cases h)) hc s hs
    | call => exact runStepDescribed_up d _ _ fuel (cofStep_in "call" true) hc s hs
    | jump => exact runStepDescribed_up d _ _ fuel (cofStep_in "jump" false) hc s hs
    | switch => exact runStepDescribed_up d _ _ fuel switchStep_in hc s hs
    | set => simp [allowedKind] at hk
    | contextClear => simp [allowedKind] at hk
    | contextClearAll => simp [allowedKind] at hk
    | pype => simp [allowedKind] at hk

theorem up_pair {b : Body} {s s1 : St} {r : Res} (h : UpOk b) (hs : K s) (hb : b s = (s1, r)) : K s1 := by
  have := h s hs; rw [hb] at this; exact this

/-- `K` kept by every function of the mutual recursion at one fuel level. -/
def AllUp (prog : Program) (n : Nat) : Prop :=
  (∀ pipe d, stepOk d = true → UpOk (runStep n prog pipe d)) ∧
  (∀ pipe ds, (∀ d, d ∈ ds → stepOk d = true) → UpOk (runSteps n prog pipe ds)) ∧
  (∀ pipe g rs, UpOk (runStepGroup n prog pipe g rs)) ∧
  (∀ pipe gs, UpOk (runGroupList n prog pipe gs)) ∧
  (∀ pipe g, UpOk (runFailureGroup n prog pipe g)) ∧
  (∀ pipe gs su fa, UpOk (runGroups n prog pipe gs su fa)) ∧
  (∀ pi, UpOk (runPipeline n prog pi))

theorem allUp_zero (prog : Program) : AllUp prog 0 := by
  refine ⟨?_, ?_, ?_, ?_, ?_, ?_, ?_⟩
  · intro pipe d _ s hs; unfold runStep; exact hs
  · intro pipe ds _ s hs; unfold runSteps; exact hs
  · intro pipe g rs s hs; unfold runStepGroup; exact hs
  · intro pipe gs s hs; unfold runGroupList; exact hs
  · intro pipe g s hs; unfold runFailureGroup; exact hs
  · intro pipe gs su fa s hs; unfold runGroups; exact hs
  · intro pi s hs; unfold runPipeline; exact hs

theorem allUp_succ (prog : Program) (hp : progOk prog = true) (n : Nat) (ih : AllUp prog n) :
    AllUp prog (n + 1) := by
  obtain ⟨ih1, ih2, ih3, ih4, ih5, ih6, ih7⟩ := ih
  refine ⟨?_, ?_, ?_, ?_, ?_, ?_, ?_⟩
  · intro pipe d hd
    exact runStep_up prog n pipe d hd ih6
  · intro pipe ds hds s hs
    cases ds with
    | nil => unfold runSteps; exact hs
    | cons d rest =>
      rw [runSteps_cons]
      generalize hr : runStep n prog pipe d s = p
      obtain ⟨s1, r⟩ := p
      have h1 : K s1 := up_pair (ih1 pipe d (hds d List.mem_cons_self)) hs hr
      cases r <;> simp only [] <;> first
        | exact h1
        | exact ih2 pipe rest (fun d' hd' => hds d' (List.mem_cons_of_mem _ hd')) s1 h1
  · intro pipe g rs s hs
    by_cases hg0 : g = ""
    · subst hg0; rw [runStepGroup_empty_name]; exact raiseNew_K _ _ _ hs
    cases hgs : getPipelineSteps prog pipe g with
    | error e =>
      obtain ⟨en, em⟩ := e
      rw [runStepGroup_unsized n prog pipe g rs s en em hgs hg0]
      exact raiseNew_K _ _ _ hs
    | ok ss =>
      have hss : groupSteps prog pipe g = ss := by unfold groupSteps; rw [hgs]
      rw [runStepGroup_eq' n prog pipe g rs s ss hgs hg0]
      generalize hr : runSteps n prog pipe ss s = p
      obtain ⟨s1, r⟩ := p
      have h1 : K s1 := up_pair (ih2 pipe _ (hss ▸ progOk_groupSteps prog hp pipe g)) hs hr
      cases r <;> simp only [] <;> first
        | exact h1
        | exact ih6 _ _ _ _ s1 h1
        | (split <;> exact h1)
  · intro pipe gs s hs
    cases gs with
    | nil => unfold runGroupList; exact hs
    | cons g rest =>
      rw [runGroupList_cons]
      generalize hr : runStepGroup n prog pipe g false s = p
      obtain ⟨s1, r⟩ := p
      have h1 : K s1 := up_pair (ih3 pipe g false) hs hr
      cases r <;> simp only [] <;> first
        | exact h1
        | exact ih4 pipe rest s1 h1
  · intro pipe g s hs
    cases g with
    | none => unfold runFailureGroup; exact hs
    | some name =>
      by_cases hn : name = ""
      · subst hn; unfold runFailureGroup; exact hs
      · rw [runFailureGroup_eq n prog pipe name s hn]
        generalize hr : runStepGroup n prog pipe name true s = p
        obtain ⟨s1, r⟩ := p
        have h1 : K s1 := up_pair (ih3 pipe name true) hs hr
        cases r <;> exact h1
  · intro pipe gs su fa s hs
    cases gs with
    | nil => unfold runGroups; exact raiseNew_K _ _ _ hs
    | cons g rest =>
      rw [runGroups_eq]
      have hmain : K (mainPhase n prog pipe (g :: rest) su s).1 := by
        unfold mainPhase
        generalize hr : runGroupList n prog pipe (g :: rest) s = p
        obtain ⟨s1, r⟩ := p
        have h1 : K s1 := up_pair (ih4 pipe (g :: rest)) hs hr
        cases r <;> simp only [] <;> try exact h1
        cases su with
        | none => exact h1
        | some sg =>
          simp only []
          split
          · exact h1
          · exact ih3 pipe sg false s1 h1
      generalize hm : mainPhase n prog pipe (g :: rest) su s = p at hmain
      obtain ⟨s1, r⟩ := p
      cases r <;> simp only [] <;> try exact hmain
      split
      · generalize hf : runFailureGroup n prog pipe fa s1 = q
        obtain ⟨s2, r2⟩ := q
        have h2 : K s2 := up_pair (ih5 pipe fa) hmain hf
        cases r2 <;> exact h2
      · exact hmain
  · intro pi s hs
    cases hf : prog.find? pi.name with
    | none => rw [runPipeline_notFound n prog pi s hf]; exact raiseNew_K _ _ _ hs
    | some pd =>
      have h0 : K { s with stack := pi.name :: s.stack } := hs
      by_cases hgb : pi.groupsBad = true
      · rw [runPipeline_groupsBad n prog pi pd s hf hgb]
        simp only [prepareContext_noParser pd pi _ (progOk_parser prog hp pi.name pd hf)]
        have h1' : K (raiseNew { s with stack := pi.name :: s.stack } "TypeError" "~object is not iterable").1 :=
          raiseNew_K _ _ _ h0
        by_cases hf0 : hasFailureGroup pi.failure = true
        · simp only [hf0, if_true]
          generalize hq : runFailureGroup n prog pi.name pi.failure
            (raiseNew { s with stack := pi.name :: s.stack } "TypeError" "~object is not iterable").1 = q
          obtain ⟨s2, r2⟩ := q
          have h2 : K s2 := up_pair (ih5 pi.name pi.failure) h1' hq
          cases r2 <;> exact h2
        · simp only [hf0]
          exact h1'
      have hgb : pi.groupsBad = false := by simpa using hgb
      rw [runPipeline_eq n prog pi pd s hf hgb]
      simp only [prepareContext_noParser pd pi _ (progOk_parser prog hp pi.name pd hf)]
      generalize hr : runGroups n prog pi.name (effectiveGroups pi).1 (effectiveGroups pi).2.1
        (effectiveGroups pi).2.2 { s with stack := pi.name :: s.stack } = p
      obtain ⟨s2, r⟩ := p
      have h1 : K s2 := up_pair (ih6 _ _ _ _) h0 hr
      cases r <;> exact h1

theorem allUp (prog : Program) (hp : progOk prog = true) : ∀ n, AllUp prog n := by
  intro n
  induction n with
  | zero => exact allUp_zero prog
  | succ n ih => exact allUp_succ prog hp n ih

/-- strictly increasing ids are pairwise distinct -/
theorem K_nodup (s : St) (h : K s) : (s.escapes.map (·.exc.id)).Nodup := by
  rw [List.nodup_iff_pairwise_ne, List.pairwise_map]
  exact h.2.imp (fun hlt => Nat.ne_of_lt hlt)

/-! ### from the log to `runErrors` -/

/-- the exception object an entry of `runErrors` refers to (its `exception` field) -/
def excIdOf : Val → Option Nat
  | .dict kvs => match dictGet? kvs (.str "exception") with
    | some (.obj i) => some i
    | _ => none
  | _ => none

theorem excIdOf_entry (d : StepDef) (e : ExcV) (sw : Bool) (ce : Val) : excIdOf (entry d e sw ce) = some e.id := by
  simp [excIdOf, entry, dictGet?]

theorem excIdOf_entry? (x : Escape) (v : Val) (h : entry? x = some v) : excIdOf v = some x.exc.id := by
  unfold entry? at h
  split at h
  · injection h with h; rw [← h]; exact excIdOf_entry _ _ _ _
  · cases h

theorem mem_recorded_ids (l : List Escape) (i : Nat) (hi : i ∈ (l.filterMap entry?).filterMap excIdOf) :
    i ∈ l.map (·.exc.id) := by
  rw [List.mem_filterMap] at hi
  obtain ⟨v, hv, hiv⟩ := hi
  rw [List.mem_filterMap] at hv
  obtain ⟨x, hx, hxv⟩ := hv
  rw [excIdOf_entry? x v hxv] at hiv
  injection hiv with hiv
  rw [← hiv]
  exact List.mem_map_of_mem hx

theorem recorded_ids_nodup (l : List Escape) (h : (l.map (·.exc.id)).Nodup) :
    ((l.filterMap entry?).filterMap excIdOf).Nodup := by
  induction l with
  | nil => exact List.nodup_nil
  | cons x rest ih =>
    rw [List.map_cons, List.nodup_cons] at h
    rw [List.filterMap_cons]
    cases hx : entry? x with
    | none => exact ih h.2
    | some v =>
      simp only []
      rw [List.filterMap_cons, excIdOf_entry? x v hx]
      simp only []
      rw [List.nodup_cons]
      exact ⟨fun hm => h.1 (mem_recorded_ids rest _ hm), ih h.2⟩

end Pypyr.C07
