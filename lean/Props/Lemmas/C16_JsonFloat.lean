/-
  C16 helper lemmas, floats of the JSON round trip (`PypyrModel/Codec.lean`, `Codec.Json`):

    natDigits_eq_toDigits : natDigits n = Nat.toDigits 10 n            (so `(toString n).toList = natDigits n`)
    prFlt_eq_fltRepr      : prFlt n k = (fltRepr n k).toList            (all n, k: the model's printer IS the shared one)
    pNumber_prFlt         : fltOk n k → okTail rest → pNumber reads `prFlt n k` back as `.flt n k`
-/
import Props.Lemmas.C16_JsonLex

namespace Pypyr.Codec.Json

/-! ### `natDigits` is `Nat.repr` -/

theorem digit_eq_digitChar (n : Nat) : digit n = Nat.digitChar (n % 10) := by
  unfold digit
  have : n % 10 < 10 := Nat.mod_lt _ (by decide)
  generalize n % 10 = m at *
  have : m = 0 ∨ m = 1 ∨ m = 2 ∨ m = 3 ∨ m = 4 ∨ m = 5 ∨ m = 6 ∨ m = 7 ∨ m = 8 ∨ m = 9 := by omega
  rcases this with h | h | h | h | h | h | h | h | h | h <;> subst h <;> decide

theorem digitsAux_eq_toDigits : ∀ (f n : Nat) (acc : List Char), n ≤ f →
    digitsAux f n acc = Nat.toDigits 10 n ++ acc := by
  intro f
  induction f with
  | zero =>
    intro n acc h
    have : n = 0 := by omega
    subst this
    simp [digitsAux, Nat.toDigits_of_lt_base, digit_eq_digitChar]
  | succ f ih =>
    intro n acc h
    unfold digitsAux
    split
    · next hlt =>
      rw [Nat.toDigits_of_lt_base hlt, digit_eq_digitChar, Nat.mod_eq_of_lt hlt]
      rfl
    · next hge =>
      rw [ih (n / 10) _ (by omega)]
      have hsplit : Nat.toDigits 10 n = Nat.toDigits 10 (n / 10) ++ Nat.toDigits 10 (n % 10) := by
        rw [Nat.toDigits_append_toDigits (by decide) (by omega) (Nat.mod_lt _ (by decide))]
        congr 1
        omega
      rw [hsplit, Nat.toDigits_of_lt_base (Nat.mod_lt _ (by decide)), digit_eq_digitChar]
      simp

theorem natDigits_eq_toDigits (n : Nat) : natDigits n = Nat.toDigits 10 n := by
  simpa [natDigits] using digitsAux_eq_toDigits n n [] (Nat.le_refl _)

theorem toString_toList (n : Nat) : (toString n).toList = natDigits n := by
  rw [natDigits_eq_toDigits]
  show (Nat.repr n).toList = _
  simp [Nat.repr]

/-! ### The model's float printer is the shared `fltRepr` -/

/-- **prFlt_eq_fltRepr.** For every `n`, `k`. -/
theorem prFlt_eq_fltRepr (n : Int) (k : Nat) : prFlt n k = (fltRepr n k).toList := by
  unfold prFlt fltRepr padLeftZeros
  simp only [String.toList_append, toString_toList, String.toList_ofList, ← String.length_toList,
    stripZeros, padZeros]
  have hs : (if n < 0 then ['-'] else []) = (if n < 0 then "-" else "").toList := by
    split <;> rfl
  rw [hs]
  by_cases hemp : (((List.replicate (k - (natDigits (n.natAbs % 2 ^ k * 5 ^ k)).length) '0' ++
      natDigits (n.natAbs % 2 ^ k * 5 ^ k)).reverse.dropWhile (· == '0')).reverse).isEmpty = true <;>
  simp_all

example : prFlt (-5) 2 = "-1.25".toList ∧ prFlt 100 0 = "100.0".toList ∧ prFlt 1 10 = "0.0009765625".toList := by
  decide +kernel

/-! ### Digits of the fraction -/

theorem digitsAux_length : ∀ (f n : Nat) (acc : List Char) (j : Nat), n ≤ f → n < 10 ^ j → 1 ≤ j →
    (digitsAux f n acc).length ≤ j + acc.length := by
  intro f
  induction f with
  | zero => intro n acc j _ _ hj; simp [digitsAux]; omega
  | succ f ih =>
    intro n acc j h hlt hj
    unfold digitsAux
    split
    · simp; omega
    · next hge =>
      obtain ⟨j', rfl⟩ : ∃ j', j = j' + 1 := ⟨j - 1, by omega⟩
      have hj' : 1 ≤ j' := by
        rcases Nat.eq_zero_or_pos j' with h0 | h0
        · subst h0; simp at hlt; omega
        · exact h0
      have hdiv : n / 10 < 10 ^ j' := by
        rw [Nat.pow_succ] at hlt
        exact Nat.div_lt_of_lt_mul (by rw [Nat.mul_comm]; exact hlt)
      have := ih (n / 10) (digit n :: acc) j' (by omega) hdiv hj'
      simp only [List.length_cons] at this
      omega

theorem natDigits_length (n j : Nat) (h : n < 10 ^ j) (hj : 1 ≤ j) : (natDigits n).length ≤ j := by
  simpa [natDigits] using digitsAux_length n n [] j (Nat.le_refl _) h hj

theorem digitsAux_last : ∀ (f n : Nat) (acc : List Char), ∃ pre, digitsAux f n acc = pre ++ digit n :: acc := by
  intro f
  induction f with
  | zero => intro n acc; exact ⟨[], by simp [digitsAux]⟩
  | succ f ih =>
    intro n acc
    unfold digitsAux
    split
    · exact ⟨[], by simp⟩
    · obtain ⟨pre, he⟩ := ih (n / 10) (digit n :: acc)
      obtain ⟨pre', he'⟩ : ∃ pre', digitsAux f (n / 10) (digit n :: acc) = pre' ++ digit n :: acc :=
        ⟨pre ++ [digit (n / 10)], by rw [he]; simp⟩
      exact ⟨pre', he'⟩

theorem natDigits_last (n : Nat) : ∃ pre, natDigits n = pre ++ [digit n] := by
  simpa [natDigits] using digitsAux_last n n []

theorem stripZeros_last (xs : List Char) (d : Char) (h : d ≠ '0') : stripZeros (xs ++ [d]) = xs ++ [d] := by
  simp [stripZeros, h]

theorem foldl_dstep_zeros (z : Nat) : (List.replicate z '0').foldl dstep 0 = 0 := by
  induction z with
  | zero => rfl
  | succ z ih => simp [List.replicate_succ, dstep, ih]

theorem readFrac_digits (ds : List Char) : ∀ (m F : Nat) (rest : List Char),
    (∀ x ∈ ds, x.isDigit = true) → ndHead rest →
    readFrac m F (ds ++ rest) = (m + ds.length, ds.foldl dstep F, rest) := by
  induction ds with
  | nil =>
    intro m F rest _ h
    cases rest with
    | nil => simp [readFrac]
    | cons c r => simp only [ndHead] at h; simp [readFrac, h]
  | cons d ds ih =>
    intro m F rest h hr
    have hd : d.isDigit = true := h d (by simp)
    simp only [List.cons_append, readFrac, hd, if_true, List.foldl_cons, List.length_cons]
    rw [ih _ _ _ (fun x hx => h x (by simp [hx])) hr]
    simp [dstep]
    omega

/-- `NUMBER_RE` on `x.ddd` followed by something that does not go on the number: `float()` of it. -/
theorem pNumber_frac (neg : Bool) (x : Nat) (c : Char) (fd rest : List Char)
    (hd : ∀ y ∈ c :: fd, y.isDigit = true) (ht : okTail rest) :
    pNumber neg (natDigits x ++ '.' :: c :: (fd ++ rest)) =
      match mkFloat neg x (fd.length + 1) ((c :: fd).foldl dstep 0) with
      | some v => .ok v rest
      | Option.none => .outside := by
  have hc : c.isDigit = true := hd c (by simp)
  have hp : pNat (natDigits x ++ '.' :: c :: (fd ++ rest)) = .ok x ('.' :: c :: (fd ++ rest)) :=
    pNat_natDigits' x _ (by simp [ndHead])
  have hr := readFrac_digits (c :: fd) 0 0 rest hd (okTail_ndHead rest ht)
  simp only [List.cons_append, List.length_cons, Nat.zero_add] at hr
  simp only [pNumber, hp, hc, if_true, hr, isExpTail_okTail rest ht]
  cases mkFloat neg x (fd.length + 1) (List.foldl dstep 0 (c :: fd)) <;> simp

/-! ### The canonical floats: what `prFlt` prints and `mkFloat` makes of it -/

theorem sgn_natAbs (n : Int) : sgn (decide (n < 0)) n.natAbs = n := by
  unfold sgn
  by_cases h : n < 0 <;> simp [h] <;> omega

theorem pow5_odd (k : Nat) : 5 ^ k % 2 = 1 := by
  rw [Nat.pow_mod]; simp

/-- On `fltOk`: the text is sign, integer part, `.`, a non-empty run of digits, and `mkFloat` of that
    run is the float itself. -/
theorem prFlt_shape (n : Int) (k : Nat) (h : fltOk n k = true) :
    ∃ c fd, (∀ y ∈ c :: fd, y.isDigit = true) ∧
      prFlt n k = (if n < 0 then ['-'] else []) ++ (natDigits (n.natAbs / 2 ^ k) ++ '.' :: c :: fd) ∧
      mkFloat (decide (n < 0)) (n.natAbs / 2 ^ k) (fd.length + 1) ((c :: fd).foldl dstep 0) = some (.flt n k) := by
  simp only [fltOk, Bool.and_eq_true, Bool.or_eq_true, beq_iff_eq, decide_eq_true_eq] at h
  obtain ⟨⟨hcanon, hlen⟩, _⟩ := h
  rcases Nat.eq_zero_or_pos k with hk | hk
  · -- k = 0: "x.0"
    subst hk
    refine ⟨'0', [], by simp, ?_, ?_⟩
    · have : natDigits 0 = ['0'] := by decide
      simp [prFlt, Nat.mod_one, this, padZeros, stripZeros]
    · simp only [Nat.pow_zero, Nat.div_one, List.length_nil, Nat.zero_add] at hlen ⊢
      have hF : (['0'] : List Char).foldl dstep 0 = 0 := by decide
      have hl : ¬ 15 < (natDigits n.natAbs).length + 1 := by simp at hlen; omega
      simp [mkFloat, hF, hl, sgn_natAbs]
      omega
  · -- k ≥ 1, |n| odd
    have hodd : n.natAbs % 2 = 1 := by
      rcases hcanon with h0 | h1
      · omega
      · exact h1
    have hmax : max k 1 = k := by omega
    rw [hmax] at hlen
    generalize ha : n.natAbs = a at *
    have hfr : a % 2 ^ k % 2 = 1 := by
      have h2 : 2 ∣ 2 ^ k := by simpa using Nat.pow_dvd_pow 2 hk
      rw [Nat.mod_mod_of_dvd a h2]
      exact hodd
    have hFodd : (a % 2 ^ k * 5 ^ k) % 2 = 1 := by
      rw [Nat.mul_mod, hfr, pow5_odd]
    have hFlt : a % 2 ^ k * 5 ^ k < 10 ^ k := by
      have : (10 : Nat) ^ k = 2 ^ k * 5 ^ k := by rw [← Nat.mul_pow]
      rw [this]
      exact Nat.mul_lt_mul_of_pos_right (Nat.mod_lt _ (Nat.pow_pos (by decide))) (Nat.pow_pos (by decide))
    generalize hF : a % 2 ^ k * 5 ^ k = F at *
    obtain ⟨pre, hpre⟩ := natDigits_last F
    have hdne : digit F ≠ '0' := (digit_spec F).2.2.1 (by omega)
    have hlenF : (natDigits F).length ≤ k := natDigits_length F k hFlt hk
    -- the padded digits
    have hpad : padZeros (natDigits F) k = (List.replicate (k - (natDigits F).length) '0' ++ pre) ++ [digit F] := by
      simp [padZeros, hpre]
    have hstrip : stripZeros (padZeros (natDigits F) k) = padZeros (natDigits F) k := by
      rw [hpad]; exact stripZeros_last _ _ hdne
    have hplen : (padZeros (natDigits F) k).length = k := by
      simp only [padZeros, List.length_append, List.length_replicate]; omega
    have hpval : (padZeros (natDigits F) k).foldl dstep 0 = F := by
      simp only [padZeros, List.foldl_append, foldl_dstep_zeros, natDigits_value]
    have hpdig : ∀ y ∈ padZeros (natDigits F) k, y.isDigit = true := by
      intro y hy
      simp only [padZeros, List.mem_append, List.mem_replicate] at hy
      rcases hy with ⟨_, rfl⟩ | hy
      · decide
      · exact natDigits_isDigit F y hy
    cases hp : padZeros (natDigits F) k with
    | nil => rw [hp] at hplen; simp at hplen; omega
    | cons c fd =>
      rw [hp] at hstrip hplen hpval hpdig
      refine ⟨c, fd, hpdig, ?_, ?_⟩
      · simp [prFlt, ha, hF, hstrip, hp]
      · have hm : fd.length + 1 = k := by simpa using hplen
        rw [hm, hpval]
        have hl : ¬ 15 < (natDigits (a / 2 ^ k)).length + k := by omega
        have hF0 : F ≠ 0 := by omega
        have h5 : 0 < 5 ^ k := Nat.pow_pos (by decide)
        have hmod : F % 5 ^ k = 0 := by rw [← hF]; exact Nat.mul_mod_left _ _
        have hdiv : F / 5 ^ k = a % 2 ^ k := by rw [← hF]; exact Nat.mul_div_cancel _ h5
        have hsum : a / 2 ^ k * 2 ^ k + a % 2 ^ k = a := by
          rw [Nat.mul_comm]; exact Nat.div_add_mod a (2 ^ k)
        simp only [mkFloat, hl, if_false, hF0, hmod, hdiv, hfr, hsum]
        simp [← ha, sgn_natAbs]

/-- **pNumber_prFlt.** The text of a float of `fltOk` is an optional `-` and a body that starts with a
    digit, and the number scanner reads the body back as that float (`scan_once` takes the sign). -/
theorem pNumber_prFlt (n : Int) (k : Nat) (rest : List Char) (h : fltOk n k = true) (ht : okTail rest) :
    ∃ c r, c.isDigit = true ∧ prFlt n k = (if n < 0 then ['-'] else []) ++ c :: r ∧
      pNumber (decide (n < 0)) (c :: r ++ rest) = .ok (.flt n k) rest := by
  obtain ⟨c0, r0, he, hc0⟩ := natDigits_head (n.natAbs / 2 ^ k)
  obtain ⟨c, fd, hd, hshape, hmk⟩ := prFlt_shape n k h
  have hnum := pNumber_frac (decide (n < 0)) (n.natAbs / 2 ^ k) c fd rest hd ht
  rw [hmk, he] at hnum
  refine ⟨c0, r0 ++ '.' :: c :: fd, hc0, ?_, ?_⟩
  · rw [hshape, he]; simp
  · simpa using hnum

example : fltOk (-5) 2 = true ∧ fltOk 131073 1 = true ∧ fltOk 10000000000 0 = true ∧ fltOk (-1) 10 = true ∧
    fltOk 1 14 = false ∧ fltOk 2 1 = false ∧ fltOk 3602879701896397 55 = false := by decide +kernel

end Pypyr.Codec.Json
