/-
  C03 helper lemmas, part 2: `pypyr.steps.switch` (`switchStep` / `switchScan` / `switchCase` of
  PypyrModel/Flow/Steps.lean). One entry of the switch list is classified on its own
  (`caseVerdict`, `defaultOf`, `CaseIs`, `IsDefault`), the scan over the list is characterised
  for every list length by induction (`switchScan_at`, `switchScan_classify`).
-/
import Props.Lemmas.C03_Restore

namespace Pypyr.C03
open Pypyr Pypyr.Flow

/-! ## one entry -/

/-- the value of a `default` key that counts as a default (`default: null` does not). -/
def defaultOf (kvs : List (Val × Val)) : Option Val :=
  match dictGet? kvs (.str "default") with
  | some d => if d != .none then some d else none
  | none => none

/-- the `case` expression of an entry: `None` is false without being formatted. -/
def caseExpr (s : St) (raw : Val) : Except Exc Bool :=
  if raw = .none then .ok false else fmtB s raw

/-- the verdict on a `case` / `call` entry (index `idx` only appears in error texts). -/
def caseVerdict (s : St) (kvs : List (Val × Val)) (idx : Nat) : SwitchStep :=
  match dictGet? kvs (.str "case") with
  | none => .fail "pypyr.errors.KeyNotInContextError" ("~'case' not found in `switch` index " ++ toString idx)
  | some raw =>
    match dictGet? kvs (.str "call") with
    | none => .fail "pypyr.errors.KeyNotInContextError" ("~'call' not found in `switch` index " ++ toString idx)
    | some rc =>
      if !rc.truthy then .fail "pypyr.errors.KeyInContextHasNoValueError" "~'call' does not have a value"
      else match caseExpr s raw with
        | .error x => .fail x.name x.msg
        | .ok true => .take rc
        | .ok false => .next

/-- `switchCase` on a mapping: a non-null `default` counts only in the last entry and then wins;
    otherwise the entry is judged as a `case` / `call` entry. -/
theorem switchCase_dict (s : St) (kvs : List (Val × Val)) (isLast : Bool) (idx : Nat) :
    switchCase s (.dict kvs) isLast idx =
      (match (if isLast then defaultOf kvs else none) with
       | some d => .take d
       | none => caseVerdict s kvs idx) := by
  unfold switchCase defaultOf caseVerdict caseExpr
  cases isLast with
  | false => rfl
  | true =>
    simp only [if_true]
    cases dictGet? kvs (.str "default") with
    | none => rfl
    | some d =>
      by_cases hd : d = .none
      · subst hd; rfl
      · have : (d != Val.none) = true := by simpa using hd
        simp only [this, if_true]

theorem switchCase_nondict (s : St) (e : Val) (isLast : Bool) (idx : Nat) (h : ∀ kvs, e ≠ .dict kvs) :
    switchCase s e isLast idx = .fail "OutOfDomain" "switch case must be a mapping" := by
  unfold switchCase
  split
  · rename_i kvs; exact absurd rfl (h kvs)
  · rfl

/-- a well-formed `case` / `call` entry whose expression evaluates to `b`; `rc` is its raw call config. -/
def CaseIs (s : St) (e : Val) (b : Bool) (rc : Val) : Prop :=
  ∃ kvs raw, e = .dict kvs ∧ dictGet? kvs (.str "case") = some raw ∧
    dictGet? kvs (.str "call") = some rc ∧ rc.truthy = true ∧ caseExpr s raw = .ok b

/-- the entry carries a (non-null) `default` whose raw call config is `d`. -/
def IsDefault (e : Val) (d : Val) : Prop := ∃ kvs, e = .dict kvs ∧ defaultOf kvs = some d

/-- the entry carries no (non-null) `default`. -/
def NoDefault (e : Val) : Prop := ∀ kvs, e = .dict kvs → defaultOf kvs = none

theorem caseVerdict_take_iff (s : St) (kvs : List (Val × Val)) (idx : Nat) (rc : Val) :
    caseVerdict s kvs idx = .take rc ↔ CaseIs s (.dict kvs) true rc := by
  unfold caseVerdict CaseIs
  constructor
  · intro h
    split at h
    · cases h
    · rename_i raw hraw
      split at h
      · cases h
      · rename_i rc' hrc
        split at h
        · cases h
        · rename_i ht
          split at h
          · cases h
          · injection h with h; subst h
            exact ⟨kvs, raw, rfl, hraw, hrc, by simpa using ht, by assumption⟩
          · cases h
  · rintro ⟨kvs', raw, he, hraw, hrc, ht, hb⟩
    injection he with he; subst he
    simp only [hraw, hrc, ht, hb, Bool.not_true, Bool.false_eq_true, if_false]

theorem caseVerdict_next_iff (s : St) (kvs : List (Val × Val)) (idx : Nat) :
    caseVerdict s kvs idx = .next ↔ ∃ rc, CaseIs s (.dict kvs) false rc := by
  unfold caseVerdict CaseIs
  constructor
  · intro h
    split at h
    · cases h
    · rename_i raw hraw
      split at h
      · cases h
      · rename_i rc' hrc
        split at h
        · cases h
        · rename_i ht
          split at h
          · cases h
          · cases h
          · exact ⟨rc', kvs, raw, rfl, hraw, hrc, by simpa using ht, by assumption⟩
  · rintro ⟨rc, kvs', raw, he, hraw, hrc, ht, hb⟩
    injection he with he; subst he
    simp only [hraw, hrc, ht, hb, Bool.not_true, Bool.false_eq_true, if_false]

/-- a false case is skipped wherever it stands, except that a last entry must not also carry a default. -/
theorem switchCase_of_false (s : St) (e : Val) (isLast : Bool) (idx : Nat) (rc : Val)
    (h : CaseIs s e false rc) (hl : isLast = true → NoDefault e) :
    switchCase s e isLast idx = .next := by
  obtain ⟨kvs, raw, he, hrest⟩ := h
  subst he
  rw [switchCase_dict]
  have hv : caseVerdict s kvs idx = .next := (caseVerdict_next_iff s kvs idx).2 ⟨rc, kvs, raw, rfl, hrest⟩
  cases isLast with
  | false => exact hv
  | true => simp only [if_true, hl rfl kvs rfl]; exact hv

theorem switchCase_of_true (s : St) (e : Val) (isLast : Bool) (idx : Nat) (rc : Val)
    (h : CaseIs s e true rc) (hl : isLast = true → NoDefault e) :
    switchCase s e isLast idx = .take rc := by
  obtain ⟨kvs, raw, he, hrest⟩ := h
  subst he
  rw [switchCase_dict]
  have hv : caseVerdict s kvs idx = .take rc := (caseVerdict_take_iff s kvs idx rc).2 ⟨kvs, raw, rfl, hrest⟩
  cases isLast with
  | false => exact hv
  | true => simp only [if_true, hl rfl kvs rfl]; exact hv

theorem switchCase_of_default (s : St) (e : Val) (idx : Nat) (d : Val) (h : IsDefault e d) :
    switchCase s e true idx = .take d := by
  obtain ⟨kvs, he, hd⟩ := h
  subst he
  rw [switchCase_dict]
  simp only [if_true, hd]

/-- conversely: what a `.next` / `.take` verdict of `switchCase` means. -/
theorem switchCase_next_inv (s : St) (e : Val) (isLast : Bool) (idx : Nat)
    (h : switchCase s e isLast idx = .next) :
    (∃ rc, CaseIs s e false rc) ∧ (isLast = true → NoDefault e) := by
  unfold switchCase at h
  split at h
  · rename_i kvs
    have h' : switchCase s (.dict kvs) isLast idx = .next := by unfold switchCase; exact h
    rw [switchCase_dict] at h'
    cases isLast with
    | false =>
      exact ⟨(caseVerdict_next_iff s kvs idx).1 h', fun hc => by cases hc⟩
    | true =>
      simp only [if_true] at h'
      cases hd : defaultOf kvs with
      | some d => rw [hd] at h'; cases h'
      | none =>
        rw [hd] at h'
        refine ⟨(caseVerdict_next_iff s kvs idx).1 h', fun _ kvs' he => ?_⟩
        injection he with he; subst he; exact hd
  · cases h

theorem switchCase_take_inv (s : St) (e : Val) (isLast : Bool) (idx : Nat) (rc : Val)
    (h : switchCase s e isLast idx = .take rc) :
    (CaseIs s e true rc ∧ (isLast = true → NoDefault e)) ∨ (isLast = true ∧ IsDefault e rc) := by
  unfold switchCase at h
  split at h
  · rename_i kvs
    have h' : switchCase s (.dict kvs) isLast idx = .take rc := by unfold switchCase; exact h
    rw [switchCase_dict] at h'
    cases isLast with
    | false =>
      exact .inl ⟨(caseVerdict_take_iff s kvs idx rc).1 h', fun hc => by cases hc⟩
    | true =>
      simp only [if_true] at h'
      cases hd : defaultOf kvs with
      | some d =>
        rw [hd] at h'
        injection h' with h'; subst h'
        exact .inr ⟨rfl, kvs, rfl, hd⟩
      | none =>
        rw [hd] at h'
        refine .inl ⟨(caseVerdict_take_iff s kvs idx rc).1 h', fun _ kvs' he => ?_⟩
        injection he with he; subst he; exact hd
  · cases h

/-! ## the scan over the list -/

/-- what happens to the selected raw call config: formatted against the current state, parsed
    into an instruction with key `switch` and the whole switch list as original config. -/
def takeResult (s : St) (original rawCall : Val) : St × Res :=
  match fmtV s rawCall with
  | .error x => raiseExc s x
  | .ok cfg =>
    match instructionFromVal cfg "switch" original with
    | .error (n, m) => raiseNew s n m
    | .ok c => (s, .call c)

theorem switchScan_nil (s : St) (original : Val) (idx : Nat) : switchScan s original [] idx = (s, .ok) := rfl

theorem switchScan_cons (s : St) (original e : Val) (rest : List Val) (idx : Nat) :
    switchScan s original (e :: rest) idx =
      (match switchCase s e rest.isEmpty idx with
       | .fail n m => raiseNew s n m
       | .next => switchScan s original rest (idx + 1)
       | .take rawCall => takeResult s original rawCall) := by
  conv => lhs; unfold switchScan
  rfl

/-- every entry of the list is a false case. -/
def AllFalse (s : St) (cases : List Val) : Prop := ∀ e ∈ cases, ∃ rc, CaseIs s e false rc

/-- entries that are false cases and are followed by something are skipped: the scan arrives at
    the entry after them, with the index advanced by their number — any number of them. -/
theorem switchScan_skip (s : St) (original : Val) (e : Val) (post : List Val) :
    ∀ (pre : List Val) (idx : Nat), AllFalse s pre →
      switchScan s original (pre ++ e :: post) idx = switchScan s original (e :: post) (idx + pre.length) := by
  intro pre
  induction pre with
  | nil => intro idx _; rfl
  | cons x rest ih =>
    intro idx h
    obtain ⟨rc, hx⟩ := h x List.mem_cons_self
    have hne : (rest ++ e :: post).isEmpty = false := by cases rest <;> rfl
    rw [List.cons_append, switchScan_cons, hne,
      switchCase_of_false s x false idx rc hx (fun hc => by cases hc)]
    simp only []
    rw [ih (idx + 1) (fun y hy => h y (List.mem_cons_of_mem _ hy))]
    simp only [List.length_cons]
    congr 1
    omega

/-- the scan at the first entry that is not a (skipped) false case. -/
theorem switchScan_at (s : St) (original : Val) (pre : List Val) (e : Val) (post : List Val) (idx : Nat)
    (hpre : AllFalse s pre) :
    switchScan s original (pre ++ e :: post) idx =
      (match switchCase s e post.isEmpty (idx + pre.length) with
       | .fail n m => raiseNew s n m
       | .next => switchScan s original post (idx + pre.length + 1)
       | .take rawCall => takeResult s original rawCall) := by
  rw [switchScan_skip s original e post pre idx hpre, switchScan_cons]

/-- all entries false and the last one without default: nothing is called. -/
theorem switchScan_allFalse (s : St) (original : Val) :
    ∀ (cases : List Val) (idx : Nat), AllFalse s cases →
      (∀ e, cases.getLast? = some e → NoDefault e) →
      switchScan s original cases idx = (s, .ok) := by
  intro cases
  induction cases with
  | nil => intro idx _ _; rfl
  | cons x rest ih =>
    intro idx h hl
    obtain ⟨rc, hx⟩ := h x List.mem_cons_self
    have hlast : rest.isEmpty = true → NoDefault x := by
      intro he
      have : rest = [] := by simpa using he
      subst this
      exact hl x rfl
    rw [switchScan_cons, switchCase_of_false s x rest.isEmpty idx rc hx hlast]
    simp only []
    refine ih (idx + 1) (fun y hy => h y (List.mem_cons_of_mem _ hy)) (fun e he => hl e ?_)
    cases rest with
    | nil => cases he
    | cons y ys => rw [List.getLast?_cons_cons]; exact he

/-- **exhaustive classification of the scan, any list length**: either every entry is a false case
    (and the last has no default) and the result is `ok`; or there is a first entry that is not a
    skipped false case — all entries before it are false cases — and the result is decided by
    that entry alone: `take` ⇒ its call config is formatted and becomes the call, `fail` ⇒ that
    error. -/
theorem switchScan_classify (s : St) (original : Val) :
    ∀ (cases : List Val) (idx : Nat),
      (AllFalse s cases ∧ (∀ e, cases.getLast? = some e → NoDefault e) ∧
          switchScan s original cases idx = (s, .ok)) ∨
      (∃ pre e post, cases = pre ++ e :: post ∧ AllFalse s pre ∧
        ((∃ rc, switchCase s e post.isEmpty (idx + pre.length) = .take rc ∧
            switchScan s original cases idx = takeResult s original rc) ∨
         (∃ n m, switchCase s e post.isEmpty (idx + pre.length) = .fail n m ∧
            switchScan s original cases idx = raiseNew s n m))) := by
  intro cases
  induction cases with
  | nil =>
    intro idx
    exact .inl ⟨fun e he => (by cases he), fun e he => (by cases he), rfl⟩
  | cons x rest ih =>
    intro idx
    cases hx : switchCase s x rest.isEmpty idx with
    | take rc =>
      refine .inr ⟨[], x, rest, rfl, fun e he => (by cases he), .inl ⟨rc, hx, ?_⟩⟩
      rw [switchScan_cons, hx]
    | fail n m =>
      refine .inr ⟨[], x, rest, rfl, fun e he => (by cases he), .inr ⟨n, m, hx, ?_⟩⟩
      rw [switchScan_cons, hx]
    | next =>
      obtain ⟨⟨rcx, hfx⟩, hnd⟩ := switchCase_next_inv s x rest.isEmpty idx hx
      have hstep : switchScan s original (x :: rest) idx = switchScan s original rest (idx + 1) := by
        rw [switchScan_cons, hx]
      rcases ih (idx + 1) with ⟨hall, hlast, hr⟩ | ⟨pre, e, post, hcs, hpre, hres⟩
      · refine .inl ⟨?_, ?_, by rw [hstep, hr]⟩
        · intro y hy
          rcases List.mem_cons.1 hy with rfl | hy
          · exact ⟨rcx, hfx⟩
          · exact hall y hy
        · intro e he
          cases rest with
          | nil =>
            injection he with he; subst he
            exact hnd rfl
          | cons y ys => rw [List.getLast?_cons_cons] at he; exact hlast e he
      · have hpre' : AllFalse s (x :: pre) := by
          intro y hy
          rcases List.mem_cons.1 hy with rfl | hy
          · exact ⟨rcx, hfx⟩
          · exact hpre y hy
        have hidx : idx + (x :: pre).length = idx + 1 + pre.length := by
          simp only [List.length_cons]; omega
        refine .inr ⟨x :: pre, e, post, by rw [hcs]; rfl, hpre', ?_⟩
        rw [hidx, hstep]
        exact hres

theorem takeResult_call_inv (s s1 : St) (original rc : Val) (c : CofCfg)
    (h : takeResult s original rc = (s1, .call c)) :
    ∃ cfg, fmtV s rc = .ok cfg ∧ instructionFromVal cfg "switch" original = .ok c ∧ s1 = s := by
  unfold takeResult at h
  split at h
  · rename_i x _
    have := raiseExc_isErr s x
    rw [h] at this; cases this
  · rename_i cfg hf
    split at h
    · rename_i n m _
      have := raiseNew_isErr s n m
      rw [h] at this; cases this
    · rename_i c' hc
      injection h with h1 h2
      injection h2 with h2
      subst h2
      exact ⟨cfg, hf, hc, h1.symm⟩

theorem takeResult_ne_ok (s s1 : St) (original rc : Val) : takeResult s original rc ≠ (s1, .ok) := by
  intro h
  unfold takeResult at h
  split at h
  · rename_i x _
    have := raiseExc_isErr s x
    rw [h] at this; cases this
  · split at h
    · rename_i n m _
      have := raiseNew_isErr s n m
      rw [h] at this; cases this
    · injection h with _ h2; cases h2

/-- `switchStep` once the context holds a list under `switch`. -/
theorem switchStep_list (s : St) (cases : List Val) (h : Ctx.get? s.ctx "switch" = some (.list cases)) :
    switchStep s = switchScan s (.list cases) cases 0 := by
  unfold switchStep assertKeyHasValue
  simp only [h]

/-- `switchStep` returning anything but an error means the context holds a list under `switch`. -/
theorem switchStep_nonerr_list (s s1 : St) (r : Res) (h : switchStep s = (s1, r)) (hr : r.isErr = false) :
    ∃ cases, Ctx.get? s.ctx "switch" = some (.list cases) := by
  unfold switchStep at h
  split at h
  · rename_i n m _
    have := raiseNew_isErr s n m
    rw [h] at this; simp [hr] at this
  · rename_i original ha
    obtain ⟨hg, _⟩ := assertKeyHasValue_ok _ _ _ _ ha
    split at h
    · exact ⟨_, hg⟩
    · have := raiseNew_isErr s "OutOfDomain" "switch must be a list"
      rw [h] at this; simp [hr] at this

/-- `pypyr.steps.switch`: whenever the step raises a call, the instruction's key is `switch`, its
    original config is the whole list the context holds under `switch`, the state is untouched. -/
theorem switchStep_call_key (s s1 : St) (c : CofCfg) (h : switchStep s = (s1, .call c)) :
    c.key = "switch" ∧ Ctx.get? s.ctx "switch" = some c.original ∧ s1 = s := by
  obtain ⟨cs, hg⟩ := switchStep_nonerr_list s s1 _ h rfl
  rw [switchStep_list s cs hg] at h
  rcases switchScan_classify s (.list cs) cs 0 with ⟨_, _, hr⟩ | ⟨pre, e, post, _, _, hres⟩
  · rw [hr] at h; injection h with _ h2; cases h2
  · rcases hres with ⟨rc, _, hr⟩ | ⟨n, m, _, hr⟩
    · rw [hr] at h
      obtain ⟨cfg, _, hi, hs⟩ := takeResult_call_inv s s1 _ rc c h
      obtain ⟨hk, ho⟩ := instructionFromVal_key _ _ _ _ hi
      exact ⟨hk, by rw [ho]; exact hg, hs⟩
    · rw [hr] at h
      have := raiseNew_isErr s n m
      rw [h] at this; cases this

end Pypyr.C03
