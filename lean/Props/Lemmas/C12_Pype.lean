/-
  Helper lemmas for the object-level reading of `pypyr.steps.pype` with a context of its own
  (`Props/C11Heap.lean`): operations of one run that read ANOTHER run's region (`Op.fmtFrom`).

  `Op.safeFrom q`: the operations a run may perform next to run `q` without ever holding one of
  `q`'s objects: everything of the fixed language, and `fmtFrom q … byRef := false` (a value of `q`'s
  context formatted again: containers rebuilt).  Under `Sep` and as long as `q`'s region holds no
  opaque object (`NoObj`: the formatter hands those back by reference) such an operation is LOCAL to the
  run that performs it (`effect_local_from`).
-/
import Props.Lemmas.C12_Twin

namespace Pypyr.C12
open Pypyr.RunHeap

/-- Run `q`'s region holds no opaque mutable object ("no mutable leaves"). -/
def NoObj (h : Heap) (q : Nat) : Prop := ∀ c ∈ h.arena (.run q), c.isObj = false

instance (h : Heap) (q : Nat) : Decidable (NoObj h q) :=
  inferInstanceAs (Decidable (∀ c ∈ h.arena (.run q), c.isObj = false))

/-- What a run may do next to run `q`: the fixed language, and reading `q`'s context by formatting
    (never `:ff`). -/
def Op.safeFrom (q : Nat) : Op → Bool
  | .fmtFrom src _ _ _ byRef => decide (src = q) && !byRef
  | op => op.fixed

theorem effect_local_from {h : Heap} (hS : Sep h) {q r : Nat} (hno : NoObj h q) {op : Op}
    (hf : Op.safeFrom q op = true) {e : Effect} (he : effect h r op = some e) : Local r e := by
  cases op with
  | fmtFrom src sp p k byRef =>
    simp only [Op.safeFrom, Bool.and_eq_true, decide_eq_true_eq, Bool.not_eq_true'] at hf
    obtain ⟨rfl, rfl⟩ := hf
    simp only [effect] at he
    split at he
    · cases he
    · split at he
      · cases he
      · rename_i y hy
        simp only [Bool.false_eq_true, if_false] at he
        exact fmtBind_local hS (objIdxFrom_nil hno 0) (resolve_reg hS hy) he
  | _ => exact effect_local hS (by exact hf) he

/-- One such operation of run `r`: separation is kept, every other region – `q`'s in particular – and
    the outcome of every other run stay exactly as they were. -/
theorem step_from {st : State} (hS : Sep st.heap) {q r : Nat} (hno : NoObj st.heap q) {op : Op}
    (hf : Op.safeFrom q op = true) :
    Sep (step st r op).heap ∧ (∀ g, g ≠ .run r → (step st r op).heap.arena g = st.heap.arena g) := by
  rcases step_cases st r op with h | ⟨e, he, h⟩
  · rw [h]; exact ⟨hS, fun _ _ => rfl⟩
  · rw [h]
    have hL := effect_local_from hS hno hf he
    exact ⟨apply_sep hS hL, fun g hg => apply_arena_other hL hg⟩

theorem exec_solo_from {q r : Nat} (hqr : q ≠ r) {ops : List Op} (hf : ∀ o ∈ ops, Op.safeFrom q o = true)
    {st : State} (hS : Sep st.heap) (hno : NoObj st.heap q) :
    Sep (exec (solo r ops) st).heap ∧
    (∀ g, g ≠ .run r → (exec (solo r ops) st).heap.arena g = st.heap.arena g) ∧
    (∀ r', r' ≠ r → (exec (solo r ops) st).dead r' = st.dead r') := by
  induction ops generalizing st with
  | nil => exact ⟨hS, fun _ _ => rfl, fun _ _ => rfl⟩
  | cons o rest ih =>
    have ho := hf o List.mem_cons_self
    obtain ⟨hS1, hA1⟩ := step_from (r := r) hS hno ho
    have hq : Region.run q ≠ Region.run r := by intro e; cases e; exact hqr rfl
    have hno1 : NoObj (step st r o).heap q := by
      intro c hc; rw [hA1 _ hq] at hc; exact hno c hc
    obtain ⟨hS2, hA2, hD2⟩ := ih (fun o' ho' => hf o' (List.mem_cons_of_mem _ ho')) hS1 hno1
    refine ⟨hS2, ?_, ?_⟩
    · intro g hg; show (exec (solo r rest) (step st r o)).heap.arena g = _
      rw [hA2 g hg, hA1 g hg]
    · intro r' hr'; show (exec (solo r rest) (step st r o)).dead r' = _
      rw [hD2 r' hr', step_dead_other st o hr']

/-! ### what `out` does to the parent: one key of the context object, nothing else -/

/-- `context[k]` of run `r`. -/
def rootGet (h : Heap) (r : Nat) (k : String) : Option Ref :=
  match h.get? (root r) with
  | some (.dict kvs) => kvGet? kvs k
  | _ => none

theorem kvGet?_kvSet_ne (kvs : List (String × Ref)) {k k' : String} (v : Ref) (hk : k' ≠ k) :
    kvGet? (kvSet kvs k v) k' = kvGet? kvs k' := by
  induction kvs with
  | nil => simp [kvSet, kvGet?, Ne.symm hk]
  | cons kv rest ih =>
    obtain ⟨k0, v0⟩ := kv
    simp only [kvSet]
    split
    · rename_i h0; subst h0; simp [kvGet?, Ne.symm hk]
    · simp only [kvGet?, ih]

/-- The frame of run r's old objects: every object but the context object is what it was, and so is
    every key of the context object outside `ks`. -/
def FrameExcept (ks : List String) (r : Nat) (h h' : Heap) : Prop :=
  (∀ i, 0 < i → i < (h.arena (.run r)).length → (h'.arena (.run r))[i]? = (h.arena (.run r))[i]?) ∧
  (h.arena (.run r)).length ≤ (h'.arena (.run r)).length ∧
  (∀ k, k ∉ ks → rootGet h' r k = rootGet h r k)

theorem FrameExcept.refl (ks : List String) (r : Nat) (h : Heap) : FrameExcept ks r h h :=
  ⟨fun _ _ _ => rfl, Nat.le_refl _, fun _ _ => rfl⟩

theorem FrameExcept.trans {ks : List String} {r : Nat} {h1 h2 h3 : Heap}
    (a : FrameExcept ks r h1 h2) (b : FrameExcept ks r h2 h3) : FrameExcept ks r h1 h3 := by
  refine ⟨?_, Nat.le_trans a.2.1 b.2.1, fun k hk => (b.2.2 k hk).trans (a.2.2 k hk)⟩
  intro i h0 hi
  rw [b.1 i h0 (Nat.lt_of_lt_of_le hi a.2.1), a.1 i h0 hi]

/-- `parent[pk] = child.get_formatted(ck)` touches the key `pk` of the context object only. -/
theorem outOp_frame {ks : List String} {p c : Nat} {pk ck : String} (hk : pk ∈ ks) (st : State) :
    FrameExcept ks p st.heap (step st p (.fmtFrom c [.key ck] [] pk false)).heap := by
  rcases step_cases st p (.fmtFrom c [.key ck] [] pk false) with h | ⟨e, he, h⟩
  · rw [h]; exact FrameExcept.refl _ _ _
  · rw [h]
    simp only [effect, fmtBind, resolve] at he
    split at he
    · cases he
    · split at he
      · cases he
      · rename_i y hy
        simp only [Bool.false_eq_true, if_false] at he
        split at he
        · rename_i kvs hroot
          simp only [Option.some.injEq] at he
          subst he
          have hr0 : (st.heap.arena (.run p))[0]? = some (.dict kvs) := hroot
          have hlen : 0 < (st.heap.arena (.run p)).length := by
            rcases Nat.eq_zero_or_pos (st.heap.arena (.run p)).length with h0 | h0
            · rw [List.length_eq_zero_iff.1 h0] at hr0; cases hr0
            · exact h0
          refine ⟨?_, ?_, ?_⟩
          · intro i h0 hi
            simp only [apply, Heap.alloc, Heap.set, root, if_true]
            rw [List.getElem?_set_ne (by omega), List.getElem?_append_left hi]
          · simp only [apply, Heap.alloc, Heap.set, root, if_true, List.length_set, List.length_append]
            omega
          · intro k hkn
            have hne : k ≠ pk := fun e => hkn (e ▸ hk)
            simp only [rootGet, Heap.get?, apply, Heap.alloc, Heap.set, root, if_true]
            rw [List.getElem?_set_self (by simp only [List.length_append]; omega)]
            have : (st.heap.arena (.run p))[0]? = some (.dict kvs) := hr0
            simp only [this, kvGet?_kvSet_ne _ _ hne]
        · cases he

end Pypyr.C12
