/-
  C08 helper definitions and lemmas used by the statements of Props/C08.lean:
  literal-only strings (`LiteralOnly`, `unescape`), the first key of a field name (`firstKey`),
  "the loop returned ⇒ every named field's key is in the context", flat fields ignore `deep`.
-/
import Props.Lemmas.C08_Parse
import Props.Lemmas.C08_Model

set_option linter.unusedSimpArgs false

namespace Pypyr.Format

/-- An expression whose EXPANDED spec does not say `rf`, outside a recursive format, never consults the
    recursive formatter. -/
theorem fieldObj_flat (deep₁ deep₂ : Bool → Val → Except Exc Val) (ctx : Ctx) (f : FieldT)
    (h : ∀ spec, Spec.expandSpec ctx f.spec = .ok spec → Spec.isRf spec = false) :
    Spec.fieldObj deep₁ ctx false f = Spec.fieldObj deep₂ ctx false f := by
  simp only [fieldObj_eq]
  cases getField ctx f.name with
  | error e => rfl
  | ok obj =>
    simp only []
    cases hx : Spec.expandSpec ctx f.spec with
    | error e => rfl
    | ok spec =>
      simp only [Spec.applyMode, h spec hx, Bool.false_and, Bool.or_false, Bool.false_eq_true, if_false]

theorem resolve_flat (deep₁ deep₂ : Bool → Val → Except Exc Val) (ctx : Ctx) (ps : List Part)
    (h : ∀ f, Part.fld f ∈ ps → ∀ spec, Spec.expandSpec ctx f.spec = .ok spec → Spec.isRf spec = false) :
    Spec.resolve deep₁ ctx false ps = Spec.resolve deep₂ ctx false ps := by
  induction ps with
  | nil => rfl
  | cons p ps ih =>
    have ih' := ih (fun f hf => h f (by simp [hf]))
    cases p with
    | lit t => simp only [Spec.resolve, ih']
    | fld f =>
      simp only [Spec.resolve, ih', fieldObj_flat deep₁ deep₂ ctx f (h f (by simp))]

/-- chunks that are text, `{{` or `}}` only -/
def LiteralOnly (chunks : List Chunk) : Prop := ∀ c ∈ chunks, (∃ cs, c = .text cs ∧ NoBrace cs) ∨ c = .lbrace ∨ c = .rbrace

/-- the text the chunks stand for: `{{` is `{`, `}}` is `}` -/
def unescape : List Chunk → List Char
  | [] => []
  | .text cs :: rest => cs ++ unescape rest
  | .lbrace :: rest => '{' :: unescape rest
  | .rbrace :: rest => '}' :: unescape rest
  | .expr _ :: rest => unescape rest

def litsText : List Part → List Char
  | [] => []
  | .lit t :: ps => t ++ litsText ps
  | .fld _ :: ps => litsText ps

def AllLits (ps : List Part) : Prop := ∀ p ∈ ps, ∃ t, p = .lit t

theorem parts_append (a b : List Tup) : parts (a ++ b) = parts a ++ parts b := by
  induction a with
  | nil => rfl
  | cons t ts ih => simp [parts, ih]

theorem litsText_append (a b : List Part) : litsText (a ++ b) = litsText a ++ litsText b := by
  induction a with
  | nil => rfl
  | cons p ps ih => cases p <;> simp [litsText, ih]

theorem tuplesFrom_literal (chunks : List Chunk) (h : LiteralOnly chunks) (out : List Tup) (acc : List Char)
    (hout : AllLits (parts out)) :
    AllLits (parts (tuplesFrom chunks out acc)) ∧
    litsText (parts (tuplesFrom chunks out acc)) = litsText (parts out) ++ acc ++ unescape chunks := by
  induction chunks generalizing out acc with
  | nil =>
    simp only [tuplesFrom, unescape, List.append_nil]
    by_cases ha : acc = []
    · simp [ha, hout]
    · simp only [ha, if_false, parts_append, litsText_append]
      constructor
      · intro p hp
        rcases List.mem_append.mp hp with hp | hp
        · exact hout p hp
        · simp [parts, Tup.parts, ha] at hp; exact ⟨_, hp⟩
      · simp [parts, Tup.parts, ha, litsText]
  | cons c rest ih =>
    have hrest : LiteralOnly rest := fun d hd => h d (by simp [hd])
    rcases h c (by simp) with ⟨cs, rfl, _⟩ | rfl | rfl
    · simp only [tuplesFrom, unescape]
      have := ih hrest out (acc ++ cs) hout
      refine ⟨this.1, ?_⟩
      rw [this.2]; simp [List.append_assoc]
    · simp only [tuplesFrom, unescape]
      have hout' : AllLits (parts (out ++ [⟨acc ++ ['{'], none⟩])) := by
        intro p hp
        rw [parts_append] at hp
        rcases List.mem_append.mp hp with hp | hp
        · exact hout p hp
        · simp [parts, Tup.parts] at hp; exact ⟨_, hp⟩
      have := ih hrest _ [] hout'
      refine ⟨this.1, ?_⟩
      rw [this.2, parts_append, litsText_append]
      simp [parts, Tup.parts, litsText, List.append_assoc]
    · simp only [tuplesFrom, unescape]
      have hout' : AllLits (parts (out ++ [⟨acc ++ ['}'], none⟩])) := by
        intro p hp
        rw [parts_append] at hp
        rcases List.mem_append.mp hp with hp | hp
        · exact hout p hp
        · simp [parts, Tup.parts] at hp; exact ⟨_, hp⟩
      have := ih hrest _ [] hout'
      refine ⟨this.1, ?_⟩
      rw [this.2, parts_append, litsText_append]
      simp [parts, Tup.parts, litsText, List.append_assoc]

theorem resolve_lits (deep : Bool → Val → Except Exc Val) (ctx : Ctx) (isRec : Bool) (ps : List Part) (h : AllLits ps) :
    (match Spec.resolve deep ctx isRec ps with
     | .error e => (Except.error e : Except Exc (List Char))
     | .ok rs => Spec.render rs) = .ok (litsText ps) := by
  induction ps with
  | nil => rfl
  | cons p ps ih =>
    obtain ⟨t, rfl⟩ := h p (by simp)
    have ih' := ih (fun q hq => h q (by simp [hq]))
    simp only [Spec.resolve, bind, Except.bind, pure, Except.pure] at ih' ⊢
    cases hr : Spec.resolve deep ctx isRec ps with
    | error e => simp [hr] at ih'
    | ok rs =>
      simp only [hr] at ih'
      simp only [Spec.render, bind, Except.bind, pure, Except.pure, ih', litsText]

theorem format_lits (deep : Bool → Val → Except Exc Val) (ctx : Ctx) (isRec : Bool) (ps : List Part) (h : AllLits ps) :
    Spec.format deep ctx isRec ps = .ok (.str (String.ofList (litsText ps))) := by
  match ps, h with
  | [], _ => rfl
  | [p], h =>
    obtain ⟨t, rfl⟩ := h p (by simp)
    simp [Spec.format, litsText, pure, Except.pure]
  | p :: q :: rest, h =>
    have hfmt : Spec.format deep ctx isRec (p :: q :: rest) = Spec.formatFlat deep ctx isRec (p :: q :: rest) := by
      cases p <;> rfl
    rw [hfmt]
    have := resolve_lits deep ctx isRec _ h
    simp only [Spec.formatFlat, bind, Except.bind, pure, Except.pure]
    cases hr : Spec.resolve deep ctx isRec (p :: q :: rest) with
    | error e => simp [hr] at this
    | ok rs => simp only [hr] at this; simp [this]

theorem fld_mem_parts (ts : List Tup) (t : Tup) (f : FieldT) (ht : t ∈ ts) (hf : t.field = some f) :
    Part.fld f ∈ parts ts := by
  induction ts with
  | nil => simp at ht
  | cons u us ih =>
    simp only [parts]
    rcases List.mem_cons.mp ht with rfl | hu
    · apply List.mem_append_left; simp [Tup.parts, hf]
    · exact List.mem_append_right _ (ih hu)

/-- the context key a field name starts with (when it is a name, not a number) -/
def firstKey (name : List Char) : Option String :=
  match splitField name with
  | .ok (.str k, _, _) => some (String.ofList k)
  | _ => none

theorem getField_ok_firstKey (ctx : Ctx) (name : List Char) (v : Val) (k : String)
    (h : getField ctx name = .ok v) (hk : firstKey name = some k) : (Ctx.get? ctx k).isSome = true := by
  unfold getField at h
  unfold firstKey at hk
  split at h
  · cases h
  · cases hs : splitField name with
    | error e => simp [hs] at hk
    | ok r =>
      obtain ⟨first, accs, err⟩ := r
      simp only [hs] at h hk
      cases first with
      | int n => simp at hk
      | str kk =>
        simp only [Option.some.injEq] at hk
        subst hk
        simp only [getValue] at h
        cases hg : Ctx.get? ctx (String.ofList kk) with
        | none => simp [hg] at h
        | some w => rfl

theorem ktField_ok_key (fi : Bool → Val → Except Exc Val) (ctx : Ctx) (isRec : Bool) (f : FieldT) (auto : Option Nat)
    (r : Entry × Option Nat) (h : ktField fi ctx isRec f auto = .ok r) (hn : Named f.name) (k : String)
    (hk : firstKey f.name = some k) : (Ctx.get? ctx k).isSome = true := by
  unfold ktField at h
  rw [autoNumber_named _ _ hn] at h
  simp only at h
  cases hg : getField ctx f.name with
  | error e => simp [hg] at h
  | ok obj => exact getField_ok_firstKey ctx f.name obj k hg hk

theorem ktLoop_ok_keys (fi : Bool → Val → Except Exc Val) (ctx : Ctx) (isRec : Bool) (ts : List Tup) (perr : Option Exc)
    (auto : Option Nat) (result es : List Entry) (h : ktLoop fi ctx isRec ts perr auto result = .ok es) :
    ∀ t ∈ ts, ∀ f, t.field = some f → Named f.name → ∀ k, firstKey f.name = some k → (Ctx.get? ctx k).isSome = true := by
  induction ts generalizing auto result with
  | nil => intro t ht; simp at ht
  | cons u us ih =>
    intro t ht f hf hn k hk
    unfold ktLoop at h
    cases hu : u.field with
    | none =>
      simp only [hu] at h
      rcases List.mem_cons.mp ht with rfl | ht'
      · rw [hu] at hf; cases hf
      · exact ih _ _ h t ht' f hf hn k hk
    | some g =>
      simp only [hu] at h
      cases hkf : ktField fi ctx isRec g auto with
      | error e => simp [hkf] at h
      | ok r =>
        simp only [hkf] at h
        rcases List.mem_cons.mp ht with rfl | ht'
        · rw [hu] at hf; cases hf
          exact ktField_ok_key fi ctx isRec f auto r hkf hn k hk
        · exact ih _ _ h t ht' f hf hn k hk

/-! ## a missing key at any position -/

theorem ktLoop_cons (fi : Bool → Val → Except Exc Val) (ctx : Ctx) (isRec : Bool) (t : Tup) (ts : List Tup)
    (perr : Option Exc) (auto : Option Nat) (result : List Entry) :
    ktLoop fi ctx isRec (t :: ts) perr auto result =
      (match t.field with
       | none => ktLoop fi ctx isRec ts perr auto (if t.lit = [] then result else result ++ [.lit t.lit])
       | some f =>
         match ktField fi ctx isRec f auto with
         | .error e => .error e
         | .ok (entry, auto1) =>
           ktLoop fi ctx isRec ts perr auto1 ((if t.lit = [] then result else result ++ [.lit t.lit]) ++ [entry])) := by
  rw [ktLoop]
  cases t.field <;> rfl

/-- the loop gets past expressions that are named and resolve (lookup, spec expansion, `rf` recursion and
    conversion succeed): whatever follows them is reached, with the numbering state unchanged -/
theorem ktLoop_prefix (fi : Bool → Val → Except Exc Val) (ctx : Ctx) (isRec : Bool) (pre ts : List Tup)
    (perr : Option Exc) (result : List Entry)
    (hpre : ∀ t ∈ pre, ∀ g, t.field = some g → Named g.name ∧ ∃ r, Spec.fieldObj fi ctx isRec g = .ok r) :
    ∃ result', ktLoop fi ctx isRec (pre ++ ts) perr (some 0) result = ktLoop fi ctx isRec ts perr (some 0) result' := by
  induction pre generalizing result with
  | nil => exact ⟨result, rfl⟩
  | cons t pre ih =>
    have hrest : ∀ u ∈ pre, ∀ g, u.field = some g → Named g.name ∧ ∃ r, Spec.fieldObj fi ctx isRec g = .ok r :=
      fun u hu g hg => hpre u (by simp [hu]) g hg
    rw [List.cons_append, ktLoop_cons]
    cases hf : t.field with
    | none => exact ih _ hrest
    | some g =>
      obtain ⟨hn, r, hr⟩ := hpre t (by simp) g hf
      obtain ⟨obj, pending, spec⟩ := r
      simp only [ktField_named _ _ _ _ hn, entryOf, hr]
      exact ih _ hrest

/-- an expression whose first name is not a context key: `get_field` raises the key-lookup error, before
    anything else about the expression is looked at -/
theorem ktField_missing (fi : Bool → Val → Except Exc Val) (ctx : Ctx) (isRec : Bool) (f : FieldT) (auto : Option Nat)
    (hn : Named f.name) (k : String) (hk : firstKey f.name = some k) (hmiss : Ctx.get? ctx k = none)
    (hascii : f.name.any (fun c => c.toNat ≥ 128) = false) :
    ktField fi ctx isRec f auto = .error (keyNotInContext k) := by
  unfold ktField
  rw [autoNumber_named _ _ hn]
  simp only
  have hg : getField ctx f.name = .error (keyNotInContext k) := by
    unfold getField
    rw [hascii]
    unfold firstKey at hk
    cases hs : splitField f.name with
    | error e => simp [hs] at hk
    | ok r =>
      obtain ⟨first, accs, err⟩ := r
      simp only [hs] at hk ⊢
      cases first with
      | int n => simp at hk
      | str kk =>
        simp only [Option.some.injEq] at hk
        subst hk
        simp [getValue, hmiss]
  rw [hg]

end Pypyr.Format
