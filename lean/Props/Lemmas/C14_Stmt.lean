/-
  C14 helper: the invariant principle of `C14_Inv` lifted to statements and blocks. Beyond
  own-dict / heap writes a statement can delete a module-level name (`delName`, an own-dict write) and
  call `save(...)` (`doSave`); `save` can only be handed keys the statement names literally
  (`Stmt.saveKeys`). A predicate stable under all of that survives every block.
-/
import Props.Lemmas.C14_Inv
import Props.Lemmas.C14_Env

namespace Pypyr.PyNs

/-- The keys a statement can pass to `save`: the positional names and the keyword names of a
    `save(...)` statement; nothing for every other statement. -/
def Stmt.saveKeys : Stmt → List String
  | .save names kws => names ++ kws.map (·.1)
  | _ => []

/-- The keys a block names in its `save(...)` calls. -/
def blockSaveKeys : List Stmt → List String
  | [] => []
  | s :: rest => s.saveKeys ++ blockSaveKeys rest

/-- `P` is stable under everything a statement can do under arrangement `a`, where `save` is only
    ever handed keys from `K`. -/
structure InvS (K : List String) (P : St → Prop) : Prop where
  base : Inv P
  save : ∀ st d, (∀ k ∈ Env.keys d, k ∈ K) → P st → P (doSave st d)

variable {a : Arr} {P : St → Prop}

/-- `del x` at module level under a live arrangement removes `x` from the own dict of the running
    code's namespace object. -/
theorem Inv.delName' (h : Inv P) (ha : a.live) (st : St) (x : String) (st1 : St)
    (hd : delName a st x = some st1) (hp : P st) : P st1 := by
  rcases ha with ha | ha <;> subst ha <;> simp only [delName] at hd <;> split at hd <;>
    first | (cases hd; exact h.own _ _ hp) | cases hd

theorem Inv.iadd' (h : Inv P) (st : St) (v w : V) (hp : P st) : P (iadd st v w).2 := by
  have hhs := h.heapSet
  have hh := h.heap
  unfold PyNs.iadd
  simp only [St.alloc]
  repeat' split
  all_goals first | exact hp | exact hh _ _ hp | exact hhs _ _ _ hp

theorem Inv.evalKws' (h : Inv P) (ha : a.live) (fuel : Nat) (sc : Scope) (kws : List (String × Expr)) (st : St)
    (hp : P st) : P (evalKws a fuel sc kws st).2 := by
  induction kws generalizing st with
  | nil => exact hp
  | cons p rest ih =>
    obtain ⟨k, e⟩ := p
    unfold PyNs.evalKws
    have h1 := (eval_inv h fuel).1 a ha sc e st hp
    split
    · rename_i heq; exact step heq h1
    · rename_i heq
      have h2 := ih _ (step heq h1)
      split
      · rename_i heq2; exact step heq2 h2
      · rename_i heq2; exact step heq2 h2

theorem Inv.runClassBody' (h : Inv P) (ha : a.live) (fuel : Nat) (sc : Scope) (body : List (String × Expr)) (st : St)
    (hp : P st) : P (runClassBody a fuel sc body st).2 := by
  induction body generalizing st with
  | nil => exact hp
  | cons p rest ih =>
    obtain ⟨x, e⟩ := p
    unfold PyNs.runClassBody
    have h1 := (eval_inv h fuel).1 a ha sc e st hp
    split
    · rename_i heq; exact step heq h1
    · rename_i heq
      exact ih _ (h.store' ha _ _ _ _ (step heq h1))

/-- `save`'s dict has a key for every positional name and nothing else. -/
theorem saveNames_keys (ns : Env) (names : List String) (d0 d : Env) (h : saveNames ns names d0 = some d) :
    ∀ k ∈ Env.keys d, k ∈ Env.keys d0 ∨ k ∈ names := by
  induction names generalizing d0 with
  | nil =>
    simp only [saveNames, Option.some.injEq] at h
    subst h; intro k hk; exact Or.inl hk
  | cons n rest ih =>
    simp only [saveNames] at h
    split at h
    · intro k hk
      rcases ih _ h k hk with h2 | h2
      · rw [Env.mem_keys_set] at h2
        rcases h2 with h3 | h3
        · exact Or.inl h3
        · subst h3; exact Or.inr List.mem_cons_self
      · exact Or.inr (List.mem_cons_of_mem _ h2)
    · cases h

/-- Every value `save` copies for a positional name is what that name is bound to in the block's
    namespace at that moment. -/
theorem saveNames_values (ns : Env) (names : List String) (d0 d : Env) (h : saveNames ns names d0 = some d) :
    ∀ k v, Env.get? d k = some v → Env.get? d0 k = some v ∨ Env.get? ns k = some v := by
  induction names generalizing d0 with
  | nil =>
    simp only [saveNames, Option.some.injEq] at h
    subst h; intro k v hk; exact Or.inl hk
  | cons n rest ih =>
    simp only [saveNames] at h
    split at h
    · rename_i w hw
      intro k v hk
      rcases ih _ h k v hk with h2 | h2
      · rw [Env.get?_set] at h2
        split at h2
        · rename_i h3; subst h3; cases h2; exact Or.inr hw
        · exact Or.inl h2
      · exact Or.inr h2
    · cases h

theorem evalKws_keys (fuel : Nat) (sc : Scope) (kws : List (String × Expr)) (st st1 : St) (kvs : Env)
    (h : evalKws a fuel sc kws st = (.ok kvs, st1)) : Env.keys kvs = kws.map (·.1) := by
  induction kws generalizing st kvs with
  | nil =>
    simp only [evalKws, Prod.mk.injEq, R.ok.injEq] at h
    rw [← h.1]; rfl
  | cons p rest ih =>
    obtain ⟨k, e⟩ := p
    unfold PyNs.evalKws at h
    split at h
    · simp at h
    · split at h
      · simp at h
      · rename_i heq2
        simp only [Prod.mk.injEq, R.ok.injEq] at h
        obtain ⟨h1, h2⟩ := h
        subst h1 h2
        have := ih _ _ heq2
        simp only [Env.keys, List.map_cons] at *
        rw [this]

/-- A statement preserves an invariant that tolerates `save` of the keys the statement names. -/
theorem InvS.execStmt' {K : List String} (h : InvS K P) (ha : a.live) (fuel : Nat) (sc : Scope) (s : Stmt) (st : St)
    (hK : ∀ k ∈ s.saveKeys, k ∈ K) (hp : P st) : P (execStmt a fuel sc s st).2 := by
  have hE := (eval_inv h.base fuel).1 a ha
  have hst := h.base.store' ha
  cases s with
  | assign x e =>
    simp only [execStmt]
    have h1 := hE sc e st hp
    split
    · rename_i heq; exact step heq h1
    · rename_i heq; exact hst _ _ _ _ (step heq h1)
  | aug x e =>
    simp only [execStmt]
    split
    · exact hp
    · rename_i v0 _
      have h1 := hE sc e st hp
      split
      · rename_i heq; exact step heq h1
      · rename_i w st1 heq
        have h2 := h.base.iadd' st1 v0 w (step heq h1)
        split
        · rename_i heq2; exact step heq2 h2
        · rename_i heq2; exact hst _ _ _ _ (step heq2 h2)
  | del x =>
    simp only [execStmt]
    split
    · rename_i heq; exact h.base.delName' ha _ _ _ heq hp
    · exact hp
  | imp x v => exact hst _ _ _ _ hp
  | def_ f ps gl body ret =>
    simp only [execStmt]
    exact hst _ _ _ _ (h.base.alloc _ _ hp)
  | cls c body =>
    simp only [execStmt]
    have h1 := h.base.runClassBody' ha fuel { sc with kind := .cls st.heap.length } body _ (h.base.alloc st (.cls []) hp)
    split
    · rename_i heq; exact step heq h1
    · rename_i heq; exact hst _ _ _ _ (step heq h1)
  | expr e =>
    simp only [execStmt]
    have h1 := hE sc e st hp
    split
    · rename_i heq; exact step heq h1
    · rename_i heq; exact step heq h1
  | setitem t i e =>
    simp only [execStmt]
    have h1 := hE sc e st hp
    split
    · rename_i heq; exact step heq h1
    · rename_i w st1 heq
      have h2 := hE sc t st1 (step heq h1)
      split
      · rename_i heq2; exact step heq2 h2
      · rename_i heq2; exact h.base.doSetItem' _ _ _ _ (step heq2 h2)
  | save names kws =>
    simp only [execStmt]
    split
    · exact hp
    · split
      · exact hp
      · have h1 := h.base.evalKws' ha fuel sc kws st hp
        split
        · rename_i heq; exact step heq h1
        · rename_i kvs st1 heq
          split
          · exact step heq h1
          · rename_i d hd
            refine h.save _ _ ?_ (step heq h1)
            intro k hk
            apply hK
            simp only [Stmt.saveKeys, List.mem_append]
            rw [Env.mem_keys_update] at hk
            rcases hk with hk | hk
            · rcases saveNames_keys _ _ _ _ hd k hk with h3 | h3
              · simp [Env.keys] at h3
              · exact Or.inl h3
            · rw [evalKws_keys fuel sc kws st st1 kvs heq] at hk
              exact Or.inr hk

/-- A block preserves an invariant that tolerates `save` of the keys the block names. -/
theorem InvS.execBlock' {K : List String} (h : InvS K P) (ha : a.live) (fuel : Nat) (sc : Scope) (b : List Stmt) (st : St)
    (hK : ∀ k ∈ blockSaveKeys b, k ∈ K) (hp : P st) : P (execBlock a fuel sc b st).2 := by
  induction b generalizing st with
  | nil => exact hp
  | cons s rest ih =>
    unfold PyNs.execBlock
    have h1 := h.execStmt' ha fuel sc s st (fun k hk => hK k (by simp [blockSaveKeys, hk])) hp
    split
    · rename_i heq; exact step heq h1
    · rename_i heq
      exact ih _ (fun k hk => hK k (by simp [blockSaveKeys, hk])) (step heq h1)

end Pypyr.PyNs
