/-
  C16 helper lemmas: fetch to the context root is a top-level `dict.update`; the whole-context branch
  of the write steps; counter-models (a deep additive merge, a merge that formats what it reads, a
  whole-context dump that leaves the top-level key names alone).
-/
import Props.Lemmas.C16_Glue

namespace Pypyr.Codec

/-- `dict.update(entries)`, key by key: the value of the LAST entry with that key, else what the
    context held. No hypothesis on the entries (duplicates allowed) or on the context. -/
theorem Ctx.get?_update_eq (es : List (String × Val)) :
    ∀ (c : Ctx) (k : String), (Ctx.update c es).get? k =
      match lastOf es k with
      | some v => some v
      | none => c.get? k := by
  induction es with
  | nil => intro c k; simp [Ctx.update, lastOf]
  | cons e es ih =>
    obtain ⟨k', v⟩ := e
    intro c k
    have h := ih (Ctx.set c k' v) k
    simp only [Ctx.update, List.foldl_cons] at h ⊢
    rw [h]
    simp only [lastOf]
    cases hl : lastOf es k with
    | some w => rfl
    | none =>
      by_cases hk : k' = k
      · subst hk
        simp [Ctx.get?_set_self]
      · simp [hk, Ctx.get?_set_other c k' k v (Ne.symm hk)]

theorem lastOf_none_of_not_mem (es : List (String × Val)) (k : String) (h : k ∉ es.map (·.1)) :
    lastOf es k = none := by
  induction es with
  | nil => rfl
  | cons e es ih =>
    obtain ⟨k', v⟩ := e
    simp only [List.map_cons, List.mem_cons, not_or] at h
    simp [lastOf, ih h.2, Ne.symm h.1]

theorem lastOf_mem_nodup (es : List (String × Val)) (hnd : (es.map (·.1)).Nodup) :
    ∀ kv ∈ es, lastOf es kv.1 = some kv.2 := by
  induction es with
  | nil => intro kv h; simp at h
  | cons e es ih =>
    obtain ⟨k', v⟩ := e
    simp only [List.map_cons, List.nodup_cons] at hnd
    intro kv hkv
    rcases List.mem_cons.mp hkv with rfl | hkv
    · simp [lastOf, lastOf_none_of_not_mem es _ hnd.1]
    · simp [lastOf, ih hnd.2 kv hkv]

theorem dictGet?_dictSet_self (kvs : List (Val × Val)) (k v : Val) :
    dictGet? (dictSet kvs k v) k = some v := by
  induction kvs with
  | nil => simp [dictSet, dictGet?]
  | cons a as ih =>
    obtain ⟨k', v'⟩ := a
    by_cases hk : k' = k <;> simp [dictSet, dictGet?, hk, ih]

theorem dictSet_ne_nil (kvs : List (Val × Val)) (k v : Val) : dictSet kvs k v ≠ [] := by
  cases kvs with
  | nil => simp [dictSet]
  | cons a as =>
    obtain ⟨k', v'⟩ := a
    by_cases hk : k' = k <;> simp [dictSet, hk]

theorem foldl_dictSet_ne_nil (kvs : List (Val × Val)) :
    ∀ (acc : List (Val × Val)), acc ≠ [] → kvs.foldl (fun a kv => dictSet a kv.1 kv.2) acc ≠ [] := by
  induction kvs with
  | nil => intro acc h; simpa using h
  | cons a as ih => intro acc _; exact ih _ (dictSet_ne_nil acc a.1 a.2)

/-- Python's `dict(pairs)` of a non-empty list of pairs is not empty. -/
theorem rebuildDict_ne_nil (kvs : List (Val × Val)) (h : kvs ≠ []) : rebuildDict kvs ≠ [] := by
  cases kvs with
  | nil => exact absurd rfl h
  | cons a as => exact foldl_dictSet_ne_nil as _ (dictSet_ne_nil [] a.1 a.2)

/-- `writePayload` is: format the step input, take the path, then the payload branch `payloadFor`. -/
theorem writePayload_eq_payloadFor (f : Format) (fuel : Nat) (ctx : Ctx) :
    writePayload f fuel ctx =
      match formattedInput fuel ctx f.writeKey with
      | .error e => .error e
      | .ok (.dict input) =>
        match pathOf input with
        | .error e => .error e
        | .ok path =>
          match payloadFor f fuel ctx input with
          | .error e => .error e
          | .ok p => .ok (path, p)
      | .ok _ => .error (outOfDomain "step input is not a mapping") := by
  unfold writePayload payloadFor
  cases formattedInput fuel ctx f.writeKey with
  | error e => rfl
  | ok v =>
    cases v with
    | dict input =>
      simp only []
      cases pathOf input with
      | error e => rfl
      | ok path =>
        simp only []
        cases dictGet? input (.str "payload") with
        | none => rfl
        | some payload =>
          simp only []
          split <;> rfl
    | _ => rfl

theorem DocMapPairs.mem {ctx : Ctx} : ∀ {kvs out : List (Val × Val)}, DocMapPairs ctx kvs out →
    ∀ kv ∈ kvs, ∃ k' v', (k', v') ∈ out ∧ DocMap ctx kv.1 k' ∧ DocMap ctx kv.2 v'
  | [], _, _, kv, hkv => by simp at hkv
  | (k, v) :: rest, out, h, kv, hkv => by
    simp only [DocMapPairs] at h
    obtain ⟨k', v', out', rfl, hk, hv, hr⟩ := h
    rcases List.mem_cons.mp hkv with rfl | hkv
    · exact ⟨k', v', List.mem_cons_self, hk, hv⟩
    · obtain ⟨a, b, hm, h1, h2⟩ := DocMapPairs.mem hr kv hkv
      exact ⟨a, b, List.mem_cons_of_mem _ hm, h1, h2⟩

theorem isDocPairs_toVal (ctx : Ctx) (h : ∀ kv ∈ ctx, isDoc kv.2 = true) :
    isDocPairs (ctx.map fun kv => (Val.str kv.1, kv.2)) = true := by
  induction ctx with
  | nil => rfl
  | cons a as ih =>
    simp only [List.map_cons, isDocPairs, isDoc, Bool.true_and, Bool.and_eq_true]
    exact ⟨h a List.mem_cons_self, ih (fun kv hkv => h kv (List.mem_cons_of_mem _ hkv))⟩

/-! ### Counter-models -/

/-- NOT the code: what the no-key branch would do with an ADDITIVE merge (one level of
    `Context.merge`): a list already under the key is extended, a table already under the key keeps
    its other entries, anything else is overwritten. -/
def additiveSet (c : Ctx) (k : String) (v : Val) : Ctx :=
  match c.get? k, v with
  | some (.list old), .list new => c.set k (.list (old ++ new))
  | some (.dict old), .dict new => c.set k (.dict (new.foldl (fun a kv => dictSet a kv.1 kv.2) old))
  | _, _ => c.set k v

def additiveUpdate (c : Ctx) (es : List (String × Val)) : Ctx :=
  es.foldl (fun acc kv => additiveSet acc kv.1 kv.2) c

/-- NOT the code: a root merge that runs every value it read through the formatter first. -/
def formattingUpdate (fuel : Nat) (c : Ctx) : List (String × Val) → Except Exc Ctx
  | [] => .ok c
  | (k, v) :: rest =>
    match fmtVal fuel c v with
    | .error e => .error e
    | .ok v' => formattingUpdate fuel (c.set k v') rest

/-- NOT the code: a whole-context dump that formats the VALUE under every top-level key but copies the
    top-level key names verbatim (`{k: context.get_formatted(k) for k in context}`). -/
def wholeKeysVerbatim (fuel : Nat) (ctx : Ctx) : Except Exc Val :=
  match mapE (fun (kv : String × Val) =>
      match fmtVal fuel ctx kv.2 with
      | .error e => .error e
      | .ok v => .ok (Val.str kv.1, v)) ctx with
  | .error e => .error e
  | .ok kvs => .ok (.dict kvs)

end Pypyr.Codec
