/-
  C20 helper lemmas, second part: which exception a file / an `init` ends in and what state it
  leaves; the iteration order of `keys & dict_props`; repeated `init`; repeated files.
-/
import Props.Lemmas.C20_Merge

namespace Pypyr.C20
open Pypyr Pypyr.Config

/-! ## `dict.update` on the dict props: when it raises, in either order -/

theorem dictUpdateVal_isSome (d : Dict) (v : Val) : (dictUpdateVal d v).2.isSome = (pairsOf v).isNone := by
  cases h : dictUpdateVal d v with
  | mk d' e =>
    cases e with
    | none =>
      obtain ⟨m, hm, _⟩ := dictUpdateVal_ok d d' v h
      simp [hm]
    | some exc => simp [dictUpdateVal_err d d' v exc h]

/-- the value a file gives dict prop `n` is one `dict.update` refuses -/
def badDictProp (kvs : Ctx) (n : String) : Bool :=
  match Ctx.get? kvs n with
  | some v => (pairsOf v).isNone
  | none => false

/-- step 2 of `Config.update` raises iff some dict prop of the object is given a refused value -/
theorem updateDicts_err_iff (ds : List (String × Dict)) (kvs : Ctx) :
    (updateDicts ds kvs).2.isSome = ds.any (fun nd => badDictProp kvs nd.1) := by
  induction ds with
  | nil => rfl
  | cons p rest ih =>
    obtain ⟨n, d⟩ := p
    unfold updateDicts
    cases hget : Ctx.get? kvs n with
    | none => simp [ih, badDictProp, hget]
    | some v =>
      simp only
      have hv := dictUpdateVal_isSome d v
      cases hu : dictUpdateVal d v with
      | mk d' e =>
        rw [hu] at hv
        cases e with
        | none =>
          have : (pairsOf v).isNone = false := by simpa using hv.symm
          simp [ih, badDictProp, hget, this]
        | some exc =>
          have : (pairsOf v).isNone = true := by simpa using hv.symm
          simp [badDictProp, hget, this]

/-- … and the only exception it can raise is `dict.update`'s own -/
theorem updateDicts_err_kind (ds ds' : List (String × Dict)) (kvs : Ctx) (err : CfgErr)
    (h : updateDicts ds kvs = (ds', some err)) : ∃ n exc, err = .dictUpdate n exc ∧ badDictProp kvs n = true := by
  induction ds generalizing ds' with
  | nil => simp [updateDicts] at h
  | cons p rest ih =>
    obtain ⟨n, d⟩ := p
    unfold updateDicts at h
    cases hget : Ctx.get? kvs n with
    | none =>
      simp only [hget, Prod.mk.injEq] at h
      exact ih _ (Prod.ext rfl h.2)
    | some v =>
      simp only [hget] at h
      cases hu : dictUpdateVal d v with
      | mk d' e =>
        cases e with
        | none =>
          simp only [hu, Prod.mk.injEq] at h
          exact ih _ (Prod.ext rfl h.2)
        | some exc =>
          simp only [hu, Prod.mk.injEq, Option.some.injEq] at h
          refine ⟨n, exc, h.2.symm, ?_⟩
          simp [badDictProp, hget, dictUpdateVal_err d d' v exc hu]

/-- when nothing is refused, step 2 is a `map`: every dict prop overlaid independently -/
theorem updateDicts_ok_map (ds ds' : List (String × Dict)) (kvs : Ctx) (h : updateDicts ds kvs = (ds', none)) :
    ds' = ds.map (fun nd => (nd.1, overlayDict nd.2 (Ctx.get? kvs nd.1))) := by
  induction ds generalizing ds' with
  | nil => simp [updateDicts] at h; subst h; rfl
  | cons p rest ih =>
    obtain ⟨n, d⟩ := p
    unfold updateDicts at h
    cases hr : updateDicts rest kvs with
    | mk r1 r2 =>
      have hr1 := ih r1
      rw [hr] at h hr1
      cases hget : Ctx.get? kvs n with
      | none =>
        simp only [hget, Prod.mk.injEq] at h
        obtain ⟨h1, h2⟩ := h
        subst h1 h2
        rw [hr1 rfl]
        simp [overlayDict, hget]
      | some v =>
        simp only [hget] at h
        cases hu : dictUpdateVal d v with
        | mk d' e =>
          cases e with
          | some exc => simp [hu] at h
          | none =>
            simp only [hu, Prod.mk.injEq] at h
            obtain ⟨h1, h2⟩ := h
            subst h1 h2
            obtain ⟨m, hm, hd⟩ := dictUpdateVal_ok d d' v hu
            rw [hr1 rfl]
            simp [overlayDict, hget, hm, hd]

theorem updateDicts_ok_of_no_bad (ds : List (String × Dict)) (kvs : Ctx)
    (h : ds.any (fun nd => badDictProp kvs nd.1) = false) :
    updateDicts ds kvs = (ds.map (fun nd => (nd.1, overlayDict nd.2 (Ctx.get? kvs nd.1))), none) := by
  have he := updateDicts_err_iff ds kvs
  rw [h] at he
  cases hr : updateDicts ds kvs with
  | mk ds' e =>
    rw [hr] at he
    cases e with
    | some x => simp at he
    | none => rw [updateDicts_ok_map ds ds' kvs hr]

/-- **either order, no refusal**: the result does not depend on the iteration order of the set -/
theorem updateDictsOrd_ok_same (ds : List (String × Dict)) (kvs : Ctx) (rev : Bool)
    (h : ds.any (fun nd => badDictProp kvs nd.1) = false) :
    updateDictsOrd rev ds kvs = (ds.map (fun nd => (nd.1, overlayDict nd.2 (Ctx.get? kvs nd.1))), none) := by
  cases rev with
  | false => simpa [updateDictsOrd] using updateDicts_ok_of_no_bad ds kvs h
  | true =>
    have hr : ds.reverse.any (fun nd => badDictProp kvs nd.1) = false := by
      rw [List.any_reverse]; exact h
    simp only [updateDictsOrd, if_true, updateDicts_ok_of_no_bad ds.reverse kvs hr, List.map_reverse,
      List.reverse_reverse]

/-- **either order, a refusal**: an exception is raised in both orders -/
theorem updateDictsOrd_err_both (ds : List (String × Dict)) (kvs : Ctx) (rev : Bool) :
    (updateDictsOrd rev ds kvs).2.isSome = ds.any (fun nd => badDictProp kvs nd.1) := by
  cases rev with
  | false => simpa [updateDictsOrd] using updateDicts_err_iff ds kvs
  | true =>
    simp only [updateDictsOrd, if_true]
    rw [updateDicts_err_iff, List.any_reverse]

theorem updateDictsOrd_err_kind (ds ds' : List (String × Dict)) (kvs : Ctx) (rev : Bool) (err : CfgErr)
    (h : updateDictsOrd rev ds kvs = (ds', some err)) : ∃ n exc, err = .dictUpdate n exc ∧ badDictProp kvs n = true := by
  cases rev with
  | false => exact updateDicts_err_kind ds ds' kvs err (by simpa [updateDictsOrd] using h)
  | true =>
    simp only [updateDictsOrd, if_true, Prod.mk.injEq] at h
    exact updateDicts_err_kind ds.reverse _ kvs err (Prod.ext rfl h.2)

/-! ## one `Config.update` / `handle_path`: the exception and the state it leaves -/

/-- an exception out of `Config.update` leaves the scalars, the loaded paths and the skip flag as
    they were, in either order; a `ConfigError` (unknown keys) leaves EVERYTHING as it was -/
theorem updateOrd_err_state (rev : Bool) (st st' : ConfigState) (kvs : Ctx) (err : CfgErr)
    (h : updateOrd rev st kvs = (st', some err)) :
    st'.scalars = st.scalars ∧ st'.loaded = st.loaded ∧ st'.skipInit = st.skipInit ∧
    ((unknownKeys kvs ≠ [] ∧ err = .unknownProps (unknownKeys kvs) ∧ st' = st) ∨
     (unknownKeys kvs = [] ∧ ∃ n exc, err = .dictUpdate n exc ∧ badDictProp kvs n = true)) := by
  unfold updateOrd at h
  simp only at h
  cases hu : unknownKeys kvs with
  | cons a as =>
    simp only [hu, List.isEmpty_cons, Bool.not_false, if_true, Prod.mk.injEq, Option.some.injEq] at h
    obtain ⟨h1, h2⟩ := h
    subst h1
    exact ⟨rfl, rfl, rfl, Or.inl ⟨by simp, h2.symm, rfl⟩⟩
  | nil =>
    simp only [hu, List.isEmpty_nil, Bool.not_true, Bool.false_eq_true, if_false] at h
    cases hd : updateDictsOrd rev st.dicts kvs with
    | mk ds e =>
      cases e with
      | none => simp [hd] at h
      | some e1 =>
        simp only [hd, Prod.mk.injEq, Option.some.injEq] at h
        obtain ⟨h1, h2⟩ := h
        subst h1 h2
        exact ⟨rfl, rfl, rfl, Or.inr ⟨rfl, updateDictsOrd_err_kind st.dicts ds kvs rev e1 hd⟩⟩

/-- the file alone decides whether `handle_path` raises a ConfigError: exactly for a non-mapping
    and for a mapping with an unknown key — and then the object is left exactly as it was -/
theorem applyFileStOrd_err (rev : Bool) (st st' : ConfigState) (path : String) (p : Payload) (err : CfgErr)
    (h : applyFileStOrd rev st path p = (st', some err)) :
    (err.isConfigError = true ↔
      (∃ t, p = .nonMapping t ∧ err = .notMapping path) ∨
      (∃ kvs, p = .mapping kvs ∧ unknownKeys kvs ≠ [] ∧ err = .unknownProps (unknownKeys kvs))) ∧
    (err.isConfigError = true → st' = st) ∧
    st'.scalars = st.scalars ∧ st'.loaded = st.loaded := by
  cases p with
  | none => simp [applyFileStOrd] at h
  | unreadable kd => simp [applyFileStOrd] at h
  | nonMapping t =>
    simp only [applyFileStOrd, Prod.mk.injEq, Option.some.injEq] at h
    obtain ⟨h1, h2⟩ := h
    subst h1 h2
    exact ⟨⟨fun _ => Or.inl ⟨t, rfl, rfl⟩, fun _ => rfl⟩, fun _ => rfl, rfl, rfl⟩
  | parseError exc =>
    simp only [applyFileStOrd, Prod.mk.injEq, Option.some.injEq] at h
    obtain ⟨h1, h2⟩ := h
    subst h1 h2
    refine ⟨⟨fun hc => (by cases hc), ?_⟩, fun hc => (by cases hc), rfl, rfl⟩
    rintro (⟨t, hp, _⟩ | ⟨kvs, hp, _⟩) <;> cases hp
  | toolNotTable =>
    simp only [applyFileStOrd, Prod.mk.injEq, Option.some.injEq] at h
    obtain ⟨h1, h2⟩ := h
    subst h1 h2
    refine ⟨⟨fun hc => (by cases hc), ?_⟩, fun hc => (by cases hc), rfl, rfl⟩
    rintro (⟨t, hp, _⟩ | ⟨kvs, hp, _⟩) <;> cases hp
  | mapping kvs =>
    simp only [applyFileStOrd] at h
    by_cases hempty : kvs.isEmpty = true
    · simp [hempty] at h
    · simp only [hempty, Bool.false_eq_true, if_false] at h
      cases hu : updateOrd rev st kvs with
      | mk st1 e =>
        cases e with
        | none => simp [hu] at h
        | some e1 =>
          simp only [hu, Prod.mk.injEq, Option.some.injEq] at h
          obtain ⟨h1, h2⟩ := h
          subst h1 h2
          obtain ⟨hsc, hld, _, hkind⟩ := updateOrd_err_state rev st st1 kvs e1 hu
          rcases hkind with ⟨hne, he, hst⟩ | ⟨hnil, n, exc, he, _⟩
          · subst he
            exact ⟨⟨fun _ => Or.inr ⟨kvs, rfl, hne, rfl⟩, fun _ => rfl⟩, fun _ => hst, hsc, hld⟩
          · subst he
            refine ⟨⟨fun hc => (by cases hc), ?_⟩, fun hc => (by cases hc), hsc, hld⟩
            rintro (⟨t, hp, _⟩ | ⟨kvs', hp, hne, _⟩)
            · cases hp
            · cases hp; exact absurd hnil hne

/-- … the same for `handle_path` with its loader (adds: a `$PYPYR_CONFIG_GLOBAL` file that cannot be opened) -/
theorem handlePath_err (fs : Files) (st st' : ConfigState) (l : Look) (err : CfgErr)
    (h : handlePath fs st l = (st', some err)) :
    (err.isConfigError = true ↔
      (l.mustExist = true ∧ fs.opens l.path = false ∧ err = .notFound l.path) ∨
      (∃ t, fs.get? l.path = some (.nonMapping t) ∧ err = .notMapping l.path) ∨
      (∃ kvs, fs.get? l.path = some (.mapping kvs) ∧ unknownKeys kvs ≠ [] ∧ err = .unknownProps (unknownKeys kvs))) ∧
    (err.isConfigError = true → st' = st) ∧ st'.scalars = st.scalars ∧ st'.loaded = st.loaded := by
  unfold handlePath at h
  cases hl : load fs l with
  | error e =>
    simp only [hl, Prod.mk.injEq, Option.some.injEq] at h
    obtain ⟨h1, h2⟩ := h
    subst h1 h2
    -- `load` only raises notFound, for a must-exist file that cannot be opened
    unfold load at hl
    have key : l.mustExist = true ∧ fs.opens l.path = false ∧ e = .notFound l.path := by
      cases hg : fs.get? l.path with
      | none =>
        simp only [hg] at hl
        by_cases hm : l.mustExist = true
        · simp only [hm, if_true, Except.error.injEq] at hl
          exact ⟨hm, by simp [Files.opens, hg], hl.symm⟩
        · simp [hm] at hl
      | some p =>
        cases p with
        | unreadable kd =>
          simp only [hg] at hl
          by_cases hm : l.mustExist = true
          · simp only [hm, if_true, Except.error.injEq] at hl
            exact ⟨hm, by simp [Files.opens, hg], hl.symm⟩
          · simp [hm] at hl
        | none => simp [hg] at hl
        | mapping kvs => simp [hg] at hl
        | nonMapping t => simp [hg] at hl
        | parseError exc => simp [hg] at hl
        | toolNotTable => simp [hg] at hl
    obtain ⟨k1, k2, k3⟩ := key
    subst k3
    exact ⟨⟨fun _ => Or.inl ⟨k1, k2, rfl⟩, fun _ => rfl⟩, fun _ => rfl, rfl, rfl⟩
  | ok p =>
    simp only [hl] at h
    obtain ⟨hiff, hst, hsc, hld⟩ := applyFileStOrd_err false st st' l.path p err h
    refine ⟨?_, hst, hsc, hld⟩
    -- what `load` returned is the file's payload (or none for an absent / unreadable optional file)
    have hp : (∀ t, p = .nonMapping t → fs.get? l.path = some (.nonMapping t)) ∧
        (∀ kvs, p = .mapping kvs → kvs ≠ [] → fs.get? l.path = some (.mapping kvs)) ∧
        (∀ q, fs.get? l.path = some q → (∀ kd, q ≠ .unreadable kd) → p = q) := by
      unfold load at hl
      cases hg : fs.get? l.path with
      | none =>
        simp only [hg] at hl
        by_cases hm : l.mustExist = true
        · simp [hm] at hl
        · simp only [hm, Bool.false_eq_true, if_false, Except.ok.injEq] at hl
          subst hl
          exact ⟨fun t ht => (by cases ht), fun kvs hk => (by cases hk), fun q hq => (by cases hq)⟩
      | some q =>
        cases q with
        | unreadable kd =>
          simp only [hg] at hl
          by_cases hm : l.mustExist = true
          · simp [hm] at hl
          · simp only [hm, Bool.false_eq_true, if_false, Except.ok.injEq] at hl
            subst hl
            exact ⟨fun t ht => (by cases ht), fun kvs hk => (by cases hk),
              fun q hq hne => (by cases hq; exact absurd rfl (hne kd))⟩
        | none => simp only [hg, Except.ok.injEq] at hl; subst hl; exact ⟨fun t ht => (by cases ht), fun kvs hk => (by cases hk), fun q hq _ => (by cases hq; rfl)⟩
        | mapping kvs => simp only [hg, Except.ok.injEq] at hl; subst hl; exact ⟨fun t ht => (by cases ht), fun kvs' hk _ => (by cases hk; rfl), fun q hq _ => (by cases hq; rfl)⟩
        | nonMapping t => simp only [hg, Except.ok.injEq] at hl; subst hl; exact ⟨fun t' ht => (by cases ht; rfl), fun kvs hk => (by cases hk), fun q hq _ => (by cases hq; rfl)⟩
        | parseError exc => simp only [hg, Except.ok.injEq] at hl; subst hl; exact ⟨fun t ht => (by cases ht), fun kvs hk => (by cases hk), fun q hq _ => (by cases hq; rfl)⟩
        | toolNotTable => simp only [hg, Except.ok.injEq] at hl; subst hl; exact ⟨fun t ht => (by cases ht), fun kvs hk => (by cases hk), fun q hq _ => (by cases hq; rfl)⟩
    constructor
    · intro hc
      rcases hiff.mp hc with ⟨t, hpt, he⟩ | ⟨kvs, hpk, hne, he⟩
      · exact Or.inr (Or.inl ⟨t, hp.1 t hpt, he⟩)
      · have hk : kvs ≠ [] := by
          intro hnil; subst hnil; simp [unknownKeys] at hne
        exact Or.inr (Or.inr ⟨kvs, hp.2.1 kvs hpk hk, hne, he⟩)
    · rintro (⟨_, _, he⟩ | ⟨t, _, he⟩ | ⟨kvs, _, _, he⟩) <;> subst he <;> rfl

/-! ## a sequence of `handle_path` calls that ends in an exception -/

theorem runLooks_append_reject {fs : Files} {st st1 st2 : ConfigState} {lower higher : List Look} {l : Look}
    {err : CfgErr} (h1 : runLooks fs st lower = (st1, none)) (h2 : handlePath fs st1 l = (st2, some err)) :
    runLooks fs st (lower ++ l :: higher) = (st2, some err) := by
  induction lower generalizing st with
  | nil =>
    simp only [runLooks, Prod.mk.injEq, and_true] at h1; subst h1
    simp [runLooks, h2]
  | cons a as ih =>
    simp only [runLooks] at h1
    cases ha : handlePath fs st a with
    | mk sta e =>
      cases e with
      | some x => simp [ha] at h1
      | none =>
        simp only [ha] at h1
        simp only [List.cons_append, runLooks, ha]
        exact ih h1

/-- an `init` that raises stopped at one look-up: the ones before it went through -/
theorem runLooks_err_split {fs : Files} {st st2 : ConfigState} {looks : List Look} {err : CfgErr}
    (h : runLooks fs st looks = (st2, some err)) :
    ∃ lower l higher st1, looks = lower ++ l :: higher ∧ runLooks fs st lower = (st1, none) ∧
      handlePath fs st1 l = (st2, some err) := by
  induction looks generalizing st with
  | nil => simp [runLooks] at h
  | cons a as ih =>
    simp only [runLooks] at h
    cases ha : handlePath fs st a with
    | mk sta e =>
      cases e with
      | some x =>
        simp only [ha, Prod.mk.injEq, Option.some.injEq] at h
        obtain ⟨h1, h2⟩ := h
        subst h1 h2
        exact ⟨[], a, as, st, rfl, rfl, ha⟩
      | none =>
        simp only [ha] at h
        obtain ⟨lower, l, higher, st1, hsplit, hlow, hl⟩ := ih h
        refine ⟨a :: lower, l, higher, st1, by simp [hsplit], ?_, hl⟩
        simp [runLooks, ha, hlow]

/-! ## `config_loaded_paths` -/

/-- the paths a sequence of look-ups records: those whose file is a non-empty mapping -/
def loadedOf (fs : Files) : List Look → List String
  | [] => []
  | l :: ls =>
    match fs.get? l.path with
    | some (.mapping kvs) => if kvs.isEmpty then loadedOf fs ls else l.path :: loadedOf fs ls
    | _ => loadedOf fs ls

theorem updateOrd_ok_loaded (rev : Bool) (st st' : ConfigState) (kvs : Ctx) (h : updateOrd rev st kvs = (st', none)) :
    st'.loaded = st.loaded ∧ st'.skipInit = st.skipInit := by
  unfold updateOrd at h
  simp only at h
  split at h
  · simp at h
  · split at h
    · simp at h
    · simp only [Prod.mk.injEq, and_true] at h
      subst h
      exact ⟨rfl, rfl⟩

theorem handlePath_ok_loaded (fs : Files) (st st' : ConfigState) (l : Look) (h : handlePath fs st l = (st', none)) :
    st'.loaded = st.loaded ++ loadedOf fs [l] := by
  have ha := handlePath_ok h
  simp only [loadedOf]
  cases hg : fs.get? l.path with
  | none =>
    simp only [hg, Option.getD_none, applyFileSt, applyFileStOrd, Prod.mk.injEq, and_true] at ha
    subst ha; simp
  | some p =>
    simp only [hg, Option.getD_some] at ha
    cases p with
    | none => simp only [applyFileSt, applyFileStOrd, Prod.mk.injEq, and_true] at ha; subst ha; simp
    | unreadable kd => simp only [applyFileSt, applyFileStOrd, Prod.mk.injEq, and_true] at ha; subst ha; simp
    | nonMapping t => simp [applyFileSt, applyFileStOrd] at ha
    | parseError exc => simp [applyFileSt, applyFileStOrd] at ha
    | toolNotTable => simp [applyFileSt, applyFileStOrd] at ha
    | mapping kvs =>
      rw [applyFileSt_mapping] at ha
      by_cases hempty : kvs.isEmpty = true
      · simp only [hempty, if_true, Prod.mk.injEq, and_true] at ha
        subst ha; simp [hempty]
      · simp only [hempty, Bool.false_eq_true, if_false] at ha
        cases hu : update st kvs with
        | mk st1 e =>
          cases e with
          | some x => simp [hu] at ha
          | none =>
            simp only [hu, Prod.mk.injEq, and_true] at ha
            subst ha
            have := (updateOrd_ok_loaded false st st1 kvs hu).1
            simp [hempty, this]

theorem loadedOf_cons (fs : Files) (l : Look) (ls : List Look) :
    loadedOf fs (l :: ls) = loadedOf fs [l] ++ loadedOf fs ls := by
  simp only [loadedOf]
  cases fs.get? l.path with
  | none => simp
  | some p =>
    cases p <;> simp
    split <;> simp

/-- a successful sequence appends, in order, the path of every file that is a non-empty mapping -/
theorem runLooks_ok_loaded {fs : Files} {st st' : ConfigState} {looks : List Look}
    (h : runLooks fs st looks = (st', none)) : st'.loaded = st.loaded ++ loadedOf fs looks := by
  induction looks generalizing st with
  | nil => simp only [runLooks, Prod.mk.injEq, and_true] at h; subst h; simp [loadedOf]
  | cons l ls ih =>
    simp only [runLooks] at h
    cases hl : handlePath fs st l with
    | mk st1 e =>
      cases e with
      | some x => simp [hl] at h
      | none =>
        simp only [hl] at h
        rw [ih h, handlePath_ok_loaded fs st st1 l hl, loadedOf_cons fs l ls, List.append_assoc]

/-! ## a file that is listed twice -/

theorem lastSome_append {α β : Type} (f : α → Option β) (xs ys : List α) :
    lastSome f (xs ++ ys) = (lastSome f ys).or (lastSome f xs) := by
  induction xs with
  | nil => simp [lastSome]
  | cons a as ih =>
    simp only [List.cons_append, lastSome, ih]
    cases lastSome f ys <;> cases lastSome f as <;> simp

/-- listing an element a second time, later, makes its earlier occurrence irrelevant -/
theorem lastSome_dup {α β : Type} (f : α → Option β) (pre mid post : List α) (x : α) :
    lastSome f (pre ++ x :: mid ++ x :: post) = lastSome f (pre ++ mid ++ x :: post) := by
  have e1 : pre ++ x :: mid ++ x :: post = pre ++ ([x] ++ (mid ++ x :: post)) := by simp
  have e2 : pre ++ mid ++ x :: post = pre ++ (mid ++ x :: post) := by simp
  rw [e1, e2, lastSome_append f pre, lastSome_append f [x], lastSome_append f pre, lastSome_append f mid]
  simp only [lastSome]
  cases lastSome f post <;> cases f x <;> cases lastSome f mid <;> cases lastSome f pre <;> rfl

/-! ## whether `init` succeeds does not depend on what the object holds (only on which dict props it has) -/

theorem any_bad_names (ds : List (String × Dict)) (kvs : Ctx) :
    ds.any (fun nd => badDictProp kvs nd.1) = (ds.map (·.1)).any (badDictProp kvs) := by
  induction ds with
  | nil => rfl
  | cons p rest ih => simp [ih]

theorem updateOrd_false_ok_names (st st' st1 : ConfigState) (kvs : Ctx)
    (hn : st'.dicts.map (·.1) = st.dicts.map (·.1)) (h : updateOrd false st kvs = (st1, none)) :
    (∃ st1', updateOrd false st' kvs = (st1', none) ∧ st1'.dicts.map (·.1) = st1.dicts.map (·.1)) ∧
    st1.dicts.map (·.1) = st.dicts.map (·.1) := by
  unfold updateOrd at h ⊢
  simp only at h ⊢
  cases hu : unknownKeys kvs with
  | cons a as => simp [hu] at h
  | nil =>
    simp only [hu, List.isEmpty_nil, Bool.not_true, Bool.false_eq_true, if_false] at h ⊢
    have hbad : st.dicts.any (fun nd => badDictProp kvs nd.1) = false := by
      have := updateDictsOrd_err_both st.dicts kvs false
      cases hd : updateDictsOrd false st.dicts kvs with
      | mk ds e =>
        rw [hd] at this
        cases e with
        | some x => simp [hd] at h
        | none => simpa using this.symm
    have hbad' : st'.dicts.any (fun nd => badDictProp kvs nd.1) = false := by
      rw [any_bad_names, hn, ← any_bad_names]; exact hbad
    rw [updateDictsOrd_ok_same st.dicts kvs false hbad] at h
    rw [updateDictsOrd_ok_same st'.dicts kvs false hbad']
    simp only [Prod.mk.injEq, and_true] at h
    subst h
    have e1 : ∀ (ds : List (String × Dict)),
        List.map (fun x : String × Dict => x.1) (List.map (fun nd => (nd.1, overlayDict nd.2 (Ctx.get? kvs nd.1))) ds)
          = ds.map (·.1) := by
      intro ds; rw [List.map_map]; apply List.map_congr_left; intro a _; rfl
    refine ⟨⟨_, rfl, ?_⟩, ?_⟩
    · show List.map (fun x : String × Dict => x.1) (List.map (fun nd => (nd.1, overlayDict nd.2 (Ctx.get? kvs nd.1))) st'.dicts)
          = List.map (fun x : String × Dict => x.1) (List.map (fun nd => (nd.1, overlayDict nd.2 (Ctx.get? kvs nd.1))) st.dicts)
      rw [e1, e1, hn]
    · exact e1 st.dicts

theorem handlePath_ok_names (fs : Files) (st st' st1 : ConfigState) (l : Look)
    (hn : st'.dicts.map (·.1) = st.dicts.map (·.1)) (h : handlePath fs st l = (st1, none)) :
    (∃ st1', handlePath fs st' l = (st1', none) ∧ st1'.dicts.map (·.1) = st1.dicts.map (·.1)) ∧
    st1.dicts.map (·.1) = st.dicts.map (·.1) := by
  unfold handlePath at h ⊢
  cases hl : load fs l with
  | error e => simp [hl] at h
  | ok p =>
    simp only [hl] at h ⊢
    cases p with
    | nonMapping t => simp [applyFileSt, applyFileStOrd] at h
    | parseError exc => simp [applyFileSt, applyFileStOrd] at h
    | toolNotTable => simp [applyFileSt, applyFileStOrd] at h
    | none =>
      simp only [applyFileSt, applyFileStOrd, Prod.mk.injEq, and_true] at h ⊢
      subst h; exact ⟨⟨st', rfl, hn⟩, rfl⟩
    | unreadable kd =>
      simp only [applyFileSt, applyFileStOrd, Prod.mk.injEq, and_true] at h ⊢
      subst h; exact ⟨⟨st', rfl, hn⟩, rfl⟩
    | mapping kvs =>
      rw [applyFileSt_mapping] at h ⊢
      by_cases hempty : kvs.isEmpty = true
      · simp only [hempty, if_true, Prod.mk.injEq, and_true] at h ⊢
        subst h; exact ⟨⟨st', rfl, hn⟩, rfl⟩
      · simp only [hempty, Bool.false_eq_true, if_false] at h ⊢
        cases hu : update st kvs with
        | mk sta e =>
          cases e with
          | some x => simp [hu] at h
          | none =>
            simp only [hu, Prod.mk.injEq, and_true] at h
            subst h
            obtain ⟨⟨sta', hu', hn'⟩, hn1⟩ := updateOrd_false_ok_names st st' sta kvs hn hu
            have hu'' : update st' kvs = (sta', none) := hu'
            simp only [hu'']
            exact ⟨⟨_, rfl, hn'⟩, hn1⟩

theorem runLooks_ok_names (fs : Files) (looks : List Look) : ∀ (st st' st1 : ConfigState),
    st'.dicts.map (·.1) = st.dicts.map (·.1) → runLooks fs st looks = (st1, none) →
    (∃ st1', runLooks fs st' looks = (st1', none)) ∧ st1.dicts.map (·.1) = st.dicts.map (·.1) := by
  induction looks with
  | nil =>
    intro st st' st1 hn h
    simp only [runLooks, Prod.mk.injEq, and_true] at h
    subst h
    exact ⟨⟨st', rfl⟩, rfl⟩
  | cons l ls ih =>
    intro st st' st1 hn h
    simp only [runLooks] at h
    cases hl : handlePath fs st l with
    | mk sta e =>
      cases e with
      | some x => simp [hl] at h
      | none =>
        simp only [hl] at h
        obtain ⟨⟨sta', hl', hn'⟩, hna⟩ := handlePath_ok_names fs st st' sta l hn hl
        obtain ⟨⟨st1', hr'⟩, hn1⟩ := ih sta sta' st1 hn' h
        exact ⟨⟨st1', by simp [runLooks, hl', hr']⟩, hn1.trans hna⟩

/-! ## the set order matters only when a dict prop is refused -/

/-- no file gives `vars` / `shortcuts` a value `dict.update` refuses -/
def NoBadDictProp (fs : Files) (looks : List Look) : Prop :=
  ∀ l ∈ looks, ∀ kvs, fs.get? l.path = some (.mapping kvs) → ∀ n, badDictProp kvs n = false

theorem updateOrd_agree (rev : Bool) (st : ConfigState) (kvs : Ctx) (h : ∀ n, badDictProp kvs n = false) :
    updateOrd rev st kvs = updateOrd false st kvs := by
  have hb : st.dicts.any (fun nd => badDictProp kvs nd.1) = false := by
    simp [h]
  unfold updateOrd
  rw [updateDictsOrd_ok_same st.dicts kvs rev hb, updateDictsOrd_ok_same st.dicts kvs false hb]

theorem handlePathOrd_agree (rev : Bool) (fs : Files) (st : ConfigState) (l : Look)
    (h : ∀ kvs, fs.get? l.path = some (.mapping kvs) → ∀ n, badDictProp kvs n = false) :
    handlePathOrd rev fs st l = handlePath fs st l := by
  unfold handlePathOrd handlePath
  cases hl : load fs l with
  | error e => rfl
  | ok p =>
    simp only
    cases p with
    | mapping kvs =>
      have hg : fs.get? l.path = some (.mapping kvs) := by
        unfold load at hl
        cases hget : fs.get? l.path with
        | none =>
          simp only [hget] at hl
          by_cases hm : l.mustExist = true <;> simp [hm] at hl
        | some q =>
          cases q with
          | unreadable kd =>
            simp only [hget] at hl
            by_cases hm : l.mustExist = true <;> simp [hm] at hl
          | none => simp [hget] at hl
          | mapping k2 => simp only [hget, Except.ok.injEq] at hl; rw [hl]
          | nonMapping t => simp [hget] at hl
          | parseError exc => simp [hget] at hl
          | toolNotTable => simp [hget] at hl
      simp only [applyFileSt, applyFileStOrd, updateOrd_agree rev st kvs (h kvs hg)]
    | none => rfl
    | nonMapping t => rfl
    | parseError exc => rfl
    | toolNotTable => rfl
    | unreadable kd => rfl

theorem runLooksOrd_agree (rev : Bool) (fs : Files) (looks : List Look) (h : NoBadDictProp fs looks) :
    ∀ st, runLooksOrd rev fs st looks = runLooks fs st looks := by
  induction looks with
  | nil => intro st; rfl
  | cons l ls ih =>
    intro st
    simp only [runLooksOrd, runLooks]
    rw [handlePathOrd_agree rev fs st l (h l List.mem_cons_self)]
    cases handlePath fs st l with
    | mk sta e =>
      cases e with
      | some x => rfl
      | none => exact ih (fun q hq => h q (List.mem_cons_of_mem _ hq)) sta

theorem runLooksOrd_false (fs : Files) (looks : List Look) : ∀ st, runLooksOrd false fs st looks = runLooks fs st looks := by
  induction looks with
  | nil => intro st; rfl
  | cons l ls ih =>
    intro st
    simp only [runLooksOrd, runLooks]
    have : handlePathOrd false fs st l = handlePath fs st l := rfl
    rw [this]
    cases handlePath fs st l with
    | mk sta e =>
      cases e with
      | some x => rfl
      | none => exact ih sta

end Pypyr.C20
