import PypyrModel.CacheTS

namespace Pypyr.CacheTS

def Pc.inCS : Pc → Bool
  | .locked _ | .inCreator _ _ | .exiting _ _ | .created _ _ | .toRelease _ => true
  | _ => false

@[simp] theorem setThread_threads (st : State) (t : Tid) (th : Thread) (u : Tid) :
    (st.setThread t th).threads u = if u = t then th else st.threads u := rfl
@[simp] theorem setThread_lock (st : State) (t : Tid) (th : Thread) : (st.setThread t th).lock = st.lock := rfl
@[simp] theorem setThread_cache (st : State) (t : Tid) (th : Thread) : (st.setThread t th).cache = st.cache := rfl
@[simp] theorem setThread_calls (st : State) (t : Tid) (th : Thread) : (st.setThread t th).calls = st.calls := rfl
@[simp] theorem setThread_hist (st : State) (t : Tid) (th : Thread) : (st.setThread t th).hist = st.hist := rfl

/-- lock-coherence: a thread is inside the critical section iff it is the lock holder -/
def Mutex (st : State) : Prop := ∀ t, (st.threads t).pc.inCS = true ↔ st.lock = some t

theorem mutex_step (cfg : Cfg) (st : State) (t : Tid) (h : Mutex st) : Mutex (step cfg st t) := by
  intro u
  have hu := h u
  have ht := h t
  cases hpc : (st.threads t).pc <;> simp only [step, hpc]
  all_goals (try split)
  all_goals (try split)
  all_goals (try split)
  all_goals (by_cases hut : u = t <;> simp_all [Pc.inCS] <;> exact fun e => hut e.symm)

/-- the key whose creator the thread is running / whose object it is about to store -/
def Pc.creating : Pc → Option Key
  | .inCreator k _ | .exiting k _ | .created k _ => some k
  | _ => none

theorem creating_inCS {pc : Pc} {k : Key} (h : pc.creating = some k) : pc.inCS = true := by
  cases pc <;> simp_all [Pc.creating, Pc.inCS]

/-- while a creator runs under the lock its key is absent from the table -/
def Miss (st : State) : Prop := ∀ t k, (st.threads t).pc.creating = some k → st.cache k = none

theorem miss_step (cfg : Cfg) (st : State) (t : Tid) (hm : Mutex st) (h : Miss st) :
    Miss (step cfg st t) := by
  intro u k
  have hu := h u k
  have ht := h t
  have hmt := hm t
  have hcu : (st.threads u).pc.creating = some k → st.lock = some u :=
    fun e => (hm u).1 (creating_inCS e)
  cases hpc : (st.threads t).pc <;> simp only [step, hpc]
  all_goals (try split)
  all_goals (try split)
  all_goals (try split)
  all_goals (by_cases hut : u = t <;> simp_all [Pc.inCS, setKey])
  all_goals (try (simp_all [Pc.creating]; done))
  all_goals (try (intro e; simp_all [Pc.creating]; done))

def Pc.bypass : Pc → Bool
  | .bpCreator _ _ | .bpExiting _ _ | .bpDone _ => true
  | _ => false

def Op.isGet : Op → Bool
  | .get _ => true
  | .clear => false

def Res.ofGet : Res → Bool
  | .val _ | .raised _ => true
  | .cleared => false

/-- places only the cached (lock-taking) path of `get` reaches -/
def Pc.lockedGet : Pc → Bool
  | .wantLock op | .locked op => op.isGet
  | .inCreator _ _ | .exiting _ _ | .created _ _ => true
  | .toRelease r | .released r => r.ofGet
  | _ => false

/-- `config.no_cache` selects the path: bypass places only with it, lock-taking `get` places only without -/
def Mode (cfg : Cfg) (st : State) : Prop :=
  ∀ t, (cfg.noCache = false → (st.threads t).pc.bypass = false) ∧
       (cfg.noCache = true → (st.threads t).pc.lockedGet = false)

theorem mode_step (cfg : Cfg) (st : State) (t : Tid) (h : Mode cfg st) : Mode cfg (step cfg st t) := by
  intro u
  have hu := h u
  have ht := h t
  cases hpc : (st.threads t).pc <;> simp only [step, hpc]
  all_goals (try split)
  all_goals (try split)
  all_goals (try split)
  all_goals (by_cases hut : u = t <;> simp_all [Pc.bypass, Pc.lockedGet, Op.isGet, Res.ofGet])

/-- the object the lock holder has created but not yet stored -/
def Pc.pendingStore : Pc → Option (Key × Obj)
  | .created k c => some (k, c)
  | _ => none

/-- the table as the atomic specification sees it: the stored map plus the pending store -/
def effCache (st : State) : Key → Option Obj :=
  match st.lock with
  | none => st.cache
  | some t => match (st.threads t).pc.pendingStore with
    | some (k, c) => setKey st.cache k c
    | none => st.cache

/-- the history so far is a trace of the atomic specification, ending in `effCache` -/
def Refines (cfg : Cfg) (st : State) : Prop :=
  cfg.noCache = false → specRun cfg st.hist = some (effCache st)

theorem pendingStore_inCS {pc : Pc} {x} (h : pc.pendingStore = some x) : pc.inCS = true := by
  cases pc <;> simp_all [Pc.pendingStore, Pc.inCS]

theorem setKey_setKey (m : Key → Option Obj) (k : Key) (c : Obj) :
    setKey (setKey m k c) k c = setKey m k c := by
  funext k'; by_cases e : k' = k <;> simp [setKey, e]

theorem refines_step (cfg : Cfg) (st : State) (t : Tid) (hm : Mutex st) (hmiss : Miss st)
    (hmode : Mode cfg st) (h : Refines cfg st) : Refines cfg (step cfg st t) := by
  intro hnc
  have h := h hnc
  have hmt := hm t
  have hmst := hmiss t
  have hmo := (hmode t).1 hnc
  unfold effCache at h ⊢
  cases hpc : (st.threads t).pc <;> simp only [step, hpc]
  all_goals (try split)
  all_goals (try split)
  all_goals (try split)
  all_goals (cases hl : st.lock <;>
    simp_all [Pc.inCS, Pc.creating, Pc.bypass, Pc.pendingStore, specRun, specStep])
  all_goals (try (rename_i w; by_cases hw : w = t <;>
    simp_all [Pc.inCS, Pc.creating, Pc.bypass, Pc.pendingStore, specRun, specStep]))

/-- the result of the current operation, once it is determined -/
def Pc.pendingRes : Pc → List Res
  | .created _ c => [.val c]
  | .toRelease r | .released r | .bpDone r => [r]
  | _ => []

/-- events logged by thread `t` (newest first) -/
def eventsOf (t : Tid) (h : List Ev) : List Ev := h.filter (fun e => e.tid == t)

/-- what a thread's operations returned = what its own events observed, in order -/
def Results (st : State) : Prop :=
  ∀ t, (eventsOf t st.hist).map Ev.res = (st.threads t).pc.pendingRes ++ (st.threads t).results

theorem results_step (cfg : Cfg) (st : State) (t : Tid) (h : Results st) : Results (step cfg st t) := by
  intro u
  have hu := h u
  have ht := h t
  unfold eventsOf at *
  have hsym : (t = u) = (u = t) := propext eq_comm
  cases hpc : (st.threads t).pc <;> simp only [step, hpc]
  all_goals (try split)
  all_goals (try split)
  all_goals (try split)
  all_goals (by_cases hut : u = t <;> simp_all [Pc.pendingRes, Ev.tid, Ev.res])

/-- number of the creator invocation that is running in this thread -/
def Pc.inflight : Pc → Option Nat
  | .inCreator _ c | .exiting _ c | .bpCreator _ c | .bpExiting _ c => some c
  | _ => none

/-- creator-call numbers are handed out once: finished and running calls are pairwise distinct -/
structure Fresh (st : State) : Prop where
  histLt : ∀ c ∈ callIds st.hist, c < st.calls
  inflLt : ∀ t c, (st.threads t).pc.inflight = some c → c < st.calls
  inflNotHist : ∀ t c, (st.threads t).pc.inflight = some c → c ∉ callIds st.hist
  inflDistinct : ∀ t u c, (st.threads t).pc.inflight = some c → (st.threads u).pc.inflight = some c → t = u
  nodup : (callIds st.hist).Nodup

theorem callIds_cons_lt {e : Ev} {h : List Ev} {n : Nat} (he : ∀ c ∈ callIds [e], c < n)
    (hh : ∀ c ∈ callIds h, c < n) : ∀ c ∈ callIds (e :: h), c < n := by
  intro c hc
  cases e <;> simp_all [callIds]
  all_goals (rcases hc with e | e <;> simp_all)

theorem fresh_histLt (cfg : Cfg) (st : State) (t : Tid)
    (h1 : ∀ c ∈ callIds st.hist, c < st.calls)
    (h2t : ∀ c, (st.threads t).pc.inflight = some c → c < st.calls) :
    ∀ c ∈ callIds (step cfg st t).hist, c < (step cfg st t).calls := by
  have h1' : ∀ c ∈ callIds st.hist, c < st.calls + 1 := fun c hc => Nat.lt_succ_of_lt (h1 c hc)
  cases hpc : (st.threads t).pc <;> simp only [step, hpc]
  all_goals (try split)
  all_goals (try split)
  all_goals (try split)
  all_goals (first | exact h1 | exact h1' | skip)
  all_goals (apply callIds_cons_lt _ h1; simp_all [callIds, Pc.inflight])

theorem fresh_inflLt (cfg : Cfg) (st : State) (t : Tid)
    (h2 : ∀ u c, (st.threads u).pc.inflight = some c → c < st.calls) :
    ∀ u c, ((step cfg st t).threads u).pc.inflight = some c → c < (step cfg st t).calls := by
  intro u c
  have h2u := h2 u c
  have h2t := h2 t c
  cases hpc : (st.threads t).pc <;> simp only [step, hpc]
  all_goals (try split)
  all_goals (try split)
  all_goals (try split)
  all_goals (by_cases hut : u = t <;> simp_all [Pc.inflight])
  all_goals (try omega)
  all_goals (try (intro e; have := h2u e; omega))

theorem inflight_step (cfg : Cfg) (st : State) (t u : Tid) :
    ((step cfg st t).threads u).pc.inflight = (st.threads u).pc.inflight ∨
    (u = t ∧ ((step cfg st t).threads u).pc.inflight = none) ∨
    (u = t ∧ ((step cfg st t).threads u).pc.inflight = some st.calls) := by
  cases hpc : (st.threads t).pc <;> simp only [step, hpc]
  all_goals (try split)
  all_goals (try split)
  all_goals (try split)
  all_goals (by_cases hut : u = t <;> simp_all [Pc.inflight])

theorem fresh_inflDistinct (cfg : Cfg) (st : State) (t : Tid)
    (h2 : ∀ u c, (st.threads u).pc.inflight = some c → c < st.calls)
    (h4 : ∀ u w c, (st.threads u).pc.inflight = some c → (st.threads w).pc.inflight = some c → u = w) :
    ∀ u w c, ((step cfg st t).threads u).pc.inflight = some c →
      ((step cfg st t).threads w).pc.inflight = some c → u = w := by
  intro u w c hu hw
  rcases inflight_step cfg st t u with eu | ⟨eu, eu'⟩ | ⟨eu, eu'⟩ <;>
  rcases inflight_step cfg st t w with ew | ⟨ew, ew'⟩ | ⟨ew, ew'⟩
  all_goals (first
    | (rw [eu] at hu; rw [ew] at hw; exact h4 u w c hu hw)
    | (rw [eu'] at hu; cases hu; done)
    | (rw [ew'] at hw; cases hw; done)
    | (rw [eu, ew])
    | (rw [eu] at hu; rw [ew'] at hw; cases hw; have := h2 u _ hu; omega)
    | (rw [ew] at hw; rw [eu'] at hu; cases hu; have := h2 w _ hw; omega))

theorem callIds_cons (e : Ev) (h : List Ev) : callIds (e :: h) = callIds [e] ++ callIds h := by
  cases e <;> simp [callIds]

/-- how one step changes the history -/
theorem hist_step (cfg : Cfg) (st : State) (t : Tid) :
    (step cfg st t).hist = st.hist ∨
    ∃ e, (step cfg st t).hist = e :: st.hist ∧
      (callIds [e] = [] ∨
       ∃ c, (st.threads t).pc.inflight = some c ∧ callIds [e] = [c] ∧
            ((step cfg st t).threads t).pc.inflight = none) := by
  cases hpc : (st.threads t).pc <;> simp only [step, hpc]
  all_goals (try split)
  all_goals (try split)
  all_goals (try split)
  all_goals (simp_all [Pc.inflight, callIds])

theorem fresh_nodup (cfg : Cfg) (st : State) (t : Tid)
    (h3 : ∀ c, (st.threads t).pc.inflight = some c → c ∉ callIds st.hist)
    (h5 : (callIds st.hist).Nodup) : (callIds (step cfg st t).hist).Nodup := by
  rcases hist_step cfg st t with e | ⟨e, he, hc | ⟨c, hc1, hc2, _⟩⟩
  · rw [e]; exact h5
  · rw [he, callIds_cons, hc]; exact h5
  · rw [he, callIds_cons, hc2]
    exact List.nodup_cons.mpr ⟨h3 c hc1, h5⟩

theorem fresh_inflNotHist (cfg : Cfg) (st : State) (t : Tid)
    (h1 : ∀ c ∈ callIds st.hist, c < st.calls)
    (h3 : ∀ u c, (st.threads u).pc.inflight = some c → c ∉ callIds st.hist)
    (h4 : ∀ u w c, (st.threads u).pc.inflight = some c → (st.threads w).pc.inflight = some c → u = w) :
    ∀ u c, ((step cfg st t).threads u).pc.inflight = some c → c ∉ callIds (step cfg st t).hist := by
  intro u c hu
  have hold : c ∉ callIds st.hist := by
    rcases inflight_step cfg st t u with eu | ⟨_, eu'⟩ | ⟨_, eu'⟩
    · rw [eu] at hu; exact h3 u c hu
    · rw [eu'] at hu; cases hu
    · rw [eu'] at hu; cases hu; exact fun hc => Nat.lt_irrefl _ (h1 _ hc)
  rcases hist_step cfg st t with e | ⟨e, he, hc | ⟨c', hc1, hc2, hc3⟩⟩
  · rw [e]; exact hold
  · rw [he, callIds_cons, hc]; exact hold
  · rw [he, callIds_cons, hc2]
    intro hmem
    rcases List.mem_cons.mp hmem with e1 | e1
    · subst e1
      rcases inflight_step cfg st t u with eu | ⟨eu, eu'⟩ | ⟨eu, eu'⟩
      · rw [eu] at hu
        have := h4 u t c hu hc1
        subst this
        rw [hc3] at eu; rw [← eu] at hu; cases hu
      · subst eu; rw [hc3] at hu; cases hu
      · subst eu; rw [hc3] at hu; cases hu
    · exact hold e1

theorem fresh_step (cfg : Cfg) (st : State) (t : Tid) (h : Fresh st) : Fresh (step cfg st t) :=
  ⟨fresh_histLt cfg st t h.histLt (h.inflLt t),
   fresh_inflLt cfg st t h.inflLt,
   fresh_inflNotHist cfg st t h.histLt h.inflNotHist h.inflDistinct,
   fresh_inflDistinct cfg st t h.inflLt h.inflDistinct,
   fresh_nodup cfg st t (h.inflNotHist t) h.nodup⟩

def Ev.isHit : Ev → Bool
  | .hit _ _ _ => true
  | _ => false

/-- with `no_cache` the table is never written and nothing is ever served from it -/
def Bypass (cfg : Cfg) (st : State) : Prop :=
  cfg.noCache = true → st.cache = cfg.seed ∧ ∀ e ∈ st.hist, e.isHit = false

theorem bypass_step (cfg : Cfg) (st : State) (t : Tid) (hmode : Mode cfg st) (h : Bypass cfg st) :
    Bypass cfg (step cfg st t) := by
  intro hnc
  obtain ⟨h1, h2⟩ := h hnc
  have hmo := (hmode t).2 hnc
  cases hpc : (st.threads t).pc <;> simp only [step, hpc]
  all_goals (try split)
  all_goals (try split)
  all_goals (try split)
  all_goals (simp_all [Pc.lockedGet, Op.isGet, Res.ofGet, Ev.isHit])

/-- the inductive invariant -/
structure Inv (cfg : Cfg) (st : State) : Prop where
  mutex : Mutex st
  miss : Miss st
  mode : Mode cfg st
  refines : Refines cfg st
  results : Results st
  fresh : Fresh st
  bypass : Bypass cfg st

theorem inv_init (cfg : Cfg) (prog : Tid → List Op) : Inv cfg (init cfg prog) := by
  refine ⟨?_, ?_, ?_, ?_, ?_, ⟨?_, ?_, ?_, ?_, ?_⟩, ?_⟩ <;>
    simp [init, Mutex, Miss, Mode, Refines, Results, Bypass, Pc.inCS, Pc.creating, Pc.bypass,
      Pc.lockedGet, effCache, specRun, eventsOf, Pc.pendingRes, callIds, Pc.inflight]

theorem inv_step (cfg : Cfg) (st : State) (t : Tid) (h : Inv cfg st) : Inv cfg (step cfg st t) :=
  ⟨mutex_step cfg st t h.mutex, miss_step cfg st t h.mutex h.miss, mode_step cfg st t h.mode,
   refines_step cfg st t h.mutex h.miss h.mode h.refines, results_step cfg st t h.results,
   fresh_step cfg st t h.fresh, bypass_step cfg st t h.mode h.bypass⟩

theorem inv_run (cfg : Cfg) (sched : List Tid) : ∀ st, Inv cfg st → Inv cfg (run cfg st sched) := by
  induction sched with
  | nil => intro st h; exact h
  | cons t ts ih => intro st h; exact ih _ (inv_step cfg st t h)

/-- every state reachable from an initial state by any schedule satisfies the invariant -/
theorem inv_reach (cfg : Cfg) (prog : Tid → List Op) (sched : List Tid) :
    Inv cfg (run cfg (init cfg prog) sched) :=
  inv_run cfg sched _ (inv_init cfg prog)

theorem settle_is_run (cfg : Cfg) (t : Tid) : ∀ n st, ∃ sched, settle cfg n st t = run cfg st sched := by
  intro n
  induction n with
  | zero => intro st; exact ⟨[], rfl⟩
  | succ n ih =>
    intro st
    simp only [settle]
    split
    · exact ⟨[], rfl⟩
    · obtain ⟨s, hs⟩ := ih (step cfg st t); exact ⟨t :: s, by simpa [run] using hs⟩

theorem run_append (cfg : Cfg) : ∀ (a b : List Tid) st, run cfg st (a ++ b) = run cfg (run cfg st a) b := by
  intro a
  induction a with
  | nil => intro b st; rfl
  | cons t a ih => intro b st; simp [run, ih]

end Pypyr.CacheTS
