import PypyrModel.CacheTS

namespace Pypyr.CacheTS

def Pc.inCS : Pc → Bool
  | .locked _ | .inCreator _ _ | .exiting _ _ | .created _ _ | .toRelease _ => true
  | _ => false

@[simp] theorem setThread_threads (st : State) (t : Tid) (th : Thread) (u : Tid) :
    (st.setThread t th).threads u = if u = t then th else st.threads u := rfl
@[simp] theorem setThread_lock (st : State) (t : Tid) (th : Thread) : (st.setThread t th).lock = st.lock := rfl
@[simp] theorem setThread_cache (st : State) (t : Tid) (th : Thread) : (st.setThread t th).cache = st.cache := rfl
@[simp] theorem setThread_calls (st : State) (t : Tid) (th : Thread) : (st.setThread t th).calls = st.calls := rfl
@[simp] theorem setThread_hist (st : State) (t : Tid) (th : Thread) : (st.setThread t th).hist = st.hist := rfl

/-- lock-coherence: a thread is inside the critical section iff it is the lock holder -/
def Mutex (st : State) : Prop := ∀ t, (st.threads t).pc.inCS = true ↔ st.lock = some t

theorem mutex_step (cfg : Cfg) (st : State) (t : Tid) (h : Mutex st) : Mutex (step cfg st t) := by
  intro u
  have hu := h u
  have ht := h t
  cases hpc : (st.threads t).pc <;> simp only [step, hpc]
  all_goals (try split)
  all_goals (try split)
  all_goals (by_cases hut : u = t <;> simp_all [Pc.inCS] <;> exact fun e => hut e.symm)

/-- the key whose creator the thread is running / whose object it is about to store -/
def Pc.creating : Pc → Option Key
  | .inCreator k _ | .exiting k _ | .created k _ => some k
  | _ => none

theorem creating_inCS {pc : Pc} {k : Key} (h : pc.creating = some k) : pc.inCS = true := by
  cases pc <;> simp_all [Pc.creating, Pc.inCS]

/-- while a creator runs under the lock its key is absent from the table -/
def Miss (st : State) : Prop := ∀ t k, (st.threads t).pc.creating = some k → st.cache k = none

theorem miss_step (cfg : Cfg) (st : State) (t : Tid) (hm : Mutex st) (h : Miss st) :
    Miss (step cfg st t) := by
  intro u k
  have hu := h u k
  have ht := h t
  have hmt := hm t
  have hcu : (st.threads u).pc.creating = some k → st.lock = some u :=
    fun e => (hm u).1 (creating_inCS e)
  cases hpc : (st.threads t).pc <;> simp only [step, hpc]
  all_goals (try split)
  all_goals (try split)
  all_goals (by_cases hut : u = t <;> simp_all [Pc.inCS, setKey])
  all_goals (try (simp_all [Pc.creating]; done))
  all_goals (try (intro e; simp_all [Pc.creating]; done))

def Pc.bypass : Pc → Bool
  | .bpCreator _ _ | .bpExiting _ _ | .bpDone _ => true
  | _ => false

def Op.isGet : Op → Bool
  | .get _ => true
  | .clear => false

def Res.ofGet : Res → Bool
  | .val _ | .raised _ => true
  | .cleared => false

/-- places only the cached (lock-taking) path of `get` reaches -/
def Pc.lockedGet : Pc → Bool
  | .wantLock op | .locked op => op.isGet
  | .inCreator _ _ | .exiting _ _ | .created _ _ => true
  | .toRelease r | .released r => r.ofGet
  | _ => false

/-- `config.no_cache` selects the path: bypass places only with it, lock-taking `get` places only without -/
def Mode (cfg : Cfg) (st : State) : Prop :=
  ∀ t, (cfg.noCache = false → (st.threads t).pc.bypass = false) ∧
       (cfg.noCache = true → (st.threads t).pc.lockedGet = false)

theorem mode_step (cfg : Cfg) (st : State) (t : Tid) (h : Mode cfg st) : Mode cfg (step cfg st t) := by
  intro u
  have hu := h u
  have ht := h t
  cases hpc : (st.threads t).pc <;> simp only [step, hpc]
  all_goals (try split)
  all_goals (try split)
  all_goals (by_cases hut : u = t <;> simp_all [Pc.bypass, Pc.lockedGet, Op.isGet, Res.ofGet])

/-- the object the lock holder has created but not yet stored -/
def Pc.pendingStore : Pc → Option (Key × Obj)
  | .created k c => some (k, c)
  | _ => none

/-- the table as the atomic specification sees it: the stored map plus the pending store -/
def effCache (st : State) : Key → Option Obj :=
  match st.lock with
  | none => st.cache
  | some t => match (st.threads t).pc.pendingStore with
    | some (k, c) => setKey st.cache k c
    | none => st.cache

/-- the history so far is a trace of the atomic specification, ending in `effCache` -/
def Refines (cfg : Cfg) (st : State) : Prop :=
  cfg.noCache = false → specRun cfg st.hist = some (effCache st)

theorem pendingStore_inCS {pc : Pc} {x} (h : pc.pendingStore = some x) : pc.inCS = true := by
  cases pc <;> simp_all [Pc.pendingStore, Pc.inCS]

theorem setKey_setKey (m : Key → Option Obj) (k : Key) (c : Obj) :
    setKey (setKey m k c) k c = setKey m k c := by
  funext k'; by_cases e : k' = k <;> simp [setKey, e]

theorem refines_step (cfg : Cfg) (st : State) (t : Tid) (hm : Mutex st) (hmiss : Miss st)
    (hmode : Mode cfg st) (h : Refines cfg st) : Refines cfg (step cfg st t) := by
  intro hnc
  have h := h hnc
  have hmt := hm t
  have hmst := hmiss t
  have hmo := (hmode t).1 hnc
  unfold effCache at h ⊢
  cases hpc : (st.threads t).pc <;> simp only [step, hpc]
  all_goals (try split)
  all_goals (try split)
  all_goals (cases hl : st.lock <;>
    simp_all [Pc.inCS, Pc.creating, Pc.bypass, Pc.pendingStore, specRun, specStep])
  all_goals (try (rename_i w; by_cases hw : w = t <;>
    simp_all [Pc.inCS, Pc.creating, Pc.bypass, Pc.pendingStore, specRun, specStep]))

/-- the result of the current operation, once it is determined -/
def Pc.pendingRes : Pc → List Res
  | .created _ c => [.val c]
  | .toRelease r | .released r | .bpDone r => [r]
  | _ => []

/-- events logged by thread `t` (newest first) -/
def eventsOf (t : Tid) (h : List Ev) : List Ev := h.filter (fun e => e.tid == t)

/-- what a thread's operations returned = what its own events observed, in order -/
def Results (st : State) : Prop :=
  ∀ t, (eventsOf t st.hist).map Ev.res = (st.threads t).pc.pendingRes ++ (st.threads t).results

theorem results_step (cfg : Cfg) (st : State) (t : Tid) (h : Results st) : Results (step cfg st t) := by
  intro u
  have hu := h u
  have ht := h t
  unfold eventsOf at *
  have hsym : (t = u) = (u = t) := propext eq_comm
  cases hpc : (st.threads t).pc <;> simp only [step, hpc]
  all_goals (try split)
  all_goals (try split)
  all_goals (by_cases hut : u = t <;> simp_all [Pc.pendingRes, Ev.tid, Ev.res])

/-- number of the creator invocation that is running in this thread -/
def Pc.inflight : Pc → Option Nat
  | .inCreator _ c | .exiting _ c | .bpCreator _ c | .bpExiting _ c => some c
  | _ => none

/-- creator-call numbers are handed out once: finished and running calls are pairwise distinct -/
structure Fresh (st : State) : Prop where
  histLt : ∀ c ∈ callIds st.hist, c < st.calls
  inflLt : ∀ t c, (st.threads t).pc.inflight = some c → c < st.calls
  inflNotHist : ∀ t c, (st.threads t).pc.inflight = some c → c ∉ callIds st.hist
  inflDistinct : ∀ t u c, (st.threads t).pc.inflight = some c → (st.threads u).pc.inflight = some c → t = u
  nodup : (callIds st.hist).Nodup

theorem fresh_step (cfg : Cfg) (st : State) (t : Tid) (h : Fresh st) : Fresh (step cfg st t) := by
  obtain ⟨h1, h2, h3, h4, h5⟩ := h
  have h2t := h2 t
  have h3t := h3 t
  constructor
  · intro c
    have h1c := h1 c
    cases hpc : (st.threads t).pc <;> simp only [step, hpc]
    all_goals (try split)
    all_goals (try split)
    all_goals (simp_all [callIds, Pc.inflight])
    all_goals (try omega)
    all_goals (try (rintro (e | e) <;> first | omega | (have := h1c e; omega)))
  · intro u c
    have h2u := h2 u c
    cases hpc : (st.threads t).pc <;> simp only [step, hpc]
    all_goals (try split)
    all_goals (try split)
    all_goals (by_cases hut : u = t <;> simp_all [Pc.inflight])
    all_goals (try omega)
    all_goals (try (intro e; have := h2u e; omega))
  · sorry
  · sorry
  · sorry
