/- Helper lemmas for C19, chains of pype hops at any depth (`Resolve.runChainR`, `runChain`):
   the declarative reading of one hop (`hopSpec`), what `loadOneR` yields, index shifting of the
   caller along the chain, the `sys.path` invariant along a chain. -/
import Props.Lemmas.C19_Find

namespace Pypyr.Resolve

/-- the candidate files of the `…R` layer: the parent is resolved first, nothing else is -/
def candidatesR (fs : Fs) (parent : Option Path) (parts : List String) : List Path :=
  candidates fs (parent.map fs.realpath) parts

/-- what the property text says one look-up through a loader yields, given the loader and the
    parent it is made with -/
def loadSpec (fs : Fs) (custom : String → Option (Bool × Bool)) (loader : Option String) (h : Hop)
    (parent : Option Path) : Except String Loaded :=
  if effLoader loader = fileLoader then
    match getPipelinePathR fs h.name parent with
    | .ok p => .ok (.file p)
    | .error e => .error e
  else match custom (effLoader loader) with
    | some (pc, lc) => .ok (.custom (effLoader loader) h.nameStr parent pc lc)
    | none => .error ("no such loader " ++ effLoader loader)

/-- … for a hop of a chain: the loader and parent are those `get_arguments` derives from the
    CALLER's `PipelineInfo` (the root: the runner's loader, no parent) -/
def hopSpec (fs : Fs) (custom : String → Option (Bool × Bool)) (rootLoader : Option String)
    (caller : Option Info) (h : Hop) : Except String Loaded :=
  loadSpec fs custom (hopArgs rootLoader caller h).1 h (hopArgs rootLoader caller h).2

/-- the caller of hop `i`: the chain's caller for the first hop, the pipeline loaded at hop `i-1`
    for every later one -/
def callerAt (caller : Option Info) (loaded : List Loaded) : Nat → Option Info
  | 0 => caller
  | i + 1 => (loaded[i]?).map infoOf

theorem callerAt_cons (caller : Option Info) (ld : Loaded) (rest : List Loaded) (i : Nat) :
    callerAt caller (ld :: rest) (i + 1) = callerAt (some (infoOf ld)) rest i := by
  cases i with
  | zero => rfl
  | succ j => rfl

theorem getPipelinePath_rel (fs : Fs) (parts : List String) (parent : Option Path) :
    getPipelinePath fs (.rel parts) parent =
      match (candidates fs parent parts).find? fs.isFile with
      | some p => .ok p
      | none => .error (notFoundMsg ("/".intercalate (fileParts parts)) (searchDirs fs parent)) := by
  simp only [getPipelinePath, findPipeline_eq_find, candidates]
  cases List.find? fs.isFile (List.map (fun x => x ++ fileParts parts) (searchDirs fs parent)) <;> rfl

theorem getPipelinePathR_rel (fs : Fs) (parts : List String) (parent : Option Path) :
    getPipelinePathR fs (.rel parts) parent =
      match (candidatesR fs parent parts).find? fs.isFile with
      | some q => .ok (fs.realpath q)
      | none => .error (notFoundMsg ("/".intercalate (fileParts parts)) (searchDirs fs (parent.map fs.realpath))) := by
  simp only [getPipelinePathR, getPipelinePath_rel, candidatesR]
  cases List.find? fs.isFile (candidates fs (parent.map fs.realpath) parts) <;> rfl

theorem getPipelinePathR_abs (fs : Fs) (parts : List String) (parent : Option Path) :
    getPipelinePathR fs (.abs parts) parent =
      if fs.isFile (fileParts parts) = true then .ok (fs.realpath (fileParts parts))
      else .error (pathStr (fileParts parts) ++ " does not exist.") := by
  simp only [getPipelinePathR, getPipelinePath]
  by_cases h : fs.isFile (fileParts parts) = true <;> simp [h]

theorem getPipelineDefinitionR_fst (fs : Fs) (st : LoadState) (name : Name) (parent : Option Path) :
    (getPipelineDefinitionR fs st name parent).1 = getPipelinePathR fs name parent := by
  unfold getPipelineDefinitionR
  cases getPipelinePathR fs name parent with
  | error e => rfl
  | ok p => simp only; split <;> rfl

/-- what `loadOneR` yields does not depend on the process state: it is the look-up of the property
    text for this loader and this parent -/
theorem loadOneR_fst (fs : Fs) (custom : String → Option (Bool × Bool)) (st : LoadState)
    (loader : Option String) (h : Hop) (parent : Option Path) :
    (loadOneR fs custom st loader h parent).1 = loadSpec fs custom loader h parent := by
  unfold loadOneR loadSpec
  simp only
  split
  · rename_i hl
    generalize addPyDir fs st h.pyDir = st1
    have hf := getPipelineDefinitionR_fst fs st1 h.name parent
    cases hd : getPipelineDefinitionR fs st1 h.name parent with
    | mk res st' =>
      rw [hd] at hf
      simp only at hf
      rw [← hf]
      cases res <;> rfl
  · cases custom (effLoader loader) with
    | none => rfl
    | some x => rfl

/-! #### the `sys.path` invariant along loads of the `…R` layer -/

/-- resolved files live in existing directories -/
def FsOkR (fs : Fs) : Prop := ∀ p, fs.isFile p = true → fs.dirExists (dirOf (fs.realpath p)) = true

theorem getPipelinePath_isFile' (fs : Fs) (name : Name) (parent : Option Path) (p : Path)
    (h : getPipelinePath fs name parent = .ok p) : fs.isFile p = true :=
  getPipelinePath_isFile fs name parent p h

theorem getPipelinePathR_dir (fs : Fs) (hfs : FsOkR fs) (name : Name) (parent : Option Path) (p : Path)
    (h : getPipelinePathR fs name parent = .ok p) : fs.dirExists (dirOf p) = true := by
  unfold getPipelinePathR at h
  cases hq : getPipelinePath fs name (parent.map fs.realpath) with
  | error e => simp [hq] at h
  | ok q =>
    simp only [hq, Except.ok.injEq] at h
    subst h
    exact hfs q (getPipelinePath_isFile fs name _ q hq)

theorem addSysPath_good (fs : Fs) (st : LoadState) (d : Path) (hg : Good st) : Good (addSysPath fs st d) := by
  refine ⟨?_, addSysPath_known fs st d hg.known⟩
  intro x hx
  rw [addSysPath_fileCache] at hx
  exact addSysPath_mono fs _ _ _ (hg.cached x hx)

/-- after `get_pipeline_definition` on any tree the RESOLVED file's directory is on `sys.path`, the
    invariant is kept and `sys.path` only grows -/
theorem getPipelineDefinitionR_good (fs : Fs) (hfs : FsOkR fs) (st : LoadState) (hg : Good st)
    (name : Name) (parent : Option Path) :
    Good (getPipelineDefinitionR fs st name parent).2 ∧
    (∀ x ∈ st.sysPath, x ∈ (getPipelineDefinitionR fs st name parent).2.sysPath) ∧
    ∀ p, (getPipelineDefinitionR fs st name parent).1 = .ok p →
      dirOf p ∈ (getPipelineDefinitionR fs st name parent).2.sysPath := by
  unfold getPipelineDefinitionR
  cases hr : getPipelinePathR fs name parent with
  | error e => exact ⟨hg, fun x hx => hx, fun p h => by cases h⟩
  | ok q =>
    simp only
    have hdir := getPipelinePathR_dir fs hfs name parent q hr
    by_cases hc : q ∈ st.fileCache
    · simp only [hc, if_true]
      exact ⟨hg, fun x hx => hx, fun p h => by cases h; exact hg.cached q hc⟩
    · simp only [hc, if_false]
      have hk : ∀ d ∈ ({ st with fileCache := q :: st.fileCache } : LoadState).known,
          d ∉ ({ st with fileCache := q :: st.fileCache } : LoadState).missing →
          d ∈ ({ st with fileCache := q :: st.fileCache } : LoadState).sysPath := hg.known
      have hmem := addSysPath_mem fs { st with fileCache := q :: st.fileCache } (dirOf q) hk hdir
      refine ⟨⟨?_, addSysPath_known fs _ _ hk⟩, fun x hx => addSysPath_mono fs _ _ _ hx,
        fun p h => by cases h; exact hmem⟩
      intro x hx
      rw [addSysPath_fileCache] at hx
      rcases List.mem_cons.mp hx with e | hx
      · subst e; exact hmem
      · exact addSysPath_mono fs _ _ _ (hg.cached x hx)

theorem loadOneR_good (fs : Fs) (hfs : FsOkR fs) (custom : String → Option (Bool × Bool)) (st : LoadState)
    (hg : Good st) (loader : Option String) (h : Hop) (parent : Option Path) :
    Good (loadOneR fs custom st loader h parent).2 ∧
    (∀ x ∈ st.sysPath, x ∈ (loadOneR fs custom st loader h parent).2.sysPath) ∧
    (∀ d, h.pyDir = some d → fs.dirExists d = true → d ∈ (loadOneR fs custom st loader h parent).2.sysPath) ∧
    ∀ p, (loadOneR fs custom st loader h parent).1 = .ok (.file p) →
      dirOf p ∈ (loadOneR fs custom st loader h parent).2.sysPath := by
  unfold loadOneR
  simp only
  -- the state after `add_sys_path(py_dir)`
  have hpy : Good (addPyDir fs st h.pyDir) ∧
      (∀ x ∈ st.sysPath, x ∈ (addPyDir fs st h.pyDir).sysPath) ∧
      (∀ d, h.pyDir = some d → fs.dirExists d = true → d ∈ (addPyDir fs st h.pyDir).sysPath) := by
    cases h.pyDir with
    | none => exact ⟨hg, fun x hx => hx, fun d hd => by cases hd⟩
    | some d =>
      refine ⟨addSysPath_good fs st d hg, fun x hx => addSysPath_mono fs _ _ _ hx, ?_⟩
      intro d' hd' hex
      cases hd'
      exact addSysPath_mem fs st d hg.known hex
  generalize addPyDir fs st h.pyDir = st1 at hpy ⊢
  obtain ⟨hg1, hmono1, hpy1⟩ := hpy
  split
  · have hd := getPipelineDefinitionR_good fs hfs st1 hg1 h.name parent
    cases hr : getPipelineDefinitionR fs st1 h.name parent with
    | mk res st' =>
      rw [hr] at hd
      simp only at hd
      obtain ⟨hg', hmono', hfile'⟩ := hd
      cases res with
      | error e =>
        exact ⟨hg', fun x hx => hmono' x (hmono1 x hx), fun d hd hex => hmono' d (hpy1 d hd hex),
          fun p hp => by cases hp⟩
      | ok q =>
        refine ⟨hg', fun x hx => hmono' x (hmono1 x hx), fun d hd hex => hmono' d (hpy1 d hd hex), ?_⟩
        intro p hp
        simp only [Except.ok.injEq, Loaded.file.injEq] at hp
        subst hp
        exact hfile' q rfl
  · cases custom (effLoader loader) with
    | none => exact ⟨hg1, hmono1, hpy1, fun p hp => by cases hp⟩
    | some x => exact ⟨hg1, hmono1, hpy1, fun p hp => by cases hp⟩

end Pypyr.Resolve
