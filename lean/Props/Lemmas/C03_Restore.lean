/-
  C03 helper lemmas, part 1: `Step.reset_context_counters` (`resetCounters`) key by key, the
  three ways a call can end (`invokeStep`), what `pypyr.steps.call` / `jump` / `switch` put into
  the instruction they raise (`cofStep`, `switchStep`: the key is the step's own key, the original
  config is the context's value under that key), and a call step under `foreach`.
  Everything for arbitrary frames, bodies, callees, contexts, item lists.
-/
import Props.Lemmas.C05_Loops

namespace Pypyr.C03
open Pypyr Pypyr.Flow Pypyr.C04 Pypyr.C05

/-! ## `reset_context_counters`, key by key -/

/-- the three write-backs of the loop counters, in the order of the code. -/
def countersBack (fr : Frame) (ctx : Ctx) : Ctx :=
  let ctx := match fr.whileC with | some w => Ctx.set ctx "whileCounter" (.int w) | none => ctx
  let ctx := match fr.forI with | some x => Ctx.set ctx "i" x | none => ctx
  match fr.retryC with | some r => Ctx.set ctx "retryCounter" (.int r) | none => ctx

/-- `if context.get(key) != original: context[key] = original`. -/
def keyBack (c : CofCfg) (ctx : Ctx) : Ctx :=
  if Ctx.get? ctx c.key = some c.original then ctx else Ctx.set ctx c.key c.original

theorem resetCounters_eq (fr : Frame) (c : CofCfg) (s : St) :
    resetCounters fr c s = { s with ctx := keyBack c (countersBack fr s.ctx) } := rfl

/-- only the context changes: trace, stack, sleeps, exception counter … are the callee's. -/
theorem resetCounters_only_ctx (fr : Frame) (c : CofCfg) (s : St) :
    (resetCounters fr c s).trace = s.trace ∧ (resetCounters fr c s).stack = s.stack ∧
    (resetCounters fr c s).sleeps = s.sleeps ∧ (resetCounters fr c s).nextExc = s.nextExc ∧
    (resetCounters fr c s).rnd = s.rnd ∧ (resetCounters fr c s).ood = s.ood :=
  ⟨rfl, rfl, rfl, rfl, rfl, rfl⟩

theorem keyBack_self (c : CofCfg) (ctx : Ctx) : Ctx.get? (keyBack c ctx) c.key = some c.original := by
  unfold keyBack
  split
  · assumption
  · exact ctx_get_set_self _ _ _

theorem keyBack_ne (c : CofCfg) (ctx : Ctx) (k : String) (h : c.key ≠ k) :
    Ctx.get? (keyBack c ctx) k = Ctx.get? ctx k := by
  unfold keyBack
  split
  · rfl
  · exact ctx_get_set_ne _ _ _ _ h

theorem countersBack_while (fr : Frame) (ctx : Ctx) (w : Int) (h : fr.whileC = some w) :
    Ctx.get? (countersBack fr ctx) "whileCounter" = some (.int w) := by
  unfold countersBack
  simp only [h]
  cases fr.forI <;> cases fr.retryC <;>
    simp only [ctx_get_set_self, ctx_get_set_ne _ "whileCounter" "i" _ (by decide),
      ctx_get_set_ne _ "whileCounter" "retryCounter" _ (by decide)]

theorem countersBack_i (fr : Frame) (ctx : Ctx) (x : Val) (h : fr.forI = some x) :
    Ctx.get? (countersBack fr ctx) "i" = some x := by
  unfold countersBack
  simp only [h]
  cases fr.retryC <;>
    simp only [ctx_get_set_self, ctx_get_set_ne _ "i" "retryCounter" _ (by decide)]

theorem countersBack_retry (fr : Frame) (ctx : Ctx) (r : Int) (h : fr.retryC = some r) :
    Ctx.get? (countersBack fr ctx) "retryCounter" = some (.int r) := by
  unfold countersBack
  simp only [h, ctx_get_set_self]

/-- a key that is none of the three counters is not touched by the counter write-backs. -/
theorem countersBack_other (fr : Frame) (ctx : Ctx) (k : String)
    (hw : k ≠ "whileCounter") (hi : k ≠ "i") (hr : k ≠ "retryCounter") :
    Ctx.get? (countersBack fr ctx) k = Ctx.get? ctx k := by
  unfold countersBack
  cases fr.whileC <;> cases fr.forI <;> cases fr.retryC <;>
    simp only [ctx_get_set_ne _ k "whileCounter" _ (Ne.symm hw), ctx_get_set_ne _ k "i" _ (Ne.symm hi),
      ctx_get_set_ne _ k "retryCounter" _ (Ne.symm hr)]

/-- a counter the calling step does not have is left as the callee left it. -/
theorem countersBack_absent (fr : Frame) (ctx : Ctx) :
    (fr.whileC = none → Ctx.get? (countersBack fr ctx) "whileCounter" = Ctx.get? ctx "whileCounter") ∧
    (fr.forI = none → Ctx.get? (countersBack fr ctx) "i" = Ctx.get? ctx "i") ∧
    (fr.retryC = none → Ctx.get? (countersBack fr ctx) "retryCounter" = Ctx.get? ctx "retryCounter") := by
  refine ⟨fun h => ?_, fun h => ?_, fun h => ?_⟩ <;> unfold countersBack <;> simp only [h]
  · cases fr.forI <;> cases fr.retryC <;>
      simp only [ctx_get_set_ne _ "whileCounter" "i" _ (by decide),
        ctx_get_set_ne _ "whileCounter" "retryCounter" _ (by decide)]
  · cases fr.whileC <;> cases fr.retryC <;>
      simp only [ctx_get_set_ne _ "i" "whileCounter" _ (by decide),
        ctx_get_set_ne _ "i" "retryCounter" _ (by decide)]
  · cases fr.whileC <;> cases fr.forI <;>
      simp only [ctx_get_set_ne _ "retryCounter" "whileCounter" _ (by decide),
        ctx_get_set_ne _ "retryCounter" "i" _ (by decide)]

/-- **the write-back, for every frame, every instruction, every state the callee left**:
    the call key holds the caller's original config (unconditionally), and each counter the
    calling step has holds the step's own value — provided the call key is not that counter's
    name (it never is: `cofStep_call_key`, `switchStep_call_key`). -/
theorem resetCounters_restores (fr : Frame) (c : CofCfg) (s : St) :
    (∀ w, fr.whileC = some w → c.key ≠ "whileCounter" →
        Ctx.get? (resetCounters fr c s).ctx "whileCounter" = some (.int w)) ∧
    (∀ x, fr.forI = some x → c.key ≠ "i" → Ctx.get? (resetCounters fr c s).ctx "i" = some x) ∧
    (∀ r, fr.retryC = some r → c.key ≠ "retryCounter" →
        Ctx.get? (resetCounters fr c s).ctx "retryCounter" = some (.int r)) ∧
    Ctx.get? (resetCounters fr c s).ctx c.key = some c.original := by
  rw [resetCounters_eq]
  refine ⟨fun w h hk => ?_, fun x h hk => ?_, fun r h hk => ?_, keyBack_self _ _⟩
  · show Ctx.get? (keyBack c _) _ = _
    rw [keyBack_ne c _ _ hk]; exact countersBack_while fr _ w h
  · show Ctx.get? (keyBack c _) _ = _
    rw [keyBack_ne c _ _ hk]; exact countersBack_i fr _ x h
  · show Ctx.get? (keyBack c _) _ = _
    rw [keyBack_ne c _ _ hk]; exact countersBack_retry fr _ r h

/-- every key other than the three counters and the call key is exactly as the callee left it. -/
theorem resetCounters_other (fr : Frame) (c : CofCfg) (s : St) (k : String)
    (hw : k ≠ "whileCounter") (hi : k ≠ "i") (hr : k ≠ "retryCounter") (hk : c.key ≠ k) :
    Ctx.get? (resetCounters fr c s).ctx k = Ctx.get? s.ctx k := by
  rw [resetCounters_eq]
  show Ctx.get? (keyBack c _) _ = _
  rw [keyBack_ne c _ _ hk, countersBack_other fr _ k hw hi hr]

/-! ## `invoke_step` on a call: the three ways the called groups can end -/

/-- the outcome mapping of `invoke_step` on what the called groups returned. -/
def callOutcome (r : Res) : Res :=
  match r with
  | .err e _ => .err e true
  | other => other

theorem invokeStep_call_eq (fr : Frame) (body : Body) (callee : CofCfg → Body) (s s1 : St) (c : CofCfg)
    (hb : body s = (s1, .call c)) (hco : c.original.truthy = true) :
    invokeStep fr body callee s = (resetCounters fr c (callee c s1).1, callOutcome (callee c s1).2) := by
  unfold invokeStep
  rw [hb]
  simp only [hco, if_true]
  generalize callee c s1 = p
  obtain ⟨s2, r⟩ := p
  cases r <;> rfl

theorem callOutcome_signal {σ : Res} (h : σ.isSignal = true) : callOutcome σ = σ := by
  cases σ <;> simp_all [Res.isSignal, callOutcome]

/-! ## what the cof steps put into the instruction -/

theorem instructionFromVal_key (cfg : Val) (key : String) (original : Val) (c : CofCfg)
    (h : instructionFromVal cfg key original = .ok c) : c.key = key ∧ c.original = original := by
  unfold instructionFromVal at h
  try simp only [] at h
  repeat' split at h
  all_goals first
    | (cases h; done)
    | (injection h with h; subst h; exact ⟨rfl, rfl⟩)

theorem assertKeyHasValue_ok (s : St) (k who : String) (v : Val) (h : assertKeyHasValue s k who = .ok v) :
    Ctx.get? s.ctx k = some v ∧ v ≠ .none := by
  unfold assertKeyHasValue at h
  split at h
  · cases h
  · cases h
  · rename_i v' hne hv
    injection h with h; subst h
    exact ⟨hv, fun e => hne e⟩

/-- `pypyr.steps.call` / `pypyr.steps.jump`: whenever the step raises an instruction, the
    instruction's key is the step's own key (`"call"` / `"jump"`), its original config is what
    the context holds under that key, and the state is untouched. -/
theorem cofStep_instr (key : String) (isCall : Bool) (s s1 : St) (r : Res)
    (h : cofStep key isCall s = (s1, r)) (hr : r.isErr = false) :
    ∃ c, r = (if isCall then .call c else .jump c) ∧ c.key = key ∧
      Ctx.get? s.ctx key = some c.original ∧ c.original ≠ .none ∧ s1 = s := by
  unfold cofStep at h
  split at h
  · -- `assert context`: an empty context
    have := raiseNew_isErr s "AssertionError" "context param must exist for ControlOfFlowStep."
    rw [h] at this; simp [hr] at this
  split at h
  · rename_i n m _
    have := raiseNew_isErr s n m
    rw [h] at this; simp [hr] at this
  · rename_i original ha
    split at h
    · rename_i x _
      have := raiseExc_isErr s x
      rw [h] at this; simp [hr] at this
    · rename_i cfg _
      split at h
      · rename_i n m _
        have := raiseNew_isErr s n m
        rw [h] at this; simp [hr] at this
      · rename_i c hc
        obtain ⟨hk, ho⟩ := instructionFromVal_key _ _ _ _ hc
        obtain ⟨hg, hn⟩ := assertKeyHasValue_ok _ _ _ _ ha
        injection h with h1 h2
        exact ⟨c, h2.symm, hk, by rw [ho]; exact hg, by rw [ho]; exact hn, h1.symm⟩

theorem cofStep_call_key (s s1 : St) (c : CofCfg) (h : cofStep "call" true s = (s1, .call c)) :
    c.key = "call" ∧ Ctx.get? s.ctx "call" = some c.original ∧ s1 = s := by
  obtain ⟨c', hc, hk, hg, _, hs⟩ := cofStep_instr "call" true s s1 _ h rfl
  simp only [if_true] at hc
  injection hc with hc; subst hc
  exact ⟨hk, hg, hs⟩

theorem cofStep_jump_key (s s1 : St) (c : CofCfg) (h : cofStep "jump" false s = (s1, .jump c)) :
    c.key = "jump" ∧ Ctx.get? s.ctx "jump" = some c.original ∧ s1 = s := by
  obtain ⟨c', hc, hk, hg, _, hs⟩ := cofStep_instr "jump" false s s1 _ h rfl
  simp only [Bool.false_eq_true, if_false] at hc
  injection hc with hc; subst hc
  exact ⟨hk, hg, hs⟩

/-- a call step never raises a jump and a jump step never raises a call. -/
theorem cofStep_kind (key : String) (isCall : Bool) (s s1 : St) (c : CofCfg) :
    (cofStep key isCall s = (s1, .call c) → isCall = true) ∧
    (cofStep key isCall s = (s1, .jump c) → isCall = false) := by
  constructor <;> intro h <;>
    obtain ⟨c', hc, _⟩ := cofStep_instr key isCall s s1 _ h rfl <;>
    cases isCall <;> simp at hc ⊢

/-! ## a call step under `foreach` -/

/-- the foreach body "invoke the step; a call runs `callee`". -/
def invokeLayer (body : Body) (callee : CofCfg → Body) : Frame → Body :=
  fun fr => invokeStep fr body callee

/-- `layer` is `invoke_step` possibly wrapped in decorators that hand a normal completion on
    unchanged (e.g. run / skip / swallow with `run` true and `skip` false). -/
def PassesOk (layer : Frame → Body) (body : Body) (callee : CofCfg → Body) : Prop :=
  ∀ fr s, (invokeStep fr body callee s).2 = .ok → layer fr s = invokeStep fr body callee s

theorem invokeLayer_passesOk (body : Body) (callee : CofCfg → Body) :
    PassesOk (invokeLayer body callee) body callee := fun _ _ _ => rfl

/-- One iteration: the step body is entered with `i = x`; it raises the call without touching
    the state, so the callee is entered with `i = x`; the callee ends normally; afterwards the
    iteration has ended normally, `i` is `x` again and the call key holds `v` again — whatever
    the callee did to them. -/
theorem call_iteration (fr : Frame) (layer : Frame → Body) (body : Body) (callee : CofCfg → Body)
    (hlayer : PassesOk layer body callee) (K : String) (v : Val) (hvt : v.truthy = true)
    (hK : K ≠ "i")
    (hb : ∀ s, Ctx.get? s.ctx K = some v → ∃ c, body s = (s, .call c) ∧ c.key = K ∧ c.original = v)
    (hc : ∀ c s, (callee c s).2 = .ok)
    (x : Val) (s0 : St) (h0 : Ctx.get? s0.ctx K = some v) :
    ∃ c, body (setI x s0) = (setI x s0, .call c) ∧
      Ctx.get? (setI x s0).ctx "i" = some x ∧
      itemOut fr layer x s0 =
        (resetCounters { fr with forI := some x } c (callee c (setI x s0)).1, .ok) ∧
      Ctx.get? (itemOut fr layer x s0).1.ctx "i" = some x ∧
      Ctx.get? (itemOut fr layer x s0).1.ctx K = some v := by
  have hK' : Ctx.get? (setI x s0).ctx K = some v := by
    show Ctx.get? (Ctx.set s0.ctx "i" x) K = some v
    rw [ctx_get_set_ne _ K "i" x (Ne.symm hK)]; exact h0
  obtain ⟨c, hbc, hck, hco⟩ := hb _ hK'
  have hinv : invokeStep { fr with forI := some x } body callee (setI x s0) =
      (resetCounters { fr with forI := some x } c (callee c (setI x s0)).1, .ok) := by
    rw [invokeStep_call_eq _ body callee _ _ c hbc (by rw [hco]; exact hvt), hc]
    rfl
  have hout : itemOut fr layer x s0 =
      (resetCounters { fr with forI := some x } c (callee c (setI x s0)).1, .ok) := by
    show layer { fr with forI := some x } (setI x s0) = _
    rw [hlayer _ _ (by rw [hinv]), hinv]
  refine ⟨c, hbc, setI_i x s0, hout, ?_, ?_⟩
  · rw [hout]
    exact (resetCounters_restores { fr with forI := some x } c _).2.1 x rfl (by rw [hck]; exact hK)
  · rw [hout]
    have := (resetCounters_restores { fr with forI := some x } c (callee c (setI x s0)).1).2.2.2
    rw [hck, hco] at this
    exact this

/-- All iterations, any number of items: every one ends normally (so the loop is the left fold),
    and the call key is `v` again after the loop. -/
theorem call_foreach_allOk (fr : Frame) (layer : Frame → Body) (body : Body) (callee : CofCfg → Body)
    (hlayer : PassesOk layer body callee) (K : String) (v : Val) (hvt : v.truthy = true)
    (hK : K ≠ "i")
    (hb : ∀ s, Ctx.get? s.ctx K = some v → ∃ c, body s = (s, .call c) ∧ c.key = K ∧ c.original = v)
    (hc : ∀ c s, (callee c s).2 = .ok) :
    ∀ (items : List Val) (s : St), Ctx.get? s.ctx K = some v →
      ForeachAllOk fr layer items s ∧
      Ctx.get? (foreachFold fr layer items s).ctx K = some v := by
  intro items
  induction items with
  | nil => intro s h0; exact ⟨trivial, h0⟩
  | cons x rest ih =>
    intro s h0
    obtain ⟨c, _, _, hout, _, hKv⟩ := call_iteration fr layer body callee hlayer K v hvt hK hb hc x s h0
    obtain ⟨h1, h2⟩ := ih _ hKv
    exact ⟨⟨by rw [hout], h1⟩, h2⟩

/-! ### the same with hypotheses on the VISITED states only -/

/-- what the iterations of a call step under `foreach` need, stated on the states the loop actually visits
    (each iteration entered in the state the previous one left): there the step body raises its call - with
    key `K` and raw configuration `v`, but possibly DIFFERENT groups each time (`call: 'g{i}'`: the formatted
    instruction depends on the current item) - and the called groups end normally. -/
def CallVisitOk (fr : Frame) (layer : Frame → Body) (body : Body) (callee : CofCfg → Body) (K : String) (v : Val) :
    List Val → St → Prop
  | [], _ => True
  | x :: rest, s =>
    (∃ c, body (setI x s) = (setI x s, .call c) ∧ c.key = K ∧ c.original = v ∧ (callee c (setI x s)).2 = .ok) ∧
    CallVisitOk fr layer body callee K v rest (itemOut fr layer x s).1

/-- one iteration, from the facts at that iteration's own entry state. -/
theorem call_iteration_at (fr : Frame) (layer : Frame → Body) (body : Body) (callee : CofCfg → Body)
    (hlayer : PassesOk layer body callee) (K : String) (v : Val) (hvt : v.truthy = true) (hK : K ≠ "i")
    (x : Val) (s0 : St) (c : CofCfg)
    (hbc : body (setI x s0) = (setI x s0, .call c)) (hck : c.key = K) (hco : c.original = v)
    (hc : (callee c (setI x s0)).2 = .ok) :
    itemOut fr layer x s0 =
      (resetCounters { fr with forI := some x } c (callee c (setI x s0)).1, .ok) ∧
    Ctx.get? (itemOut fr layer x s0).1.ctx "i" = some x ∧
    Ctx.get? (itemOut fr layer x s0).1.ctx K = some v := by
  have hinv : invokeStep { fr with forI := some x } body callee (setI x s0) =
      (resetCounters { fr with forI := some x } c (callee c (setI x s0)).1, .ok) := by
    rw [invokeStep_call_eq _ body callee _ _ c hbc (by rw [hco]; exact hvt), hc]
    rfl
  have hout : itemOut fr layer x s0 =
      (resetCounters { fr with forI := some x } c (callee c (setI x s0)).1, .ok) := by
    show layer { fr with forI := some x } (setI x s0) = _
    rw [hlayer _ _ (by rw [hinv]), hinv]
  refine ⟨hout, ?_, ?_⟩
  · rw [hout]
    exact (resetCounters_restores { fr with forI := some x } c _).2.1 x rfl (by rw [hck]; exact hK)
  · rw [hout]
    have := (resetCounters_restores { fr with forI := some x } c (callee c (setI x s0)).1).2.2.2
    rw [hck, hco] at this
    exact this

theorem call_foreach_allOk_at (fr : Frame) (layer : Frame → Body) (body : Body) (callee : CofCfg → Body)
    (hlayer : PassesOk layer body callee) (K : String) (v : Val) (hvt : v.truthy = true) (hK : K ≠ "i") :
    ∀ (items : List Val) (s : St), CallVisitOk fr layer body callee K v items s →
      ForeachAllOk fr layer items s ∧
      (items ≠ [] → Ctx.get? (foreachFold fr layer items s).ctx K = some v) := by
  intro items
  induction items with
  | nil => intro s _; exact ⟨trivial, fun h => absurd rfl h⟩
  | cons x rest ih =>
    intro s hv
    obtain ⟨⟨c, hbc, hck, hco, hc⟩, hrest⟩ := hv
    obtain ⟨hout, _, hKv⟩ := call_iteration_at fr layer body callee hlayer K v hvt hK x s c hbc hck hco hc
    obtain ⟨h1, h2⟩ := ih _ hrest
    refine ⟨⟨by rw [hout], h1⟩, fun _ => ?_⟩
    cases rest with
    | nil => exact hKv
    | cons y ys => exact h2 (by simp)

/-! ### observable form: a callee that logs the `i` it sees -/

/-- the event a logging callee emits: the `i` it found in the context on entry. -/
def calleeEvent (i : Option Val) : Event :=
  { tag := "callee", i := i, w := none, r := none, nerr := 0, pipe := "", depth := 0, keys := [] }

/-- a callee that logs the `i` it sees and then does anything whatsoever (`g`) to the context —
    overwrite `i`, delete it, delete the call key, clear everything. -/
def logCallee (g : Ctx → Ctx) : CofCfg → Body := fun _ s =>
  ({ s with ctx := g s.ctx, trace := s.trace ++ [calleeEvent (Ctx.get? s.ctx "i")] }, .ok)

theorem call_foreach_trace (g : Ctx → Ctx) (fr : Frame) (layer : Frame → Body) (body : Body)
    (hlayer : PassesOk layer body (logCallee g)) (K : String) (v : Val) (hvt : v.truthy = true)
    (hK : K ≠ "i")
    (hb : ∀ s, Ctx.get? s.ctx K = some v → ∃ c, body s = (s, .call c) ∧ c.key = K ∧ c.original = v) :
    ∀ (items : List Val) (s : St), Ctx.get? s.ctx K = some v →
      (foreachItems fr layer items s).2 = .ok ∧
      (foreachItems fr layer items s).1.trace =
        s.trace ++ items.map (fun x => calleeEvent (some x)) := by
  intro items
  induction items with
  | nil => intro s _; simp [foreachItems]
  | cons x rest ih =>
    intro s h0
    obtain ⟨c, _, hi, hout, _, hKv⟩ :=
      call_iteration fr layer body (logCallee g) hlayer K v hvt hK hb (fun _ _ => rfl) x s h0
    have h2 : (itemOut fr layer x s).2 = .ok := by rw [hout]
    have h3 : (itemOut fr layer x s).1.trace = s.trace ++ [calleeEvent (some x)] := by
      rw [hout]
      show (logCallee g c (setI x s)).1.trace = _
      simp only [logCallee, hi]
      rfl
    rw [foreachItems_cons_of_ok _ _ _ _ _ h2]
    obtain ⟨e1, e2⟩ := ih _ hKv
    refine ⟨e1, ?_⟩
    rw [e2, h3]
    simp [List.append_assoc]

end Pypyr.C03
