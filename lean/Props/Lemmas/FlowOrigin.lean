/-
  Origin lemmas: a control-of-flow signal returned by a decorator layer was
  returned by its inner body, and the layer's final state is exactly the state
  the inner body left at that moment: nothing was recorded, nothing slept,
  nothing re-attempted, nothing executed afterwards.
-/
import Props.Lemmas.FlowLayers

namespace Pypyr.Flow

theorem raiseNew_isErr (s : St) (n m : String) : (raiseNew s n m).2.isErr = true := by
  simp [raiseNew, Res.isErr]

theorem raiseExc_isErr (s : St) (e : Exc) : (raiseExc s e).2.isErr = true := by
  simp [raiseExc, raiseNew, Res.isErr]

theorem signal_not_err {r : Res} (h : r.isSignal = true) : r.isErr = false := by
  cases r <;> simp_all [Res.isSignal, Res.isErr]

theorem signal_ne_ok {r : Res} (h : r.isSignal = true) : r ≠ .ok := by
  cases r <;> simp_all [Res.isSignal]

theorem raiseNew_not_signal (s : St) (n m : String) (s' : St) (r : Res)
    (h : raiseNew s n m = (s', r)) : r.isSignal = false := by
  simp [raiseNew] at h; rw [← h.2]; rfl

theorem raiseExc_not_signal (s : St) (e : Exc) (s' : St) (r : Res)
    (h : raiseExc s e = (s', r)) : r.isSignal = false := raiseNew_not_signal s _ _ s' r h

theorem saveError_not_signal (d : StepDef) (s : St) (e : ExcV) (sw : Bool) (s' : St) (r : Res)
    (h : saveError d s e sw = (s', r)) : r.isSignal = false := by
  unfold saveError at h
  simp only [] at h
  split at h
  · exact raiseExc_not_signal _ _ _ _ h
  · split at h
    · simp at h; rw [← h.2]; rfl
    · simp at h; rw [← h.2]; rfl
    · exact raiseNew_not_signal _ _ _ _ _ h

theorem runConditional_signal_origin (d : StepDef) (inner : Body) (s s' : St) (σ : Res)
    (h : runConditional d inner s = (s', σ)) (hσ : σ.isSignal = true) :
    inner s = (s', σ) := by
  unfold runConditional at h
  split at h
  · have := raiseExc_not_signal _ _ _ _ h; simp_all
  · simp at h; rw [← h.2] at hσ; simp [Res.isSignal] at hσ
  · split at h
    · have := raiseExc_not_signal _ _ _ _ h; simp_all
    · simp at h; rw [← h.2] at hσ; simp [Res.isSignal] at hσ
    · simp only [] at h
      generalize hin : inner s = p at h
      obtain ⟨s1, r⟩ := p
      simp only [] at h
      cases r with
      | err e handled =>
        simp only [] at h
        generalize logEscape d s1 e handled = s1' at h
        split at h
        · have := raiseExc_not_signal _ _ _ _ h; simp_all
        · rename_i sw _
          generalize hsv : (if handled = true then (s1', Res.ok) else saveError d s1' e sw) = q at h
          obtain ⟨s2, r2⟩ := q
          cases r2 <;> simp only [] at h
          case ok =>
            split at h <;> (simp at h; rw [← h.2] at hσ; simp [Res.isSignal] at hσ)
          all_goals
            (simp at h
             have hns : (σ).isSignal = false := by
               rw [← h.2]
               by_cases hh : handled = true
               · simp [hh] at hsv
               · simp [hh] at hsv
                 exact saveError_not_signal d s1' e sw _ _ hsv
             simp_all)
      | _ => simp at h; simp [h]

theorem retryIter_signal_origin (cfg : RetryCfg) (fr : Frame) (inner : Frame → Body) (max : Option Int) :
    ∀ (fuel k : Nat) (bo : BackoffState) (s s' : St) (σ : Res),
      retryIter cfg fr inner max fuel k bo s = (s', σ) → σ.isSignal = true →
      ∃ k' s0, inner { fr with retryC := some k' } s0 = (s', σ) := by
  intro fuel
  induction fuel with
  | zero => intro k bo s s' σ h hσ; simp [retryIter] at h; rw [← h.2] at hσ; simp [Res.isSignal] at hσ
  | succ n ih =>
    intro k bo s s' σ h hσ
    unfold retryIter at h
    simp only [] at h
    generalize hin : inner { fr with retryC := some k } { s with ctx := Ctx.set s.ctx "retryCounter" (.int k) } = p at h
    obtain ⟨s1, r⟩ := p
    simp only [] at h
    cases r with
    | err e handled =>
      simp only [] at h
      repeat' (split at h)
      all_goals first
        | exact ih _ _ _ _ _ h hσ
        | (have := raiseExc_not_signal _ _ _ _ h; simp_all)
        | (have := raiseNew_not_signal _ _ _ _ _ h; simp_all)
        | (simp at h; rw [← h.2] at hσ; simp [Res.isSignal] at hσ)
    | _ => simp at h; exact ⟨k, _, by rw [hin]; simp [h]⟩

theorem retryFaulty_signal_origin (cfg : RetryCfg) (fr : Frame) (inner : Frame → Body) (max : Option Int)
    (y : Bool) (s s' : St) (σ : Res)
    (h : retryFaulty cfg fr inner max y s = (s', σ)) (hσ : σ.isSignal = true) :
    ∃ k' s0, inner { fr with retryC := some k' } s0 = (s', σ) := by
  unfold retryFaulty at h
  simp only [] at h
  generalize hin : inner { fr with retryC := some 1 } { s with ctx := Ctx.set s.ctx "retryCounter" (.int 1) } = p at h
  obtain ⟨s1, r⟩ := p
  simp only [] at h
  cases r with
  | err e handled =>
    simp only [] at h
    repeat' (split at h)
    all_goals first
      | (have := raiseExc_not_signal _ _ _ _ h; simp_all)
      | (have := raiseNew_not_signal _ _ _ _ _ h; simp_all)
      | (simp at h; rw [← h.2] at hσ; simp [Res.isSignal] at hσ)
  | _ => simp at h; exact ⟨1, _, by rw [hin]; simp [h]⟩

theorem foreachItems_signal_origin (fr : Frame) (inner : Frame → Body) :
    ∀ (items : List Val) (s s' : St) (σ : Res),
      foreachItems fr inner items s = (s', σ) → σ.isSignal = true →
      ∃ x s0, inner { fr with forI := some x } s0 = (s', σ) := by
  intro items
  induction items with
  | nil => intro s s' σ h hσ; simp [foreachItems] at h; rw [← h.2] at hσ; simp [Res.isSignal] at hσ
  | cons x rest ih =>
    intro s s' σ h hσ
    unfold foreachItems at h
    simp only [] at h
    generalize hin : inner { fr with forI := some x } { s with ctx := Ctx.set s.ctx "i" x } = p at h
    obtain ⟨s1, r⟩ := p
    cases r with
    | ok => simp only [] at h; exact ih _ _ _ h hσ
    | _ => simp at h; exact ⟨x, _, by rw [hin]; simp [h]⟩

theorem whileIter_signal_origin (cfg : WhileCfg) (fr : Frame) (inner : Frame → Body) (max : Option Nat)
    (sleep : Num) (eom : Bool) :
    ∀ (fuel k : Nat) (s s' : St) (σ : Res),
      whileIter cfg fr inner max sleep eom fuel k s = (s', σ) → σ.isSignal = true →
      ∃ k' s0, inner { fr with whileC := some k' } s0 = (s', σ) := by
  intro fuel
  induction fuel with
  | zero => intro k s s' σ h hσ; simp [whileIter] at h; rw [← h.2] at hσ; simp [Res.isSignal] at hσ
  | succ n ih =>
    intro k s s' σ h hσ
    unfold whileIter at h
    simp only [] at h
    generalize hin : inner { fr with whileC := some k } { s with ctx := Ctx.set s.ctx "whileCounter" (.int k) } = p at h
    obtain ⟨s1, r⟩ := p
    cases r with
    | ok =>
      simp only [] at h
      repeat' (split at h)
      all_goals first
        | exact ih _ _ _ _ h hσ
        | (have := raiseExc_not_signal _ _ _ _ h; simp_all)
        | (have := raiseNew_not_signal _ _ _ _ _ h; simp_all)
        | (simp at h; rw [← h.2] at hσ; simp [Res.isSignal] at hσ)
    | _ => simp at h; exact ⟨k, _, by rw [hin]; simp [h]⟩

end Pypyr.Flow

namespace Pypyr.Flow

theorem invokeStep_signal_origin (fr : Frame) (body : Body) (callee : CofCfg → Body) (s s' : St) (σ : Res)
    (h : invokeStep fr body callee s = (s', σ)) (hσ : σ.isSignal = true) :
    body s = (s', σ) ∨
    ∃ s1 s2 c, body s = (s1, .call c) ∧ callee c s1 = (s2, σ) ∧ s' = resetCounters fr c s2 ∧
      c.original.truthy = true := by
  unfold invokeStep at h
  generalize hb : body s = p at h
  obtain ⟨s1, r⟩ := p
  cases r with
  | call c =>
    simp only [] at h
    generalize hc : callee c s1 = q at h
    obtain ⟨s2, r2⟩ := q
    right
    by_cases hco : c.original.truthy = true
    · simp only [hco, if_true] at h
      refine ⟨s1, s2, c, rfl, ?_, ?_, hco⟩
      · cases r2 <;> injection h with h1 h2 <;> subst h2 <;> first | exact hc | (simp [Res.isSignal] at hσ)
      · cases r2 <;> injection h with h1 h2 <;> exact h1.symm
    · simp only [hco] at h
      exfalso
      cases r2 <;> first
        | (have := raiseNew_not_signal _ _ _ _ _ h; simp_all)
        | (simp at h; rw [← h.2] at hσ; simp [Res.isSignal] at hσ)
  | _ => left; simp at h; simp [h]

theorem retryLoop_signal_origin (cfg : RetryCfg) (fr : Frame) (inner : Frame → Body) (fuel : Nat)
    (s s' : St) (σ : Res) (h : retryLoop cfg fr inner fuel s = (s', σ)) (hσ : σ.isSignal = true) :
    ∃ fr' s0, inner fr' s0 = (s', σ) := by
  unfold retryLoop at h
  simp only [] at h
  repeat' (split at h)
  all_goals first
    | (have := raiseExc_not_signal _ _ _ _ h; simp_all)
    | (have := raiseNew_not_signal _ _ _ _ _ h; simp_all)
    | exact (retryIter_signal_origin _ _ _ _ _ _ _ _ _ _ h hσ).elim fun k hk => hk.elim fun s0 hk' => ⟨_, s0, hk'⟩
    | exact (retryFaulty_signal_origin _ _ _ _ _ _ _ _ h hσ).elim fun k hk => hk.elim fun s0 hk' => ⟨_, s0, hk'⟩
    | (simp at h; rw [← h.2] at hσ; simp [Res.isSignal] at hσ)

theorem foreachOrConditional_signal_origin (d : StepDef) (fr : Frame) (inner : Frame → Body)
    (s s' : St) (σ : Res) (h : foreachOrConditional d fr inner s = (s', σ)) (hσ : σ.isSignal = true) :
    ∃ fr' s0, inner fr' s0 = (s', σ) := by
  unfold foreachOrConditional at h
  cases hf : d.foreach with
  | none => rw [hf] at h; exact ⟨_, _, h⟩
  | some raw =>
    rw [hf] at h
    simp only [] at h
    by_cases ht : raw.truthy = true
    · rw [if_pos ht] at h
      unfold foreachLoop at h
      repeat' (split at h)
      all_goals first
        | (have := raiseExc_not_signal _ _ _ _ h; simp_all)
        | exact (foreachItems_signal_origin _ _ _ _ _ _ h hσ).elim fun x hx => hx.elim fun s0 hx' => ⟨_, s0, hx'⟩
    · rw [if_neg ht] at h
      exact ⟨_, _, h⟩

theorem whileLoop_signal_origin (cfg : WhileCfg) (fr : Frame) (inner : Frame → Body) (fuel : Nat)
    (s s' : St) (σ : Res) (h : whileLoop cfg fr inner fuel s = (s', σ)) (hσ : σ.isSignal = true) :
    ∃ fr' s0, inner fr' s0 = (s', σ) := by
  unfold whileLoop at h
  simp only [] at h
  repeat' (split at h)
  all_goals first
    | (have := raiseExc_not_signal _ _ _ _ h; simp_all)
    | (have := raiseNew_not_signal _ _ _ _ _ h; simp_all)
    | exact (whileIter_signal_origin _ _ _ _ _ _ _ _ _ _ _ h hσ).elim fun k hk => hk.elim fun s0 hk' => ⟨_, s0, hk'⟩
    | (simp at h; rw [← h.2] at hσ; simp [Res.isSignal] at hσ)

/-- **A signal returned by a decorated step was returned by its module body (or by the groups
    its body called), and the step ends in exactly the state of that moment** — whatever subset of
    in/run/skip/swallow/retry/foreach/while the step declares. -/
theorem runStepWith_signal_origin (d : StepDef) (body : Body) (callee : CofCfg → Body) (fuel : Nat)
    (s s' : St) (σ : Res) (h : runStepWith d body callee fuel s = (s', σ)) (hσ : σ.isSignal = true) :
    (∃ s0, body s0 = (s', σ)) ∨
    (∃ fr s0 s1 s2 c, body s0 = (s1, .call c) ∧ callee c s1 = (s2, σ) ∧ s' = resetCounters fr c s2) := by
  unfold runStepWith at h
  simp only [] at h
  -- the outermost layer: while or not
  have key : ∀ (fr0 : Frame) (st : St),
      foreachOrConditional d fr0 (fun fr => runConditional d
        (match d.retry with
         | some rc => retryLoop rc { fr with retryC := some 0 } (fun fr => invokeStep fr body callee) fuel
         | none => invokeStep fr body callee)) st = (s', σ) →
      (∃ s0, body s0 = (s', σ)) ∨
      (∃ fr s0 s1 s2 c, body s0 = (s1, .call c) ∧ callee c s1 = (s2, σ) ∧ s' = resetCounters fr c s2) := by
    intro fr0 st hk
    obtain ⟨fr1, s1, h1⟩ := foreachOrConditional_signal_origin d fr0 _ st s' σ hk hσ
    have h2 := runConditional_signal_origin d _ s1 s' σ h1 hσ
    cases hr : d.retry with
    | none =>
      rw [hr] at h2
      rcases invokeStep_signal_origin _ _ _ _ _ _ h2 hσ with hb | ⟨a, b, c, hb, hc, he, _⟩
      · exact .inl ⟨_, hb⟩
      · exact .inr ⟨_, _, a, b, c, hb, hc, he⟩
    | some rc =>
      rw [hr] at h2
      obtain ⟨fr2, s2, h3⟩ := retryLoop_signal_origin rc _ _ fuel s1 s' σ h2 hσ
      rcases invokeStep_signal_origin _ _ _ _ _ _ h3 hσ with hb | ⟨a, b, c, hb, hc, he, _⟩
      · exact .inl ⟨_, hb⟩
      · exact .inr ⟨_, _, a, b, c, hb, hc, he⟩
  cases hw : d.while_ with
  | none =>
    rw [hw] at h
    simp only [] at h
    split at h
    · simp at h; rw [← h.2] at hσ; simp [Res.isSignal] at hσ
    · exact key _ _ h
  | some wc =>
    rw [hw] at h
    simp only [] at h
    split at h
    · simp at h; rw [← h.2] at hσ; simp [Res.isSignal] at hσ
    · obtain ⟨fr1, st1, h1⟩ := whileLoop_signal_origin wc _ _ fuel _ s' σ h hσ
      exact key fr1 st1 h1

end Pypyr.Flow
