/-
  C10, heap level: the merge table on OBJECTS with their classes.

  `types.are_all_this_type(T, current[k], v)` is `isinstance` against `Mapping`, `list`, `tuple` and
  `collections.abc.Set`: subclasses and mixed classes take the mergeable branches — frozenset with set,
  a tuple subclass with a plain tuple, ruamel's CommentedSeq with a list, OrderedDict with a dict. A heap
  cell carries a class tag (0 = the builtin; set tag 1 = frozenset; other numbers = subclasses).

  For an incoming item whose formatted key EXISTS in `current` (`AtKey`), per pair of kinds, whatever the
  two class tags are:

  * `mergeH_table_dict`   mapping × mapping → `merge_recurse(current[k], v)` on the existing OBJECT;
  * `mergeH_table_list`   list × list → `current[k].extend(formatted)`: the existing list OBJECT is
                          rewritten in place, keeps its class, members = old ++ formatted new; `current`
                          itself is not written;
  * `mergeH_table_tuple`  tuple × tuple → `current[k] = current[k] + formatted`: `current` is rewritten to
                          refer to a NEW plain tuple (tag 0) with members old ++ formatted new — except
                          CPython's shortcut: when the other operand is empty an EXACT tuple operand is
                          handed back itself;
  * `mergeH_table_set`    set × set → `current[k] = current[k] | formatted`: `current` is rewritten to refer
                          to a NEW set object whose class is that of the LEFT operand's base type
                          (frozenset stays frozenset; set and every set subclass give a plain set), members
                          = old, then the new ones not yet present.
  In every case the operand objects themselves (`old` except for list, `v`, the formatted `fv`) are not
  written.
-/
import PypyrModel.FmtHeap
import PypyrModel.Merge
import Props.Lemmas.C10_Heap

namespace Pypyr.C10H
open Pypyr Pypyr.FmtHeap Pypyr.MergeHeap Pypyr.C09

/-- The incoming item `(k, v)` of `merge_recurse(current = cur, …)` reaches a key that exists:
    `k` formats to the object `fk` (value `fkv`, hashable) in heap `h1`, `cur` is a dict object with
    pairs `kvs`, and `current[fk]` is the object `old`. -/
structure AtKey (fuel : Nat) (root cur k : Ref) (h : Heap) (fk : Ref) (h1 : Heap) (fkv : Val)
    (tc : Nat) (kvs : List (Ref × Ref)) (old : Ref) : Prop where
  hk : fmtAt fuel h root k = .ok (fk, h1)
  hfkv : deepVal h1 fk = some fkv
  hhash : hashableH (h1.length + 1) h1 fk = true
  hcur : pairsOf h1 cur = some (tc, kvs)
  hold : lookupH h1 kvs fkv = some old

/-- class of `a | b` for sets: the base type of the LEFT operand (`set_or` → `make_new_set_basetype`) -/
def unionTag (leftTag : Nat) : Nat := if leftTag == 1 then 1 else 0

theorem unionTag_frozenset : unionTag 1 = 1 := rfl
theorem unionTag_set : unionTag 0 = 0 := rfl
theorem unionTag_subclass (t : Nat) (h : t ≠ 1) : unionTag t = 0 := by
  unfold unionTag; simp [h]

theorem fmtAt_get {fuel : Nat} {h h' : Heap} {root x r : Ref} (hf : fmtAt fuel h root x = .ok (r, h'))
    {i : Nat} {c : Cell} (hc : h[i]? = some c) : h'[i]? = some c := by
  unfold fmtAt at hf
  exact (fmtHeap_ext hf).get hc

theorem fmtAt_length {fuel : Nat} {h h' : Heap} {root x r : Ref} (hf : fmtAt fuel h root x = .ok (r, h')) :
    h.length ≤ h'.length := by
  unfold fmtAt at hf
  exact (fmtHeap_ext hf).length_le

theorem get_set_ne {h : Heap} {w i : Nat} {c : Cell} (hne : w ≠ i) : (h.set w c)[i]? = h[i]? :=
  List.getElem?_set_ne hne

theorem ne_of_cells {h : Heap} {a b : Ref} {ca cb : Cell} (ha : h[a]? = some ca) (hb : h[b]? = some cb)
    (hne : ca ≠ cb) : a ≠ b := by
  intro e; subst e; rw [ha] at hb; cases hb; exact hne rfl

section table
variable {fuel : Nat} {recur : Ref → Ref → Heap → Except Exc Heap} {root cur k v : Ref} {h h1 h2 : Heap}
  {fk fv old : Ref} {fkv : Val} {tc : Nat} {kvs : List (Ref × Ref)}

/-- **mapping × mapping**, any two mapping classes: recurse into the existing dict OBJECT. -/
theorem mergeH_table_dict (a : AtKey fuel root cur k h fk h1 fkv tc kvs old)
    {tv to : Nat} {vs os : List (Ref × Ref)}
    (hv : h1[v]? = some (.dict tv vs)) (ho : h1[old]? = some (.dict to os)) :
    mergeItemH fuel recur root cur k v h = recur old v h1 := by
  unfold mergeItemH
  simp [a.hk, a.hfkv, hv, isStrLikeCell, isBinaryCell, a.hhash, a.hcur, a.hold, ho]

/-- **list × list**, any two list classes: the existing list OBJECT grows in place and keeps its class;
    members = old ++ formatted new; `current`, the incoming list and the formatted list are not written. -/
theorem mergeH_table_list (a : AtKey fuel root cur k h fk h1 fkv tc kvs old)
    {tv t t' : Nat} {vs xs ys : List Ref}
    (hv : h1[v]? = some (.list tv vs)) (ho : h1[old]? = some (.list t xs))
    (hf : fmtAt fuel h1 root v = .ok (fv, h2)) (hfc : h2[fv]? = some (.list t' ys)) :
    mergeItemH fuel recur root cur k v h = .ok (h2.set old (.list t (xs ++ ys))) ∧
    (h2.set old (.list t (xs ++ ys)))[old]? = some (.list t (xs ++ ys)) ∧
    (h2.set old (.list t (xs ++ ys)))[cur]? = h2[cur]? ∧
    (old ≠ v → (h2.set old (.list t (xs ++ ys)))[v]? = some (.list tv vs)) ∧
    (old ≠ fv → (h2.set old (.list t (xs ++ ys)))[fv]? = some (.list t' ys)) := by
  have ho2 := fmtAt_get hf ho
  refine ⟨?_, ?_, ?_, ?_, ?_⟩
  · unfold mergeItemH
    simp [a.hk, a.hfkv, hv, isStrLikeCell, isBinaryCell, a.hhash, a.hcur, a.hold, ho, hf, ho2, hfc]
  · exact List.getElem?_set_self (getElem?_lt ho2)
  · exact get_set_ne (ne_of_cells ho (pairsOf_some a.hcur) (by simp))
  · intro hne; rw [get_set_ne hne]; exact fmtAt_get hf hv
  · intro hne; rw [get_set_ne hne]; exact hfc

/-- **tuple × tuple**, any two tuple classes: concatenation is a NEW plain tuple — or, when the other
    operand is empty, an exact-tuple operand itself (`tuple_concat`). -/
theorem mergeH_table_tuple (a : AtKey fuel root cur k h fk h1 fkv tc kvs old)
    {tv tx ty : Nat} {vs xs ys : List Ref}
    (hv : h1[v]? = some (.tuple tv vs)) (ho : h1[old]? = some (.tuple tx xs))
    (hf : fmtAt fuel h1 root v = .ok (fv, h2)) (hfc : h2[fv]? = some (.tuple ty ys)) :
    mergeItemH fuel recur root cur k v h =
      if ys.isEmpty && tx == 0 then writeKey h2 cur fkv fk old
      else if xs.isEmpty && ty == 0 then writeKey h2 cur fkv fk fv
      else writeKey (h2 ++ [.tuple 0 (xs ++ ys)]) cur fkv fk h2.length := by
  have ho2 := fmtAt_get hf ho
  unfold mergeItemH
  simp only [a.hk, a.hfkv, hv, isStrLikeCell, isBinaryCell, a.hhash, a.hcur, a.hold, ho, hf, ho2, hfc, alloc]
  simp

/-- tuple × tuple when no shortcut applies (both operands non-empty, or the empty one's partner is a
    subclass instance): `current` now refers to the NEW object `h2.length`, a PLAIN tuple with members
    old ++ formatted new; neither operand is written. -/
theorem mergeH_table_tuple_new (a : AtKey fuel root cur k h fk h1 fkv tc kvs old)
    {tv tx ty : Nat} {vs xs ys : List Ref}
    (hv : h1[v]? = some (.tuple tv vs)) (ho : h1[old]? = some (.tuple tx xs))
    (hf : fmtAt fuel h1 root v = .ok (fv, h2)) (hfc : h2[fv]? = some (.tuple ty ys))
    (h1n : (ys.isEmpty && tx == 0) = false) (h2n : (xs.isEmpty && ty == 0) = false) :
    let h3 := h2 ++ [Cell.tuple 0 (xs ++ ys)]
    let h' := h3.set cur (.dict tc (setPairH h3 kvs fkv fk h2.length))
    mergeItemH fuel recur root cur k v h = .ok h' ∧
    h'[h2.length]? = some (.tuple 0 (xs ++ ys)) ∧
    h'[old]? = some (.tuple tx xs) ∧ h'[v]? = some (.tuple tv vs) ∧ h'[fv]? = some (.tuple ty ys) := by
  intro h3 h'
  have ho2 := fmtAt_get hf ho
  have hv2 := fmtAt_get hf hv
  have hc1 := pairsOf_some a.hcur
  have hc2 := fmtAt_get hf hc1
  have hcl : cur < h2.length := getElem?_lt hc2
  have ext3 : Ext h2 h3 := Ext.alloc h2 _ rfl
  have hc3 : h3[cur]? = some (.dict tc kvs) := ext3.get hc2
  have hp3 : pairsOf h3 cur = some (tc, kvs) := by unfold pairsOf; rw [hc3]
  refine ⟨?_, ?_, ?_, ?_, ?_⟩
  · rw [mergeH_table_tuple a hv ho hf hfc, h1n, h2n]
    simp only [Bool.false_eq_true, if_false, writeKey]
    show (match pairsOf h3 cur with
      | none => Except.error dangling
      | some (tag, kvs') => Except.ok (h3.set cur (.dict tag (setPairH h3 kvs' fkv fk h2.length)))) = _
    rw [hp3]
  · show (h3.set cur _)[h2.length]? = _
    rw [get_set_ne (Nat.ne_of_lt hcl)]
    exact getElem?_concat_length h2 _
  · show (h3.set cur _)[old]? = _
    rw [get_set_ne (ne_of_cells hc2 ho2 (by simp))]
    exact ext3.get ho2
  · show (h3.set cur _)[v]? = _
    rw [get_set_ne (ne_of_cells hc2 hv2 (by simp))]
    exact ext3.get hv2
  · show (h3.set cur _)[fv]? = _
    rw [get_set_ne (ne_of_cells hc2 hfc (by simp))]
    exact ext3.get hfc

/-- **set × set**, any two set classes (`collections.abc.Set`: set, frozenset, subclasses, in any
    combination): `current` now refers to the NEW object `h2.length`, whose class is the base type of the
    LEFT operand (`unionTag`), members = the existing ones, then the formatted new ones not yet present;
    neither operand is written. -/
theorem mergeH_table_set (a : AtKey fuel root cur k h fk h1 fkv tc kvs old)
    {tv t t' : Nat} {vs xs ys : List Ref}
    (hv : h1[v]? = some (.set tv vs)) (ho : h1[old]? = some (.set t xs))
    (hf : fmtAt fuel h1 root v = .ok (fv, h2)) (hfc : h2[fv]? = some (.set t' ys)) :
    let h3 := h2 ++ [Cell.set (unionTag t) (unionH h2 xs ys)]
    let h' := h3.set cur (.dict tc (setPairH h3 kvs fkv fk h2.length))
    mergeItemH fuel recur root cur k v h = .ok h' ∧
    h'[h2.length]? = some (.set (unionTag t) (unionH h2 xs ys)) ∧
    h'[old]? = some (.set t xs) ∧ h'[v]? = some (.set tv vs) ∧ h'[fv]? = some (.set t' ys) := by
  intro h3 h'
  have ho2 := fmtAt_get hf ho
  have hv2 := fmtAt_get hf hv
  have hc1 := pairsOf_some a.hcur
  have hc2 := fmtAt_get hf hc1
  have hcl : cur < h2.length := getElem?_lt hc2
  have ext3 : Ext h2 h3 := Ext.alloc h2 _ rfl
  have hc3 : h3[cur]? = some (.dict tc kvs) := ext3.get hc2
  have hp3 : pairsOf h3 cur = some (tc, kvs) := by unfold pairsOf; rw [hc3]
  refine ⟨?_, ?_, ?_, ?_, ?_⟩
  · unfold mergeItemH
    simp only [a.hk, a.hfkv, hv, isStrLikeCell, isBinaryCell, a.hhash, a.hcur, a.hold, ho, hf, ho2, hfc, alloc]
    simp only [Bool.false_eq_true, if_false, Bool.not_true, writeKey]
    show (match pairsOf h3 cur with
      | none => Except.error dangling
      | some (tag, kvs') => Except.ok (h3.set cur (.dict tag (setPairH h3 kvs' fkv fk h2.length)))) = _
    rw [hp3]
  · show (h3.set cur _)[h2.length]? = _
    rw [get_set_ne (Nat.ne_of_lt hcl)]
    exact getElem?_concat_length h2 _
  · show (h3.set cur _)[old]? = _
    rw [get_set_ne (ne_of_cells hc2 ho2 (by simp))]
    exact ext3.get ho2
  · show (h3.set cur _)[v]? = _
    rw [get_set_ne (ne_of_cells hc2 hv2 (by simp))]
    exact ext3.get hv2
  · show (h3.set cur _)[fv]? = _
    rw [get_set_ne (ne_of_cells hc2 hfc (by simp))]
    exact ext3.get hfc

/-- the members of a union: every existing member, in place and order, comes first -/
theorem unionH_prefix (h : Heap) (xs : List Ref) : ∀ ys : List Ref, xs <+: unionH h xs ys := by
  intro ys
  unfold unionH
  induction ys generalizing xs with
  | nil => exact List.prefix_refl _
  | cons y rest ih =>
    simp only [List.foldl_cons]
    split
    · exact ih xs
    · exact List.IsPrefix.trans (List.prefix_append xs [y]) (ih (xs ++ [y]))

end table

end Pypyr.C10H
