/- Facts about the atomic get-or-create specification (`specRun`) — independent of the
   transition system. -/
import PypyrModel.CacheTS

namespace Pypyr.CacheTS

theorem specRun_cons {cfg : Cfg} {e : Ev} {h : List Ev} {s} (hr : specRun cfg (e :: h) = some s) :
    ∃ s', specRun cfg h = some s' ∧ specStep cfg s' e = some s := by
  simp only [specRun] at hr
  split at hr
  · cases hr
  · rename_i s' hs'; exact ⟨s', hs', hr⟩

/-- every suffix of a specification trace is a specification trace -/
theorem specRun_suffix {cfg : Cfg} {h' h : List Ev} {s} (hs : h' <:+ h) (hr : specRun cfg h = some s) :
    ∃ s', specRun cfg h' = some s' := by
  obtain ⟨pre, rfl⟩ := hs
  induction pre generalizing s with
  | nil => exact ⟨s, hr⟩
  | cons e pre ih =>
    obtain ⟨s', hs', _⟩ := specRun_cons hr
    exact ih hs'

/-- an id seen under `k` since the last clear is what the table holds for `k` -/
theorem spec_epoch {cfg : Cfg} {k : Key} {c : Obj} : ∀ {h : List Ev} {s}, specRun cfg h = some s →
    c ∈ epochIds k h → s k = some c := by
  intro h
  induction h with
  | nil => intro s _ hc; simp [epochIds] at hc
  | cons e h ih =>
    intro s hr hc
    obtain ⟨s', hs', hstep⟩ := specRun_cons hr
    have ih' := ih hs'
    cases e with
    | clear t => simp [epochIds] at hc
    | hit t k' c' =>
      simp only [specStep] at hstep
      split at hstep <;> simp_all [epochIds]
      by_cases hk : k' = k <;> simp_all
      rcases hc with e | e <;> simp_all
    | create t k' c' =>
      simp only [specStep] at hstep
      split at hstep <;> simp_all [epochIds]
      subst hstep
      by_cases hk : k' = k <;> simp_all [setKey]
      intro e; exact absurd e.symm hk
    | fail t k' c' =>
      simp only [specStep] at hstep
      split at hstep <;> simp_all [epochIds]

/-- whatever the table holds for `k` was put there by the newest event on `k`, or is a seed -/
theorem spec_lastOn {cfg : Cfg} {k : Key} {c : Obj} : ∀ {h : List Ev} {s}, specRun cfg h = some s →
    s k = some c →
    cfg.seed k = some c ∨ (∃ t, lastOn k h = some (.hit t k c)) ∨ (∃ t, lastOn k h = some (.create t k c)) := by
  intro h
  induction h with
  | nil => intro s hr hc; simp [specRun] at hr; subst hr; exact .inl hc
  | cons e h ih =>
    intro s hr hc
    obtain ⟨s', hs', hstep⟩ := specRun_cons hr
    have ih' := ih hs'
    cases e with
    | clear t => simp [specStep] at hstep; subst hstep; exact .inl hc
    | hit t k' c' =>
      simp only [specStep] at hstep
      split at hstep <;> simp_all [lastOn, Ev.touches]
      by_cases hk : k' = k <;> simp_all
    | create t k' c' =>
      simp only [specStep] at hstep
      split at hstep <;> simp_all [lastOn, Ev.touches]
      subst hstep
      by_cases hk : k' = k <;> simp_all [setKey]
      have : ¬ k = k' := fun e => hk e.symm
      simp_all
    | fail t k' c' =>
      simp only [specStep] at hstep
      split at hstep <;> simp_all [lastOn, Ev.touches]
      by_cases hk : k' = k <;> simp_all

/-- whatever the table holds for `k` is a seed or was created by a creator call for `k` -/
theorem spec_created {cfg : Cfg} {k : Key} {c : Obj} : ∀ {h : List Ev} {s}, specRun cfg h = some s →
    s k = some c → cfg.seed k = some c ∨ ∃ t, .create t k c ∈ h := by
  intro h
  induction h with
  | nil => intro s hr hc; simp [specRun] at hr; subst hr; exact .inl hc
  | cons e h ih =>
    intro s hr hc
    obtain ⟨s', hs', hstep⟩ := specRun_cons hr
    have ih' := ih hs'
    cases e with
    | clear t => simp [specStep] at hstep; subst hstep; exact .inl hc
    | hit t k' c' =>
      simp only [specStep] at hstep
      split at hstep <;> simp_all
    | create t k' c' =>
      simp only [specStep] at hstep
      split at hstep <;> simp_all
      subst hstep
      by_cases hk : k = k' <;> simp_all [setKey]
    | fail t k' c' =>
      simp only [specStep] at hstep
      split at hstep <;> simp_all

theorem epochIds_mem_append {k : Key} {c : Obj} {mid rest : List Ev}
    (hmid : ∀ e ∈ mid, ∀ t, e ≠ .clear t) (hc : c ∈ epochIds k rest) : c ∈ epochIds k (mid ++ rest) := by
  induction mid with
  | nil => exact hc
  | cons e mid ih =>
    have ih' := ih (fun e he => hmid e (List.mem_cons_of_mem _ he))
    cases e with
    | clear t => exact absurd rfl (hmid _ List.mem_cons_self t)
    | hit t k' c' => simp only [List.cons_append, epochIds]; split <;> simp_all
    | create t k' c' => simp only [List.cons_append, epochIds]; split <;> simp_all
    | fail t k' c' => simpa [epochIds] using ih'

end Pypyr.CacheTS
