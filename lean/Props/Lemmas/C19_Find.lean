/- Helper lemmas for C19: the `find_pipeline` loop is `List.find?` over the candidate files;
   the sys.path invariant of sequential loads. -/
import PypyrModel.Resolve

namespace Pypyr.Resolve

/-- the candidate files, in search order -/
def candidates (fs : Fs) (parent : Option Path) (parts : List String) : List Path :=
  (searchDirs fs parent).map (· ++ fileParts parts)

theorem findPipeline_eq_find (fs : Fs) (file : List String) (dirs : List Path) :
    findPipeline fs file dirs = (dirs.map (· ++ file)).find? fs.isFile := by
  induction dirs with
  | nil => rfl
  | cons d ds ih =>
    simp only [findPipeline, List.map_cons, List.find?_cons]
    cases h : fs.isFile (d ++ file) <;> simp [ih]

/-- directories of files are directories -/
def FsOk (fs : Fs) : Prop := ∀ p, fs.isFile p = true → fs.dirExists (dirOf p) = true

/-- every cached file's directory is on sys.path, and every existing directory whose
    `add_sys_path` logic has run is on sys.path -/
structure Good (fs : Fs) (st : LoadState) : Prop where
  cached : ∀ p ∈ st.fileCache, dirOf p ∈ st.sysPath
  known : ∀ d ∈ st.known, fs.dirExists d = true → d ∈ st.sysPath

theorem addSysPath_mem (fs : Fs) (st : LoadState) (d : Path) (hg : ∀ d ∈ st.known, fs.dirExists d = true → d ∈ st.sysPath)
    (hd : fs.dirExists d = true) : d ∈ (addSysPath fs st d).sysPath := by
  unfold addSysPath
  split
  · rename_i hk; exact hg d hk hd
  · split <;> simp_all

theorem addSysPath_mono (fs : Fs) (st : LoadState) (d x : Path) (hx : x ∈ st.sysPath) :
    x ∈ (addSysPath fs st d).sysPath := by
  unfold addSysPath
  split
  · exact hx
  · split
    · simp only; split <;> simp_all
    · exact hx

theorem addSysPath_fileCache (fs : Fs) (st : LoadState) (d : Path) :
    (addSysPath fs st d).fileCache = st.fileCache := by
  unfold addSysPath
  split <;> try rfl
  split <;> rfl

theorem addSysPath_known (fs : Fs) (st : LoadState) (d : Path)
    (hg : ∀ d ∈ st.known, fs.dirExists d = true → d ∈ st.sysPath) :
    ∀ x ∈ (addSysPath fs st d).known, fs.dirExists x = true → x ∈ (addSysPath fs st d).sysPath := by
  intro x hx hex
  by_cases hxd : x = d
  · subst hxd; exact addSysPath_mem fs st x hg hex
  · apply addSysPath_mono
    apply hg x _ hex
    unfold addSysPath at hx
    split at hx
    · exact hx
    · split at hx <;> simp_all

theorem getPipelinePath_isFile (fs : Fs) (name : Name) (parent : Option Path) (p : Path)
    (h : getPipelinePath fs name parent = .ok p) : fs.isFile p = true := by
  unfold getPipelinePath at h
  cases name with
  | abs parts =>
    simp only at h
    split at h
    · cases h; assumption
    · cases h
  | rel parts =>
    simp only at h
    split at h
    · rename_i q hq
      cases h
      rw [findPipeline_eq_find] at hq
      exact List.find?_some hq
    · cases h

end Pypyr.Resolve
