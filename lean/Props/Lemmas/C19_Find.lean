/- Helper lemmas for C19: the `find_pipeline` loop is `List.find?` over the candidate files;
   the sys.path invariant of sequential loads. -/
import PypyrModel.Resolve

namespace Pypyr.Resolve

/-- the candidate files, in search order -/
def candidates (fs : Fs) (parent : Option Path) (parts : List String) : List Path :=
  (searchDirs fs parent).map (· ++ fileParts parts)

theorem findPipeline_eq_find (fs : Fs) (file : List String) (dirs : List Path) :
    findPipeline fs file dirs = (dirs.map (· ++ file)).find? fs.isFile := by
  induction dirs with
  | nil => rfl
  | cons d ds ih =>
    simp only [findPipeline, List.map_cons, List.find?_cons]
    cases h : fs.isFile (d ++ file) <;> simp [ih]

/-- directories of files are directories -/
def FsOk (fs : Fs) : Prop := ∀ p, fs.isFile p = true → fs.dirExists (dirOf p) = true

/-- every cached file's directory is on sys.path, and every directory whose `add_sys_path` logic has
    run and that was not absent when last looked at is on sys.path. Says nothing about any file
    system: it survives every change of the file system between loads. -/
structure Good (st : LoadState) : Prop where
  cached : ∀ p ∈ st.fileCache, dirOf p ∈ st.sysPath
  known : ∀ d ∈ st.known, d ∉ st.missing → d ∈ st.sysPath

theorem addSysPath_mem (fs : Fs) (st : LoadState) (d : Path) (hg : ∀ d ∈ st.known, d ∉ st.missing → d ∈ st.sysPath)
    (hd : fs.dirExists d = true) : d ∈ (addSysPath fs st d).sysPath := by
  unfold addSysPath
  split
  · rename_i hk; exact hg d hk.1 hk.2
  · simp only
    split <;> simp_all

theorem addSysPath_mono (fs : Fs) (st : LoadState) (d x : Path) (hx : x ∈ st.sysPath) :
    x ∈ (addSysPath fs st d).sysPath := by
  unfold addSysPath
  split
  · exact hx
  · split
    · simp only; split <;> simp_all
    · exact hx

theorem addSysPath_fileCache (fs : Fs) (st : LoadState) (d : Path) :
    (addSysPath fs st d).fileCache = st.fileCache := by
  unfold addSysPath
  split <;> try rfl
  split <;> rfl

theorem addSysPath_known (fs : Fs) (st : LoadState) (d : Path)
    (hg : ∀ d ∈ st.known, d ∉ st.missing → d ∈ st.sysPath) :
    ∀ x ∈ (addSysPath fs st d).known, x ∉ (addSysPath fs st d).missing → x ∈ (addSysPath fs st d).sysPath := by
  intro x hx hm
  unfold addSysPath at hx hm ⊢
  split
  · rename_i hk; simp only [hk] at hx hm; exact hg x hx hm
  · rename_i hk
    simp only [hk, if_false] at hx hm
    split
    · rename_i hd
      simp only [hd, if_true] at hx hm
      by_cases hxd : x = d
      · subst hxd; split <;> simp_all
      · have hx' : x ∈ st.known := by simpa [hxd] using hx
        have hm' : x ∉ st.missing := by
          intro h; apply hm; simp [List.mem_filter, h, hxd]
        have := hg x hx' hm'
        simp only; split <;> simp_all
    · rename_i hd
      simp only [hd] at hx hm
      simp only [Bool.false_eq_true, if_false] at hx hm
      by_cases hxd : x = d
      · subst hxd; simp at hm
      · have hx' : x ∈ st.known := by simpa [hxd] using hx
        have hm' : x ∉ st.missing := by
          intro h; apply hm; simp [h]
        exact hg x hx' hm'

theorem getPipelinePath_isFile (fs : Fs) (name : Name) (parent : Option Path) (p : Path)
    (h : getPipelinePath fs name parent = .ok p) : fs.isFile p = true := by
  unfold getPipelinePath at h
  cases name with
  | abs parts =>
    simp only at h
    split at h
    · cases h; assumption
    · cases h
  | rel parts =>
    simp only at h
    split at h
    · rename_i q hq
      cases h
      rw [findPipeline_eq_find] at hq
      exact List.find?_some hq
    · cases h

end Pypyr.Resolve
