/-
  Helper lemmas for C10 at heap level (`MergeHeap` in `PypyrModel/Merge.lean` over
  `PypyrModel/FmtHeap.lean`): ownership of objects.

  `P : Ref → Prop` is a set of addresses ("the objects the context may hold"): closed under "member
  of", containing every atom (leaf, bytearray, str — objects without members) and every address that
  is allocated later. Part 1: whatever `get_formatted_value` returns lies in `P`, and so do the members
  of everything it allocates (`fmtH_fresh_all`) — a formatted value never hands back a container of the
  value that was formatted. Part 2: `Context.merge` / `set_defaults` write only to list / dict objects
  of `P`.
-/
import PypyrModel.FmtHeap
import PypyrModel.Merge
import Props.Lemmas.C09_Heap

namespace Pypyr.C10H
open Pypyr Pypyr.FmtHeap Pypyr.C09

/-- The objects an object holds. -/
def children : Cell → List Ref
  | .list _ rs | .tuple _ rs | .set _ rs => rs
  | .dict _ kvs => kvs.map (·.1) ++ kvs.map (·.2)
  | .sic r | .jsonify r => [r]
  | _ => []

/-- Objects without members that formatting may hand back by reference. -/
def isAtomCell : Cell → Bool
  | .leaf _ | .mbytes _ | .str _ => true
  | _ => false

/-- The objects `merge` / `set_defaults` write to: `current[k] = …` (a dict), `current[k].extend(…)`
    (a list). -/
def isMutCell : Cell → Bool
  | .list _ _ | .dict _ _ => true
  | _ => false

/-- A `SicString` holds a str. -/
def SicOk (h : Heap) : Prop := ∀ (x p : Ref), h[x]? = some (Cell.sic p) → ∃ s, h[p]? = some (Cell.str s)

structure FInv (P : Ref → Prop) (h : Heap) : Prop where
  closed : ∀ x c, P x → h[x]? = some c → ∀ y ∈ children c, P y
  atoms : ∀ x c, h[x]? = some c → isAtomCell c = true → P x
  sic : SicOk h
  fresh : ∀ x, h.length ≤ x → P x

theorem getElem?_snoc {α} (l : List α) (a : α) (x : Nat) :
    (l ++ [a])[x]? = if x < l.length then l[x]? else if x = l.length then some a else none := by
  rw [List.getElem?_append]
  split
  · rfl
  · rename_i hx
    split
    · rename_i he; subst he; simp
    · rename_i hne
      have : 0 < x - l.length := by omega
      rw [List.getElem?_eq_none]; simp; omega

theorem FInv.alloc {P : Ref → Prop} {h : Heap} (inv : FInv P h) (c : Cell) (hc : isAllocCell c = true)
    (hch : ∀ y ∈ children c, P y) : FInv P (h ++ [c]) := by
  refine ⟨?_, ?_, ?_, ?_⟩
  · intro x c' hp hx y hy
    rw [getElem?_snoc] at hx
    split at hx
    · exact inv.closed x c' hp hx y hy
    · split at hx
      · cases hx; exact hch y hy
      · cases hx
  · intro x c' hx ha
    rw [getElem?_snoc] at hx
    split at hx
    · exact inv.atoms x c' hx ha
    · split at hx
      · rename_i he; exact inv.fresh x (by omega)
      · cases hx
  · intro x p hx
    rw [getElem?_snoc] at hx
    split at hx
    · obtain ⟨s, hs⟩ := inv.sic x p hx
      refine ⟨s, ?_⟩
      have hp : p < h.length := by
        rcases Nat.lt_or_ge p h.length with hlt | hge
        · exact hlt
        · rw [List.getElem?_eq_none hge] at hs; cases hs
      rw [List.getElem?_append_left hp]; exact hs
    · split at hx
      · cases hx; simp [isAllocCell] at hc
      · cases hx
  · intro x hx
    simp at hx
    exact inv.fresh x (by omega)

def MemoP (P : Ref → Prop) (m : Memo) : Prop := ∀ r d, memoGet m r = some d → P d

theorem MemoP.nil (P : Ref → Prop) : MemoP P [] := by intro r d h; simp [memoGet] at h

theorem MemoP.memoIf {P : Ref → Prop} {m : Memo} (hm : MemoP P m) (r nr : Ref) (hp : P nr) :
    MemoP P (memoIf m r nr) := by
  intro x d hx
  simp only [FmtHeap.memoIf] at hx
  split at hx
  · exact hm x d hx
  · rw [memoGet_memoSet] at hx
    split at hx
    · cases hx; exact hp
    · exact hm x d hx

def CtxP (P : Ref → Prop) (ctx : HCtx) : Prop := ∀ k o, HCtx.get? ctx k = some o → P o

theorem All₂.right {α β} {R : β → Prop} : ∀ {xs : List α} {ys : List β},
    All₂ (fun _ y => R y) xs ys → ∀ y ∈ ys, R y
  | _, _, .nil => by simp
  | _, _, .cons h t => by
    intro y hy
    rcases List.mem_cons.mp hy with rfl | hy
    · exact h
    · exact All₂.right t y hy

/-! ### rebuilding dicts and sets keeps to the given references -/

theorem insKey_mem {acc : List (Val × Ref × Ref)} {kv : Val} {k v : Ref} {e : Val × Ref × Ref}
    (he : e ∈ insKey acc kv k v) :
    (∃ e' ∈ acc, e.2.1 = e'.2.1 ∧ (e.2.2 = e'.2.2 ∨ e.2.2 = v)) ∨ (e.2.1 = k ∧ e.2.2 = v) := by
  induction acc with
  | nil => simp [insKey] at he; subst he; exact Or.inr ⟨rfl, rfl⟩
  | cons a rest ih =>
    obtain ⟨kv', k', v'⟩ := a
    simp only [insKey] at he
    split at he
    · rcases List.mem_cons.mp he with rfl | he
      · exact Or.inl ⟨(kv', k', v'), by simp, rfl, Or.inr rfl⟩
      · exact Or.inl ⟨e, by simp [he], rfl, Or.inl rfl⟩
    · rcases List.mem_cons.mp he with rfl | he
      · exact Or.inl ⟨(kv', k', v'), by simp, rfl, Or.inl rfl⟩
      · rcases ih he with ⟨e', he', h1, h2⟩ | h
        · exact Or.inl ⟨e', by simp [he'], h1, h2⟩
        · exact Or.inr h

theorem rebuildDictH_refs {P : Ref → Prop} {h : Heap} :
    ∀ (kvs : List (Ref × Ref)) (acc : List (Val × Ref × Ref)) (out : List (Ref × Ref)),
      (∀ p ∈ kvs, P p.1 ∧ P p.2) → (∀ e ∈ acc, P e.2.1 ∧ P e.2.2) →
      rebuildDictH h kvs acc = .ok out → ∀ p ∈ out, P p.1 ∧ P p.2
  | [], acc, out, _, hacc, hr => by
    simp only [rebuildDictH] at hr
    cases hr
    intro p hp
    obtain ⟨e, he, rfl⟩ := List.mem_map.mp hp
    exact hacc e he
  | (k, v) :: rest, acc, out, hk, hacc, hr => by
    simp only [rebuildDictH] at hr
    split at hr
    · cases hr
    · rename_i kv hkv
      refine rebuildDictH_refs rest _ out (fun p hp => hk p (by simp [hp])) ?_ hr
      intro e he
      have hkv' := hk (k, v) (by simp)
      rcases insKey_mem he with ⟨e', he', h1, h2⟩ | ⟨h1, h2⟩
      · have := hacc e' he'
        refine ⟨by rw [h1]; exact this.1, ?_⟩
        rcases h2 with h2 | h2
        · rw [h2]; exact this.2
        · rw [h2]; exact hkv'.2
      · rw [h1, h2]; exact hkv'

theorem insMem_mem {acc : List (Val × Ref)} {mv : Val} {m : Ref} {e : Val × Ref}
    (he : e ∈ insMem acc mv m) : e ∈ acc ∨ e.2 = m := by
  induction acc with
  | nil => simp [insMem] at he; subst he; exact Or.inr rfl
  | cons a rest ih =>
    obtain ⟨mv', m'⟩ := a
    simp only [insMem] at he
    split at he
    · exact Or.inl he
    · rcases List.mem_cons.mp he with rfl | he
      · exact Or.inl (by simp)
      · rcases ih he with h | h
        · exact Or.inl (by simp [h])
        · exact Or.inr h

theorem rebuildSetH_refs {P : Ref → Prop} {h : Heap} :
    ∀ (ms : List Ref) (acc : List (Val × Ref)) (out : List Ref),
      (∀ m ∈ ms, P m) → (∀ e ∈ acc, P e.2) → rebuildSetH h ms acc = .ok out → ∀ m ∈ out, P m
  | [], acc, out, _, hacc, hr => by
    simp only [rebuildSetH] at hr
    cases hr
    intro m hm
    obtain ⟨e, he, rfl⟩ := List.mem_map.mp hm
    exact hacc e he
  | m :: rest, acc, out, hm, hacc, hr => by
    simp only [rebuildSetH] at hr
    split at hr
    · cases hr
    · rename_i mv hmv
      refine rebuildSetH_refs rest _ out (fun x hx => hm x (by simp [hx])) ?_ hr
      intro e he
      rcases insMem_mem he with h1 | h1
      · exact hacc e h1
      · rw [h1]; exact hm m (by simp)

/-! ### Part 1: what formatting returns, and what it allocates, is owned by `P` -/

section fresh
variable (P : Ref → Prop)

/-- State invariant threaded through a traversal. -/
def SInv (st : St) : Prop := FInv P st.heap ∧ MemoP P st.memo

theorem finish_ok {st1 : St} {m : Memo} {r : Ref} {c : Cell} (inv : FInv P st1.heap) (hm : MemoP P m)
    (hc : isAllocCell c = true) (hch : ∀ y ∈ children c, P y) :
    P st1.heap.length ∧ SInv P { heap := st1.heap ++ [c], memo := memoIf m r st1.heap.length } :=
  ⟨inv.fresh _ (Nat.le_refl _), inv.alloc c hc hch, hm.memoIf r _ (inv.fresh _ (Nat.le_refl _))⟩

theorem fmtH_fresh_all : ∀ fuel : Nat,
    (∀ ctx isRec r st r' st', CtxP P ctx → SInv P st →
      fmtH fuel ctx isRec r st = .ok (r', st') → P r' ∧ SInv P st') ∧
    (∀ ctx isRec name spec h o b h', CtxP P ctx → FInv P h →
      fmtHField fuel ctx isRec name spec h = .ok (o, b, h') → P o ∧ FInv P h') ∧
    (∀ ctx isRec r s h r' h', CtxP P ctx → FInv P h → P r →
      fmtHKeep fuel ctx isRec r s h = .ok (r', h') → P r' ∧ FInv P h') := by
  intro fuel
  induction fuel with
  | zero =>
    refine ⟨?_, ?_, ?_⟩
    · intro ctx isRec r st r' st' _ _ h; simp [fmtH] at h
    · intro ctx isRec name spec h o b h' _ _ hh; simp [fmtHField] at hh
    · intro ctx isRec r s h r' h' _ _ _ hh; simp [fmtHKeep] at hh
  | succ n ih =>
    obtain ⟨ihH, ihF, ihK⟩ := ih
    refine ⟨?_, ?_, ?_⟩
    · intro ctx isRec r st r' st' hctx hst h
      obtain ⟨inv, hmemo⟩ := hst
      unfold fmtH at h
      split at h
      · rename_i d hd
        have hpd := hmemo r d (memoHit_some hd).1
        cases h
        exact ⟨hpd, inv, hmemo⟩
      · split at h
        · cases h
        · rename_i cell hcell
          split at h
          · -- leaf
            cases h; exact ⟨inv.atoms r _ hcell rfl, inv, hmemo⟩
          · -- mbytes
            cases h; exact ⟨inv.atoms r _ hcell rfl, inv, hmemo⟩
          · -- sic
            rename_i p
            obtain ⟨s, hs⟩ := inv.sic r p hcell
            have hp := inv.atoms p _ hs rfl
            cases h
            exact ⟨hp, inv, hmemo.memoIf r _ hp⟩
          · -- pyName
            split at h
            · cases h
            · rename_i o ho
              have hpo := hctx _ o ho
              cases h
              exact ⟨hpo, inv, hmemo.memoIf r _ hpo⟩
          · -- jsonify
            split at h
            · cases h
            · rename_i fp st1 hin
              split at h
              · cases h
              · split at h
                · cases h
                · rename_i s hs
                  simp only [alloc] at h
                  cases h
                  have ⟨_, inv1, _⟩ := ihH _ _ _ { heap := st.heap, memo := [] } _ _ hctx ⟨inv, MemoP.nil P⟩ hin
                  exact finish_ok P inv1 hmemo rfl (by simp [children])
          · -- str
            split at h
            · cases h
            · rename_i nr h1 hk
              have ⟨hp, inv1⟩ := ihK _ _ _ _ _ _ _ hctx inv (inv.atoms r _ hcell rfl) hk
              cases h
              exact ⟨hp, inv1, hmemo.memoIf r _ hp⟩
          · -- dict
            rename_i tag kvs
            split at h
            · cases h
            · rename_i kvs' st1 hm
              split at h
              · cases h
              · rename_i kvs'' hr
                simp only [alloc] at h
                cases h
                have hrel := mapS_rel (SInv P) (fun (_ : Ref × Ref) (y : Ref × Ref) => P y.1 ∧ P y.2)
                  (by
                    intro kv s y s' hs hy
                    split at hy
                    · cases hy
                    · rename_i k s1 hk
                      split at hy
                      · cases hy
                      · rename_i v s2 hv
                        split at hy
                        · cases hy
                          have ⟨pk, hs1⟩ := ihH _ _ _ _ _ _ hctx hs hk
                          have ⟨pv, hs2⟩ := ihH _ _ _ _ _ _ hctx hs1 hv
                          exact ⟨⟨pk, pv⟩, hs2⟩
                        · cases hy)
                  kvs st kvs' st1 ⟨inv, hmemo⟩ hm
                obtain ⟨hall, inv1, hmemo1⟩ := hrel
                have hrefs := rebuildDictH_refs (P := P) kvs' [] kvs'' (All₂.right hall) (by simp) hr
                refine finish_ok P inv1 hmemo1 rfl ?_
                intro y hy
                simp only [children, List.mem_append, List.mem_map] at hy
                rcases hy with ⟨p, hp, rfl⟩ | ⟨p, hp, rfl⟩
                · exact (hrefs p hp).1
                · exact (hrefs p hp).2
          · -- list
            rename_i tag rs
            split at h
            · cases h
            · rename_i rs' st1 hm
              simp only [alloc] at h
              cases h
              have hrel := mapS_rel (SInv P) (fun (_ : Ref) (y : Ref) => P y)
                (fun x s y s' hs hy => ihH ctx isRec x s y s' hctx hs hy) rs st rs' st1 ⟨inv, hmemo⟩ hm
              obtain ⟨hall, inv1, hmemo1⟩ := hrel
              exact finish_ok P inv1 hmemo1 rfl (by simpa [children] using All₂.right hall)
          · -- tuple
            rename_i tag rs
            split at h
            · cases h
            · rename_i rs' st1 hm
              simp only [alloc] at h
              cases h
              have hrel := mapS_rel (SInv P) (fun (_ : Ref) (y : Ref) => P y)
                (fun x s y s' hs hy => ihH ctx isRec x s y s' hctx hs hy) rs st rs' st1 ⟨inv, hmemo⟩ hm
              obtain ⟨hall, inv1, hmemo1⟩ := hrel
              exact finish_ok P inv1 hmemo1 rfl (by simpa [children] using All₂.right hall)
          · -- set
            rename_i tag rs
            split at h
            · cases h
            · rename_i rs' st1 hm
              split at h
              · cases h
              · rename_i rs'' hr
                simp only [alloc] at h
                cases h
                have hrel := mapS_rel (SInv P) (fun (_ : Ref) (y : Ref) => P y)
                  (by
                    intro m s y s' hs hy
                    split at hy
                    · cases hy
                    · rename_i m' s1 hm'
                      split at hy
                      · cases hy; exact ihH _ _ _ _ _ _ hctx hs hm'
                      · cases hy)
                  rs st rs' st1 ⟨inv, hmemo⟩ hm
                obtain ⟨hall, inv1, hmemo1⟩ := hrel
                have hrefs := rebuildSetH_refs (P := P) rs' [] rs'' (All₂.right hall) (by simp) hr
                exact finish_ok P inv1 hmemo1 rfl (by simpa [children] using hrefs)
    · intro ctx isRec name spec h o b h' hctx inv hh
      unfold fmtHField at hh
      split at hh
      · cases hh
      · rename_i o0 ho
        split at hh
        · split at hh
          · cases hh
          · rename_i o' st2 hin
            cases hh
            have ⟨hp, inv2, _⟩ := ihH _ _ _ { heap := h, memo := [] } _ _ hctx ⟨inv, MemoP.nil P⟩ hin
            exact ⟨hp, inv2⟩
        · have hpo := hctx _ _ ho
          cases hh; exact ⟨hpo, inv⟩
    · intro ctx isRec r s h r' h' hctx inv hr hh
      unfold fmtHKeep at hh
      split at hh
      · cases hh
      · split at hh
        · simp only [alloc, Prod.swap] at hh
          cases hh
          exact ⟨inv.fresh _ (Nat.le_refl _), inv.alloc _ rfl (by simp [children])⟩
        · split at hh
          · cases hh; exact ⟨hr, inv⟩
          · simp only [alloc, Prod.swap] at hh
            cases hh
            exact ⟨inv.fresh _ (Nat.le_refl _), inv.alloc _ rfl (by simp [children])⟩
        · split at hh
          · cases hh
          · rename_i o recursed h1 hf
            have ⟨hpo, inv1⟩ := ihF _ _ _ _ _ _ _ _ hctx inv hf
            split at hh
            · cases hh; exact ⟨hpo, inv1⟩
            · split at hh
              · cases hh
              · rename_i o' st2 hin
                cases hh
                have ⟨hp, inv2, _⟩ := ihH _ _ _ { heap := h1, memo := [] } _ _ hctx ⟨inv1, MemoP.nil P⟩ hin
                exact ⟨hp, inv2⟩
        · split at hh
          · cases hh
          · rename_i strs h1 hm
            simp only [alloc, Prod.swap] at hh
            cases hh
            have hrel := mapS_rel (FInv P) (fun (_ : Piece) (_ : String) => True)
              (by
                intro p hh0 y hh1 hinv hy
                split at hy
                · cases hy; exact ⟨trivial, hinv⟩
                · split at hy
                  · cases hy
                  · rename_i o b h2 hf
                    split at hy
                    · cases hy
                    · cases hy; exact ⟨trivial, (ihF _ _ _ _ _ _ _ _ hctx hinv hf).2⟩)
              _ h strs h1 inv hm
            exact ⟨hrel.2.fresh _ (Nat.le_refl _), hrel.2.alloc _ rfl (by simp [children])⟩

end fresh

/-- **Freshness of formatted values.** A top-level `get_formatted_value` call against a context whose
    values lie in `P`: the result lies in `P` and the heap afterwards still satisfies the ownership
    invariant — everything allocated holds only objects of `P`. -/
theorem fmtHeap_fresh {P : Ref → Prop} {fuel : Nat} {ctx : HCtx} {h h' : Heap} {r r' : Ref}
    (hctx : CtxP P ctx) (inv : FInv P h) (hf : fmtHeap fuel ctx h r = .ok (r', h')) :
    P r' ∧ FInv P h' := by
  unfold fmtHeap at hf
  split at hf
  · cases hf
  · rename_i r1 st hst
    cases hf
    have ⟨hp, inv1, _⟩ := (fmtH_fresh_all P fuel).1 _ _ _ { heap := h, memo := [] } _ _ hctx ⟨inv, MemoP.nil P⟩ hst
    exact ⟨hp, inv1⟩

theorem fmtHeap_ext {fuel : Nat} {ctx : HCtx} {h h' : Heap} {r r' : Ref}
    (hf : fmtHeap fuel ctx h r = .ok (r', h')) : Ext h h' := by
  unfold fmtHeap at hf
  split at hf
  · cases hf
  · rename_i r1 st hst
    cases hf
    exact (fmtH_good hst).ext

/-! ### Part 2: merge / set_defaults write only to list / dict objects of `P` -/

open Pypyr.MergeHeap

theorem getElem?_lt {α} {l : List α} {x : Nat} {a : α} (h : l[x]? = some a) : x < l.length := by
  rcases Nat.lt_or_ge x l.length with hlt | hge
  · exact hlt
  · rw [List.getElem?_eq_none hge] at h; cases h

/-- Overwriting a list / dict object of the heap by a list / dict whose members lie in `P`. -/
theorem FInv.set {P : Ref → Prop} {h : Heap} (inv : FInv P h) {w : Ref} {cw c' : Cell}
    (hw : h[w]? = some cw) (hcw : isMutCell cw = true) (hc' : isMutCell c' = true)
    (hch : ∀ y ∈ children c', P y) : FInv P (h.set w c') := by
  have hwl := getElem?_lt hw
  have hself : (h.set w c')[w]? = some c' := List.getElem?_set_self hwl
  refine ⟨?_, ?_, ?_, ?_⟩
  · intro x c hp hx y hy
    by_cases he : w = x
    · subst he
      rw [hself] at hx
      cases hx; exact hch y hy
    · rw [List.getElem?_set_ne he] at hx
      exact inv.closed x c hp hx y hy
  · intro x c hx ha
    by_cases he : w = x
    · subst he
      rw [hself] at hx
      cases hx
      cases c' <;> simp [isMutCell] at hc' <;> simp [isAtomCell] at ha
    · rw [List.getElem?_set_ne he] at hx
      exact inv.atoms x c hx ha
  · intro x p hx
    by_cases he : w = x
    · subst he
      rw [hself] at hx
      cases hx
      simp [isMutCell] at hc'
    · rw [List.getElem?_set_ne he] at hx
      obtain ⟨s, hs⟩ := inv.sic x p hx
      refine ⟨s, ?_⟩
      have hne : w ≠ p := by
        intro e; subst e; rw [hw] at hs; cases hs; simp [isMutCell] at hcw
      rw [List.getElem?_set_ne hne]; exact hs
  · intro x hx
    rw [List.length_set] at hx
    exact inv.fresh x hx

/-- The merge-level invariant: ownership (`FInv`), no list / dict object of `P` is a protected
    address (`A`), every protected address still holds what it held in the initial heap `h0`. -/
structure MInv (P A : Ref → Prop) (h0 h : Heap) : Prop where
  finv : FInv P h
  sep : ∀ x c, P x → A x → h[x]? = some c → isMutCell c = false
  frozen : ∀ x, A x → h[x]? = h0[x]?
  bound : ∀ x, A x → x < h.length

theorem ext_get_lt {h h' : Heap} (e : Ext h h') {x : Nat} (hx : x < h.length) : h'[x]? = h[x]? := by
  obtain ⟨ext, rfl, _⟩ := e
  exact List.getElem?_append_left hx

theorem MInv.ext {P A : Ref → Prop} {h0 h h' : Heap} (m : MInv P A h0 h) (e : Ext h h')
    (inv' : FInv P h') : MInv P A h0 h' := by
  refine ⟨inv', ?_, ?_, ?_⟩
  · intro x c hp ha hx
    rw [ext_get_lt e (m.bound x ha)] at hx
    exact m.sep x c hp ha hx
  · intro x ha
    rw [ext_get_lt e (m.bound x ha)]
    exact m.frozen x ha
  · intro x ha
    exact Nat.lt_of_lt_of_le (m.bound x ha) e.length_le

/-- An in-place write to a list / dict object of `P` touches no protected address. -/
theorem MInv.set {P A : Ref → Prop} {h0 h : Heap} (m : MInv P A h0 h) {w : Ref} {cw c' : Cell}
    (hpw : P w) (hw : h[w]? = some cw) (hcw : isMutCell cw = true) (hc' : isMutCell c' = true)
    (hch : ∀ y ∈ children c', P y) : MInv P A h0 (h.set w c') := by
  have hnA : ¬ A w := by
    intro ha
    have := m.sep w cw hpw ha hw
    rw [hcw] at this; cases this
  refine ⟨m.finv.set hw hcw hc' hch, ?_, ?_, ?_⟩
  · intro x c hp ha hx
    have hne : w ≠ x := by intro e; subst e; exact hnA ha
    rw [List.getElem?_set_ne hne] at hx
    exact m.sep x c hp ha hx
  · intro x ha
    have hne : w ≠ x := by intro e; subst e; exact hnA ha
    rw [List.getElem?_set_ne hne]
    exact m.frozen x ha
  · intro x ha
    rw [List.length_set]; exact m.bound x ha

theorem MInv.alloc {P A : Ref → Prop} {h0 h : Heap} (m : MInv P A h0 h) (c : Cell)
    (hc : isAllocCell c = true) (hch : ∀ y ∈ children c, P y) : MInv P A h0 (h ++ [c]) :=
  m.ext (Ext.alloc h c hc) (m.finv.alloc c hc hch)

theorem HCtx_get?_mem {c : HCtx} {k : String} {o : Ref} (h : HCtx.get? c k = some o) :
    ∃ p ∈ c, p.2 = o := by
  induction c with
  | nil => simp [HCtx.get?] at h
  | cons a rest ih =>
    obtain ⟨k', r⟩ := a
    simp only [HCtx.get?] at h
    split at h
    · cases h; exact ⟨(k', o), by simp, rfl⟩
    · obtain ⟨p, hp, rfl⟩ := ih h
      exact ⟨p, by simp [hp], rfl⟩

/-- What `{name}` expressions see are members of the context object. -/
theorem hctxOf_CtxP {P : Ref → Prop} {h : Heap} (inv : FInv P h) {root : Ref} (hroot : P root) :
    CtxP P (hctxOf h root) := by
  intro k o ho
  unfold hctxOf at ho
  split at ho
  · rename_i tag kvs hc
    obtain ⟨p, hp, rfl⟩ := HCtx_get?_mem ho
    obtain ⟨kv, hkv, hf⟩ := List.mem_filterMap.mp hp
    split at hf
    · cases hf
      refine inv.closed root _ hroot hc _ ?_
      simp only [children, List.mem_append, List.mem_map]
      exact Or.inr ⟨kv, hkv, rfl⟩
    · cases hf
  · simp [HCtx.get?] at ho

theorem fmtAt_inv {P A : Ref → Prop} {h0 h h' : Heap} {fuel : Nat} {root x r : Ref}
    (m : MInv P A h0 h) (hroot : P root) (hf : fmtAt fuel h root x = .ok (r, h')) :
    P r ∧ MInv P A h0 h' := by
  unfold fmtAt at hf
  have ⟨hp, inv'⟩ := fmtHeap_fresh (hctxOf_CtxP m.finv hroot) m.finv hf
  exact ⟨hp, m.ext (fmtHeap_ext hf) inv'⟩

theorem lookupH_mem {h : Heap} {kvs : List (Ref × Ref)} {kv : Val} {v : Ref}
    (hl : lookupH h kvs kv = some v) : v ∈ kvs.map (·.2) := by
  induction kvs with
  | nil => simp [lookupH] at hl
  | cons a rest ih =>
    obtain ⟨k', v'⟩ := a
    simp only [lookupH] at hl
    split at hl
    · cases hl; simp
    · simp [ih hl]

theorem setPairH_mem {h : Heap} {kvs : List (Ref × Ref)} {kv : Val} {k v : Ref} {p : Ref × Ref}
    (hp : p ∈ setPairH h kvs kv k v) :
    (p.1 ∈ kvs.map (·.1) ∨ p.1 = k) ∧ (p.2 ∈ kvs.map (·.2) ∨ p.2 = v) := by
  induction kvs with
  | nil => simp [setPairH] at hp; subst hp; exact ⟨Or.inr rfl, Or.inr rfl⟩
  | cons a rest ih =>
    obtain ⟨k', v'⟩ := a
    simp only [setPairH] at hp
    split at hp
    · rcases List.mem_cons.mp hp with rfl | hp
      · exact ⟨Or.inl (by simp), Or.inr rfl⟩
      · refine ⟨Or.inl ?_, Or.inl ?_⟩
        · simp only [List.map_cons, List.mem_cons, List.mem_map]; exact Or.inr ⟨p, hp, rfl⟩
        · simp only [List.map_cons, List.mem_cons, List.mem_map]; exact Or.inr ⟨p, hp, rfl⟩
    · rcases List.mem_cons.mp hp with rfl | hp
      · exact ⟨Or.inl (by simp), Or.inl (by simp)⟩
      · have ⟨h1, h2⟩ := ih hp
        refine ⟨?_, ?_⟩
        · rcases h1 with h1 | h1
          · exact Or.inl (by simp only [List.map_cons, List.mem_cons]; exact Or.inr h1)
          · exact Or.inr h1
        · rcases h2 with h2 | h2
          · exact Or.inl (by simp only [List.map_cons, List.mem_cons]; exact Or.inr h2)
          · exact Or.inr h2

theorem pairsOf_some {h : Heap} {d : Ref} {tag : Nat} {kvs : List (Ref × Ref)}
    (hp : pairsOf h d = some (tag, kvs)) : h[d]? = some (.dict tag kvs) := by
  unfold pairsOf at hp
  split at hp
  · rename_i t k hc; cases hp; exact hc
  · cases hp

/-- `current[k] = v` with `current`, `k`, `v` in `P`. -/
theorem writeKey_inv {P A : Ref → Prop} {h0 h h' : Heap} {cur k v : Ref} {kv : Val}
    (m : MInv P A h0 h) (hcur : P cur) (hk : P k) (hv : P v)
    (hw : writeKey h cur kv k v = .ok h') : MInv P A h0 h' := by
  unfold writeKey at hw
  split at hw
  · cases hw
  · rename_i tag kvs hp
    cases hw
    have hc := pairsOf_some hp
    refine m.set hcur hc rfl rfl ?_
    intro y hy
    simp only [children, List.mem_append, List.mem_map] at hy
    have hold : ∀ z ∈ children (.dict tag kvs), P z := m.finv.closed cur _ hcur hc
    rcases hy with ⟨p, hp', rfl⟩ | ⟨p, hp', rfl⟩
    · rcases (setPairH_mem hp').1 with h1 | h1
      · exact hold _ (by simp only [children, List.mem_append]; exact Or.inl h1)
      · rw [h1]; exact hk
    · rcases (setPairH_mem hp').2 with h1 | h1
      · exact hold _ (by simp only [children, List.mem_append]; exact Or.inr h1)
      · rw [h1]; exact hv

theorem storeFormatted_inv {P A : Ref → Prop} {h0 h h' : Heap} {fuel : Nat} {root cur fk v : Ref} {fkv : Val}
    (m : MInv P A h0 h) (hroot : P root) (hcur : P cur) (hfk : P fk)
    (hs : storeFormatted fuel root cur fkv fk v h = .ok h') : MInv P A h0 h' := by
  unfold storeFormatted at hs
  split at hs
  · cases hs
  · rename_i fv h2 hf
    have ⟨hpv, m2⟩ := fmtAt_inv m hroot hf
    exact writeKey_inv m2 hcur hfk hpv hs

theorem unionH_mem {h : Heap} {xs : List Ref} : ∀ {ys : List Ref} {y : Ref},
    y ∈ unionH h xs ys → y ∈ xs ∨ y ∈ ys := by
  intro ys
  unfold unionH
  induction ys generalizing xs with
  | nil => intro y hy; exact Or.inl (by simpa using hy)
  | cons a rest ih =>
    intro y hy
    simp only [List.foldl_cons] at hy
    rcases ih hy with h1 | h1
    · split at h1
      · exact Or.inl h1
      · rcases List.mem_append.mp h1 with h2 | h2
        · exact Or.inl h2
        · simp at h2; subst h2; exact Or.inr (by simp)
    · exact Or.inr (by simp [h1])

/-- A child of a `P` object is in `P`: the value looked up in a dict of `P`. -/
theorem lookup_P {P A : Ref → Prop} {h0 h : Heap} (m : MInv P A h0 h) {cur : Ref} (hcur : P cur)
    {tag : Nat} {kvs : List (Ref × Ref)} (hp : pairsOf h cur = some (tag, kvs)) {kv : Val} {old : Ref}
    (hl : lookupH h kvs kv = some old) : P old := by
  refine m.finv.closed cur _ hcur (pairsOf_some hp) old ?_
  simp only [children, List.mem_append]
  exact Or.inr (lookupH_mem hl)

section items
variable {P A : Ref → Prop} {h0 : Heap} {fuel : Nat} {root : Ref}

/-- What a recursive call `merge_recurse(current[k], v)` has to guarantee. -/
def RecurOk (P A : Ref → Prop) (h0 : Heap) (recur : Ref → Ref → Heap → Except Exc Heap) : Prop :=
  ∀ cur add h h', MInv P A h0 h → P cur → recur cur add h = .ok h' → MInv P A h0 h'

theorem mergeItemH_inv {recur : Ref → Ref → Heap → Except Exc Heap} (hrec : RecurOk P A h0 recur)
    {cur k v : Ref} {h h' : Heap} (m : MInv P A h0 h) (hroot : P root) (hcur : P cur)
    (hi : mergeItemH fuel recur root cur k v h = .ok h') : MInv P A h0 h' := by
  unfold mergeItemH at hi
  split at hi
  · cases hi
  · rename_i fk h1 hfk
    have ⟨pfk, m1⟩ := fmtAt_inv m hroot hfk
    split at hi
    · rename_i fkv vc hdv hvc
      simp only [] at hi
      split at hi
      · -- str-like: overwrite with the formatted value
        split at hi
        · cases hi
        · rename_i fv h2 hfv
          have ⟨pfv, m2⟩ := fmtAt_inv m1 hroot hfv
          split at hi
          · exact writeKey_inv m2 hcur pfk pfv hi
          · cases hi
      · split at hi
        · -- bytes / bytearray: stored by reference (an atom)
          split at hi
          · have pv : P v := by
              refine m1.finv.atoms v vc hvc ?_
              rename_i hb _
              cases vc <;> simp [isBinaryCell] at hb <;> first | rfl | (rename_i w; cases w <;> simp [isBinaryCell] at hb <;> rfl)
            exact writeKey_inv m1 hcur pfk pv hi
          · cases hi
        · split at hi
          · cases hi
          · split at hi
            · cases hi
            · rename_i tag kvs hp
              split at hi
              · exact storeFormatted_inv m1 hroot hcur pfk hi
              · rename_i old hl
                have pold := lookup_P m1 hcur hp hl
                split at hi
                · -- dict × dict: recurse into the context's own dict object
                  exact hrec _ _ _ _ m1 pold hi
                · -- list × list: the context's list object grows in place
                  split at hi
                  · cases hi
                  · rename_i fv h2 hfv
                    have ⟨pfv, m2⟩ := fmtAt_inv m1 hroot hfv
                    split at hi
                    · rename_i t xs t' ys hold hnew
                      cases hi
                      refine m2.set pold hold rfl rfl ?_
                      intro y hy
                      simp only [children, List.mem_append] at hy
                      rcases hy with hy | hy
                      · exact m2.finv.closed old _ pold hold y (by simpa [children] using hy)
                      · exact m2.finv.closed fv _ pfv hnew y (by simpa [children] using hy)
                    · cases hi
                · -- tuple × tuple
                  split at hi
                  · cases hi
                  · rename_i fv h2 hfv
                    have ⟨pfv, m2⟩ := fmtAt_inv m1 hroot hfv
                    split at hi
                    · rename_i tx xs ty ys hold hnew
                      split at hi
                      · exact writeKey_inv m2 hcur pfk pold hi
                      · split at hi
                        · exact writeKey_inv m2 hcur pfk pfv hi
                        · simp only [alloc] at hi
                          have m3 := m2.alloc (.tuple 0 (xs ++ ys)) rfl (by
                            intro y hy
                            simp only [children, List.mem_append] at hy
                            rcases hy with hy | hy
                            · exact m2.finv.closed old _ pold hold y (by simpa [children] using hy)
                            · exact m2.finv.closed fv _ pfv hnew y (by simpa [children] using hy))
                          exact writeKey_inv m3 hcur pfk (m2.finv.fresh _ (Nat.le_refl _)) hi
                    · cases hi
                · -- set × set
                  split at hi
                  · cases hi
                  · rename_i fv h2 hfv
                    have ⟨pfv, m2⟩ := fmtAt_inv m1 hroot hfv
                    split at hi
                    · rename_i t xs t' ys hold hnew
                      simp only [alloc] at hi
                      have m3 := m2.alloc (.set (if t == 1 then 1 else 0) (unionH h2 xs ys)) rfl (by
                        intro y hy
                        simp only [children] at hy
                        rcases unionH_mem hy with hy | hy
                        · exact m2.finv.closed old _ pold hold y (by simpa [children] using hy)
                        · exact m2.finv.closed fv _ pfv hnew y (by simpa [children] using hy))
                      exact writeKey_inv m3 hcur pfk (m2.finv.fresh _ (Nat.le_refl _)) hi
                    · cases hi
                · exact storeFormatted_inv m1 hroot hcur pfk hi
    · cases hi

theorem defaultsItemH_inv {recur : Ref → Ref → Heap → Except Exc Heap} (hrec : RecurOk P A h0 recur)
    {cur k v : Ref} {h h' : Heap} (m : MInv P A h0 h) (hroot : P root) (hcur : P cur)
    (hi : defaultsItemH fuel recur root cur k v h = .ok h') : MInv P A h0 h' := by
  unfold defaultsItemH at hi
  split at hi
  · cases hi
  · rename_i fk h1 hfk
    have ⟨pfk, m1⟩ := fmtAt_inv m hroot hfk
    split at hi
    · rename_i fkv vc hdv hvc
      split at hi
      · cases hi
      · split at hi
        · cases hi
        · rename_i tag kvs hp
          split at hi
          · exact storeFormatted_inv m1 hroot hcur pfk hi
          · rename_i old hl
            have pold := lookup_P m1 hcur hp hl
            split at hi
            · exact hrec _ _ _ _ m1 pold hi
            · cases hi; exact m1
    · cases hi

theorem foldItemsH_inv {step : Ref → Ref → Heap → Except Exc Heap}
    (hstep : ∀ k v h h', MInv P A h0 h → step k v h = .ok h' → MInv P A h0 h') :
    ∀ (items : List (Ref × Ref)) (h h' : Heap), MInv P A h0 h → foldItemsH step items h = .ok h' →
      MInv P A h0 h'
  | [], h, h', m, hf => by simp only [foldItemsH] at hf; cases hf; exact m
  | (k, v) :: rest, h, h', m, hf => by
    simp only [foldItemsH] at hf
    split at hf
    · cases hf
    · rename_i h1 hs
      exact foldItemsH_inv hstep rest h1 h' (hstep k v h h1 m hs) hf

theorem mergeRecH_inv (hroot : P root) : ∀ n, RecurOk P A h0 (mergeRecH fuel root n) := by
  intro n
  induction n with
  | zero => intro cur add h h' _ _ hr; simp [mergeRecH] at hr
  | succ n ih =>
    intro cur add h h' m hcur hr
    simp only [mergeRecH] at hr
    split at hr
    · cases hr
    · rename_i tag items hp
      split at hr
      · cases hr
      · rename_i h1 hf
        have m1 := foldItemsH_inv (P := P) (A := A) (h0 := h0)
          (fun k v hh hh' mm hs => mergeItemH_inv ih mm hroot hcur hs) items h h1 m hf
        split at hr
        · split at hr
          · cases hr; exact m1
          · cases hr
        · cases hr

theorem defaultsRecH_inv (hroot : P root) : ∀ n, RecurOk P A h0 (defaultsRecH fuel root n) := by
  intro n
  induction n with
  | zero => intro cur add h h' _ _ hr; simp [defaultsRecH] at hr
  | succ n ih =>
    intro cur add h h' m hcur hr
    simp only [defaultsRecH] at hr
    split at hr
    · cases hr
    · rename_i tag items hp
      split at hr
      · cases hr
      · rename_i h1 hf
        have m1 := foldItemsH_inv (P := P) (A := A) (h0 := h0)
          (fun k v hh hh' mm hs => defaultsItemH_inv ih mm hroot hcur hs) items h h1 m hf
        split at hr
        · split at hr
          · cases hr; exact m1
          · cases hr
        · cases hr

end items

/-! ### deep values of unchanged cells -/

theorem mapO_congr {α β} {f g : α → Option β} : ∀ (xs : List α), (∀ x ∈ xs, f x = g x) → mapO f xs = mapO g xs
  | [], _ => rfl
  | x :: xs, h => by
    simp only [mapO]
    rw [h x (by simp), mapO_congr xs (fun y hy => h y (by simp [hy]))]

/-- Unchanged cells read as the same deep value: if `A` is closed under "member of" and none of its
    cells changed, every object of `A` is deep-equal before and after. -/
theorem readVal_of_frozen {h h' : Heap} {A : Ref → Prop} (hfro : ∀ x, A x → h'[x]? = h[x]?)
    (hcl : ∀ x c, A x → h[x]? = some c → ∀ y ∈ children c, A y) :
    ∀ (f : Nat) (a : Ref), A a → readVal f h' a = readVal f h a := by
  intro f
  induction f with
  | zero => intro a _; rfl
  | succ n ih =>
    intro a ha
    simp only [readVal]
    rw [hfro a ha]
    cases hc : h[a]? with
    | none => rfl
    | some c =>
      have hch := hcl a c ha hc
      cases c with
      | leaf v => rfl
      | mbytes b => rfl
      | str s => rfl
      | pyName nm => rfl
      | list t rs =>
        simp only []
        rw [mapO_congr rs (fun x hx => ih x (hch x (by simpa [children] using hx)))]
      | tuple t rs =>
        simp only []
        rw [mapO_congr rs (fun x hx => ih x (hch x (by simpa [children] using hx)))]
      | set t rs =>
        simp only []
        rw [mapO_congr rs (fun x hx => ih x (hch x (by simpa [children] using hx)))]
      | dict t kvs =>
        simp only []
        rw [mapO_congr kvs (fun kv hkv => by
          rw [ih kv.1 (hch kv.1 (by simp only [children, List.mem_append, List.mem_map]; exact Or.inl ⟨kv, hkv, rfl⟩)),
              ih kv.2 (hch kv.2 (by simp only [children, List.mem_append, List.mem_map]; exact Or.inr ⟨kv, hkv, rfl⟩))])]
      | sic p =>
        simp only []
        rw [ih p (hch p (by simp [children]))]
      | jsonify p =>
        simp only []
        rw [ih p (hch p (by simp [children]))]

theorem lt9 (x : Nat) (h : x < 9) : x = 0 ∨ x = 1 ∨ x = 2 ∨ x = 3 ∨ x = 4 ∨ x = 5 ∨ x = 6 ∨ x = 7 ∨ x = 8 := by
  omega


end Pypyr.C10H
