/-
  C15 helper lemmas: same-file-ness on inodes (`Links`, `isSameFileL`, `route`, `jobOpsL`) and the
  frame of the direct route (`open(out, 'w')` on an inode: only the entries linked to it change).
-/
import Props.Lemmas.C15_Multi

namespace Pypyr.FsRewrite

namespace Fs

theorem get?_setMany_other {ps : List String} {p c : String} (hp : p ∉ ps) :
    ∀ fs : Fs, get? (setMany fs ps c) p = get? fs p := by
  induction ps with
  | nil => intro fs; rfl
  | cons q qs ih =>
    intro fs
    have hq : p ≠ q := fun h => hp (h ▸ List.mem_cons_self)
    have hqs : p ∉ qs := fun h => hp (List.mem_cons_of_mem _ h)
    show get? (setMany (set fs q c) qs c) p = get? fs p
    rw [ih hqs, get?_set_other hq]

end Fs

namespace Links

/-- An entry listed among the links to the inode of `o` has the inode of `o`. -/
theorem sameIno_of_mem_peers {l : Links} {p o : String} (h : p ∈ l.peers o) : l.sameIno p o = true := by
  unfold peers at h
  cases ho : l.inoOf o with
  | none => simp [ho] at h
  | some n =>
    simp only [ho, List.mem_filter, Bool.and_eq_true] at h
    have hp : l.inoOf p = some n := by simpa using h.2.2
    simp [sameIno, hp, ho]

theorem sameIno_refl (l : Links) (p : String) : l.sameIno p p = true := by simp [sameIno]

theorem resolve_bind (l : Links) (p : String) (n : Nat) (q : String) : (l.bind p n).resolve q = l.resolve q := rfl

end Links

/-! ### routing -/

theorem route_of_same {l : Links} {fs : Fs} {j : Job} (h : isSameFileL l fs j.src j.out = true) :
    route l fs j = none := by
  simp [route, h]

theorem route_of_noout {l : Links} {fs : Fs} {j : Job} (h : j.out = none) : route l fs j = none := by
  simp [route, h, isSameFileL]

theorem route_of_not_same {l : Links} {fs : Fs} {j : Job} {o : String} (ho : j.out = some o)
    (hne : o ≠ "") (h : isSameFileL l fs j.src j.out = false) : route l fs j = some (l.resolve o) := by
  simp only [route, h]
  simp [ho, hne]

/-- The route is in-place exactly when there is no out (none / empty) or out is the same file. -/
theorem route_none_iff (l : Links) (fs : Fs) (j : Job) :
    route l fs j = none ↔ (j.out = none ∨ j.out = some "" ∨ isSameFileL l fs j.src j.out = true) := by
  cases hs : isSameFileL l fs j.src j.out with
  | true => simp [route, hs]
  | false =>
    cases ho : j.out with
    | none => simp [route, ho]
    | some o =>
      rw [ho] at hs
      by_cases he : o = ""
      · subst he; simp [route, hs, ho]
      · simp [route, hs, ho, he]

theorem jobOpsL_of_route_none {l : Links} {fs : Fs} {j : Job} (h : route l fs j = none) :
    jobOpsL l fs j = inplaceOps j.early j.src j.target j.tmp j.body := by
  simp [jobOpsL, h]

theorem jobOpsL_of_route_some {l : Links} {fs : Fs} {j : Job} {o : String} (h : route l fs j = some o) :
    jobOpsL l fs j = directOps j.early j.src o j.body (l.peers o) := by
  simp [jobOpsL, h]

/-- With no link table a name is its own inode: the older model. -/
theorem jobOpsL_nolinks (fs : Fs) (j : Job) : jobOpsL {} fs j = jobOps fs j := by
  have hres : ∀ p, ({} : Links).resolve p = p := fun _ => rfl
  have hpeers : ∀ p, ({} : Links).peers p = [] := fun _ => rfl
  have hsame : isSameFileL {} fs j.src j.out = isSameFile fs j.src j.out := by
    cases ho : j.out with
    | none => rfl
    | some o =>
      simp only [isSameFileL, isSameFile, hres]
      have : ({} : Links).sameIno j.src o = (j.src == o) := by
        simp [Links.sameIno, Links.inoOf]
      rw [this]
  unfold jobOpsL route jobOps
  rw [hsame]
  cases hout : (if isSameFile fs j.src j.out = true then none else j.out) with
  | none => rfl
  | some o =>
    by_cases he : o = ""
    · simp [he]
    · simp [he, hres, hpeers, directOps]

/-! ### the direct route touches only the entries linked to the inode of out -/

/-- Operations of a direct write to entry `o` whose inode is also linked from `ps`. -/
def Op.directTo (o : String) (ps : List String) : Op → Bool
  | .sameFile => true
  | .openRead _ => true
  | .fmt _ => true
  | .write _ _ => true
  | .close => true
  | .closeIn => true
  | .openWrite o' ps' => decide (o' = o ∧ ps' = ps)
  | .mkTemp _ => false
  | .replace _ => false

/-- State invariant on the direct route. -/
def DInv (o : String) (ps : List String) (st : St) : Prop :=
  st.temp = none ∧ (st.target = none ∨ (st.target = some o ∧ st.peers = ps))

theorem apply_frame {o p : String} {ps : List String} {op : Op} {st st' : St}
    (hop : Op.directTo o ps op = true) (hi : DInv o ps st) (hpo : p ≠ o) (hpp : p ∉ ps)
    (ha : apply op st = some st') : DInv o ps st' ∧ st'.fs.get? p = st.fs.get? p := by
  cases op with
  | sameFile => simp only [apply, Option.some.injEq] at ha; subst ha; exact ⟨hi, rfl⟩
  | fmt _ => simp only [apply, Option.some.injEq] at ha; subst ha; exact ⟨hi, rfl⟩
  | close => simp only [apply, Option.some.injEq] at ha; subst ha; exact ⟨hi, rfl⟩
  | closeIn => simp only [apply, Option.some.injEq] at ha; subst ha; exact ⟨hi, rfl⟩
  | openRead s =>
    simp only [apply] at ha
    split at ha
    · simp only [Option.some.injEq] at ha; subst ha; exact ⟨hi, rfl⟩
    · cases ha
  | mkTemp _ => simp [Op.directTo] at hop
  | replace _ => simp [Op.directTo] at hop
  | openWrite o' ps' =>
    simp only [Op.directTo, decide_eq_true_eq] at hop
    obtain ⟨rfl, rfl⟩ := hop
    simp only [apply, Option.some.injEq] at ha
    subst ha
    refine ⟨⟨hi.1, Or.inr ⟨rfl, rfl⟩⟩, ?_⟩
    show Fs.get? (Fs.setMany (Fs.set st.fs o' "") ps' "") p = _
    rw [Fs.get?_setMany_other hpp, Fs.get?_set_other hpo]
  | write n c =>
    simp only [apply] at ha
    rcases hi.2 with ht | ⟨ht, hps⟩
    · simp [ht] at ha
    · simp only [ht] at ha
      split at ha
      · cases ha
      · simp only [Option.some.injEq] at ha
        subst ha
        refine ⟨⟨hi.1, Or.inr ⟨rfl, hps⟩⟩, ?_⟩
        show Fs.get? (Fs.setMany (Fs.set st.fs o _) st.peers _) p = _
        rw [hps, Fs.get?_setMany_other hpp, Fs.get?_set_other hpo]

/-- Under every fault plan, at every prefix, a run of direct-route operations leaves every entry
    that is not linked to the inode of `o` exactly as it was. -/
theorem exec_direct_frame (cfg : Cfg) (plan : Plan) {o p : String} {ps : List String}
    (hpo : p ≠ o) (hpp : p ∉ ps) :
    ∀ (ops : List Op), (∀ op ∈ ops, Op.directTo o ps op = true) → ∀ (i : Nat) (st : St), DInv o ps st →
      ∀ ev ∈ (exec cfg plan i st ops).2, ev.2.get? p = st.fs.get? p := by
  intro ops
  induction ops with
  | nil => intro _ i st _ ev hm; simp [exec] at hm
  | cons op rest ih =>
    intro hall i st hi ev hm
    have hop := hall op List.mem_cons_self
    have hrest : ∀ op ∈ rest, Op.directTo o ps op = true := fun x hx => hall x (List.mem_cons_of_mem _ hx)
    have hhandler : ∀ ev ∈ (handler cfg plan i op st).2, ev.2.get? p = st.fs.get? p := by
      intro ev hm
      simp only [handler, hi.1, List.mem_singleton] at hm
      subst hm; rfl
    rw [exec] at hm
    cases hp : plan i with
    | kill => simp [hp] at hm
    | raise => simp only [hp] at hm; exact hhandler ev hm
    | raiseBase =>
      simp only [hp] at hm
      cases hb : cfg.cleanupBase with
      | true => simp only [hb, if_true] at hm; exact hhandler ev hm
      | false =>
        simp only [hb, Bool.false_eq_true, if_false, List.mem_singleton] at hm
        subst hm; rfl
    | none =>
      simp only [hp] at hm
      cases ha : apply op st with
      | none => simp only [ha] at hm; exact hhandler ev hm
      | some st' =>
        simp only [ha, List.mem_cons] at hm
        have hf := apply_frame hop hi hpo hpp ha
        rcases hm with rfl | hm
        · exact hf.2
        · rw [ih hrest (i + 1) st' hf.1 ev hm, hf.2]

theorem directOps_directTo (early : Bool) (src o : String) (body : List Op) (ps : List String)
    (hb : ∀ op ∈ body, op.isBody = true) : ∀ op ∈ directOps early src o body ps, Op.directTo o ps op = true := by
  intro op hm
  have hbody : ∀ op ∈ body, Op.directTo o ps op = true := by
    intro op hm
    have := hb op hm
    cases op <;> simp_all [Op.isBody, Op.directTo]
  cases early with
  | true =>
    simp only [directOps, if_true, List.cons_append, List.nil_append, List.mem_cons, List.mem_append,
      List.mem_nil_iff, or_false] at hm
    rcases hm with rfl | rfl | rfl | rfl | hm | rfl
    · rfl
    · rfl
    · rfl
    · simp [Op.directTo]
    · exact hbody op hm
    · rfl
  | false =>
    simp only [directOps, Bool.false_eq_true, if_false, List.cons_append, List.nil_append, List.mem_cons,
      List.mem_append, List.mem_nil_iff, or_false] at hm
    rcases hm with rfl | rfl | rfl | hm | rfl | rfl
    · rfl
    · rfl
    · simp [Op.directTo]
    · exact hbody op hm
    · rfl
    · rfl

end Pypyr.FsRewrite

namespace Pypyr.FsRewrite

/-! ### several files: when every out is absent or a spelling of the source entry itself, the loop
    with the link table is the loop without out -/

def Job.noOut (j : Job) : Job := { j with out := none }

/-- out is absent, or a spelling that resolves to the very entry in resolves to (identical string,
    relative vs absolute, `..`, symlinked directory, symlink to the file). Independent of inode ids,
    hence stable while the loop rebinds inodes. -/
def PathAlias (l : Links) (j : Job) : Prop :=
  j.out = none ∨ ∃ o, j.out = some o ∧ l.resolve o = j.src ∧ l.resolve j.src = j.src ∧ j.src ≠ ""

theorem linksAfter_resolve (l : Links) (fs : Fs) (j : Job) (hd : j.dst = none) (q : String) :
    (linksAfter l fs j).resolve q = l.resolve q := by
  unfold linksAfter
  rw [hd]
  split
  · rfl
  · split <;> rfl

theorem PathAlias.after {l : Links} {j : Job} (h : PathAlias l j) (fs : Fs) (j' : Job) (hd : j'.dst = none) :
    PathAlias (linksAfter l fs j') j := by
  rcases h with h | ⟨o, ho, h1, h2, h3⟩
  · exact Or.inl h
  · exact Or.inr ⟨o, ho, by rw [linksAfter_resolve _ _ _ hd, h1], by rw [linksAfter_resolve _ _ _ hd, h2], h3⟩

theorem route_of_pathAlias {l : Links} {fs : Fs} {j : Job} (h : PathAlias l j)
    (hs : (fs.get? j.src).isSome) : route l fs j = none := by
  rcases h with h | ⟨o, ho, h1, h2, h3⟩
  · exact route_of_noout h
  · by_cases he : o = ""
    · rw [route_none_iff]; right; left; rw [ho, he]
    · apply route_of_same
      have hc : fs.contains j.src = true := by simpa [Fs.contains] using hs
      simp [isSameFileL, ho, h1, h2, h3, he, hc, Links.sameIno_refl]

theorem jobOps_noOut (fs : Fs) (j : Job) :
    jobOps fs j.noOut = inplaceOps j.early j.src j.target j.tmp j.body := by
  simp [jobOps, Job.noOut, isSameFile, Job.target]

theorem runJobsL_eq_runJobs (cfg : Cfg) (plan : Plan) {fs0 : Fs} :
    ∀ (js : List Job), (∀ j ∈ js, (fs0.get? j.src).isSome) → (∀ j ∈ js, fs0.get? j.tmp = none) →
    (∀ j ∈ js, ∀ op ∈ j.body, op.isBody = true) → (∀ j ∈ js, j.dst = none) →
    ∀ (i : Nat) (l : Links) (cur : Fs), cur.names = fs0.names → (∀ j ∈ js, PathAlias l j) →
      runJobsL cfg plan i l cur js = runJobs cfg plan i cur (js.map Job.noOut) := by
  intro js
  induction js with
  | nil => intro _ _ _ _ i l cur _ _; rfl
  | cons j js ih =>
    intro hsrc htmp hbody hdst i l cur hn hpa
    have hd : j.dst = none := hdst j List.mem_cons_self
    have htgt : j.target = j.src := by simp [Job.target, hd]
    have hs : (cur.get? j.src).isSome := by
      rw [isSome_of_names_eq hn]; exact hsrc j List.mem_cons_self
    have h0 : cur.get? j.tmp = none := by
      have := isSome_of_names_eq hn j.tmp
      rw [htmp j List.mem_cons_self] at this
      cases hx : cur.get? j.tmp with
      | none => rfl
      | some _ => simp [hx] at this
    have hopsL : jobOpsL l cur j = inplaceOps j.early j.src j.src j.tmp j.body := by
      rw [jobOpsL_of_route_none (route_of_pathAlias (hpa j List.mem_cons_self) hs), htgt]
    have hops : jobOps cur j.noOut = inplaceOps j.early j.src j.src j.tmp j.body := by
      rw [jobOps_noOut cur j, htgt]
    have P := exec_inplace (fs0 := cur) (src := j.src) (dst := j.src) (tmp := j.tmp) (cfg := cfg) (plan := plan)
      j.early j.body (hbody j List.mem_cons_self) h0 hs i
    simp only [runJobsL, runJobL, List.map_cons, runJobs, runJob, hopsL, hops]
    cases hout : (exec cfg plan i { fs := cur } (inplaceOps j.early j.src j.src j.tmp j.body)).1 with
    | ok =>
      simp only []
      have hfin := P.ok hout
      have hn' : (final cur (exec cfg plan i { fs := cur } (inplaceOps j.early j.src j.src j.tmp j.body)).2).names
          = fs0.names := by rw [hfin, Fs.names_set_of_mem hs, hn]
      rw [ih (fun x hx => hsrc x (List.mem_cons_of_mem _ hx)) (fun x hx => htmp x (List.mem_cons_of_mem _ hx))
        (fun x hx => hbody x (List.mem_cons_of_mem _ hx)) (fun x hx => hdst x (List.mem_cons_of_mem _ hx))
        _ (linksAfter l cur j) _ hn'
        (fun x hx => (hpa x (List.mem_cons_of_mem _ hx)).after cur j hd)]
    | raised _ => rfl
    | killed _ => rfl

end Pypyr.FsRewrite
