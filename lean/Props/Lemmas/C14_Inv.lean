/-
  C14 helper: a generic invariant principle for the PyNs evaluator. Under the two arrangements the
  code runs with NOW (`.evalFixed`: the `_EvalNamespace` of a `!py` evaluation, `.exec`: the dict of a
  py step) — whichever of them the running code started in, and whatever function / generator objects
  of EARLIER runs it calls or pulls (their bodies run under the arrangement of the namespace object
  that made them, `target`) — every change the evaluator makes to the state is one of: a heap write,
  a change of the own dict of some namespace object (`setOwn`), a switch of the current namespace
  (`cur`). So a predicate that survives those three survives every expression.
-/
import PypyrModel.PyNs

namespace Pypyr.PyNs

/-- `P` is stable under everything an expression can do to the state under the live arrangements. -/
structure Inv (P : St → Prop) : Prop where
  heap : ∀ st h, P st → P { st with heap := h }
  cur : ∀ st k, P st → P (st.setCur k)
  own : ∀ st e, P st → P (st.setOwn e)

/-- The arrangements of the code as it is now. -/
def Arr.live (a : Arr) : Prop := a = .evalFixed ∨ a = .exec

theorem Arr.live_evalFixed : Arr.live .evalFixed := Or.inl rfl
theorem Arr.live_exec : Arr.live .exec := Or.inr rfl

variable {P : St → Prop}

theorem Inv.alloc (h : Inv P) (st : St) (c : Cell) (hp : P st) : P (st.alloc c).2 := h.heap st _ hp
theorem Inv.heapSet (h : Inv P) (st : St) (r : Nat) (c : Cell) (hp : P st) : P (st.heapSet r c) := h.heap st _ hp

theorem Inv.frameSet (h : Inv P) (st : St) (r : Nat) (x : String) (v : V) (hp : P st) : P (st.frameSet r x v) := by
  unfold St.frameSet; split
  · exact h.heapSet _ _ _ hp
  · exact hp

theorem Inv.clsSet (h : Inv P) (st : St) (r : Nat) (x : String) (v : V) (hp : P st) : P (st.clsSet r x v) := by
  unfold St.clsSet; split
  · exact h.heapSet _ _ _ hp
  · exact hp

theorem Inv.sName (h : Inv P) {a : Arr} (ha : a.live) (st : St) (x : String) (v : V) (hp : P st) :
    P (storeName a st x v) := by
  rcases ha with ha | ha <;> subst ha <;> exact h.own _ _ hp

theorem Inv.sGlobal (h : Inv P) {a : Arr} (ha : a.live) (st : St) (x : String) (v : V) (hp : P st) :
    P (storeGlobal a st x v) := by
  rcases ha with ha | ha <;> subst ha <;> exact h.own _ _ hp

theorem Inv.store' (h : Inv P) {a : Arr} (ha : a.live) (sc : Scope) (st : St) (x : String) (v : V) (hp : P st) :
    P (store a sc st x v) := by
  unfold PyNs.store
  split
  · exact h.frameSet _ _ _ _ hp
  · exact h.sGlobal ha _ _ _ hp
  · split
    · split
      · exact h.sGlobal ha _ _ _ hp
      · exact h.sName ha _ _ _ hp
    · exact h.sGlobal ha _ _ _ hp
    · exact h.clsSet _ _ _ _ hp

theorem Inv.doAppend' (h : Inv P) (st : St) (t w : V) (hp : P st) : P (doAppend st t w) := by
  unfold PyNs.doAppend
  split
  · split
    · exact h.heapSet _ _ _ hp
    · exact hp
  · exact hp

theorem Inv.doSetItem' (h : Inv P) (st : St) (t : V) (i : Nat) (w : V) (hp : P st) : P (doSetItem st t i w).2 := by
  unfold PyNs.doSetItem
  repeat' split
  all_goals first | exact hp | exact h.heapSet _ _ _ hp

theorem Inv.nsopApply' (h : Inv P) (a : Arr) (st : St) (m : NsMeth) (k : String) (w : V) (hp : P st) :
    P (nsopApply a st m k w).2 := by
  unfold PyNs.nsopApply
  split
  · exact h.own _ _ hp
  · exact h.own _ _ hp
  · exact hp

/-- Code entered from a live arrangement runs under a live arrangement. -/
theorem target_live {a a' : Arr} (ha : a.live) (st : St) (j : Nat) (h : target a st j = some a') : a'.live := by
  unfold target at h
  split at h
  · cases h; exact ha
  · split at h
    · split at h
      · cases h
      · split at h
        · cases h; exact Arr.live_evalFixed
        · cases h; exact Arr.live_exec
        · cases h
    · cases h

theorem step {β : Type} {f : β × St} {r : β} {st' : St} (heq : f = (r, st')) (hp : P f.2) : P st' := by
  rw [heq] at hp; exact hp

/-- The nine mutually recursive evaluators preserve an invariant. -/
theorem eval_inv (h : Inv P) : ∀ fuel,
    (∀ a, a.live → ∀ sc e st, P st → P (evalExpr a fuel sc e st).2) ∧
    (∀ a, a.live → ∀ sc es st, P st → P (evalList a fuel sc es st).2) ∧
    (∀ a, a.live → ∀ sc cs st, P st → P (evalConds a fuel sc cs st).2) ∧
    (∀ a, a.live → ∀ sc fr elt t cs rest src i acc st, P st → P (compLoop a fuel sc fr elt t cs rest src i acc st).2) ∧
    (∀ a, a.live → ∀ ex vf vs st, P st → P (callFn a fuel ex vf vs st).2) ∧
    (∀ a, a.live → ∀ sc body st, P st → P (runBody a fuel sc body st).2) ∧
    (∀ a, a.live → ∀ sc fr elt cls stack st, P st → P (genLoop a fuel sc fr elt cls stack st).2) ∧
    (∀ a, a.live → ∀ r st, P st → P (pullGen a fuel r st).2) ∧
    (∀ a, a.live → ∀ r acc st, P st → P (drainGen a fuel r acc st).2) := by
  intro fuel
  induction fuel with
  | zero =>
    refine ⟨?_, ?_, ?_, ?_, ?_, ?_, ?_, ?_, ?_⟩ <;> intros <;>
      simp only [evalExpr, evalList, evalConds, compLoop, callFn, runBody, genLoop, pullGen, drainGen] <;> assumption
  | succ n ih =>
    obtain ⟨ihE, ihL, ihC, ihLoop, ihCall, ihBody, ihGen, ihPull, ihDrain⟩ := ih
    have hal := h.alloc
    have hap := h.doAppend'
    have hfs := h.frameSet
    have hhs := h.heapSet
    have hcur := h.cur
    have hns := h.nsopApply'
    have hsi := h.doSetItem'
    refine ⟨?_, ?_, ?_, ?_, ?_, ?_, ?_, ?_, ?_⟩
    · intro a ha sc e st hp
      have hst := h.store' ha
      have ihE := ihE a ha
      have ihL := ihL a ha
      have ihCall := ihCall a ha
      have ihLoop := ihLoop a ha
      have ihDrain := ihDrain a ha
      unfold evalExpr
      cases e with
      | comp gen elt clauses =>
        simp only []
        split
        · exact hp
        · split
          · grind
          · split
            · grind
            · split
              · grind
              · grind
      | gen elt clauses =>
        simp only []
        split
        · exact hp
        · split
          · grind
          · split
            · grind
            · grind
      | drain e1 =>
        simp only []
        split
        · grind
        · split
          · split
            · grind
            · grind
          · split
            · grind
            · split
              · grind
              · grind
      | nsop m k e1 =>
        simp only []
        split
        · split
          · grind
          · grind
        · grind
      | _ => grind
    · intro a ha sc es st hp
      have ihE := ihE a ha
      have ihL := ihL a ha
      unfold evalList
      grind
    · intro a ha sc cs st hp
      have ihE := ihE a ha
      have ihC := ihC a ha
      unfold evalConds
      grind
    · intro a ha sc fr elt t cs rest src i acc st hp
      have ihE := ihE a ha
      have ihC := ihC a ha
      have ihLoop := ihLoop a ha
      unfold compLoop
      repeat' split
      all_goals grind
    · intro a ha ex vf vs st hp
      unfold callFn
      split
      · exact hp
      · split
        · exact hp
        · rename_i a' htg
          have ha' := target_live ha _ _ htg
          have ihE := ihE a' ha'
          have ihBody := ihBody a' ha'
          split
          · exact hp
          · simp only []
            split
            · rename_i heq
              exact hcur _ _ (step heq (ihBody _ _ _ (hal _ _ (hcur _ _ hp))))
            · rename_i heq
              have h1 := step heq (ihBody _ _ _ (hal _ _ (hcur _ _ hp)))
              exact hcur _ _ (ihE _ _ _ h1)
    · intro a ha sc body st hp
      have hst := h.store' ha
      have ihE := ihE a ha
      have ihBody := ihBody a ha
      unfold runBody
      grind
    · intro a ha sc fr elt cls stack st hp
      have ihE := ihE a ha
      have ihC := ihC a ha
      have ihGen := ihGen a ha
      unfold genLoop
      repeat' split
      all_goals grind
    · intro a ha r st hp
      unfold pullGen
      split
      · split
        · exact hp
        · exact hp
        · split
          · exact hp
          · rename_i a' htg
            have ha' := target_live ha _ _ htg
            have ihGen := ihGen a' ha'
            simp only []
            split
            · rename_i heq
              exact hhs _ _ _ (hcur _ _ (step heq (ihGen _ _ _ _ _ _ (hhs _ _ _ (hcur _ _ hp)))))
            · rename_i heq
              exact hhs _ _ _ (hcur _ _ (step heq (ihGen _ _ _ _ _ _ (hhs _ _ _ (hcur _ _ hp)))))
            · rename_i heq
              exact hhs _ _ _ (hcur _ _ (step heq (ihGen _ _ _ _ _ _ (hhs _ _ _ (hcur _ _ hp)))))
      · exact hp
    · intro a ha r acc st hp
      have ihPull := ihPull a ha
      have ihDrain := ihDrain a ha
      unfold drainGen
      grind

end Pypyr.PyNs
