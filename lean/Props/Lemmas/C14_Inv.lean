/-
  C14 helper: a generic invariant principle for the PyNs evaluator. Every change the evaluator
  makes to the non-heap part of the state goes through `storeName` / `storeGlobal`; so a predicate
  that survives those two and ignores the heap survives every expression.
-/
import PypyrModel.PyNs

namespace Pypyr.PyNs

/-- `P` is stable under everything an expression can do to the state under arrangement `a`. -/
structure Inv (a : Arr) (P : St → Prop) : Prop where
  heap : ∀ st h, P st → P { st with heap := h }
  sName : ∀ st x v, P st → P (storeName a st x v)
  sGlobal : ∀ st x v, P st → P (storeGlobal a st x v)

variable {a : Arr} {P : St → Prop}

theorem Inv.alloc (h : Inv a P) (st : St) (c : Cell) (hp : P st) : P (st.alloc c).2 := h.heap st _ hp
theorem Inv.heapSet (h : Inv a P) (st : St) (r : Nat) (c : Cell) (hp : P st) : P (st.heapSet r c) := h.heap st _ hp

theorem Inv.frameSet (h : Inv a P) (st : St) (r : Nat) (x : String) (v : V) (hp : P st) : P (st.frameSet r x v) := by
  unfold St.frameSet; split
  · exact h.heapSet _ _ _ hp
  · exact hp

theorem Inv.clsSet (h : Inv a P) (st : St) (r : Nat) (x : String) (v : V) (hp : P st) : P (st.clsSet r x v) := by
  unfold St.clsSet; split
  · exact h.heapSet _ _ _ hp
  · exact hp

theorem Inv.store' (h : Inv a P) (sc : Scope) (st : St) (x : String) (v : V) (hp : P st) : P (store a sc st x v) := by
  unfold PyNs.store
  split
  · exact h.frameSet _ _ _ _ hp
  · exact h.sGlobal _ _ _ hp
  · split
    · split
      · exact h.sGlobal _ _ _ hp
      · exact h.sName _ _ _ hp
    · exact h.sGlobal _ _ _ hp
    · exact h.clsSet _ _ _ _ hp

theorem Inv.doAppend' (h : Inv a P) (st : St) (t w : V) (hp : P st) : P (doAppend st t w) := by
  unfold PyNs.doAppend
  split
  · split
    · exact h.heapSet _ _ _ hp
    · exact hp
  · exact hp

theorem step {β : Type} {f : β × St} {r : β} {st' : St} (heq : f = (r, st')) (hp : P f.2) : P st' := by
  rw [heq] at hp; exact hp

/-- The six mutually recursive evaluators preserve an invariant. -/
theorem eval_inv (h : Inv a P) : ∀ fuel,
    (∀ sc e st, P st → P (evalExpr a fuel sc e st).2) ∧
    (∀ sc es st, P st → P (evalList a fuel sc es st).2) ∧
    (∀ sc cs st, P st → P (evalConds a fuel sc cs st).2) ∧
    (∀ sc fr elt t cs rest src i acc st, P st → P (compLoop a fuel sc fr elt t cs rest src i acc st).2) ∧
    (∀ ex bs vf vs st, P st → P (callFn a fuel ex bs vf vs st).2) ∧
    (∀ sc body st, P st → P (runBody a fuel sc body st).2) := by
  intro fuel
  induction fuel with
  | zero =>
    refine ⟨?_, ?_, ?_, ?_, ?_, ?_⟩ <;> intros <;> simp only [evalExpr, evalList, evalConds, compLoop, callFn, runBody] <;> assumption
  | succ n ih =>
    obtain ⟨ihE, ihL, ihC, ihLoop, ihCall, ihBody⟩ := ih
    have hal := h.alloc
    have hst := h.store'
    have hap := h.doAppend'
    have hfs := h.frameSet
    refine ⟨?_, ?_, ?_, ?_, ?_, ?_⟩
    · intro sc e st hp
      unfold evalExpr
      cases e with
      | comp gen elt clauses =>
        simp only []
        split
        · exact hp
        · split
          · grind
          · split
            · grind
            · split
              · grind
              · grind
      | _ => grind
    · intro sc es st hp
      unfold evalList
      grind
    · intro sc cs st hp
      unfold evalConds
      grind
    · intro sc fr elt t cs rest src i acc st hp
      unfold compLoop
      repeat' split
      all_goals grind
    · intro ex bs vf vs st hp
      unfold callFn
      grind
    · intro sc body st hp
      unfold runBody
      grind

end Pypyr.PyNs
