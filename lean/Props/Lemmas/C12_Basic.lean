/-
  C12 helper lemmas, part 1: association lists, region renaming of references, fresh blocks.
  Nothing here is specific to an operation of the run heap (`PypyrModel/Heap.lean`).
-/
import PypyrModel.Heap

namespace Pypyr.C12
open Pypyr.RunHeap

deriving instance DecidableEq for Op

/-! ### association lists: where the values of the result come from -/

theorem kvGet?_mem {kvs : List (String × Ref)} {k : String} {v : Ref}
    (h : kvGet? kvs k = some v) : ∃ kv ∈ kvs, kv.2 = v := by
  induction kvs with
  | nil => simp [kvGet?] at h
  | cons kv rest ih =>
    obtain ⟨k', v'⟩ := kv
    simp only [kvGet?] at h
    split at h
    · exact ⟨(k', v'), List.mem_cons_self, by simpa using h⟩
    · obtain ⟨kv, hm, he⟩ := ih h
      exact ⟨kv, List.mem_cons_of_mem _ hm, he⟩

theorem kvSet_all {P : Ref → Prop} {kvs : List (String × Ref)} {k : String} {v : Ref}
    (hk : ∀ kv ∈ kvs, P kv.2) (hv : P v) : ∀ kv ∈ kvSet kvs k v, P kv.2 := by
  induction kvs with
  | nil => intro kv hm; simp [kvSet] at hm; subst hm; exact hv
  | cons kv' rest ih =>
    obtain ⟨k', v'⟩ := kv'
    intro kv hm
    simp only [kvSet] at hm
    split at hm
    · rcases List.mem_cons.1 hm with rfl | hm
      · exact hv
      · exact hk _ (List.mem_cons_of_mem _ hm)
    · rcases List.mem_cons.1 hm with rfl | hm
      · exact hk _ List.mem_cons_self
      · exact ih (fun kv h => hk kv (List.mem_cons_of_mem _ h)) kv hm

theorem kvErase_all {P : Ref → Prop} {kvs : List (String × Ref)} {k : String}
    (hk : ∀ kv ∈ kvs, P kv.2) : ∀ kv ∈ kvErase kvs k, P kv.2 := by
  induction kvs with
  | nil => intro kv hm; simp [kvErase] at hm
  | cons kv' rest ih =>
    obtain ⟨k', v'⟩ := kv'
    intro kv hm
    simp only [kvErase] at hm
    have ih' := ih (fun kv h => hk kv (List.mem_cons_of_mem _ h))
    split at hm
    · exact ih' kv hm
    · rcases List.mem_cons.1 hm with rfl | hm
      · exact hk _ List.mem_cons_self
      · exact ih' kv hm

theorem kvUpdate_all {P : Ref → Prop} {add kvs : List (String × Ref)}
    (hk : ∀ kv ∈ kvs, P kv.2) (ha : ∀ kv ∈ add, P kv.2) : ∀ kv ∈ kvUpdate kvs add, P kv.2 := by
  induction add generalizing kvs with
  | nil => simpa [kvUpdate] using hk
  | cons a rest ih =>
    obtain ⟨k, v⟩ := a
    simp only [kvUpdate]
    exact ih (kvSet_all hk (ha _ List.mem_cons_self)) (fun kv h => ha kv (List.mem_cons_of_mem _ h))

/-! ### association lists: mapping the values commutes with every operation -/

theorem kvGet?_map (f : Ref → Ref) (kvs : List (String × Ref)) (k : String) :
    kvGet? (kvs.map fun kv => (kv.1, f kv.2)) k = (kvGet? kvs k).map f := by
  induction kvs with
  | nil => rfl
  | cons kv rest ih =>
    obtain ⟨k', v⟩ := kv
    simp only [List.map_cons, kvGet?]
    split
    · rfl
    · exact ih

theorem kvSet_map (f : Ref → Ref) (kvs : List (String × Ref)) (k : String) (v : Ref) :
    kvSet (kvs.map fun kv => (kv.1, f kv.2)) k (f v) = (kvSet kvs k v).map fun kv => (kv.1, f kv.2) := by
  induction kvs with
  | nil => rfl
  | cons kv rest ih =>
    obtain ⟨k', v'⟩ := kv
    simp only [List.map_cons, kvSet]
    split
    · rfl
    · simp only [List.map_cons, ih]

theorem kvErase_map (f : Ref → Ref) (kvs : List (String × Ref)) (k : String) :
    kvErase (kvs.map fun kv => (kv.1, f kv.2)) k = (kvErase kvs k).map fun kv => (kv.1, f kv.2) := by
  induction kvs with
  | nil => rfl
  | cons kv rest ih =>
    obtain ⟨k', v'⟩ := kv
    simp only [List.map_cons, kvErase]
    split
    · exact ih
    · simp only [List.map_cons, ih]

theorem kvUpdate_map (f : Ref → Ref) (kvs add : List (String × Ref)) :
    kvUpdate (kvs.map fun kv => (kv.1, f kv.2)) (add.map fun kv => (kv.1, f kv.2))
      = (kvUpdate kvs add).map fun kv => (kv.1, f kv.2) := by
  induction add generalizing kvs with
  | nil => rfl
  | cons a rest ih =>
    obtain ⟨k, v⟩ := a
    simp only [List.map_cons, kvUpdate, kvSet_map, ih]

/-! ### cells: generic facts about `refs` / `mapRefs` -/

theorem refs_mapRefs {ρ σ : Type} (f : ρ → σ) (c : CellOf ρ) : (c.mapRefs f).refs = c.refs.map f := by
  cases c <;> simp [CellOf.mapRefs, CellOf.refs, Function.comp_def]

theorem mapRefs_congr {ρ σ : Type} {f g : ρ → σ} {c : CellOf ρ} (h : ∀ x ∈ c.refs, f x = g x) :
    c.mapRefs f = c.mapRefs g := by
  cases c with
  | leaf v => rfl
  | list rs => simp only [CellOf.mapRefs, CellOf.list.injEq]; exact List.map_congr_left h
  | tuple rs => simp only [CellOf.mapRefs, CellOf.tuple.injEq]; exact List.map_congr_left h
  | set rs => simp only [CellOf.mapRefs, CellOf.set.injEq]; exact List.map_congr_left h
  | dict kvs =>
    simp only [CellOf.mapRefs, CellOf.dict.injEq]
    apply List.map_congr_left
    intro kv hkv
    rw [h kv.2 (List.mem_map.2 ⟨kv, hkv, rfl⟩)]
  | obj cls attrs =>
    simp only [CellOf.mapRefs, CellOf.obj.injEq, true_and]
    apply List.map_congr_left
    intro kv hkv
    rw [h kv.2 (List.mem_map.2 ⟨kv, hkv, rfl⟩)]

theorem mapRefs_id {ρ : Type} (c : CellOf ρ) : c.mapRefs (fun x => x) = c := by
  cases c <;> simp [CellOf.mapRefs]

theorem mapRefs_mapRefs {ρ σ τ : Type} (f : ρ → σ) (g : σ → τ) (c : CellOf ρ) :
    (c.mapRefs f).mapRefs g = c.mapRefs (fun x => g (f x)) := by
  cases c <;> simp [CellOf.mapRefs, Function.comp_def]

theorem isObj_mapRefs {ρ σ : Type} (f : ρ → σ) (c : CellOf ρ) : (c.mapRefs f).isObj = c.isObj := by
  cases c <;> rfl

/-! ### renaming one run's region into another's -/

/-- The address `x` of run `r1` read as an address of run `r2` (all other regions unchanged). -/
def ren (r1 r2 : Nat) (x : Ref) : Ref := if x.reg = .run r1 then ⟨.run r2, x.idx⟩ else x

/-- The object `c` with every reference into run `r1` redirected to run `r2`. -/
def renCell (r1 r2 : Nat) (c : Cell) : Cell := c.mapRefs (ren r1 r2)

theorem ren_run {r1 r2 : Nat} {x : Ref} (h : x.reg = .run r1) : ren r1 r2 x = ⟨.run r2, x.idx⟩ := by
  simp [ren, h]

theorem ren_mk (r1 r2 i : Nat) : ren r1 r2 ⟨.run r1, i⟩ = ⟨.run r2, i⟩ := by simp [ren]

theorem ren_root (r1 r2 : Nat) : ren r1 r2 (root r1) = root r2 := by simp [ren, root]

theorem ren_shared {r1 r2 : Nat} {x : Ref} (h : x.reg.isShared = true) : ren r1 r2 x = x := by
  have : x.reg ≠ .run r1 := by intro e; rw [e] at h; simp [Region.isShared] at h
  simp [ren, this]

theorem ren_self (r : Nat) (x : Ref) : ren r r x = x := by
  unfold ren
  split
  · rename_i h; cases x; simp_all
  · rfl

theorem renCell_self (r : Nat) (c : Cell) : renCell r r c = c := by
  have hf : ren r r = fun x => x := funext (ren_self r)
  rw [renCell, hf, mapRefs_id]

theorem map_renCell_self (r : Nat) (cs : List Cell) : cs.map (renCell r r) = cs := by
  have : renCell r r = id := funext (renCell_self r)
  simp [this]

theorem renCell_list (r1 r2 : Nat) (rs : List Ref) : renCell r1 r2 (.list rs) = .list (rs.map (ren r1 r2)) := rfl
theorem renCell_set (r1 r2 : Nat) (rs : List Ref) : renCell r1 r2 (.set rs) = .set (rs.map (ren r1 r2)) := rfl
theorem renCell_dict (r1 r2 : Nat) (kvs : List (String × Ref)) :
    renCell r1 r2 (.dict kvs) = .dict (kvs.map fun kv => (kv.1, ren r1 r2 kv.2)) := rfl
theorem renCell_obj (r1 r2 : Nat) (cls : String) (kvs : List (String × Ref)) :
    renCell r1 r2 (.obj cls kvs) = .obj cls (kvs.map fun kv => (kv.1, ren r1 r2 kv.2)) := rfl

theorem follow_ren (r1 r2 : Nat) (c : Cell) (s : Seg) :
    (renCell r1 r2 c).follow s = (c.follow s).map (ren r1 r2) := by
  cases c <;> cases s <;> simp [renCell, CellOf.mapRefs, Cell.follow, kvGet?_map]

/-! ### references of a cell -/

/-- Every outgoing reference of `c` points into region `g`. -/
def CellIn (g : Region) (c : Cell) : Prop := ∀ x ∈ c.refs, x.reg = g

theorem cellIn_leaf (g : Region) (v : Val) : CellIn g (.leaf v) := by
  intro x hx; simp [CellOf.refs] at hx

theorem cellIn_list {g : Region} {rs : List Ref} : CellIn g (.list rs) ↔ ∀ x ∈ rs, x.reg = g := Iff.rfl
theorem cellIn_tuple {g : Region} {rs : List Ref} : CellIn g (.tuple rs) ↔ ∀ x ∈ rs, x.reg = g := Iff.rfl
theorem cellIn_set {g : Region} {rs : List Ref} : CellIn g (.set rs) ↔ ∀ x ∈ rs, x.reg = g := Iff.rfl

theorem cellIn_dict {g : Region} {kvs : List (String × Ref)} :
    CellIn g (.dict kvs) ↔ ∀ kv ∈ kvs, kv.2.reg = g := by
  constructor
  · intro h kv hm; exact h kv.2 (List.mem_map.2 ⟨kv, hm, rfl⟩)
  · intro h x hx
    obtain ⟨kv, hm, rfl⟩ := List.mem_map.1 hx
    exact h kv hm

theorem cellIn_obj {g : Region} {cls : String} {kvs : List (String × Ref)} :
    CellIn g (.obj cls kvs) ↔ ∀ kv ∈ kvs, kv.2.reg = g := by
  constructor
  · intro h kv hm; exact h kv.2 (List.mem_map.2 ⟨kv, hm, rfl⟩)
  · intro h x hx
    obtain ⟨kv, hm, rfl⟩ := List.mem_map.1 hx
    exact h kv hm

/-- `mapRefs f` of a cell all of whose references `f` sends into `g`. -/
theorem cellIn_mapRefs {g : Region} {f : Ref → Ref} {c : Cell} (h : ∀ x ∈ c.refs, (f x).reg = g) :
    CellIn g (c.mapRefs f) := by
  intro y hy
  rw [refs_mapRefs] at hy
  obtain ⟨x, hx, rfl⟩ := List.mem_map.1 hy
  exact h x hx

theorem follow_mem {c : Cell} {s : Seg} {b : Ref} (h : c.follow s = some b) : b ∈ c.refs := by
  cases c with
  | leaf v => cases s <;> simp [Cell.follow] at h
  | set rs => cases s <;> simp [Cell.follow] at h
  | obj cls attrs =>
    cases s with
    | key k => simp [Cell.follow] at h
    | idx i => simp [Cell.follow] at h
    | attr k =>
      obtain ⟨kv, hm, rfl⟩ := kvGet?_mem (by simpa [Cell.follow] using h)
      exact List.mem_map.2 ⟨kv, hm, rfl⟩
  | list rs =>
    cases s with
    | key k => simp [Cell.follow] at h
    | attr k => simp [Cell.follow] at h
    | idx i =>
      have h' : rs[i]? = some b := by simpa [Cell.follow] using h
      exact List.mem_of_getElem? h'
  | tuple rs =>
    cases s with
    | key k => simp [Cell.follow] at h
    | attr k => simp [Cell.follow] at h
    | idx i =>
      have h' : rs[i]? = some b := by simpa [Cell.follow] using h
      exact List.mem_of_getElem? h'
  | dict kvs =>
    cases s with
    | idx i => simp [Cell.follow] at h
    | attr k => simp [Cell.follow] at h
    | key k =>
      obtain ⟨kv, hm, rfl⟩ := kvGet?_mem (by simpa [Cell.follow] using h)
      exact List.mem_map.2 ⟨kv, hm, rfl⟩

/-- A cell whose references are all in `r1` is renamed by plainly switching the region. -/
theorem renCell_in {r1 r2 : Nat} {c : Cell} (h : CellIn (.run r1) c) :
    CellIn (.run r2) (renCell r1 r2 c) :=
  cellIn_mapRefs fun x hx => by rw [ren_run (h x hx)]

/-! ### fresh blocks -/

theorem toCell_in (g : Region) (base : Nat) (b : BCell) : CellIn g (b.toCell g base) := by
  intro y hy
  rw [BCell.toCell, refs_mapRefs] at hy
  obtain ⟨j, _, rfl⟩ := List.mem_map.1 hy
  rfl

theorem relocate_in (b : Block) (g : Region) (base : Nat) : ∀ c ∈ Block.relocate b g base, CellIn g c := by
  intro c hc
  simp only [Block.relocate, List.mem_map] at hc
  obtain ⟨bc, _, rfl⟩ := hc
  exact toCell_in g base bc

theorem relocAll_in (g : Region) (base : Nat) (bs : List Block) :
    (∀ c ∈ (relocAll g base bs).1, CellIn g c) ∧ (∀ x ∈ (relocAll g base bs).2, x.reg = g) := by
  induction bs generalizing base with
  | nil => simp [relocAll]
  | cons b rest ih =>
    simp only [relocAll]
    refine ⟨?_, ?_⟩
    · intro c hc
      rcases List.mem_append.1 hc with h | h
      · exact relocate_in b g base c h
      · exact (ih _).1 c h
    · intro x hx
      rcases List.mem_cons.1 hx with rfl | h
      · rfl
      · exact (ih _).2 x h

theorem toCell_ren (r1 r2 base : Nat) (b : BCell) :
    renCell r1 r2 (b.toCell (.run r1) base) = b.toCell (.run r2) base := by
  simp only [renCell, BCell.toCell, mapRefs_mapRefs, ren_mk]

theorem relocate_ren (r1 r2 base : Nat) (b : Block) :
    (Block.relocate b (.run r1) base).map (renCell r1 r2) = Block.relocate b (.run r2) base := by
  simp [Block.relocate, toCell_ren, Function.comp_def]

theorem relocAll_ren (r1 r2 base : Nat) (bs : List Block) :
    (relocAll (.run r2) base bs).1 = (relocAll (.run r1) base bs).1.map (renCell r1 r2) ∧
    (relocAll (.run r2) base bs).2 = (relocAll (.run r1) base bs).2.map (ren r1 r2) := by
  induction bs generalizing base with
  | nil => simp [relocAll]
  | cons b rest ih =>
    simp [relocAll, relocate_ren, ren_mk, (ih _).1, (ih _).2]

theorem isObj_toCell (g : Region) (base : Nat) (b : BCell) : (b.toCell g base).isObj = b.isObj :=
  isObj_mapRefs _ _

end Pypyr.C12
