/-
  C16: what comes back from a JSON write → read cycle is a proper JSON document, and stable.

    coerceKeys_strKeys : strKeys (coerceKeys d) = true                       (every d)
    coerceKeys_isJsonK : isJsonK s d = true → isJsonK s (coerceKeys d) = true
    parse_print_stable : isJsonK true d = true → parse (print o (coerceKeys d)) = .ok (coerceKeys d) []
    coerceKeys_idem    : coerceKeys (coerceKeys d) = coerceKeys d

  i.e. the keys are coerced ONCE, by the first `json.dump`; from then on the value the fetch step
  stored round-trips exactly, under every indent / ensure_ascii setting.
-/
import Props.Lemmas.C16_JsonRoundTrip

namespace Pypyr.Codec.Json

theorem keyIn_dictSet (q k v : Val) : ∀ (l : List (Val × Val)),
    keyIn q (dictSet l k v) = (keyIn q l || k == q)
  | [] => by simp [dictSet, keyIn]
  | (k', v') :: rest => by
    unfold dictSet
    split
    · next h => subst h; simp only [keyIn]; cases (k' == q) <;> simp
    · simp only [keyIn, keyIn_dictSet q k v rest, Bool.or_assoc]

theorem strKeysPairs_dictSet (k v : Val) (hk : isStr k = true) (hv : strKeys v = true) :
    ∀ (l : List (Val × Val)), strKeysPairs l = true → strKeysPairs (dictSet l k v) = true
  | [], _ => by simp [dictSet, strKeysPairs, keyIn, hk, hv]
  | (k', v') :: rest, h => by
    simp only [strKeysPairs, Bool.and_eq_true, Bool.not_eq_true'] at h
    unfold dictSet
    split
    · simp only [strKeysPairs, Bool.and_eq_true, Bool.not_eq_true']
      exact ⟨⟨⟨h.1.1.1, h.1.1.2⟩, hv⟩, h.2⟩
    · next hne =>
      simp only [strKeysPairs, Bool.and_eq_true, Bool.not_eq_true', keyIn_dictSet, Bool.or_eq_false_iff]
      refine ⟨⟨⟨h.1.1.1, h.1.1.2, ?_⟩, h.1.2⟩, strKeysPairs_dictSet k v hk hv rest h.2⟩
      simp only [beq_eq_false_iff_ne, ne_eq]
      exact fun e => hne e.symm

theorem isJsonKPairs_dictSet (s : Bool) (k v : Val) (hk : isKey s k = true) (hv : isJsonK s v = true) :
    ∀ (l : List (Val × Val)), isJsonKPairs s l = true → isJsonKPairs s (dictSet l k v) = true
  | [], _ => by simp [dictSet, isJsonKPairs, hk, hv]
  | (k', v') :: rest, h => by
    simp only [isJsonKPairs, Bool.and_eq_true] at h
    unfold dictSet
    split
    · simp only [isJsonKPairs, Bool.and_eq_true]
      exact ⟨⟨h.1.1, hv⟩, h.2⟩
    · simp only [isJsonKPairs, Bool.and_eq_true]
      exact ⟨h.1, isJsonKPairs_dictSet s k v hk hv rest h.2⟩

/-- `dict(pairs)` of pairs with string keys and good values is a good mapping. -/
theorem foldl_dictSet_good (P : Val → Bool) (Q : List (Val × Val) → Bool)
    (step : ∀ k v l, isStr k = true → P v = true → Q l = true → Q (dictSet l k v) = true) :
    ∀ (ps acc : List (Val × Val)), (∀ p ∈ ps, isStr p.1 = true ∧ P p.2 = true) → Q acc = true →
      Q (ps.foldl (fun a kv => dictSet a kv.1 kv.2) acc) = true
  | [], acc, _, h => by simpa using h
  | p :: ps, acc, hp, h => by
    simp only [List.foldl_cons]
    have h1 := hp p (by simp)
    exact foldl_dictSet_good P Q step ps _ (fun q hq => hp q (by simp [hq])) (step p.1 p.2 acc h1.1 h1.2 h)

theorem isStr_isKey (s : Bool) (k : Val) (h : isStr k = true) : isKey s k = true := by
  obtain ⟨t, rfl⟩ := isStr_eq k h
  simp [isKey]

mutual
theorem coerceKeys_strKeys : ∀ (d : Val), strKeys (coerceKeys d) = true
  | .list xs => by simp only [coerceKeys, strKeys]; exact coerceList_strKeys xs
  | .dict kvs => by
    simp only [coerceKeys, strKeys, rebuildDict]
    exact foldl_dictSet_good strKeys strKeysPairs
      (fun k v l hk hv hl => strKeysPairs_dictSet k v hk hv l hl) _ [] (coercePairs_strKeys kvs) rfl
  | .none => rfl
  | .bool _ => rfl
  | .int _ => rfl
  | .flt _ _ => rfl
  | .str _ => rfl
  | .bytes _ => rfl
  | .tuple _ => rfl
  | .set _ => rfl
  | .sic _ => rfl
  | .py _ => rfl
  | .jsonify _ => rfl
  | .obj _ => rfl
theorem coerceList_strKeys : ∀ (xs : List Val), strKeysList (coerceList xs) = true
  | [] => rfl
  | x :: xs => by simp only [coerceList, strKeysList, coerceKeys_strKeys x, coerceList_strKeys xs, Bool.and_self]
theorem coercePairs_strKeys : ∀ (kvs : List (Val × Val)),
    ∀ p ∈ coercePairs kvs, isStr p.1 = true ∧ strKeys p.2 = true
  | [], p, hp => by simp [coercePairs] at hp
  | (k, v) :: rest, p, hp => by
    simp only [coercePairs, List.mem_cons] at hp
    rcases hp with rfl | hp
    · exact ⟨rfl, coerceKeys_strKeys v⟩
    · exact coercePairs_strKeys rest p hp
end

mutual
theorem coerceKeys_isJsonK (s : Bool) : ∀ (d : Val), isJsonK s d = true → isJsonK s (coerceKeys d) = true
  | .list xs, h => by
    simp only [isJsonK] at h
    simp only [coerceKeys, isJsonK]; exact coerceList_isJsonK s xs h
  | .dict kvs, h => by
    simp only [isJsonK] at h
    simp only [coerceKeys, isJsonK, rebuildDict]
    exact foldl_dictSet_good (isJsonK s) (isJsonKPairs s)
      (fun k v l hk hv hl => isJsonKPairs_dictSet s k v (isStr_isKey s k hk) hv l hl) _ []
      (coercePairs_isJsonK s kvs h) rfl
  | .none, _ => rfl
  | .bool _, _ => rfl
  | .int _, _ => rfl
  | .flt _ _, h => h
  | .str _, _ => rfl
  | .bytes _, h => h
  | .tuple _, h => h
  | .set _, h => h
  | .sic _, h => h
  | .py _, h => h
  | .jsonify _, h => h
  | .obj _, h => h
theorem coerceList_isJsonK (s : Bool) : ∀ (xs : List Val), isJsonKList s xs = true →
    isJsonKList s (coerceList xs) = true
  | [], _ => rfl
  | x :: xs, h => by
    simp only [isJsonKList, Bool.and_eq_true] at h
    simp only [coerceList, isJsonKList, coerceKeys_isJsonK s x h.1, coerceList_isJsonK s xs h.2, Bool.and_self]
theorem coercePairs_isJsonK (s : Bool) : ∀ (kvs : List (Val × Val)), isJsonKPairs s kvs = true →
    ∀ p ∈ coercePairs kvs, isStr p.1 = true ∧ isJsonK s p.2 = true
  | [], _, p, hp => by simp [coercePairs] at hp
  | (k, v) :: rest, h, p, hp => by
    simp only [isJsonKPairs, Bool.and_eq_true] at h
    simp only [coercePairs, List.mem_cons] at hp
    rcases hp with rfl | hp
    · exact ⟨rfl, coerceKeys_isJsonK s v h.1.2⟩
    · exact coercePairs_isJsonK s rest h.2 p hp
end

/-- Coercion happens once. -/
theorem coerceKeys_idem (d : Val) : coerceKeys (coerceKeys d) = coerceKeys d :=
  coerceKeys_id _ (coerceKeys_strKeys d)

/-- **parse_print_stable.** What a first round trip gave back round-trips exactly from then on. -/
theorem parse_print_stable (o : Opts) (d : Val) (h : isJsonK true d = true) :
    parse (print o (coerceKeys d)) = .ok (coerceKeys d) [] :=
  parse_print o _ (coerceKeys_isJsonK true d h) (coerceKeys_strKeys d)

end Pypyr.Codec.Json
