/-
  C09 — the id-keyed memo when addresses can be re-used (`PypyrModel/FmtFree.lean`).

  * `fmtH_str_kept`: a formatted str member either comes back as the same object or gets a memo entry.
  * `fmtLazy_keep_no_free`: with `keepAlive = true` (the memo holds a reference to every object it has an
    entry for: /repo 2cfa9de) no address is ever freed, so none is re-used.
  * `fmtLazy_keep_sound`: … hence the run stays inside the permanent-address model, `MemoSound` is an
    invariant of it, and every member is formatted as itself.
  * `memo_unsound_after_reuse`, `lazy_prefix_wrong`: with `keepAlive = false` (the code before that
    commit) the memo is NOT sound once a member's address was re-used, and the second member of
    `['x{k0}', 'x{k1}']` gets the first member's result.
-/
import PypyrModel.FmtFree
import Props.Lemmas.C09_Sim

namespace Pypyr.C09
open Pypyr Pypyr.FmtHeap Pypyr.FmtFree

/-- Formatting the str object at `a`: it comes back as itself, or the memo has an entry for `a`
    afterwards (`if new is not obj: memo[obj_id] = new`). -/
theorem fmtH_str_kept {fuel : Nat} {ctx : HCtx} {b : Bool} {a r : Ref} {st st' : St} {t : String}
    (hc : st.heap[a]? = some (.str t)) (h : fmtH fuel ctx b a st = .ok (r, st')) :
    r = a ∨ (memoGet st'.memo a).isSome = true := by
  cases fuel with
  | zero => simp [fmtH] at h
  | succ n =>
    unfold fmtH at h
    split at h
    · rename_i done hhit
      have := (memoHit_some hhit).1
      cases h
      exact Or.inr (by simp [this])
    · simp only [hc] at h
      split at h
      · cases h
      · rename_i nr h1 hk
        cases h
        by_cases hn : r = a
        · exact Or.inl hn
        · refine Or.inr ?_
          simp [memoIf, hn, memoGet_memoSet]

/-- **No address is re-used while the memo lives.** With `keepAlive = true` and nothing free to begin
    with, nothing is ever freed: every temporary is created at a new address (the heap only grows). -/
theorem fmtLazy_keep_no_free (fuel : Nat) (ctx : HCtx) (b : Bool) :
    ∀ (texts : List String) (s : FSt) (rs : List Ref) (s' : FSt),
      s.free = [] → fmtLazy true fuel ctx b texts s = .ok (rs, s') →
      s'.free = [] ∧ Ext s.heap s'.heap
  | [], s, rs, s', hf, h => by
    simp only [fmtLazy] at h
    cases h
    exact ⟨hf, Ext.refl _⟩
  | text :: rest, s, rs, s', hf, h => by
    simp only [fmtLazy, allocTemp, hf] at h
    split at h
    · cases h
    · rename_i r st hfm
      split at h
      · cases h
      · rename_i rs' s3 hrest
        cases h
        have hcell : (s.heap ++ [Cell.str text])[s.heap.length]? = some (.str text) := by simp
        have hk := fmtH_str_kept (st := { heap := s.heap ++ [Cell.str text], memo := s.memo }) hcell hfm
        have halive : staysAlive true st.memo s.heap.length r = true := by
          rcases hk with hk | hk
          · simp [staysAlive, hk]
          · simp [staysAlive, hk]
        simp only [halive, if_true] at hrest
        obtain ⟨hf3, e3⟩ := fmtLazy_keep_no_free fuel ctx b rest _ rs' _ rfl hrest
        have e1 : Ext s.heap (s.heap ++ [Cell.str text]) := Ext.alloc s.heap (.str text) rfl
        have e2 : Ext (s.heap ++ [Cell.str text]) st.heap := (fmtH_good hfm).ext
        exact ⟨hf3, (e1.trans e2).trans e3⟩

/-- **With the repaired code `MemoSound` is an invariant, and every member is formatted as itself.**
    `keepAlive = true`, nothing free at the start, a sound memo (the empty one of a top-level call, or any
    other): the references returned for the members read as the formatted values of the members — each of
    its own text —, the memo is still sound, nothing is free. For every list of member texts, every heap,
    context, fuel, recursion flag. -/
theorem fmtLazy_keep_sound (fuel : Nat) (hc : HCtx) (c : Ctx) (b : Bool) :
    ∀ (texts : List String) (s : FSt) (rs : List Ref) (s' : FSt),
      s.free = [] → SInv hc c b s.st → fmtLazy true fuel hc b texts s = .ok (rs, s') →
      s'.free = [] ∧ SInv hc c b s'.st ∧ (Ordered s.heap → Ordered s'.heap) ∧
      ∃ F ws, mapE (fmtIter F c b) (texts.map Val.str) = .ok ws ∧ All₂ (Reads s'.heap) rs ws
  | [], s, rs, s', hf, inv, h => by
    simp only [fmtLazy] at h
    cases h
    exact ⟨hf, inv, id, 0, [], rfl, .nil⟩
  | text :: rest, s, rs, s', hf, inv, h => by
    simp only [fmtLazy, allocTemp, hf] at h
    split at h
    · cases h
    · rename_i r st hfm
      split at h
      · cases h
      · rename_i rs' s3 hrest
        cases h
        have hcell : (s.heap ++ [Cell.str text])[s.heap.length]? = some (.str text) := by simp
        have hk := fmtH_str_kept (st := { heap := s.heap ++ [Cell.str text], memo := s.memo }) hcell hfm
        have halive : staysAlive true st.memo s.heap.length r = true := by
          rcases hk with hk | hk
          · simp [staysAlive, hk]
          · simp [staysAlive, hk]
        simp only [halive, if_true] at hrest
        have e1 : Ext s.heap (s.heap ++ [Cell.str text]) := Ext.alloc s.heap (.str text) rfl
        -- the state with the new temporary: same memo, extended heap
        have inv1 : SInv hc c b { heap := s.heap ++ [Cell.str text], memo := s.memo } :=
          ⟨inv.1.ext e1, inv.2.1.ext e1, by
            intro x d hx
            have hg := memoHit_some hx
            have hx0 : memoHit s.st x = some d := memoHit_of hg.1 (isNoneCell_of_ext e1 hg.2)
            obtain ⟨v, fu, w, h1, h2, h3⟩ := inv.2.2 x d hx0
            exact ⟨v, fu, w, h1.ext e1, h2, h3.ext e1⟩⟩
        obtain ⟨o1, inv2, f1, w1, t1, rd1⟩ := (fmtH_sim_all fuel).1 hc b s.heap.length _ r st c (.str text) hfm inv1
          (Reads.str hcell)
        have g2 := fmtH_good hfm
        obtain ⟨hf3, inv3, o3, F, ws, hm, hall⟩ := fmtLazy_keep_sound fuel hc c b rest
          { heap := st.heap, memo := st.memo, free := [] } rs' _ rfl inv2 hrest
        obtain ⟨_, e3⟩ := fmtLazy_keep_no_free fuel hc b rest _ rs' _ rfl hrest
        refine ⟨hf3, inv3, fun o => o3 (o1 (o.alloc _ (by intro y hy; simp [cellRefs] at hy))), f1 + F, w1 :: ws, ?_,
          .cons (rd1.ext e3) hall⟩
        simp only [List.map_cons]
        exact mapE_cons_ok (fmtIter_mono (n := f1) (m := f1 + F) (by omega) t1)
          (mapE_mono (fun a b' hab => fmtIter_mono (n := F) (m := f1 + F) (by omega) hab) hm)

/-! ### the code before /repo 2cfa9de: `keepAlive = false` -/

/-- context `k0 = 'v0'`, `k1 = 'v1'` (objects 0 and 1) -/
def wHeap : Heap := [.str "v0", .str "v1"]
def wCtx : HCtx := [("k0", 0), ("k1", 1)]
def wTree : Ctx := [("k0", .str "v0"), ("k1", .str "v1")]

/-- the state right after the SECOND member `'x{k1}'` was created at the address (2) of the first member
    `'x{k0}'`, which had been formatted to the object at 3 and had died: the memo still says `2 ↦ 3` -/
def wReused : St := { heap := [.str "v0", .str "v1", .str "x{k1}", .str "xv0"], memo := [(2, 3)] }

/-- the counter-model really reaches that state: format the first member, create the second -/
example : (match fmtLazy false 6 wCtx false ["x{k0}"] { heap := wHeap, memo := [], free := [] } with
    | .ok (_, s) =>
      let s1 := (allocTemp s "x{k1}").1
      s1.memo == wReused.memo && s1.heap.length == 4 &&
        (List.range 4).all (fun i => deepVal s1.heap i == deepVal wReused.heap i)
    | .error _ => false) = true := by decide +kernel

/-- **The memo is NOT sound once the address of a memoised object was re-used**: the entry `2 ↦ 3` answers,
    but the object now at 2 is `'x{k1}'`, whose formatted value is `'xv1'`, and the object at 3 is `'xv0'`. -/
theorem memo_unsound_after_reuse : ¬ MemoSound wTree false wReused := by
  intro hs
  have hhit : memoHit wReused 2 = some 3 := by decide
  obtain ⟨v, fuel, w, h1, h2, h3⟩ := hs 2 3 hhit
  have hv : v = .str "x{k1}" := h1.functional (Reads.str (by rfl))
  subst hv
  have hw : w = .str "xv0" := h3.functional (Reads.str (by rfl))
  subst hw
  have ht : fmtIter 3 wTree false (.str "x{k1}") = .ok (.str "xv1") := by decide +kernel
  have := fmtIter_unique h2 ht
  exact absurd this (by decide)

/-- the same entry in the permanent-address model (the first member still lives at 2, the second one was
    created at 4) IS sound: the state `fmtLazy true` reaches -/
example : (match fmtLazy true 6 wCtx false ["x{k0}", "x{k1}"] { heap := wHeap, memo := [], free := [] } with
    | .ok (rs, s) => rs == [3, 5] && s.free == [] && s.memo == [(2, 3), (4, 5)] &&
        deepVal s.heap 2 == some (.str "x{k0}") && deepVal s.heap 4 == some (.str "x{k1}") &&
        deepVal s.heap 3 == some (.str "xv0") && deepVal s.heap 5 == some (.str "xv1")
    | .error _ => false) = true := by decide +kernel

/-- **The defect, end to end** (`keepAlive = false`): the lazily materialised sequence `['x{k0}', 'x{k1}']`
    comes back as `['xv0', 'xv0']` — the second member got the first member's result — although the tree
    model (and the repaired code) give `['xv0', 'xv1']`. -/
theorem lazy_prefix_wrong :
    (match fmtLazySeq false 6 wCtx 0 ["x{k0}", "x{k1}"] wHeap with
     | .ok (r, h) => deepVal h r == some (.list [.str "xv0", .str "xv0"])
     | .error _ => false) = true ∧
    (match fmtLazySeq true 6 wCtx 0 ["x{k0}", "x{k1}"] wHeap with
     | .ok (r, h) => deepVal h r == some (.list [.str "xv0", .str "xv1"])
     | .error _ => false) = true ∧
    fmtVal 6 wTree (.list [.str "x{k0}", .str "x{k1}"]) = .ok (.list [.str "xv0", .str "xv1"]) := by
  refine ⟨by decide +kernel, by decide +kernel, by decide +kernel⟩

end Pypyr.C09
