/-
  C01: the harness's `straight_oracle` (harness/floworacle.py) = the Lean model, as a theorem.

  The directed C01 families judge the implementation against expectations computed by a small Python
  oracle for "straight-line" pipelines (probe steps that succeed / fail / fail-and-are-swallowed / are
  skipped, and the three stop steps; no loops, no call / jump / pype). `oracle` below is that oracle,
  transcribed function by function; `renderStep` / `renderProg` is `render_straight`. The theorem
  `straight_oracle_eq_model` (end of file) says: on every such pipeline, every choice of
  groups / success / failure arguments, every start context without `runErrors`, with enough fuel, the
  model's run has exactly the oracle's probe tags, number of `runErrors` entries and outcome. So the
  Python oracle is tied to the proved-about model for ALL straight pipelines, not by sampling.
-/
import Props.Lemmas.C03_Run
import Props.Lemmas.C07_Global
import Props.Lemmas.FlowFuel

namespace Pypyr.C01o
open Pypyr Pypyr.Flow Pypyr.C04

/-- how a step that never runs is written (`render_straight`: `{'run': False}`, `{'skip': True}`, and the
    string / number forms of the random family). -/
inductive SkipHow where
  | runFalse | skipTrue | runStrFalse | skipStrTRUE | runZero
  deriving Repr, DecidableEq

/-- a step of a straight-line group, as the oracle sees it. -/
inductive SStep where
  | ok (tag : String)
  | fail (tag err : String) (swallow : Bool)
  | stop | stopPipeline | stopGroup
  | skip (tag : String) (how : SkipHow)
  deriving Repr, DecidableEq

/-! ## the oracle (harness/floworacle.py `straight_oracle`) -/

/-- `tags`, `nerr` -/
structure OAcc where
  tags : List String := []
  nerr : Nat := 0
  deriving Repr, DecidableEq

inductive ORes where
  | ok | err (name msg : String) | stop | stopPipeline | stopGroup
  deriving Repr, DecidableEq

/-- `run_group(name)` on the steps of the group -/
def oGroup : List SStep → OAcc → OAcc × ORes
  | [], a => (a, .ok)
  | .skip _ _ :: rest, a => oGroup rest a
  | .ok t :: rest, a => oGroup rest { a with tags := a.tags ++ [t] }
  | .fail t e sw :: rest, a =>
    let a' : OAcc := { tags := a.tags ++ [t], nerr := a.nerr + 1 }
    if sw then oGroup rest a' else (a', .err e (excStr e ("boom " ++ t)))
  | .stop :: _, a => (a, .stop)
  | .stopPipeline :: _, a => (a, .stopPipeline)
  | .stopGroup :: _, a => (a, .stopGroup)

/-- `gmap.get(name) or []` -/
def oLookup (gs : List (String × List SStep)) (name : String) : List SStep :=
  match gs.find? (·.1 == name) with
  | some g => g.2
  | none => []

/-- the `for g in req` loop of `main()` -/
def oReq (gs : List (String × List SStep)) : List String → OAcc → OAcc × ORes
  | [], a => (a, .ok)
  | g :: rest, a =>
    match oGroup (oLookup gs g) a with
    | (a1, .ok) => oReq gs rest a1
    | (a1, .stopGroup) => oReq gs rest a1
    | other => other

/-- `main()` -/
def oMain (gs : List (String × List SStep)) (req : List String) (succ : Option String) (a : OAcc) : OAcc × ORes :=
  match oReq gs req a with
  | (a1, .ok) =>
    match succ with
    | some sg =>
      if sg == "" then (a1, .ok) else
      match oGroup (oLookup gs sg) a1 with
      | (a2, .ok) => (a2, .ok)
      | (a2, .stopGroup) => (a2, .ok)
      | other => other
    | none => (a1, .ok)
  | other => other

/-- the whole oracle: `(tags, nerr)` and the result before `outcome = ('err', name) if err else 'ok'`. -/
def oracle (gs : List (String × List SStep)) (req : List String) (succ fail : Option String) (a : OAcc) : OAcc × ORes :=
  match oMain gs req succ a with
  | (a1, .err n m) =>
    match fail with
    | some fg =>
      if fg == "" then (a1, .err n m) else
      match oGroup (oLookup gs fg) a1 with
      | (a2, .stopGroup) => (a2, .ok)
      | (a2, .stop) => (a2, .stop)
      | (a2, .stopPipeline) => (a2, .stopPipeline)
      | (a2, _) => (a2, .err n m)
    | none => (a1, .err n m)
  | other => other

/-! ## rendering (`render_straight`) -/

def probeIn (tag : String) (extra : List (Val × Val)) : List (String × Val) :=
  [("p", .dict ((.str "tag", .str tag) :: extra))]

def renderStep : SStep → StepDef
  | .ok t => { name := some "vprobe", inArgs := some (probeIn t []) }
  | .fail t e sw =>
    { name := some "vprobe", inArgs := some (probeIn t [(.str "failRest", .str e)]),
      swallow := if sw then .bool true else .bool false }
  | .stop => { name := some "pypyr.steps.stop", simple := true }
  | .stopPipeline => { name := some "pypyr.steps.stoppipeline", simple := true }
  | .stopGroup => { name := some "pypyr.steps.stopstepgroup", simple := true }
  | .skip t .runFalse => { name := some "vprobe", inArgs := some (probeIn t []), run := .bool false }
  | .skip t .skipTrue => { name := some "vprobe", inArgs := some (probeIn t []), skip := .bool true }
  | .skip t .runStrFalse => { name := some "vprobe", inArgs := some (probeIn t []), run := .str "false" }
  | .skip t .skipStrTRUE => { name := some "vprobe", inArgs := some (probeIn t []), skip := .str "TRUE" }
  | .skip t .runZero => { name := some "vprobe", inArgs := some (probeIn t []), run := .int 0 }

def renderProg (gs : List (String × List SStep)) : Program :=
  ⟨[{ name := "main", groups := gs.map fun g => (g.1, GroupBody.steps (g.2.map renderStep)) }]⟩

/-! ## what the state must keep: the link between interpreter state and oracle accumulator -/

/-- the probe trace carries the oracle's tags (after `base`), `runErrors` is absent-or-a-list with the
    oracle's number of entries. -/
structure Link (base : List String) (s : St) (a : OAcc) : Prop where
  tags : s.trace.map (·.tag) = base ++ a.tags
  reok : Ctx.get? s.ctx "runErrors" = none ∨ ∃ xs, Ctx.get? s.ctx "runErrors" = some (.list xs)
  nerr : (C07.runErrorsOf s).length = a.nerr

/-! ## one probe -/

theorem probe_ok (s : St) (t : String)
    (hp : Ctx.get? s.ctx "p" = some (.dict [(.str "tag", .str t)])) :
    ∃ s1, probeStep s = (s1, .ok) ∧ s1.trace.map (·.tag) = s.trace.map (·.tag) ++ [t] ∧
      Ctx.get? s1.ctx "runErrors" = Ctx.get? s.ctx "runErrors" := by
  unfold probeStep
  rw [hp]
  simp [dictGet?]
  exact ctx_get_set_ne _ _ _ _ (C07.cntKey_ne _ _ (.inl rfl))

theorem probe_fail (s : St) (t e : String)
    (hp : Ctx.get? s.ctx "p" = some (.dict [(.str "tag", .str t), (.str "failRest", .str e)])) :
    ∃ s1, probeStep s = (s1, .err ⟨s.nextExc, e, excStr e ("boom " ++ t)⟩ false) ∧
      s1.trace.map (·.tag) = s.trace.map (·.tag) ++ [t] ∧
      Ctx.get? s1.ctx "runErrors" = Ctx.get? s.ctx "runErrors" := by
  unfold probeStep
  rw [hp]
  simp [dictGet?, raiseNew]
  exact ctx_get_set_ne _ _ _ _ (C07.cntKey_ne _ _ (.inl rfl))

/-! ## one step -/

/-- the oracle on one step (one turn of the loop in `run_group`) -/
def oStep : SStep → OAcc → OAcc × ORes
  | .skip _ _, a => (a, .ok)
  | .ok t, a => ({ a with tags := a.tags ++ [t] }, .ok)
  | .fail t e sw, a =>
    ({ tags := a.tags ++ [t], nerr := a.nerr + 1 }, if sw then .ok else .err e (excStr e ("boom " ++ t)))
  | .stop, a => (a, .stop)
  | .stopPipeline, a => (a, .stopPipeline)
  | .stopGroup, a => (a, .stopGroup)

theorem oGroup_cons (st : SStep) (rest : List SStep) (a : OAcc) :
    oGroup (st :: rest) a = (match oStep st a with
      | (a1, .ok) => oGroup rest a1
      | other => other) := by
  cases st with
  | fail t e sw => cases sw <;> rfl
  | _ => rfl

/-- how a model result corresponds to an oracle result. No straight-line error is ever "already
    handled" (that flag is for errors that come out of called groups). -/
def RMatch : Res → ORes → Prop
  | .ok, .ok => True
  | .stop, .stop => True
  | .stopPipeline, .stopPipeline => True
  | .stopGroup, .stopGroup => True
  | .err e false, .err n m => e.name = n ∧ e.msg = m
  | _, _ => False

theorem Link.congr {base : List String} {s s1 : St} {a : OAcc} (hl : Link base s a)
    (ht : s1.trace.map (·.tag) = s.trace.map (·.tag))
    (hr : Ctx.get? s1.ctx "runErrors" = Ctx.get? s.ctx "runErrors") : Link base s1 a :=
  ⟨by rw [ht]; exact hl.tags, by rw [hr]; exact hl.reok, by rw [C07.runErrorsOf_congr s s1 hr]; exact hl.nerr⟩

theorem get_probeIn (c : Ctx) (t : String) (extra : List (Val × Val)) :
    Ctx.get? (Ctx.update c (probeIn t extra)) "p" = some (.dict ((.str "tag", .str t) :: extra)) := by
  unfold probeIn; rw [ctx_update_cons, ctx_update_nil, ctx_get_set_self]

theorem re_probeIn (c : Ctx) (t : String) (extra : List (Val × Val)) :
    Ctx.get? (Ctx.update c (probeIn t extra)) "runErrors" = Ctx.get? c "runErrors" := by
  unfold probeIn; rw [ctx_update_cons, ctx_update_nil, ctx_get_set_ne _ _ _ _ (by decide)]

theorem re_eraseIn (c : Ctx) (t : String) (extra : List (Val × Val)) :
    Ctx.get? (eraseAll c (probeIn t extra)) "runErrors" = Ctx.get? c "runErrors" := by
  unfold probeIn; rw [eraseAll_cons]; exact ctx_get_erase_ne _ _ _ (show "p" ≠ "runErrors" by decide)

theorem Link.push {base : List String} {s s1 : St} {a : OAcc} {t : String} (hl : Link base s a)
    (ht : s1.trace.map (·.tag) = s.trace.map (·.tag) ++ [t])
    (hr : Ctx.get? s1.ctx "runErrors" = Ctx.get? s.ctx "runErrors") :
    Link base s1 { a with tags := a.tags ++ [t] } :=
  ⟨by rw [ht, hl.tags, List.append_assoc], by rw [hr]; exact hl.reok,
   by rw [C07.runErrorsOf_congr s s1 hr]; exact hl.nerr⟩

/-- a literal string without replacement fields, as a truthiness expression -/
theorem fmtB_lit (s : St) (fs : String) (b : Bool) (hp : parsePieces fs = .ok [.lit fs])
    (hc : castToBool (.str fs) = b) : fmtB s (.str fs) = .ok b := by
  have h1 : fmtIter FMT_FUEL s.ctx false (.str fs) = .ok (.str fs) := by
    simp [FMT_FUEL, fmtIter, fmtKeepType, hp]
  simp [fmtB, fmtAsBool, isSpecialTag, h1, hc]

/-- a step whose `run` evaluates to false, or whose `skip` evaluates to true: the `in` arguments are
    set and taken out again; nothing else happens. -/
theorem runStepWith_skipped (d : StepDef) (body : Body) (callee : CofCfg → Body) (fuel : Nat) (s : St)
    (hw : d.while_ = none) (hf : d.foreach = none)
    (h : fmtB (setIn d s) d.run = .ok false ∨
         (fmtB (setIn d s) d.run = .ok true ∧ fmtB (setIn d s) d.skip = .ok true)) :
    runStepWith d body callee fuel s = (unsetIn d (setIn d s), .ok) := by
  rw [runStepWith_eq]
  unfold stepCore foreachLayer foreachOrConditional conditionalLayer
  simp only [hw, hf]
  rw [runConditional_eq]
  rcases h with h | ⟨h1, h2⟩
  · simp only [h]
  · simp only [h1, h2]

theorem runStep_render (fuel : Nat) (prog : Program) (pipe : String) (st : SStep) (s : St) (a : OAcc)
    (base : List String) (hl : Link base s a) :
    ∃ s1 r, runStep (fuel + 1) prog pipe (renderStep st) s = (s1, r) ∧
      Link base s1 (oStep st a).1 ∧ RMatch r (oStep st a).2 := by
  cases st with
  | stop =>
    refine ⟨s, .stop, ?_, hl, trivial⟩
    rw [C03.runStep_eq fuel prog pipe _ .stop s rfl rfl, C03.runStepWith_plain _ _ _ _ _ ⟨rfl, rfl, rfl, rfl, rfl⟩]
    rfl
  | stopPipeline =>
    refine ⟨s, .stopPipeline, ?_, hl, trivial⟩
    rw [C03.runStep_eq fuel prog pipe _ .stopPipeline s rfl rfl, C03.runStepWith_plain _ _ _ _ _ ⟨rfl, rfl, rfl, rfl, rfl⟩]
    rfl
  | stopGroup =>
    refine ⟨s, .stopGroup, ?_, hl, trivial⟩
    rw [C03.runStep_eq fuel prog pipe _ .stopGroup s rfl rfl, C03.runStepWith_plain _ _ _ _ _ ⟨rfl, rfl, rfl, rfl, rfl⟩]
    rfl
  | ok t =>
    obtain ⟨s1, hb, ht, hr⟩ := probe_ok (setIn (renderStep (.ok t)) s) t (get_probeIn s.ctx t [])
    have hb' : C03.stepBody fuel prog .probe (setIn (renderStep (.ok t)) s) = (s1, .ok) := hb
    refine ⟨unsetIn (renderStep (.ok t)) s1, .ok, ?_, ?_, trivial⟩
    · rw [C03.runStep_eq fuel prog pipe _ .probe s rfl rfl, C03.runStepWith_plain _ _ _ _ _ ⟨rfl, rfl, rfl, rfl, rfl⟩,
        invokeStep_noncall _ _ _ _ _ _ hb' (by intro c h; cases h), swallowWrap_nonerr _ _ _ rfl]
    · have hre : Ctx.get? (unsetIn (renderStep (.ok t)) s1).ctx "runErrors" = Ctx.get? s.ctx "runErrors" := by
        rw [unsetIn_eq]
        show Ctx.get? (eraseAll s1.ctx (probeIn t [])) "runErrors" = _
        rw [re_eraseIn, hr, setIn_eq]
        exact re_probeIn s.ctx t []
      refine ⟨?_, ?_, ?_⟩
      · show s1.trace.map (·.tag) = base ++ (a.tags ++ [t])
        rw [ht, ← List.append_assoc, ← hl.tags]; rfl
      · show Ctx.get? (unsetIn (renderStep (.ok t)) s1).ctx "runErrors" = none ∨ _
        rw [hre]; exact hl.reok
      · rw [C07.runErrorsOf_congr s _ hre]; exact hl.nerr
  | fail t e sw =>
    have key : ∀ d : StepDef, d = renderStep (.fail t e sw) →
        ∃ s2, swallowWrap d (invokeStep {} (C03.stepBody fuel prog .probe) (C03.groupsCallee fuel prog pipe) (setIn d s)) =
            (s2, if sw then .ok else .err ⟨s.nextExc, e, excStr e ("boom " ++ t)⟩ false) ∧
          s2.trace.map (·.tag) = s.trace.map (·.tag) ++ [t] ∧
          Ctx.get? s2.ctx "runErrors" = some (.list (C07.runErrorsOf s ++
            [C07.entry d ⟨s.nextExc, e, excStr e ("boom " ++ t)⟩ sw (.dict [])])) := by
      intro d hd
      have hin : d.inArgs = some (probeIn t [(.str "failRest", .str e)]) := by rw [hd]; rfl
      have hset : setIn d s = { s with ctx := Ctx.update s.ctx (probeIn t [(.str "failRest", .str e)]) } := by
        rw [setIn_eq, hin]; rfl
      obtain ⟨s1, hb, ht, hr⟩ := probe_fail (setIn d s) t e (by rw [hset]; exact get_probeIn s.ctx t _)
      have hnx : (setIn d s).nextExc = s.nextExc := by rw [hset]
      rw [hnx] at hb
      generalize hex : (⟨s.nextExc, e, excStr e ("boom " ++ t)⟩ : ExcV) = ex at hb ⊢
      have hb' : C03.stepBody fuel prog .probe (setIn d s) = (s1, .err ex false) := hb
      rw [invokeStep_noncall _ _ _ _ _ _ hb' (by intro c h; cases h)]
      have hre1 : Ctx.get? (logEscape d s1 ex false).ctx "runErrors" = Ctx.get? s.ctx "runErrors" := by
        rw [logEscape_ctx, hr, hset]; exact re_probeIn s.ctx t _
      have hsave := C07.saveError_succeeds d (logEscape d s1 ex false) ex sw (.dict []) (by rw [hd]; rfl)
        (by rw [hre1]; exact hl.reok)
      have hsw : fmtB s1 d.swallow = .ok sw := by rw [hd]; cases sw <;> rfl
      have h1 := congrArg Prod.fst hsave
      refine ⟨(saveError d (logEscape d s1 ex false) ex sw).1, ?_, ?_, ?_⟩
      · unfold swallowWrap
        simp only [fmtB_logEscape, hsw, hsave]
        cases sw <;> rfl
      · rw [h1]
        show (logEscape d s1 ex false).trace.map (·.tag) = _
        rw [logEscape_trace, ht, hset]
      · rw [h1]
        show Ctx.get? (Ctx.set _ _ _) "runErrors" = _
        rw [ctx_get_set_self, C07.runErrorsOf_congr s _ hre1]
    obtain ⟨s2, h2, ht2, hr2⟩ := key _ rfl
    have hk : stepInit (renderStep (.fail t e sw)) = .ok .probe := by cases sw <;> rfl
    have hlen : ∀ s3 : St, Ctx.get? s3.ctx "runErrors" = Ctx.get? s2.ctx "runErrors" →
        s3.trace = s2.trace → Link base s3 { tags := a.tags ++ [t], nerr := a.nerr + 1 } := by
      intro s3 h3 ht3
      refine ⟨?_, .inr ⟨_, h3.trans hr2⟩, ?_⟩
      · show s3.trace.map (·.tag) = base ++ (a.tags ++ [t])
        rw [ht3, ht2, hl.tags, List.append_assoc]
      · show (C07.runErrorsOf s3).length = a.nerr + 1
        unfold C07.runErrorsOf
        rw [h3, hr2]
        simp [C07.reList, hl.nerr]
    cases sw with
    | true =>
      refine ⟨unsetIn (renderStep (.fail t e true)) s2, .ok, ?_, ?_, trivial⟩
      · rw [C03.runStep_eq fuel prog pipe _ .probe s hk rfl, C03.runStepWith_plain _ _ _ _ _ ⟨rfl, rfl, rfl, rfl, rfl⟩, h2]
        rfl
      · apply hlen
        · rw [unsetIn_eq]
          exact re_eraseIn s2.ctx t _
        · rw [unsetIn_eq]
    | false =>
      refine ⟨s2, .err ⟨s.nextExc, e, excStr e ("boom " ++ t)⟩ false, ?_, hlen s2 rfl rfl, ⟨rfl, rfl⟩⟩
      rw [C03.runStep_eq fuel prog pipe _ .probe s hk rfl, C03.runStepWith_plain _ _ _ _ _ ⟨rfl, rfl, rfl, rfl, rfl⟩, h2]
      rfl
  | skip t how =>
    have key : ∀ d : StepDef, d.name = some "vprobe" → d.simple = false → d.rawName = none →
        d.inArgs = some (probeIn t []) → d.description = none → d.inBad = none →
        d.while_ = none → d.foreach = none → d.retry = none → d.retryBad = false → d.whileBad = false →
        (∀ s', fmtB s' d.run = .ok false ∨ (fmtB s' d.run = .ok true ∧ fmtB s' d.skip = .ok true)) →
        ∃ s1 r, runStep (fuel + 1) prog pipe d s = (s1, r) ∧ Link base s1 a ∧ RMatch r .ok := by
      intro d hn hs hrn hi hd hib hw hf hr hrb hwb hrun
      have hk : stepInit d = .ok .probe := by
        unfold stepInit decoratorInit; simp [hn, hs, hrn, hw, hrb, hwb]; rfl
      refine ⟨unsetIn d (setIn d s), .ok, ?_, ?_, trivial⟩
      · rw [C03.runStep_eq fuel prog pipe d .probe s hk (C03.describe_none d _ hd) hib,
          runStepWith_skipped d _ _ _ _ hw hf (hrun _)]
      · apply hl.congr
        · rw [unsetIn_eq, setIn_eq]
        · rw [unsetIn_eq, setIn_eq, hi]
          show Ctx.get? (eraseAll (Ctx.update s.ctx (probeIn t [])) (probeIn t [])) "runErrors" = _
          rw [re_eraseIn, re_probeIn]
    cases how with
    | runFalse => exact key _ rfl rfl rfl rfl rfl rfl rfl rfl rfl rfl rfl (fun _ => .inl rfl)
    | skipTrue => exact key _ rfl rfl rfl rfl rfl rfl rfl rfl rfl rfl rfl (fun _ => .inr ⟨rfl, rfl⟩)
    | runStrFalse =>
      exact key _ rfl rfl rfl rfl rfl rfl rfl rfl rfl rfl rfl
        (fun s' => .inl (fmtB_lit s' _ _ (by decide +kernel) (by decide +kernel)))
    | skipStrTRUE =>
      exact key _ rfl rfl rfl rfl rfl rfl rfl rfl rfl rfl rfl
        (fun s' => .inr ⟨rfl, fmtB_lit s' _ _ (by decide +kernel) (by decide +kernel)⟩)
    | runZero => exact key _ rfl rfl rfl rfl rfl rfl rfl rfl rfl rfl rfl (fun _ => .inl rfl)

/-! ## a list of steps, a group -/

theorem RMatch.ok_left {o : ORes} (h : RMatch .ok o) : o = .ok := by
  cases o <;> first | rfl | (simp [RMatch] at h)

theorem RMatch.ok_right {r : Res} (h : RMatch r .ok) : r = .ok := by
  cases r <;> first | rfl | (simp [RMatch] at h)

theorem runSteps_render (prog : Program) (pipe : String) (base : List String) (ss : List SStep) :
    ∀ (fuel : Nat) (s : St) (a : OAcc), Link base s a → ss.length + 1 ≤ fuel →
      ∃ s1 r, runSteps fuel prog pipe (ss.map renderStep) s = (s1, r) ∧
        Link base s1 (oGroup ss a).1 ∧ RMatch r (oGroup ss a).2 := by
  induction ss with
  | nil =>
    intro fuel s a hl hf
    obtain ⟨f, rfl⟩ : ∃ f, fuel = f + 1 := ⟨fuel - 1, by simp at hf; omega⟩
    exact ⟨s, .ok, by unfold runSteps; rfl, hl, trivial⟩
  | cons st rest ih =>
    intro fuel s a hl hf
    obtain ⟨f, rfl⟩ : ∃ f, fuel = f + 2 := ⟨fuel - 2, by simp at hf; omega⟩
    obtain ⟨s1, r, hr, hl1, hm⟩ := runStep_render f prog pipe st s a base hl
    rw [List.map_cons, runSteps_cons, hr, oGroup_cons]
    generalize oStep st a = p at hl1 hm
    obtain ⟨a1, o⟩ := p
    by_cases hok : r = .ok
    · subst hok
      have := hm.ok_left
      subst this
      exact ih (f + 1) s1 a1 hl1 (by simp at hf ⊢; omega)
    · have ho : o ≠ .ok := fun h => hok (by subst h; exact hm.ok_right)
      refine ⟨s1, r, ?_, ?_, ?_⟩
      · cases r <;> first | rfl | exact absurd rfl hok
      · cases o <;> first | exact hl1 | exact absurd rfl ho
      · cases o <;> first | exact hm | exact absurd rfl ho

def maxLen : List (String × List SStep) → Nat
  | [] => 0
  | g :: rest => max g.2.length (maxLen rest)

theorem oLookup_len (gs : List (String × List SStep)) (g : String) : (oLookup gs g).length ≤ maxLen gs := by
  unfold oLookup
  induction gs with
  | nil => simp [maxLen]
  | cons x rest ih =>
    rw [List.find?_cons]
    cases hx : x.1 == g with
    | true => simp only [maxLen]; omega
    | false => simp only [maxLen]; omega

theorem steps_renderProg (gs : List (String × List SStep)) (g : String) :
    getPipelineSteps (renderProg gs) "main" g = .ok ((oLookup gs g).map renderStep) := by
  have hp : (renderProg gs).find? "main" = some
      { name := "main", groups := gs.map fun g => (g.1, GroupBody.steps (g.2.map renderStep)) } := rfl
  unfold getPipelineSteps
  rw [hp]
  simp only [PipeDef.group?, oLookup, List.find?_map]
  cases h : gs.find? ((fun x => x.1 == g) ∘ fun g => (g.1, GroupBody.steps (g.2.map renderStep))) with
  | none =>
    have h' : gs.find? (fun x => x.1 == g) = none := h
    rw [h']; rfl
  | some x =>
    have h' : gs.find? (fun x => x.1 == g) = some x := h
    rw [h']; rfl

/-- `run_step_group(raise_stop)`: a `StopStepGroup` ends the group quietly unless the caller asked to see it -/
def gfix (raiseStop : Bool) : ORes → ORes
  | .stopGroup => if raiseStop then .stopGroup else .ok
  | o => o

theorem runStepGroup_render (gs : List (String × List SStep)) (base : List String) (g : String) (raiseStop : Bool)
    (hg0 : g ≠ "") (fuel : Nat) (s : St) (a : OAcc) (hl : Link base s a) (hf : maxLen gs + 2 ≤ fuel) :
    ∃ s1 r, runStepGroup fuel (renderProg gs) "main" g raiseStop s = (s1, r) ∧
      Link base s1 (oGroup (oLookup gs g) a).1 ∧ RMatch r (gfix raiseStop (oGroup (oLookup gs g) a).2) := by
  obtain ⟨f, rfl⟩ : ∃ f, fuel = f + 1 := ⟨fuel - 1, by omega⟩
  rw [runStepGroup_eq' f _ "main" g raiseStop s _ (steps_renderProg gs g) hg0]
  obtain ⟨s1, r, hr, hl1, hm⟩ := runSteps_render (renderProg gs) "main" base (oLookup gs g) f s a hl
    (by have := oLookup_len gs g; omega)
  rw [hr]
  generalize oGroup (oLookup gs g) a = p at hl1 hm
  obtain ⟨a1, o⟩ := p
  cases r <;> cases o <;> (try (simp [RMatch] at hm)) <;> cases raiseStop <;>
    first
    | exact ⟨s1, _, rfl, hl1, trivial⟩
    | exact ⟨s1, _, rfl, hl1, hm⟩

/-! ## the requested groups, the success group, the failure group -/

theorem runGroupList_render (gs : List (String × List SStep)) (base : List String) (req : List String) :
    (∀ g ∈ req, g ≠ "") → ∀ (fuel : Nat) (s : St) (a : OAcc), Link base s a → req.length + maxLen gs + 3 ≤ fuel →
      ∃ s1 r, runGroupList fuel (renderProg gs) "main" req s = (s1, r) ∧
        Link base s1 (oReq gs req a).1 ∧ RMatch r (oReq gs req a).2 := by
  induction req with
  | nil =>
    intro _ fuel s a hl hf
    obtain ⟨f, rfl⟩ : ∃ f, fuel = f + 1 := ⟨fuel - 1, by omega⟩
    exact ⟨s, .ok, by unfold runGroupList; rfl, hl, trivial⟩
  | cons g rest ih =>
    intro hreq fuel s a hl hf
    obtain ⟨f, rfl⟩ : ∃ f, fuel = f + 1 := ⟨fuel - 1, by omega⟩
    have hf' : rest.length + maxLen gs + 3 ≤ f := by simp at hf; omega
    obtain ⟨s1, r, hr, hl1, hm⟩ := runStepGroup_render gs base g false (hreq g (List.mem_cons_self ..)) f s a hl (by omega)
    have ih' := fun s a hl => ih (fun g' hg' => hreq g' (List.mem_cons_of_mem _ hg')) f s a hl hf'
    rw [runGroupList_cons, hr]
    simp only [oReq]
    generalize oGroup (oLookup gs g) a = p at hl1 hm
    obtain ⟨a1, o⟩ := p
    cases o with
    | ok => have := hm.ok_right; subst this; exact ih' s1 a1 hl1
    | stopGroup => have := RMatch.ok_right (r := r) hm; subst this; exact ih' s1 a1 hl1
    | err n m => cases r <;> (try (simp [RMatch, gfix] at hm)) <;> exact ⟨s1, _, rfl, hl1, hm⟩
    | stop => cases r <;> (try (simp [RMatch, gfix] at hm)) <;> exact ⟨s1, _, rfl, hl1, trivial⟩
    | stopPipeline => cases r <;> (try (simp [RMatch, gfix] at hm)) <;> exact ⟨s1, _, rfl, hl1, trivial⟩

theorem RMatch.err {e : ExcV} {h : Bool} {n m : String} (hm : RMatch (.err e h) (.err n m)) :
    h = false ∧ e.name = n ∧ e.msg = m := by
  cases h with
  | false => exact ⟨rfl, hm⟩
  | true => exact hm.elim

theorem RMatch.not_ok {r : Res} {o : ORes} (h : RMatch r o) (hr : r ≠ .ok) : o ≠ .ok :=
  fun ho => hr (by subst ho; exact h.ok_right)

theorem mainPhase_render (gs : List (String × List SStep)) (base : List String) (req : List String)
    (succ : Option String) (hreq : ∀ g ∈ req, g ≠ "") (fuel : Nat) (s : St) (a : OAcc) (hl : Link base s a)
    (hf : req.length + maxLen gs + 3 ≤ fuel) :
    ∃ s1 r, mainPhase fuel (renderProg gs) "main" req succ s = (s1, r) ∧
      Link base s1 (oMain gs req succ a).1 ∧ RMatch r (oMain gs req succ a).2 := by
  obtain ⟨s1, r, hr, hl1, hm⟩ := runGroupList_render gs base req hreq fuel s a hl hf
  unfold mainPhase oMain
  rw [hr]
  generalize oReq gs req a = p at hl1 hm
  obtain ⟨a1, o⟩ := p
  by_cases hok : r = .ok
  · subst hok
    have := hm.ok_left
    subst this
    cases succ with
    | none => exact ⟨s1, .ok, rfl, hl1, trivial⟩
    | some sg =>
      by_cases hsg : sg = ""
      · subst hsg; exact ⟨s1, .ok, rfl, hl1, trivial⟩
      · simp only [beq_iff_eq, hsg, if_false]
        obtain ⟨s2, r2, hr2, hl2, hm2⟩ := runStepGroup_render gs base sg false hsg fuel s1 a1 hl1 (by omega)
        rw [hr2]
        generalize oGroup (oLookup gs sg) a1 = p2 at hl2 hm2
        obtain ⟨a2, o2⟩ := p2
        cases o2 <;> exact ⟨s2, r2, rfl, hl2, hm2⟩
  · have ho := hm.not_ok hok
    cases r <;> first
      | exact absurd rfl hok
      | (cases o <;> first
          | exact absurd rfl ho
          | exact ⟨s1, _, rfl, hl1, hm⟩
          | (simp [RMatch] at hm))

theorem runGroups_render (gs : List (String × List SStep)) (base : List String) (g : String) (rest : List String)
    (succ fail : Option String) (hreq : ∀ g' ∈ g :: rest, g' ≠ "") (fuel : Nat) (s : St) (a : OAcc)
    (hl : Link base s a) (hf : (g :: rest).length + maxLen gs + 5 ≤ fuel) :
    ∃ s1 r, runGroups fuel (renderProg gs) "main" (g :: rest) succ fail s = (s1, r) ∧
      Link base s1 (oracle gs (g :: rest) succ fail a).1 ∧ RMatch r (oracle gs (g :: rest) succ fail a).2 := by
  obtain ⟨f, rfl⟩ : ∃ f, fuel = f + 2 := ⟨fuel - 2, by omega⟩
  obtain ⟨s1, r, hr, hl1, hm⟩ := mainPhase_render gs base (g :: rest) succ hreq (f + 1) s a hl (by omega)
  rw [runGroups_eq, hr]
  unfold oracle
  generalize oMain gs (g :: rest) succ a = p at hl1 hm
  obtain ⟨a1, o⟩ := p
  cases r with
  | err e h =>
    cases o <;> (try (simp [RMatch] at hm))
    rename_i n m
    cases h <;> (try (simp at hm))
    cases fail with
    | none => exact ⟨s1, _, rfl, hl1, hm⟩
    | some fg =>
      by_cases hfg : fg = ""
      · subst hfg; exact ⟨s1, _, rfl, hl1, hm⟩
      · simp only [hasFailureGroup, bne_iff_ne, ne_eq, hfg, not_false_eq_true, if_true, beq_iff_eq, if_false]
        rw [runFailureGroup_eq f _ "main" fg s1 hfg]
        obtain ⟨s2, r2, hr2, hl2, hm2⟩ := runStepGroup_render gs base fg true hfg f s1 a1 hl1 (by simp at hf; omega)
        rw [hr2]
        generalize oGroup (oLookup gs fg) a1 = p2 at hl2 hm2
        obtain ⟨a2, o2⟩ := p2
        cases r2 <;> cases o2 <;> (try (simp [RMatch, gfix] at hm2)) <;>
          first
          | exact ⟨s2, _, rfl, hl2, trivial⟩
          | exact ⟨s2, _, rfl, hl2, hm⟩
  | _ =>
    cases o <;> first
      | exact ⟨s1, _, rfl, hl1, hm⟩
      | (simp [RMatch] at hm)

/-! ## the whole run -/

/-- the defaulting at the top of `straight_oracle` (= `Pipeline._run_pipeline`'s) -/
def oDefault (req : Option (List String)) (succ fail : Option String) : List String × Option String × Option String :=
  let truthy (o : Option String) : Bool := match o with | some x => x != "" | none => false
  match req with
  | some (g :: rest) => (g :: rest, succ, fail)
  | _ => if !truthy succ && !truthy fail then (["steps"], some "on_success", some "on_failure")
         else (["steps"], succ, fail)

theorem oDefault_eq (req : Option (List String)) (succ fail : Option String) :
    effectiveGroups { name := "main", groups := req, success := succ, failure := fail } = oDefault req succ fail := by
  unfold effectiveGroups oDefault
  cases req with
  | none => rfl
  | some l => cases l <;> rfl

theorem oDefault_ne_nil (req : Option (List String)) (succ fail : Option String) :
    ∃ g rest, (oDefault req succ fail).1 = g :: rest := by
  have h : ∀ (c : Bool) (x y : Option String × Option String),
      (if c = true then ((["steps"], x) : List String × Option String × Option String) else (["steps"], y)).1
        = ["steps"] := by
    intro c x y; cases c <;> rfl
  unfold oDefault
  cases req with
  | none => exact ⟨"steps", [], h _ _ _⟩
  | some l =>
    cases l with
    | nil => exact ⟨"steps", [], h _ _ _⟩
    | cons g rest => exact ⟨g, rest, rfl⟩

/-- `_run_pipeline`: a StopPipeline ends this pipeline quietly -/
def pipeFix : Res → Res
  | .stopPipeline => .ok
  | r => r

/-- what the API caller sees of a result: Stop / StopPipeline / StopStepGroup end the run normally -/
def outcomeOf : ORes → Option (String × String)
  | .err n m => some (n, m)
  | _ => none

/-- **the Python oracle of the C01 / C02 directed families is the model**: for every straight-line
    pipeline (`gs`: group name ↦ steps of the seven kinds), every `groups` / `success` / `failure` argument
    of the run (names of requested groups non-empty - `''` is no group name, `C01.empty_group_name_raises`),
    every start state whose context has no `runErrors`, and enough fuel (linear in the number of requested
    groups and the longest group; by `run_fuel_mono` then for every larger fuel too):
    the run of the model ends, its probe events are exactly the oracle's `tags` in order, `runErrors` has
    exactly the oracle's `nerr` entries, and the caller sees the oracle's `outcome` and `err_msg`. -/
theorem straight_oracle_eq_model (gs : List (String × List SStep)) (req : Option (List String))
    (succ fail : Option String) (s : St) (fuel : Nat)
    (hre : Ctx.get? s.ctx "runErrors" = none)
    (hreq : ∀ g ∈ (oDefault req succ fail).1, g ≠ "")
    (hf : (oDefault req succ fail).1.length + maxLen gs + 7 ≤ fuel) :
    let d := oDefault req succ fail
    let o := oracle gs d.1 d.2.1 d.2.2 {}
    ∃ s' r, runRoot fuel (renderProg gs) { name := "main", groups := req, success := succ, failure := fail } s = (s', r) ∧
      s'.trace.map (·.tag) = s.trace.map (·.tag) ++ o.1.tags ∧
      (C07.runErrorsOf s').length = o.1.nerr ∧
      (match outcomeOf o.2 with
       | some (n, m) => ∃ e h, r = .err e h ∧ e.name = n ∧ e.msg = m
       | none => r = .ok) := by
  intro d o
  obtain ⟨f, rfl⟩ : ∃ f, fuel = f + 1 := ⟨fuel - 1, by omega⟩
  obtain ⟨g, rest, hd⟩ := oDefault_ne_nil req succ fail
  have hl0 : Link (s.trace.map (·.tag)) { s with stack := "main" :: s.stack } {} :=
    ⟨by simp, .inl hre, by unfold C07.runErrorsOf; rw [show Ctx.get? _ "runErrors" = none from hre]; rfl⟩
  have hgr := runGroups_render gs (s.trace.map (·.tag)) g rest d.2.1 d.2.2 (by rw [← hd]; exact hreq) f _ {} hl0
    (by rw [← hd]; omega)
  rw [← hd] at hgr
  obtain ⟨s1, r1, hr1, hl1, hm1⟩ := hgr
  have hp : (renderProg gs).find? "main" = some
      { name := "main", groups := gs.map fun g => (g.1, GroupBody.steps (g.2.map renderStep)) } := rfl
  have hpc : ∀ s0 : St, prepareContext
      { name := "main", groups := gs.map fun g => (g.1, GroupBody.steps (g.2.map renderStep)) }
      { name := "main", groups := req, success := succ, failure := fail } s0 = (s0, .ok) := fun _ => rfl
  have key : runPipeline (f + 1) (renderProg gs) { name := "main", groups := req, success := succ, failure := fail } s =
      ({ s1 with stack := s1.stack.drop 1 }, pipeFix r1) := by
    rw [runPipeline_eq f _ _ _ s hp rfl]
    simp only [hpc, oDefault_eq]
    rw [hr1]
    cases r1 <;> rfl
  rw [runRoot_eq, key]
  have hl2 : Link (s.trace.map (·.tag)) { s1 with stack := s1.stack.drop 1 } o.1 := hl1.congr rfl rfl
  have hm2 : RMatch r1 o.2 := hm1
  generalize o = oo at hl2 hm2
  obtain ⟨a1, o1⟩ := oo
  cases r1 <;> cases o1 <;> (try (simp [RMatch] at hm2)) <;>
    first
    | exact ⟨_, _, rfl, hl2.tags, hl2.nerr, rfl⟩
    | exact ⟨_, _, rfl, hl2.tags, hl2.nerr, _, _, rfl, (RMatch.err hm2).2.1, (RMatch.err hm2).2.2⟩

/-! ## the two places where the transcription is not letter by letter -/

/-- the oracle's message is `'boom ' + tag`; `str(KeyError(m))` is `repr(m)`, which the model mirrors
    (`excStr`). The directed families never script a `KeyError` (errs = ValueError, vprobe.ProbeError,
    RuntimeError, TypeError, vprobe.OtherError), and for every other name the two are the same text. -/
theorem excStr_of_ne (e m : String) (h : e ≠ "KeyError") : excStr e m = m := by
  unfold excStr; simp [h]

/-- `gmap = dict(groups)`: of two groups with one name Python keeps the LAST; `oLookup` (like the model's
    `PipeDef.group?`, and like a yaml mapping, which cannot repeat a key) takes the first. With distinct
    names - all the harness ever generates - there is no difference. -/
def oLookupLast (gs : List (String × List SStep)) (name : String) : List SStep :=
  match gs.reverse.find? (·.1 == name) with
  | some g => g.2
  | none => []

theorem oLookup_eq_last (gs : List (String × List SStep)) (name : String) (hn : (gs.map (·.1)).Nodup) :
    oLookupLast gs name = oLookup gs name := by
  unfold oLookupLast oLookup
  induction gs with
  | nil => rfl
  | cons x rest ih =>
    have hn' := List.nodup_cons.mp hn
    rw [List.reverse_cons, List.find?_append]
    cases hx : x.1 == name with
    | true =>
      have hnone : rest.reverse.find? (·.1 == name) = none := by
        rw [List.find?_eq_none]
        intro y hy hyn
        have hy' : y ∈ rest := List.mem_reverse.mp hy
        have : y.1 = x.1 := by rw [beq_iff_eq] at hyn hx; rw [hyn, hx]
        have hmem : y.1 ∈ rest.map (·.1) := List.mem_map_of_mem hy'
        rw [this] at hmem
        exact hn'.1 hmem
      rw [hnone]
      simp only [List.find?_cons, hx, Option.none_or]
    | false =>
      have ih' := ih hn'.2
      cases h1 : rest.reverse.find? (·.1 == name) with
      | some y => rw [h1] at ih'; simp only [List.find?_cons, hx, Option.some_or]; exact ih'
      | none => rw [h1] at ih'; simp only [List.find?_cons, List.find?_nil, hx, Option.none_or]; exact ih'

/-! ## the oracle computes what the Python computes (three cases of `c01_family`, by evaluation) -/

/-- failure in `steps`, handler ends with StopStepGroup: the error is suppressed, `h3` never runs -/
example :
    oracle [("steps", [.ok "s0", .fail "s1" "ValueError" false, .ok "s2"]), ("on_success", [.ok "os"]),
            ("on_failure", [.ok "h1", .stopGroup, .ok "h3"])]
      ["steps"] (some "on_success") (some "on_failure") {} = (⟨["s0", "s1", "h1"], 1⟩, .ok) := by decide

/-- swallowed failure: recorded, the group carries on, the success group runs -/
example :
    oracle [("steps", [.ok "s0", .fail "s1" "RuntimeError" true, .skip "s2" .runFalse]), ("on_success", [.ok "os"]),
            ("on_failure", [.ok "h1"])]
      ["steps"] (some "on_success") (some "on_failure") {} = (⟨["s0", "s1", "os"], 1⟩, .ok) := by decide

/-- the handler fails itself: its error is recorded too, the original one reaches the caller -/
example :
    oracle [("steps", [.fail "s0" "vprobe.ProbeError" false]),
            ("on_failure", [.ok "h1", .fail "h2" "TypeError" false, .ok "h3"])]
      ["steps"] (some "on_success") (some "on_failure") {} =
      (⟨["s0", "h1", "h2"], 2⟩, .err "vprobe.ProbeError" "boom s0") := by decide +kernel

end Pypyr.C01o
