/-
  C11 helper lemmas, part 3: `pypyr.steps.pype.run_step` (`pypeBody`) cut into its pieces, with the
  child pipeline run abstracted to an arbitrary body:

    pypeBody (fuel+1) prog s = pypeWith a (runPipeline fuel prog (pypeInst a)) s      (a = get_arguments)
    pypeWith a child = errTail a.raiseError ∘ (if a.useParent then pypeShared a child else pypeOwn a child)

  plus the result classes of `_prepare_context`, `_run_pipeline` and pype (no `StopPipeline` leaves a
  pipeline), the stack balance instances of the global fuel induction (`FlowGlobalRun.lean`), and where
  an error that leaves the child pipeline comes from (after its failure handler).
-/
import Props.Lemmas.C11_Args
import Props.Lemmas.C11_Out
import Props.Lemmas.C01_Runner
import Props.Lemmas.FlowGlobalRun

namespace Pypyr.C11
open Pypyr Pypyr.Flow

/-- `Pipeline.new_pipe_and_args(...)`: how the child pipeline is to be run -/
def pypeInst (a : PypeArgs) : PipeInst :=
  { name := a.name, groups := a.groups, success := a.success, failure := a.failure,
    parseInput := !a.skipParse, contextArgs := a.pipeArg, groupsBad := a.groupsBad }

/-- `if args: context.update(args)` (shared context) -/
def mergeArgs (a : PypeArgs) (s : St) : St :=
  match a.args with
  | some kvs => if kvs.isEmpty then s else { s with ctx := Ctx.update s.ctx kvs }
  | none => s

/-- `Context(args) if args else Context()`: own data, own (empty) pipeline stack; the globals of the
    run (trace, sleeps, exception counter, random script) are the run's -/
def childStart (a : PypeArgs) (s : St) : St := { s with ctx := a.args.getD [], stack := [] }

/-- back in the parent after the child ended in state `c1`: the parent's own context object (data and
    stack) again, the globals of the run as the child left them -/
def backIn (s c1 : St) : St := { c1 with ctx := s.ctx, stack := s.stack }

/-- the `else` branch of `run_step` (`useParentContext` false) over an arbitrary child run -/
def pypeOwn (a : PypeArgs) (child : Body) (s : St) : St × Res :=
  match child (childStart a s) with
  | (c1, .ok) =>
    match a.out with
    | some o => writeOut o (backIn s c1) c1
    | none => (backIn s c1, .ok)
  | (c1, other) => (backIn s c1, other)

/-- the `if` branch (`useParentContext` true) over an arbitrary child run -/
def pypeShared (a : PypeArgs) (child : Body) (s : St) : St × Res := child (mergeArgs a s)

/-- the `except Exception` clause: re-raise iff `raiseError`; everything that is not an error
    (normal end, Stop, control-of-flow) is not its business -/
def errTail (raiseError : Bool) (r : St × Res) : St × Res :=
  match r with
  | (s2, .err e h) => if raiseError then (s2, .err e h) else (s2, .ok)
  | other => other

/-- `run_step` after `get_arguments`, over an arbitrary child run -/
def pypeWith (a : PypeArgs) (child : Body) (s : St) : St × Res :=
  errTail a.raiseError (if a.useParent then pypeShared a child s else pypeOwn a child s)

theorem pypeBody_eq (fuel : Nat) (prog : Program) (s : St) :
    pypeBody (fuel + 1) prog s =
      (match getPypeArgs s with
       | .error (n, m) => raiseNew s n m
       | .ok a => pypeWith a (runPipeline fuel prog (pypeInst a)) s) := by
  conv => lhs; unfold pypeBody
  cases getPypeArgs s with
  | error e => rfl
  | ok a =>
    simp only [pypeWith, pypeShared, pypeOwn, pypeInst, mergeArgs, childStart, backIn]
    cases hu : a.useParent with
    | true => rfl
    | false =>
      simp only [Bool.false_eq_true, if_false]
      generalize runPipeline fuel prog _ _ = p
      obtain ⟨c1, r1⟩ := p
      cases r1 <;> rfl

theorem pypeBody_zero (prog : Program) (s : St) : pypeBody 0 prog s = (s, .outOfFuel) := by
  unfold pypeBody; rfl

/-! ### errTail -/

theorem errTail_state (b : Bool) (r : St × Res) : (errTail b r).1 = r.1 := by
  obtain ⟨s, x⟩ := r
  cases x <;> first | rfl | (unfold errTail; simp only []; split <;> rfl)

theorem errTail_err (b : Bool) (s : St) (e : ExcV) (h : Bool) :
    errTail b (s, .err e h) = (s, if b then .err e h else .ok) := by
  cases b <;> rfl

theorem errTail_nonerr (b : Bool) (s : St) (x : Res) (hx : x.isErr = false) : errTail b (s, x) = (s, x) := by
  cases x <;> first | rfl | simp [Res.isErr] at hx

/-! ### own context -/

theorem pypeOwn_nonok (a : PypeArgs) (child : Body) (s c1 : St) (x : Res)
    (hc : child (childStart a s) = (c1, x)) (hx : x ≠ .ok) : pypeOwn a child s = (backIn s c1, x) := by
  unfold pypeOwn; rw [hc]; cases x <;> first | rfl | exact absurd rfl hx

theorem pypeOwn_ok_noout (a : PypeArgs) (child : Body) (s c1 : St)
    (hc : child (childStart a s) = (c1, .ok)) (ho : a.out = none) : pypeOwn a child s = (backIn s c1, .ok) := by
  unfold pypeOwn; rw [hc]; simp only [ho]

theorem pypeOwn_ok_out (a : PypeArgs) (child : Body) (s c1 : St) (o : Val)
    (hc : child (childStart a s) = (c1, .ok)) (ho : a.out = some o) :
    pypeOwn a child s = writeOut o (backIn s c1) c1 := by
  unfold pypeOwn; rw [hc]; simp only [ho]

theorem pypeOwn_stack (a : PypeArgs) (child : Body) (s : St) : (pypeOwn a child s).1.stack = s.stack := by
  unfold pypeOwn
  generalize child (childStart a s) = p
  obtain ⟨c1, x⟩ := p
  cases x with
  | ok =>
    simp only []
    cases a.out with
    | none => rfl
    | some o => simp only []; rw [writeOut_stack]; rfl
  | _ => rfl

/-- **frame**: whatever the child does and however it ends, a key that is not a parent key of `out`
    has the value (or the absence) in the parent that it had before -/
theorem pypeOwn_frame (a : PypeArgs) (child : Body) (s : St) (k : String) (hk : k ∉ outKeys a.out) :
    Ctx.get? (pypeOwn a child s).1.ctx k = Ctx.get? s.ctx k := by
  unfold pypeOwn
  generalize child (childStart a s) = p
  obtain ⟨c1, x⟩ := p
  cases x with
  | ok =>
    simp only []
    cases ho : a.out with
    | none => rfl
    | some o => simp only []; rw [ho] at hk; rw [writeOut_frame o _ _ k hk]; rfl
  | _ => rfl

/-! ### result classes -/

theorem raiseNew_snd (s : St) (n m : String) : (raiseNew s n m).2 = .err ⟨s.nextExc, n, m⟩ false := rfl

/-- `_prepare_context` ends normally or with an error -/
theorem prepareContext_result (pd : PipeDef) (pi : PipeInst) (s : St) :
    (prepareContext pd pi s).2 = .ok ∨ ∃ e, (prepareContext pd pi s).2 = .err e false := by
  unfold prepareContext
  repeat' split
  all_goals first
    | exact .inl rfl
    | exact .inr ⟨_, rfl⟩

/-- **`StopPipeline` never leaves `_run_pipeline`** (it ends that pipeline, quietly) -/
theorem runPipeline_ne_stopPipeline (fuel : Nat) (prog : Program) (pi : PipeInst) (s : St) :
    (runPipeline fuel prog pi s).2 ≠ .stopPipeline := by
  cases fuel with
  | zero => unfold runPipeline; simp
  | succ n =>
    cases hp : prog.find? pi.name with
    | none => rw [runPipeline_notFound n prog pi s hp, raiseNew_snd]; simp
    | some pd =>
      have hprep := prepareContext_result pd pi { s with stack := pi.name :: s.stack }
      by_cases hgb : pi.groupsBad = true
      · rw [runPipeline_groupsBad n prog pi pd s hp hgb]
        simp only []
        generalize prepareContext pd pi { s with stack := pi.name :: s.stack } = p at hprep
        obtain ⟨s1, r⟩ := p
        cases r with
        | err e h =>
          simp only []
          generalize runFailureGroup n prog pi.name pi.failure s1 = q
          obtain ⟨s2, r2⟩ := q
          cases r2 <;> simp
        | ok =>
          simp only []
          by_cases hf0 : hasFailureGroup pi.failure = true
          · simp only [hf0, if_true]
            generalize runFailureGroup n prog pi.name pi.failure _ = q
            obtain ⟨s2, r2⟩ := q
            cases r2 <;> simp
          · simp [hf0]
        | _ => simp at hprep
      have hgb : pi.groupsBad = false := by simpa using hgb
      rw [runPipeline_eq n prog pi pd s hp hgb]
      simp only []
      generalize prepareContext pd pi { s with stack := pi.name :: s.stack } = p at hprep
      obtain ⟨s1, r⟩ := p
      cases r with
      | err e h =>
        simp only []
        generalize runFailureGroup n prog pi.name (effectiveGroups pi).2.2 s1 = q
        obtain ⟨s2, r2⟩ := q
        cases r2 <;> simp
      | ok =>
        simp only []
        generalize runGroups n prog pi.name (effectiveGroups pi).1 (effectiveGroups pi).2.1 (effectiveGroups pi).2.2 s1 = q
        obtain ⟨s2, r2⟩ := q
        cases r2 <;> simp
      | _ => simp at hprep

theorem errTail_ne_stopPipeline (b : Bool) (r : St × Res) (h : r.2 ≠ .stopPipeline) :
    (errTail b r).2 ≠ .stopPipeline := by
  obtain ⟨s, x⟩ := r
  cases x <;> first
    | exact h
    | (rw [errTail_err]; cases b <;> simp)

theorem pypeOwn_ne_stopPipeline (a : PypeArgs) (child : Body) (s : St)
    (hc : (child (childStart a s)).2 ≠ .stopPipeline) : (pypeOwn a child s).2 ≠ .stopPipeline := by
  unfold pypeOwn
  generalize child (childStart a s) = p at hc
  obtain ⟨c1, x⟩ := p
  cases x with
  | ok =>
    simp only []
    cases a.out with
    | none => simp
    | some o =>
      simp only []
      rcases writeOut_result o (backIn s c1) c1 with h | ⟨e, h⟩ <;> rw [h] <;> simp
  | stopPipeline => exact absurd rfl hc
  | _ => simp

/-- **pype never hands a `StopPipeline` to the parent** -/
theorem pypeBody_ne_stopPipeline (fuel : Nat) (prog : Program) (s : St) :
    (pypeBody fuel prog s).2 ≠ .stopPipeline := by
  cases fuel with
  | zero => rw [pypeBody_zero]; simp
  | succ n =>
    rw [pypeBody_eq]
    cases getPypeArgs s with
    | error e => simp only []; rw [raiseNew_snd]; simp
    | ok a =>
      simp only [pypeWith]
      apply errTail_ne_stopPipeline
      cases a.useParent with
      | true => exact runPipeline_ne_stopPipeline n prog _ _
      | false => exact pypeOwn_ne_stopPipeline a _ s (runPipeline_ne_stopPipeline n prog _ _)

/-! ### stack balance: instances of the global induction -/

theorem runPipeline_stack (fuel : Nat) (prog : Program) (pi : PipeInst) (s : St) :
    (runPipeline fuel prog pi s).1.stack = s.stack :=
  (allPres stackRel_global prog fuel).2.2.2.2.2.2.1 pi s

theorem pypeBody_stack (fuel : Nat) (prog : Program) (s : St) : (pypeBody fuel prog s).1.stack = s.stack :=
  (allPres stackRel_global prog fuel).2.2.2.2.2.2.2 s

theorem runStep_stack (fuel : Nat) (prog : Program) (pipe : String) (d : StepDef) (s : St) :
    (runStep fuel prog pipe d s).1.stack = s.stack :=
  (allPres stackRel_global prog fuel).1 pipe d s

theorem runSteps_stack (fuel : Nat) (prog : Program) (pipe : String) (ds : List StepDef) (s : St) :
    (runSteps fuel prog pipe ds s).1.stack = s.stack :=
  (allPres stackRel_global prog fuel).2.1 pipe ds s

theorem runGroups_stack (fuel : Nat) (prog : Program) (pipe : String) (gs : List String) (su fa : Option String)
    (s : St) : (runGroups fuel prog pipe gs su fa s).1.stack = s.stack :=
  (allPres stackRel_global prog fuel).2.2.2.2.2.1 pipe gs su fa s

/-! ### an error leaving the child pipeline comes after the child's failure handler -/

/-- where an error result of `_run_pipeline` comes from, down to the main phase of `run_step_groups`
    and the failure handler (`runPipeline_err_origin` + `runGroups_err_origin` of C01). -/
theorem runPipeline_err_after_handler (fuel : Nat) (prog : Program) (pi : PipeInst) (s s' : St)
    (e : ExcV) (h : Bool) (hgb : pi.groupsBad = false) (hr : runPipeline fuel prog pi s = (s', .err e h)) :
    (prog.find? pi.name = none ∧ s'.ctx = s.ctx) ∨
    (∃ pd n s1 s2, fuel = n + 1 ∧ prog.find? pi.name = some pd ∧
        prepareContext pd pi { s with stack := pi.name :: s.stack } = (s1, .err e h) ∧
        (runFailureGroup n prog pi.name (effectiveGroups pi).2.2 s1 = (s2, .ok) ∨
         runFailureGroup n prog pi.name (effectiveGroups pi).2.2 s1 = (s2, .stopGroup)) ∧
        s' = { s2 with stack := s2.stack.drop 1 }) ∨
    (∃ pd n s0 s1, fuel = n + 2 ∧ prog.find? pi.name = some pd ∧
        prepareContext pd pi { s with stack := pi.name :: s.stack } = (s0, .ok) ∧
        mainPhase n prog pi.name (effectiveGroups pi).1 (effectiveGroups pi).2.1 s0 = (s1, .err e h) ∧
        ((hasFailureGroup (effectiveGroups pi).2.2 = false ∧ s' = { s1 with stack := s1.stack.drop 1 }) ∨
         (hasFailureGroup (effectiveGroups pi).2.2 = true ∧
            ∃ s2, runFailureGroup n prog pi.name (effectiveGroups pi).2.2 s1 = (s2, .ok) ∧
              s' = { s2 with stack := s2.stack.drop 1 }))) := by
  cases fuel with
  | zero => unfold runPipeline at hr; simp at hr
  | succ n =>
    cases hp : prog.find? pi.name with
    | none =>
      rw [runPipeline_notFound n prog pi s hp] at hr
      refine .inl ⟨rfl, ?_⟩
      have : s' = (raiseNew s "pypyr.errors.PipelineNotFoundError" "~pipeline not found").1 := by rw [hr]
      rw [this]; rfl
    | some pd =>
      rcases runPipeline_err_origin n prog pi pd s s' e h hp hgb hr with ⟨s1, s2, h1, h2, h3⟩ | ⟨s0, s2, h1, h2, h3⟩
      · exact .inr (.inl ⟨pd, n, s1, s2, rfl, rfl, h1, h2, h3⟩)
      · refine .inr (.inr ?_)
        cases n with
        | zero => unfold runGroups at h2; simp at h2
        | succ m =>
          have hne := effectiveGroups_nonempty pi hgb
          generalize hgs : (effectiveGroups pi).1 = gs at h2 hne
          cases gs with
          | nil => exact absurd rfl hne
          | cons g rest =>
            obtain ⟨s1, hm, hcase⟩ := runGroups_err_origin m prog pi.name g rest _ _ s0 s2 e h h2
            refine ⟨pd, m, s0, s1, rfl, rfl, h1, hm, ?_⟩
            rcases hcase with ⟨hf, heq⟩ | ⟨hf, hrun⟩
            · exact .inl ⟨hf, by rw [h3, heq]⟩
            · exact .inr ⟨hf, s2, hrun, h3⟩

end Pypyr.C11
