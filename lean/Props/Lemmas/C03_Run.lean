/-
  C03 helper lemmas, part 3: the runner level. `runStep` as "`Step.__init__`, then the decorator
  stack around the module body, calls served by the current pipeline's `run_step_groups`"
  (`runStep_eq`); a step without loop / retry / run / skip decorators (`Plain`); the real
  `pypyr.steps.call` body satisfies the hypothesis of the foreach lemmas; a jump inside a step
  list / step-group / list of groups.
-/
import Props.Lemmas.C03_Switch
import Props.Lemmas.C01_Runner

namespace Pypyr.C03
open Pypyr Pypyr.Flow Pypyr.C04 Pypyr.C05

-- interpreter states can be compared (used by the concrete `example`s of Props/C03.lean)
deriving instance DecidableEq for Escape
deriving instance DecidableEq for St

/-! ## `runStep`, opened up -/

/-- the module body a step kind denotes (the table inside `runStep`). -/
def stepBody (fuel : Nat) (prog : Program) : StepKind → Body
  | .probe => probeStep
  | .stop => fun s => (s, .stop)
  | .stopPipeline => fun s => (s, .stopPipeline)
  | .stopGroup => fun s => (s, .stopGroup)
  | .call => cofStep "call" true
  | .jump => cofStep "jump" false
  | .switch => switchStep
  | .set => setStep
  | .contextClear => contextClearStep
  | .contextClearAll => contextClearAllStep
  | .pype => pypeBody fuel prog

/-- `context.current_pipeline.steps_runner.run_step_groups(groups, success, failure)`: what serves
    a `Call` raised by a step of pipeline `pipe` — the complete interpreter, so the called groups
    may contain loops, calls, jumps, switches and nested pipelines of their own to any depth. -/
def groupsCallee (fuel : Nat) (prog : Program) (pipe : String) : CofCfg → Body := fun c s' =>
  runGroups fuel prog (s'.stack.head?.getD pipe) c.groups c.success c.failure s'

theorem runStep_eq_described (fuel : Nat) (prog : Program) (pipe : String) (d : StepDef) (kind : StepKind) (s : St)
    (hk : stepInit d = .ok kind) :
    runStep (fuel + 1) prog pipe d s =
      runStepDescribed d (stepBody fuel prog kind) (groupsCallee fuel prog pipe) fuel s := by
  conv => lhs; unfold runStep
  simp only [hk]
  cases kind <;> rfl

/-- a step without `description` (or with a falsy one) raises nothing up front. -/
theorem describe_none (d : StepDef) (s : St) (h : d.description = none) : describe d s = none := by
  unfold describe; rw [h]

/-- `Step.run_step` when the description notification raises nothing (`Quiet`): the decorator stack. -/
theorem runStepDescribed_quiet (d : StepDef) (body : Body) (callee : CofCfg → Body) (fuel : Nat) (s : St)
    (hin : d.inBad = none) (hq : describe d (setIn d s) = none) :
    runStepDescribed d body callee fuel s = runStepWith d body callee fuel s := by
  unfold runStepDescribed inFault; rw [hin, hq]

/-- … and when formatting the description fails: that error, raised with the `in` arguments set; the
    module body never runs, no decorator is evaluated. -/
theorem runStepDescribed_fails (d : StepDef) (body : Body) (callee : CofCfg → Body) (fuel : Nat) (s : St) (x : Exc)
    (hin : d.inBad = none) (hq : describe d (setIn d s) = some x) :
    runStepDescribed d body callee fuel s = raiseExc (setIn d s) x := by
  unfold runStepDescribed inFault; rw [hin, hq]

/-- NEW HYPOTHESIS `hq` (since the model covers `description`): the step's description, if it has one,
    formats without error in the state with the `in` arguments set; `describe_none` discharges it for a
    step without description. NEW HYPOTHESIS `hin` (since the model covers an `in` that is no mapping):
    `in` is a mapping, null or absent (`rfl` for every step written with `inArgs`). Without them `runStep`
    is `runStepDescribed` (`runStep_eq_described`). -/
theorem runStep_eq (fuel : Nat) (prog : Program) (pipe : String) (d : StepDef) (kind : StepKind) (s : St)
    (hk : stepInit d = .ok kind) (hq : describe d (setIn d s) = none) (hin : d.inBad = none := by rfl) :
    runStep (fuel + 1) prog pipe d s =
      runStepWith d (stepBody fuel prog kind) (groupsCallee fuel prog pipe) fuel s := by
  rw [runStep_eq_described fuel prog pipe d kind s hk, runStepDescribed_quiet _ _ _ _ _ hin hq]

/-- no `while`, no `foreach`, no `retry`, `run` and `skip` at their defaults. -/
structure Plain (d : StepDef) : Prop where
  noWhile : d.while_ = none
  noForeach : d.foreach = none
  noRetry : d.retry = none
  run : d.run = .bool true
  skip : d.skip = .bool false

theorem runStepWith_plain (d : StepDef) (body : Body) (callee : CofCfg → Body) (fuel : Nat) (s : St)
    (hp : Plain d) :
    runStepWith d body callee fuel s =
      (match swallowWrap d (invokeStep {} body callee (setIn d s)) with
       | (s1, .ok) => (unsetIn d s1, .ok)
       | other => other) := by
  rw [runStepWith_eq]
  unfold stepCore foreachLayer foreachOrConditional conditionalLayer retriedLayer
  simp only [hp.noWhile, hp.noForeach, hp.noRetry]
  rw [runConditional_eq]
  simp only [hp.run, hp.skip]
  rfl

/-- the run / skip / swallow layer of a step without `retry`, with `run` and `skip` at their
    defaults, hands a normal completion of `invoke_step` on unchanged: it is a `PassesOk` layer,
    and it is the layer `foreach` iterates over in `run_step` (`stepCore`, `foreachLayer`). -/
theorem conditionalLayer_passesOk (d : StepDef) (body : Body) (callee : CofCfg → Body) (fuel : Nat)
    (hr : d.retry = none) (hrun : d.run = .bool true) (hskip : d.skip = .bool false) :
    PassesOk (conditionalLayer d body callee fuel) body callee := by
  intro fr s h
  unfold conditionalLayer retriedLayer
  simp only [hr]
  exact runConditional_nonerr d _ s (invokeStep fr body callee s).1 (invokeStep fr body callee s).2
    (by rw [hrun]; rfl) (by rw [hskip]; rfl) rfl (by rw [h]; rfl)

/-! ## the real `pypyr.steps.call` body raises the call whenever its config is there -/

theorem assertKeyHasValue_of_get (s : St) (k who : String) (v : Val)
    (h : Ctx.get? s.ctx k = some v) (hv : v ≠ .none) : assertKeyHasValue s k who = .ok v := by
  unfold assertKeyHasValue
  rw [h]
  cases v <;> first | rfl | exact absurd rfl hv

/-- If the config `v` stored under `call` formats and parses (in every state that holds it), the
    call step raises a call with key `call` and original config `v` in every such state, leaving
    the state as it is. -/
theorem cofStep_call_raises (v : Val) (hv : v ≠ .none)
    (hfmt : ∀ s : St, Ctx.get? s.ctx "call" = some v →
      ∃ cfg c, fmtAtKey s v = .ok cfg ∧ instructionFromVal cfg "call" v = .ok c) :
    ∀ s : St, Ctx.get? s.ctx "call" = some v →
      ∃ c, cofStep "call" true s = (s, .call c) ∧ c.key = "call" ∧ c.original = v := by
  intro s h
  obtain ⟨cfg, c, hf, hi⟩ := hfmt s h
  obtain ⟨hk, ho⟩ := instructionFromVal_key _ _ _ _ hi
  refine ⟨c, ?_, hk, ho⟩
  have hne : s.ctx.isEmpty = false := by
    cases hc : s.ctx with
    | nil => rw [hc] at h; simp [Ctx.get?] at h
    | cons _ _ => rfl
  unfold cofStep
  rw [assertKeyHasValue_of_get s "call" _ v h hv]
  simp only [hne, hf, hi, if_true, Bool.false_eq_true, if_false]

/-! ## jump -/

theorem jump_ne_ok (c : CofCfg) : Res.jump c ≠ .ok := by intro h; cases h

/-- the steps before the jump ended normally, the jump step ends with `jump c`: that is the result
    of the whole step list, in the jump step's final state, whatever follows it. -/
theorem runSteps_jump (prog : Program) (pipe : String) (pre post : List StepDef) (d : StepDef)
    (fuel : Nat) (s s0 s1 : St) (c : CofCfg)
    (hpre : StepsChain prog pipe fuel pre s s0) (hlen : pre.length < fuel)
    (hd : runStep (fuel - pre.length - 1) prog pipe d s0 = (s1, .jump c)) :
    runSteps fuel prog pipe (pre ++ d :: post) s = (s1, .jump c) := by
  rw [runSteps_eq_seqRun]
  exact seqRun_first_nonok _ pre post d fuel s s0 s1 _ hpre hlen hd (jump_ne_ok c)

theorem runStepGroup_jump (fuel : Nat) (prog : Program) (pipe g : String) (raiseStop : Bool) (s s1 : St)
    (c : CofCfg) (h : runSteps fuel prog pipe (groupSteps prog pipe g) s = (s1, .jump c)) (hg0 : g ≠ "") :
    runStepGroup (fuel + 1) prog pipe g raiseStop s =
      runGroups fuel prog pipe c.groups c.success c.failure s1 := by
  rw [runStepGroup_of_run fuel prog pipe g raiseStop s s1 _ h (by simp) (by simp) hg0]

theorem runGroupList_jump (fuel : Nat) (prog : Program) (pipe g : String) (rest : List String) (s s1 : St)
    (c : CofCfg) (h : runSteps fuel prog pipe (groupSteps prog pipe g) s = (s1, .jump c)) (hg0 : g ≠ "") :
    runGroupList (fuel + 2) prog pipe (g :: rest) s =
      (match runGroups fuel prog pipe c.groups c.success c.failure s1 with
       | (s2, .ok) => runGroupList (fuel + 1) prog pipe rest s2
       | other => other) := by
  rw [runGroupList_cons, runStepGroup_jump fuel prog pipe g false s s1 c h hg0]
  rfl

end Pypyr.C03
