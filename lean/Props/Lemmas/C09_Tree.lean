/-
  Helper lemmas for C09 at tree level: `mapE`, `rebuildDict`, `setOfList`, the parser on
  brace-free text, and the shape relation `Shaped` used to state kind preservation.
-/
import PypyrModel.Fmt
import PypyrModel.FmtHeap

namespace Pypyr.C09
open Pypyr Pypyr.FmtHeap

/-- Decidable equality of results, so that concrete examples can be closed by `decide +kernel`. -/
instance : DecidableEq (Except Exc Val) := fun a b =>
  match a, b with
  | .ok x, .ok y => if h : x = y then isTrue (by rw [h]) else isFalse (by intro h'; cases h'; exact h rfl)
  | .error x, .error y => if h : x = y then isTrue (by rw [h]) else isFalse (by intro h'; cases h'; exact h rfl)
  | .ok _, .error _ => isFalse (by intro h; cases h)
  | .error _, .ok _ => isFalse (by intro h; cases h)

/-- Element-wise relation between two lists of equal length. -/
inductive All₂ {α β} (R : α → β → Prop) : List α → List β → Prop
  | nil : All₂ R [] []
  | cons {x y xs ys} : R x y → All₂ R xs ys → All₂ R (x :: xs) (y :: ys)

theorem All₂.length_eq {α β} {R : α → β → Prop} : ∀ {xs : List α} {ys : List β}, All₂ R xs ys → xs.length = ys.length
  | _, _, .nil => rfl
  | _, _, .cons _ h => by simp [All₂.length_eq h]

theorem All₂.get {α β} {R : α → β → Prop} : ∀ {xs : List α} {ys : List β}, All₂ R xs ys →
    ∀ (i : Nat) (x : α) (y : β), xs[i]? = some x → ys[i]? = some y → R x y
  | _, _, .nil, i, x, y, hx, _ => by simp at hx
  | _, _, .cons h t, i, x, y, hx, hy => by
    cases i with
    | zero => simp at hx hy; subst hx; subst hy; exact h
    | succ j => simp at hx hy; exact All₂.get t j x y hx hy

/-! ### mapE -/

theorem mapE_ok_forall₂ {α β} {f : α → Except Exc β} :
    ∀ {xs : List α} {ys : List β}, mapE f xs = .ok ys → All₂ (fun x y => f x = .ok y) xs ys
  | [], ys, h => by
    simp only [mapE] at h; cases h; exact All₂.nil
  | x :: xs, ys, h => by
    simp only [mapE] at h
    split at h
    · cases h
    · rename_i y hy
      split at h
      · cases h
      · rename_i ys' hys
        cases h
        exact All₂.cons hy (mapE_ok_forall₂ hys)

theorem mapE_ok_length {α β} {f : α → Except Exc β} {xs : List α} {ys : List β}
    (h : mapE f xs = .ok ys) : ys.length = xs.length :=
  (mapE_ok_forall₂ h).length_eq.symm

theorem mapE_id {α} {f : α → Except Exc α} :
    ∀ {xs : List α}, (∀ x ∈ xs, f x = .ok x) → mapE f xs = .ok xs
  | [], _ => rfl
  | x :: xs, h => by
    have hx := h x (List.mem_cons_self)
    have ht := mapE_id (xs := xs) (fun y hy => h y (List.mem_cons_of_mem _ hy))
    simp only [mapE, hx, ht]

theorem mapE_ok_eq_self {α} {f : α → Except Exc α} :
    ∀ {xs ys : List α}, (∀ x ∈ xs, ∀ y, f x = .ok y → y = x) → mapE f xs = .ok ys → ys = xs
  | [], ys, _, h => by simp only [mapE] at h; cases h; rfl
  | x :: xs, ys, hf, h => by
    simp only [mapE] at h
    split at h
    · cases h
    · rename_i y hy
      split at h
      · cases h
      · rename_i ys' hys
        cases h
        have h1 := hf x List.mem_cons_self y hy
        have h2 := mapE_ok_eq_self (fun z hz => hf z (List.mem_cons_of_mem _ hz)) hys
        rw [h1, h2]

/-! ### dictSet / rebuildDict / setOfList -/

theorem dictSet_length_le (acc : List (Val × Val)) (k v : Val) :
    acc.length ≤ (dictSet acc k v).length ∧ (dictSet acc k v).length ≤ acc.length + 1 := by
  induction acc with
  | nil => simp [dictSet]
  | cons p rest ih =>
    obtain ⟨k', v'⟩ := p
    simp only [dictSet]
    split <;> simp <;> omega

theorem foldl_dictSet_length_le (kvs : List (Val × Val)) :
    ∀ acc : List (Val × Val), (kvs.foldl (fun a kv => dictSet a kv.1 kv.2) acc).length ≤ acc.length + kvs.length := by
  induction kvs with
  | nil => intro acc; simp
  | cons p rest ih =>
    intro acc
    simp only [List.foldl_cons, List.length_cons]
    have h1 := ih (dictSet acc p.1 p.2)
    have h2 := (dictSet_length_le acc p.1 p.2).2
    omega

/-- A rebuilt dict never has more items than the input (`dict size ≤`). -/
theorem rebuildDict_length_le (kvs : List (Val × Val)) : (rebuildDict kvs).length ≤ kvs.length := by
  have := foldl_dictSet_length_le kvs []
  simpa [rebuildDict] using this

theorem keysOf_eq_map (kvs : List (Val × Val)) : keysOf kvs = kvs.map (·.1) := by
  induction kvs with
  | nil => rfl
  | cons p rest ih => obtain ⟨k, v⟩ := p; simp [keysOf, ih]

theorem dictSet_of_not_mem (acc : List (Val × Val)) (k v : Val) (h : k ∉ acc.map (·.1)) :
    dictSet acc k v = acc ++ [(k, v)] := by
  induction acc with
  | nil => rfl
  | cons p rest ih =>
    obtain ⟨k', v'⟩ := p
    simp only [List.map_cons, List.mem_cons, not_or] at h
    simp only [dictSet]
    rw [if_neg (fun e => h.1 e.symm), ih h.2]
    rfl

theorem nodupB_iff (xs : List Val) : nodupB xs = true ↔ xs.Nodup := by
  induction xs with
  | nil => simp [nodupB]
  | cons x rest ih =>
    simp only [nodupB, Bool.and_eq_true, Bool.not_eq_true', List.nodup_cons, ih]
    constructor
    · intro ⟨h1, h2⟩
      refine ⟨?_, h2⟩
      intro hm
      have : rest.contains x = true := List.contains_iff_mem.mpr hm
      rw [this] at h1; cases h1
    · intro ⟨h1, h2⟩
      refine ⟨?_, h2⟩
      cases hc : rest.contains x with
      | false => rfl
      | true => exact absurd (List.contains_iff_mem.mp hc) h1

theorem foldl_dictSet_of_nodup (kvs : List (Val × Val)) :
    ∀ acc : List (Val × Val), (acc.map (·.1) ++ kvs.map (·.1)).Nodup →
      kvs.foldl (fun a kv => dictSet a kv.1 kv.2) acc = acc ++ kvs := by
  induction kvs with
  | nil => intro acc _; simp
  | cons p rest ih =>
    intro acc hnd
    obtain ⟨k, v⟩ := p
    simp only [List.foldl_cons]
    have hk : k ∉ acc.map (·.1) := by
      intro hm
      have := List.nodup_append.mp hnd
      exact this.2.2 k hm k (by simp) rfl
    rw [dictSet_of_not_mem acc k v hk]
    have hnd' : ((acc ++ [(k, v)]).map (·.1) ++ rest.map (·.1)).Nodup := by
      simpa [List.append_assoc] using hnd
    rw [ih _ hnd']
    simp

/-- When the keys are pairwise distinct the rebuilt dict is the input (`with equality when formatted
    keys stay distinct`). -/
theorem rebuildDict_of_nodup (kvs : List (Val × Val)) (h : (kvs.map (·.1)).Nodup) :
    rebuildDict kvs = kvs := by
  have := foldl_dictSet_of_nodup kvs [] (by simpa using h)
  simpa [rebuildDict] using this

theorem setInsert_length_le (acc : List Val) (v : Val) :
    (setInsert acc v).length ≤ acc.length + 1 := by
  simp only [setInsert]; split <;> simp

theorem foldl_setInsert_length_le (xs : List Val) :
    ∀ acc : List Val, (xs.foldl setInsert acc).length ≤ acc.length + xs.length := by
  induction xs with
  | nil => intro acc; simp
  | cons x rest ih =>
    intro acc
    simp only [List.foldl_cons, List.length_cons]
    have h1 := ih (setInsert acc x)
    have h2 := setInsert_length_le acc x
    omega

theorem setOfList_length_le (xs : List Val) : (setOfList xs).length ≤ xs.length := by
  have := foldl_setInsert_length_le xs []
  simpa [setOfList] using this

theorem foldl_setInsert_of_nodup (xs : List Val) :
    ∀ acc : List Val, (acc ++ xs).Nodup → xs.foldl setInsert acc = acc ++ xs := by
  induction xs with
  | nil => intro acc _; simp
  | cons x rest ih =>
    intro acc hnd
    simp only [List.foldl_cons]
    have hx : x ∉ acc := by
      intro hm
      have := List.nodup_append.mp hnd
      exact this.2.2 x hm x (by simp) rfl
    have hc : acc.contains x = false := by
      cases hc : acc.contains x with
      | false => rfl
      | true => exact absurd (List.contains_iff_mem.mp hc) hx
    have hs : setInsert acc x = acc ++ [x] := by simp only [setInsert, hc]; rfl
    rw [hs, ih _ (by simpa [List.append_assoc] using hnd)]
    simp

theorem setOfList_of_nodup (xs : List Val) (h : xs.Nodup) : setOfList xs = xs := by
  have := foldl_setInsert_of_nodup xs [] (by simpa using h)
  simpa [setOfList] using this

/-! ### the parser on brace-free text -/

theorem parsePiecesAux_braceFree :
    ∀ (cs : List Char) (fuel : Nat) (lit : List Char) (acc : List Piece),
      (∀ c ∈ cs, (c != '{' && c != '}') = true) → cs.length < fuel →
      parsePiecesAux fuel cs lit acc = .ok (flushLit (cs.reverse ++ lit) acc).reverse
  | [], fuel, lit, acc, _, hf => by
    cases fuel with
    | zero => cases hf
    | succ f => simp [parsePiecesAux]
  | c :: rest, fuel, lit, acc, hbf, hf => by
    cases fuel with
    | zero => cases hf
    | succ f =>
      have hc := hbf c List.mem_cons_self
      simp only [Bool.and_eq_true, bne_iff_ne, ne_eq] at hc
      have h1 : (c == '{') = false := by simp [hc.1]
      have h2 : (c == '}') = false := by simp [hc.2]
      have ih := parsePiecesAux_braceFree rest f (c :: lit) acc
        (fun d hd => hbf d (List.mem_cons_of_mem _ hd)) (by simp at hf; omega)
      simp only [parsePiecesAux, h1, h2, Bool.false_eq_true, ↓reduceIte, ih]
      simp

/-- `Formatter.parse` on a string without braces yields the string as its only literal
    (nothing at all for the empty string). -/
theorem parsePieces_braceFree (s : String) (h : strBraceFree s = true) :
    parsePieces s = .ok (if s.toList.isEmpty then [] else [.lit s]) := by
  have hall : ∀ c ∈ s.toList, (c != '{' && c != '}') = true := by
    simpa [strBraceFree, List.all_eq_true] using h
  have := parsePiecesAux_braceFree s.toList (s.length + 1) [] [] hall (by simp [String.length_toList])
  rw [parsePieces, this]
  simp only [List.append_nil, flushLit, List.isEmpty_reverse, List.reverse_reverse, String.ofList_toList]
  split <;> simp

theorem fmtKeepType_braceFree (fuel : Nat) (ctx : Ctx) (isRec : Bool) (s : String)
    (h : strBraceFree s = true) : fmtKeepType (fuel + 1) ctx isRec s = .ok (.str s) := by
  have hp := parsePieces_braceFree s h
  unfold fmtKeepType
  rw [hp]
  by_cases he : s.toList.isEmpty = true
  · have : s = "" := by
      have h0 : s.toList = [] := by simpa using he
      have := congrArg String.ofList h0
      simpa [String.ofList_toList] using this
    simp [this]
  · simp [he]

/-! ### the shape relation -/

mutual
/-- `Shaped v r`: `r` has the container skeleton of `v` — the same constructor at every container
    node of `v`, children related element-wise (dicts and sets up to the merging of equal keys /
    members that `dict(...)` / `set(...)` perform), non-string leaves equal; at strings and special
    tags (the formattable leaves) anything. -/
def Shaped : Val → Val → Prop
  | .list xs, r => ∃ ys, r = .list ys ∧ ShapedL xs ys
  | .tuple xs, r => ∃ ys, r = .tuple ys ∧ ShapedL xs ys
  | .set xs, r => ∃ ys, r = .set (setOfList ys) ∧ ShapedL xs ys
  | .dict kvs, r => ∃ kvs', r = .dict (rebuildDict kvs') ∧ ShapedP kvs kvs'
  | .str _, _ => True
  | .sic _, _ => True
  | .py _, _ => True
  | .jsonify _, _ => True
  | .none, r => r = .none
  | .bool b, r => r = .bool b
  | .int i, r => r = .int i
  | .flt n k, r => r = .flt n k
  | .bytes s, r => r = .bytes s
  | .obj i, r => r = .obj i
def ShapedL : List Val → List Val → Prop
  | [], ys => ys = []
  | x :: xs, ys => ∃ y ys', ys = y :: ys' ∧ Shaped x y ∧ ShapedL xs ys'
def ShapedP : List (Val × Val) → List (Val × Val) → Prop
  | [], ys => ys = []
  | (k, v) :: xs, ys => ∃ k' v' ys', ys = (k', v') :: ys' ∧ Shaped k k' ∧ Shaped v v' ∧ ShapedP xs ys'
end

theorem ShapedL_length : ∀ {xs ys : List Val}, ShapedL xs ys → ys.length = xs.length
  | [], ys, h => by simp only [ShapedL] at h; simp [h]
  | x :: xs, ys, h => by
    simp only [ShapedL] at h
    obtain ⟨y, ys', rfl, _, ht⟩ := h
    simp [ShapedL_length ht]

theorem ShapedP_length : ∀ {xs ys : List (Val × Val)}, ShapedP xs ys → ys.length = xs.length
  | [], ys, h => by simp only [ShapedP] at h; simp [h]
  | (k, v) :: xs, ys, h => by
    simp only [ShapedP] at h
    obtain ⟨k', v', ys', rfl, _, _, ht⟩ := h
    simp [ShapedP_length ht]

theorem shapedL_of_mapE {f : Val → Except Exc Val} (hf : ∀ x y, f x = .ok y → Shaped x y) :
    ∀ {xs ys : List Val}, mapE f xs = .ok ys → ShapedL xs ys
  | [], ys, h => by simp only [mapE] at h; cases h; simp [ShapedL]
  | x :: xs, ys, h => by
    simp only [mapE] at h
    split at h
    · cases h
    · rename_i y hy
      split at h
      · cases h
      · rename_i ys' hys
        cases h
        simp only [ShapedL]
        exact ⟨y, ys', rfl, hf x y hy, shapedL_of_mapE hf hys⟩

theorem shapedP_of_mapE {f : Val → Except Exc Val} (hf : ∀ x y, f x = .ok y → Shaped x y) :
    ∀ {xs ys : List (Val × Val)},
      mapE (fun (kv : Val × Val) =>
        match f kv.1 with
        | .error e => .error e
        | .ok k => match f kv.2 with
          | .error e => .error e
          | .ok w => .ok (k, w)) xs = .ok ys → ShapedP xs ys
  | [], ys, h => by simp only [mapE] at h; cases h; simp [ShapedP]
  | (k, v) :: xs, ys, h => by
    simp only [mapE] at h
    split at h
    · cases h
    · rename_i y hy
      split at h
      · cases h
      · rename_i ys' hys
        cases h
        split at hy
        · cases hy
        · rename_i k' hk
          split at hy
          · cases hy
          · rename_i v' hv
            cases hy
            simp only [ShapedP]
            exact ⟨k', v', ys', rfl, hf k k' hk, hf v v' hv, shapedP_of_mapE hf hys⟩

/-! ### braceFree / wfVal over lists -/

theorem braceFreeL_iff : ∀ (xs : List Val), braceFreeL xs = true ↔ ∀ x ∈ xs, braceFree x = true
  | [] => by simp [braceFreeL]
  | x :: xs => by simp [braceFreeL, braceFreeL_iff xs]

theorem wfValL_iff : ∀ (xs : List Val), wfValL xs = true ↔ ∀ x ∈ xs, wfVal x = true
  | [] => by simp [wfValL]
  | x :: xs => by simp [wfValL, wfValL_iff xs]

theorem braceFreeP_iff : ∀ (kvs : List (Val × Val)),
    braceFreeP kvs = true ↔ ∀ kv ∈ kvs, braceFree kv.1 = true ∧ braceFree kv.2 = true
  | [] => by simp [braceFreeP]
  | (k, v) :: rest => by simp [braceFreeP, braceFreeP_iff rest, and_assoc]

theorem wfValP_iff : ∀ (kvs : List (Val × Val)),
    wfValP kvs = true ↔ ∀ kv ∈ kvs, wfVal kv.1 = true ∧ wfVal kv.2 = true
  | [] => by simp [wfValP]
  | (k, v) :: rest => by simp [wfValP, wfValP_iff rest, and_assoc]

/- `need v`: fuel that suffices to format a brace-free value: its nesting depth (strings need one
   more level for `_format_keep_type`). -/
mutual
def need : Val → Nat
  | .str _ => 2
  | .list xs => 1 + needL xs
  | .tuple xs => 1 + needL xs
  | .set xs => 1 + needL xs
  | .dict kvs => 1 + needP kvs
  | _ => 1
def needL : List Val → Nat
  | [] => 0
  | x :: xs => max (need x) (needL xs)
def needP : List (Val × Val) → Nat
  | [] => 0
  | (k, v) :: rest => max (max (need k) (need v)) (needP rest)
end

theorem need_le_of_mem : ∀ {xs : List Val} {x : Val}, x ∈ xs → need x ≤ needL xs
  | y :: ys, x, h => by
    simp only [needL]
    rcases List.mem_cons.mp h with rfl | h'
    · omega
    · have := need_le_of_mem h'; omega

theorem need_le_of_memP : ∀ {kvs : List (Val × Val)} {kv : Val × Val}, kv ∈ kvs →
    need kv.1 ≤ needP kvs ∧ need kv.2 ≤ needP kvs
  | (k, v) :: rest, kv, h => by
    simp only [needP]
    rcases List.mem_cons.mp h with rfl | h'
    · show need k ≤ _ ∧ need v ≤ _
      constructor <;> omega
    · have := need_le_of_memP h'; constructor <;> omega

end Pypyr.C09
