/-
  C09 — what `obj.__class__(generator of pairs)` / `obj.__class__(generator of members)` keeps when formatted
  keys / members become equal: `rebuildDictH` keeps the FIRST key object and the LAST value of every group
  of pairs whose formatted keys are equal, `rebuildSetH` the FIRST member object of every group of equal
  formatted members; nothing is lost (every formatted key / member value is represented) and the survivors
  are pairwise distinct by value.
-/
import PypyrModel.FmtHeap
import Props.Lemmas.C09_Heap

namespace Pypyr.C09
open Pypyr Pypyr.FmtHeap

abbrev Triple := Val × Ref × Ref

/-- the (key object, value object) stored under the key value `kv` -/
def lookupT : List Triple → Val → Option (Ref × Ref)
  | [], _ => none
  | (a, k, v) :: rest, kv => if a = kv then some (k, v) else lookupT rest kv

def firstKeyT (kv : Val) : List Triple → Option Ref
  | [] => none
  | (a, k, _) :: rest => if a = kv then some k else firstKeyT kv rest

def lastValT (kv : Val) : List Triple → Option Ref
  | [] => none
  | (a, _, v) :: rest =>
    match lastValT kv rest with
    | some v' => some v'
    | none => if a = kv then some v else none

def keysT (ts : List Triple) : List Val := ts.map (·.1)

def insT (acc : List Triple) (t : Triple) : List Triple := insKey acc t.1 t.2.1 t.2.2

theorem lookupT_insKey (acc : List Triple) (kv : Val) (k v : Ref) (kv' : Val) :
    lookupT (insKey acc kv k v) kv' =
      if kv = kv' then some (((lookupT acc kv).map (·.1)).getD k, v) else lookupT acc kv' := by
  induction acc with
  | nil =>
    simp only [insKey, lookupT]
    split <;> simp
  | cons a rest ih =>
    obtain ⟨a1, a2, a3⟩ := a
    simp only [insKey]
    by_cases h1 : a1 = kv
    · subst h1
      simp only [if_true, lookupT]
      by_cases h2 : a1 = kv'
      · simp [h2]
      · simp [h2]
    · simp only [h1, if_false, lookupT]
      by_cases h2 : a1 = kv'
      · subst h2
        have : ¬ kv = a1 := fun e => h1 e.symm
        simp [this]
      · simp only [h2, if_false, ih]

theorem keysT_insKey (acc : List Triple) (kv : Val) (k v : Ref) :
    keysT (insKey acc kv k v) = if kv ∈ keysT acc then keysT acc else keysT acc ++ [kv] := by
  induction acc with
  | nil => simp [insKey, keysT]
  | cons a rest ih =>
    obtain ⟨a1, a2, a3⟩ := a
    simp only [insKey]
    by_cases h1 : a1 = kv
    · subst h1; simp [keysT]
    · have hne : ¬ kv = a1 := fun e => h1 e.symm
      simp only [h1, if_false]
      simp only [keysT, List.map_cons, List.mem_cons, hne, false_or] at ih ⊢
      rw [ih]
      split <;> rename_i hh <;> simp [hh]

/-- **The fold, in closed form**: what is stored under `kv` after inserting `ts` one by one. -/
theorem lookupT_foldl : ∀ (ts acc : List Triple) (kv : Val),
    lookupT (ts.foldl insT acc) kv =
      match lastValT kv ts with
      | none => lookupT acc kv
      | some v => some (((lookupT acc kv).map (·.1)).getD ((firstKeyT kv ts).getD 0), v)
  | [], acc, kv => by simp [lastValT]
  | (a, k, v) :: rest, acc, kv => by
    simp only [List.foldl_cons, insT]
    rw [lookupT_foldl rest _ kv]
    simp only [lastValT, firstKeyT]
    cases hl : lastValT kv rest with
    | some v' =>
      simp only [lookupT_insKey]
      by_cases h : a = kv
      · simp [h]
      · simp [h]
    | none =>
      simp only [lookupT_insKey]
      by_cases h : a = kv
      · simp [h]
      · simp [h]

theorem firstKeyT_of_lastValT {kv : Val} {v : Ref} : ∀ {ts : List Triple}, lastValT kv ts = some v →
    ∃ k, firstKeyT kv ts = some k
  | [], h => by simp [lastValT] at h
  | (a, k, v0) :: rest, h => by
    simp only [firstKeyT]
    by_cases ha : a = kv
    · exact ⟨k, by simp [ha]⟩
    · simp only [ha, if_false]
      simp only [lastValT, ha, if_false] at h
      cases hr : lastValT kv rest with
      | none => rw [hr] at h; cases h
      | some v1 => exact firstKeyT_of_lastValT hr

theorem keysT_foldl_nodup : ∀ (ts acc : List Triple), (keysT acc).Nodup →
    (keysT (ts.foldl insT acc)).Nodup ∧ (∀ t ∈ ts, t.1 ∈ keysT (ts.foldl insT acc)) ∧
    (∀ a ∈ keysT acc, a ∈ keysT (ts.foldl insT acc)) ∧
    (keysT (ts.foldl insT acc)).length ≤ (keysT acc).length + ts.length
  | [], acc, hnd => ⟨hnd, by simp, fun a ha => ha, by simp⟩
  | t :: rest, acc, hnd => by
    simp only [List.foldl_cons]
    have hk := keysT_insKey acc t.1 t.2.1 t.2.2
    have hnd' : (keysT (insT acc t)).Nodup := by
      unfold insT; rw [hk]
      split
      · exact hnd
      · rename_i hnm
        rw [List.nodup_append]
        refine ⟨hnd, by simp, ?_⟩
        intro a ha b hb
        simp at hb; subst hb
        intro e; subst e; exact hnm ha
    have hin : t.1 ∈ keysT (insT acc t) := by
      unfold insT; rw [hk]; split
      · assumption
      · simp
    have hsub : ∀ a ∈ keysT acc, a ∈ keysT (insT acc t) := by
      intro a ha; unfold insT; rw [hk]; split
      · exact ha
      · exact List.mem_append_left _ ha
    have hlen : (keysT (insT acc t)).length ≤ (keysT acc).length + 1 := by
      unfold insT; rw [hk]; split <;> simp
    obtain ⟨h1, h2, h3, h4⟩ := keysT_foldl_nodup rest (insT acc t) hnd'
    refine ⟨h1, ?_, fun a ha => h3 a (hsub a ha), ?_⟩
    · intro u hu
      rcases List.mem_cons.mp hu with rfl | hu'
      · exact h3 _ hin
      · exact h2 u hu'
    · simp only [List.length_cons]; omega

theorem lookupT_of_mem : ∀ {acc : List Triple}, (keysT acc).Nodup → ∀ {e : Triple}, e ∈ acc →
    lookupT acc e.1 = some (e.2.1, e.2.2)
  | [], _, e, he => by simp at he
  | (a1, a2, a3) :: rest, hnd, e, he => by
    simp only [keysT, List.map_cons, List.nodup_cons] at hnd
    simp only [lookupT]
    rcases List.mem_cons.mp he with rfl | h
    · simp
    · have : a1 ≠ e.1 := by
        intro heq
        apply hnd.1
        rw [heq]
        exact List.mem_map_of_mem (f := fun (t : Triple) => t.1) h
      simp only [this, if_false]
      exact lookupT_of_mem (acc := rest) hnd.2 h

/-! ### from the annotated triples back to the objects -/

/-- the first key object among `kvs` whose value is `kv` -/
def firstKeyH (h : Heap) (kv : Val) : List (Ref × Ref) → Option Ref
  | [] => none
  | (k, _) :: rest => if deepVal h k = some kv then some k else firstKeyH h kv rest

/-- the value object of the LAST pair among `kvs` whose key's value is `kv` -/
def lastValH (h : Heap) (kv : Val) : List (Ref × Ref) → Option Ref
  | [] => none
  | (k, v) :: rest =>
    match lastValH h kv rest with
    | some v' => some v'
    | none => if deepVal h k = some kv then some v else none

/-- the pairs annotated with the value of their key -/
def annot (h : Heap) : List (Ref × Ref) → Option (List Triple)
  | [] => some []
  | (k, v) :: rest =>
    match deepVal h k, annot h rest with
    | some kv, some ts => some ((kv, k, v) :: ts)
    | _, _ => none

theorem rebuildDictH_eq_foldl (h : Heap) : ∀ (kvs : List (Ref × Ref)) (acc : List Triple) (out : List (Ref × Ref)),
    rebuildDictH h kvs acc = .ok out →
    ∃ ts, annot h kvs = some ts ∧ out = (ts.foldl insT acc).map (fun e => (e.2.1, e.2.2))
  | [], acc, out, hr => by
    simp only [rebuildDictH] at hr
    cases hr
    exact ⟨[], rfl, rfl⟩
  | (k, v) :: rest, acc, out, hr => by
    simp only [rebuildDictH] at hr
    split at hr
    · cases hr
    · rename_i kv hkv
      obtain ⟨ts, hts, hout⟩ := rebuildDictH_eq_foldl h rest _ out hr
      exact ⟨(kv, k, v) :: ts, by simp [annot, hkv, hts], by simpa [insT] using hout⟩

theorem firstKeyT_annot {h : Heap} {kv : Val} : ∀ {kvs : List (Ref × Ref)} {ts : List Triple},
    annot h kvs = some ts → firstKeyT kv ts = firstKeyH h kv kvs ∧ lastValT kv ts = lastValH h kv kvs
  | [], ts, ha => by simp only [annot] at ha; cases ha; simp [firstKeyT, firstKeyH, lastValT, lastValH]
  | (k, v) :: rest, ts, ha => by
    simp only [annot] at ha
    split at ha
    · rename_i kv0 ts0 hk hts
      cases ha
      obtain ⟨h1, h2⟩ := firstKeyT_annot (kv := kv) hts
      simp only [firstKeyT, firstKeyH, lastValT, lastValH, hk, h1, h2, Option.some.injEq]
      exact ⟨trivial, trivial⟩
    · cases ha

theorem annot_keys {h : Heap} : ∀ {kvs : List (Ref × Ref)} {ts : List Triple}, annot h kvs = some ts →
    (∀ t ∈ ts, deepVal h t.2.1 = some t.1) ∧ ts.length = kvs.length ∧
    (∀ p ∈ kvs, ∃ t ∈ ts, t.2.1 = p.1 ∧ t.2.2 = p.2)
  | [], ts, ha => by simp only [annot] at ha; cases ha; simp
  | (k, v) :: rest, ts, ha => by
    simp only [annot] at ha
    split at ha
    · rename_i kv0 ts0 hk hts
      cases ha
      obtain ⟨h1, h2, h3⟩ := annot_keys hts
      refine ⟨?_, by simp [h2], ?_⟩
      · intro t ht
        rcases List.mem_cons.mp ht with rfl | ht'
        · exact hk
        · exact h1 t ht'
      · intro p hp
        rcases List.mem_cons.mp hp with rfl | hp'
        · exact ⟨_, List.mem_cons_self, rfl, rfl⟩
        · obtain ⟨t, ht, e⟩ := h3 p hp'
          exact ⟨t, List.mem_cons_of_mem _ ht, e⟩
    · cases ha

/-- every entry of the fold pairs a key VALUE with a key OBJECT that has that value -/
theorem foldl_insT_annot {h : Heap} : ∀ (ts acc : List Triple),
    (∀ t ∈ ts, deepVal h t.2.1 = some t.1) → (∀ t ∈ acc, deepVal h t.2.1 = some t.1) →
    ∀ e ∈ ts.foldl insT acc, deepVal h e.2.1 = some e.1
  | [], acc, _, hacc => hacc
  | t :: rest, acc, hts, hacc => by
    simp only [List.foldl_cons]
    apply foldl_insT_annot rest _ (fun u hu => hts u (List.mem_cons_of_mem _ hu))
    intro e he
    have key : ∀ (acc : List Triple), (∀ t ∈ acc, deepVal h t.2.1 = some t.1) →
        ∀ e ∈ insKey acc t.1 t.2.1 t.2.2, deepVal h e.2.1 = some e.1 := by
      intro acc
      induction acc with
      | nil => intro _ e he; simp [insKey] at he; subst he; exact hts t List.mem_cons_self
      | cons a r ih =>
        obtain ⟨a1, a2, a3⟩ := a
        intro hacc e he
        simp only [insKey] at he
        split at he
        · rcases List.mem_cons.mp he with rfl | h'
          · exact hacc (a1, a2, a3) List.mem_cons_self
          · exact hacc e (List.mem_cons_of_mem _ h')
        · rcases List.mem_cons.mp he with rfl | h'
          · exact hacc _ List.mem_cons_self
          · exact ih (fun u hu => hacc u (List.mem_cons_of_mem _ hu)) e h'
    exact key acc hacc e he

/-- **`rebuildDictH`: first key object, last value.** The pairs of the rebuilt dict cell: each holds the
    FIRST key object among the formatted pairs with that key value and the value object of the LAST such
    pair; their key values are pairwise distinct; every formatted pair's key value is represented; no more
    pairs than came in. -/
theorem rebuildDictH_spec {h : Heap} {kvs out : List (Ref × Ref)} (hr : rebuildDictH h kvs [] = .ok out) :
    (∀ p ∈ out, ∃ kv, deepVal h p.1 = some kv ∧ firstKeyH h kv kvs = some p.1 ∧ lastValH h kv kvs = some p.2) ∧
    (∀ p ∈ kvs, ∃ q ∈ out, deepVal h q.1 = deepVal h p.1) ∧
    (∃ keys : List Val, keys.Nodup ∧ keys.length = out.length ∧
      ∀ (i : Nat) (p : Ref × Ref), out[i]? = some p → ∃ kv, keys[i]? = some kv ∧ deepVal h p.1 = some kv) ∧
    out.length ≤ kvs.length := by
  obtain ⟨ts, hts, rfl⟩ := rebuildDictH_eq_foldl h kvs [] out hr
  obtain ⟨hann, hlen, hcov⟩ := annot_keys hts
  obtain ⟨hnd, hall, _, hle⟩ := keysT_foldl_nodup ts [] (by simp [keysT])
  have hfa := foldl_insT_annot ts [] hann (by intro t ht; simp at ht)
  refine ⟨?_, ?_, ?_, ?_⟩
  · intro p hp
    simp only [List.mem_map] at hp
    obtain ⟨e, he, rfl⟩ := hp
    have hl := lookupT_of_mem hnd he
    rw [lookupT_foldl ts [] e.1] at hl
    obtain ⟨hf, hlv⟩ := firstKeyT_annot (kv := e.1) hts
    refine ⟨e.1, hfa e he, ?_⟩
    cases hlast : lastValT e.1 ts with
    | none => rw [hlast] at hl; simp [lookupT] at hl
    | some v =>
      rw [hlast] at hl
      simp only [lookupT, Option.map_none, Option.getD_none, Option.some.injEq, Prod.mk.injEq] at hl
      have hfk := firstKeyT_of_lastValT hlast
      obtain ⟨k, hk⟩ := hfk
      rw [hk] at hl
      simp only [Option.getD_some] at hl
      rw [← hf, ← hlv, hk, hlast, hl.1, hl.2]
      exact ⟨rfl, rfl⟩
  · intro p hp
    obtain ⟨t, ht, e1, _⟩ := hcov p hp
    have hk := hall t ht
    simp only [keysT, List.mem_map] at hk
    obtain ⟨e, he, hek⟩ := hk
    refine ⟨(e.2.1, e.2.2), List.mem_map.mpr ⟨e, he, rfl⟩, ?_⟩
    simp only
    rw [hfa e he, hek, ← e1, hann t ht]
  · refine ⟨keysT (ts.foldl insT []), hnd, by simp [keysT], ?_⟩
    intro i p hp
    simp only [List.getElem?_map, Option.map_eq_some_iff] at hp
    obtain ⟨e, he, rfl⟩ := hp
    exact ⟨e.1, by simp [keysT, he], hfa e (List.mem_of_getElem? he)⟩
  · simp only [List.length_map]
    have : (ts.foldl insT []).length = (keysT (ts.foldl insT [])).length := by simp [keysT]
    rw [this, ← hlen]
    simpa [keysT] using hle

/-! ### sets -/

/-- the first member object among `rs` whose value is `mv` -/
def firstMemH (h : Heap) (mv : Val) : List Ref → Option Ref
  | [] => none
  | m :: rest => if deepVal h m = some mv then some m else firstMemH h mv rest

theorem insMem_spec (acc : List (Val × Ref)) (mv : Val) (m : Ref) :
    insMem acc mv m = if mv ∈ acc.map (·.1) then acc else acc ++ [(mv, m)] := by
  induction acc with
  | nil => simp [insMem]
  | cons a rest ih =>
    obtain ⟨a1, a2⟩ := a
    simp only [insMem]
    by_cases h : a1 = mv
    · subst h; simp
    · have hne : ¬ mv = a1 := fun e => h e.symm
      simp only [h, if_false, ih, List.map_cons, List.mem_cons, hne, false_or]
      split <;> simp

/-- **`rebuildSetH`: the first member object of every group of equal formatted members.** -/
theorem rebuildSetH_spec {h : Heap} : ∀ (rs : List Ref) (acc : List (Val × Ref)) (out : List Ref),
    (∀ e ∈ acc, deepVal h e.2 = some e.1) → (acc.map (·.1)).Nodup →
    rebuildSetH h rs acc = .ok out →
    ∃ fin : List (Val × Ref), out = fin.map (·.2) ∧ (fin.map (·.1)).Nodup ∧
      (∀ e ∈ fin, deepVal h e.2 = some e.1) ∧
      (∀ e ∈ fin, e ∈ acc ∨ ((∀ a ∈ acc, a.1 ≠ e.1) ∧ firstMemH h e.1 rs = some e.2)) ∧
      (∀ m ∈ rs, ∃ e ∈ fin, deepVal h m = some e.1) ∧ (∀ a ∈ acc, a ∈ fin) ∧
      fin.length ≤ acc.length + rs.length
  | [], acc, out, hann, hnd, hr => by
    simp only [rebuildSetH] at hr
    cases hr
    exact ⟨acc, rfl, hnd, hann, fun e he => Or.inl he, by simp, fun a ha => ha, by simp⟩
  | m :: rest, acc, out, hann, hnd, hr => by
    simp only [rebuildSetH] at hr
    split at hr
    · cases hr
    · rename_i mv hmv
      have hspec := insMem_spec acc mv m
      by_cases hin : mv ∈ acc.map (·.1)
      · rw [if_pos hin] at hspec
        rw [hspec] at hr
        obtain ⟨fin, ho, h1, h2, h3, h4, h5, h6⟩ := rebuildSetH_spec rest acc out hann hnd hr
        refine ⟨fin, ho, h1, h2, ?_, ?_, h5, by simp only [List.length_cons]; omega⟩
        · intro e he
          rcases h3 e he with h | ⟨ha, hf⟩
          · exact Or.inl h
          · refine Or.inr ⟨ha, ?_⟩
            simp only [firstMemH]
            have : ¬ deepVal h m = some e.1 := by
              intro heq
              rw [hmv] at heq
              cases heq
              simp only [List.mem_map] at hin
              obtain ⟨a, haa, hae⟩ := hin
              exact ha a haa hae
            simp only [this, if_false]
            exact hf
        · intro x hx
          rcases List.mem_cons.mp hx with rfl | hx'
          · simp only [List.mem_map] at hin
            obtain ⟨a, haa, hae⟩ := hin
            exact ⟨a, h5 a haa, by rw [hmv, hae]⟩
          · exact h4 x hx'
      · rw [if_neg hin] at hspec
        rw [hspec] at hr
        have hann' : ∀ e ∈ acc ++ [(mv, m)], deepVal h e.2 = some e.1 := by
          intro e he
          rcases List.mem_append.mp he with h' | h'
          · exact hann e h'
          · simp at h'; subst h'; exact hmv
        have hnd' : ((acc ++ [(mv, m)]).map (·.1)).Nodup := by
          simp only [List.map_append, List.map_cons, List.map_nil]
          rw [List.nodup_append]
          refine ⟨hnd, by simp, ?_⟩
          intro a ha b hb
          simp at hb; subst hb
          intro e; subst e; exact hin ha
        obtain ⟨fin, ho, h1, h2, h3, h4, h5, h6⟩ := rebuildSetH_spec rest _ out hann' hnd' hr
        refine ⟨fin, ho, h1, h2, ?_, ?_, fun a ha => h5 a (List.mem_append_left _ ha), ?_⟩
        · intro e he
          rcases h3 e he with h' | ⟨ha, hf⟩
          · rcases List.mem_append.mp h' with h'' | h''
            · exact Or.inl h''
            · simp at h''; subst h''
              refine Or.inr ⟨?_, by simp [firstMemH, hmv]⟩
              intro a haa hae
              exact hin (List.mem_map.mpr ⟨a, haa, hae⟩)
          · refine Or.inr ⟨fun a haa => ha a (List.mem_append_left _ haa), ?_⟩
            simp only [firstMemH]
            have : ¬ deepVal h m = some e.1 := by
              intro heq
              rw [hmv] at heq
              exact ha (mv, m) (by simp) (Option.some.inj heq)
            simp only [this, if_false]
            exact hf
        · intro x hx
          rcases List.mem_cons.mp hx with rfl | hx'
          · exact ⟨(mv, x), h5 _ (by simp), hmv⟩
          · exact h4 x hx'
        · simp only [List.length_append, List.length_cons, List.length_nil] at h6 ⊢
          omega


/-! ### the children of a dict / set node: non-string leaves keep their reference -/

/-- "a non-string leaf of the heap `h0` comes out as the same reference" -/
def KeepsLeaf (h0 : Heap) (x y : Ref) : Prop := ∀ c, h0[x]? = some c → isLeafCell c = true → y = x

theorem dictStep_leaves {n : Nat} {ctx : HCtx} {isRec : Bool} {st : St}
    (kv : Ref × Ref) (s : St) (y : Ref × Ref) (s' : St)
    (hq : Good st s ∧ MemoNoLeaf s)
    (h : (match fmtH n ctx isRec kv.1 s with
          | .error e => Except.error e
          | .ok (k, s1) => match fmtH n ctx isRec kv.2 s1 with
            | .error e => .error e
            | .ok (v, s2) =>
              if hashableH (s2.heap.length + 1) s2.heap k then .ok ((k, v), s2)
              else .error unhashable) = .ok (y, s')) :
    (KeepsLeaf st.heap kv.1 y.1 ∧ KeepsLeaf st.heap kv.2 y.2) ∧ (Good st s' ∧ MemoNoLeaf s') := by
  obtain ⟨hg, hns⟩ := hq
  split at h
  · cases h
  · rename_i k s1 hk
    split at h
    · cases h
    · rename_i v s2 hv
      have g1 := fmtH_good hk
      have g2 := fmtH_good hv
      have hn1 := g1.noLeaf hns
      split at h
      · cases h
        refine ⟨⟨?_, ?_⟩, (hg.trans g1).trans g2, g2.noLeaf hn1⟩
        · intro c hc hl
          exact (fmtH_leaf hns (hg.ext.get hc) hl hk).1
        · intro c hc hl
          exact (fmtH_leaf hn1 ((hg.trans g1).ext.get hc) hl hv).1
      · cases h

theorem setStep_leaves {n : Nat} {ctx : HCtx} {isRec : Bool} {st : St}
    (m : Ref) (s : St) (y : Ref) (s' : St)
    (hq : Good st s ∧ MemoNoLeaf s)
    (h : (match fmtH n ctx isRec m s with
          | .error e => Except.error e
          | .ok (m', s1) =>
            if hashableH (s1.heap.length + 1) s1.heap m' then .ok (m', s1)
            else .error unhashable) = .ok (y, s')) :
    KeepsLeaf st.heap m y ∧ (Good st s' ∧ MemoNoLeaf s') := by
  obtain ⟨hg, hns⟩ := hq
  split at h
  · cases h
  · rename_i m' s1 hm
    have g1 := fmtH_good hm
    split at h
    · cases h
      exact ⟨fun c hc hl => (fmtH_leaf hns (hg.ext.get hc) hl hm).1, hg.trans g1, g1.noLeaf hns⟩
    · cases h

end Pypyr.C09
