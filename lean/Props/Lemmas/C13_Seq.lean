/-
  C13 helper lemmas: `clear_all` / `clear_pipes` as sequences of single clears with other threads'
  completed operations in every gap (`CacheTS.Stack.weave`), at the level of the ghost flags.
-/
import PypyrModel.CacheTS

namespace Pypyr.C13.Seq
open Pypyr.CacheTS Pypyr.CacheTS.Stack

/-- the flags after a list of operations (same recursion as `Pypyr.C13.stepAll`) -/
def steps (f : Flags) : List LOp → Flags
  | [] => f
  | op :: ops => steps (f.step op) ops

theorem steps_append (f : Flags) (a b : List LOp) : steps f (a ++ b) = steps (steps f a) b := by
  induction a generalizing f with
  | nil => rfl
  | cons op a ih => simp only [List.cons_append, steps]; exact ih _

/-- no operation of the list changes the world -/
def Quiet (ops : List LOp) : Prop := ∀ op ∈ ops, op.isWorld = false

theorem quiet_cons {op : LOp} {ops : List LOp} (h : Quiet (op :: ops)) : op.isWorld = false ∧ Quiet ops :=
  ⟨h op List.mem_cons_self, fun o ho => h o (List.mem_cons_of_mem _ ho)⟩

theorem quiet_append {a b : List LOp} (ha : Quiet a) (hb : Quiet b) : Quiet (a ++ b) := by
  intro o ho
  rcases List.mem_append.mp ho with h | h
  · exact ha o h
  · exact hb o h

theorem quiet_weave (gap : Nat → List LOp) (hg : ∀ i, Quiet (gap i)) :
    ∀ (cl : List LOp) (i : Nat), Quiet cl → Quiet (weave gap i cl) := by
  intro cl
  induction cl with
  | nil => intro i _; exact hg i
  | cons c cs ih =>
    intro i hq
    have hc := quiet_cons hq
    simp only [weave]
    apply quiet_append (hg i)
    intro o ho
    rcases List.mem_cons.mp ho with rfl | h
    · exact hc.1
    · exact ih (i + 1) hc.2 o h

/-- one quiet step keeps "file_cache holds nothing stale" -/
theorem step_files (f : Flags) (op : LOp) (hq : op.isWorld = false) (hf : f.files = false) :
    (f.step op).files = false := by
  cases op with
  | run c l r => simp only [Flags.step]; split <;> simp_all
  | world w => simp [LOp.isWorld] at hq
  | clearPipes l => cases l <;> simp_all [Flags.step]
  | _ => simp_all [Flags.step]

/-- one quiet step keeps "nothing anywhere is stale" -/
theorem step_clean (f : Flags) (op : LOp) (hq : op.isWorld = false) (hf : f.files = false)
    (hp : ∀ l, f.pipes l = false) : ∀ l, (f.step op).pipes l = false := by
  cases op with
  | run c l r => simp only [Flags.step]; split <;> simp_all
  | world w => simp [LOp.isWorld] at hq
  | clearPipes l => cases l <;> simp_all [Flags.step]
  | _ => simp_all [Flags.step]

theorem steps_files (ops : List LOp) : ∀ f : Flags, Quiet ops → f.files = false → (steps f ops).files = false := by
  induction ops with
  | nil => intro f _ h; exact h
  | cons op ops ih =>
    intro f hq hf
    have h := quiet_cons hq
    exact ih _ h.2 (step_files f op h.1 hf)

theorem steps_clean (ops : List LOp) : ∀ f : Flags, Quiet ops → f.files = false → (∀ l, f.pipes l = false) →
    (steps f ops).files = false ∧ ∀ l, (steps f ops).pipes l = false := by
  induction ops with
  | nil => intro f _ h hp; exact ⟨h, hp⟩
  | cons op ops ih =>
    intro f hq hf hp
    have h := quiet_cons hq
    exact ih _ h.2 (step_files f op h.1 hf) (step_clean f op h.1 hf hp)

/-- with `file_cache` already clean, a later `loader_cache.clear()` leaves every layer clean, whatever
    completes in the gaps -/
theorem weave_outer (gap : Nat → List LOp) (hg : ∀ i, Quiet (gap i)) :
    ∀ (cl : List LOp) (i : Nat) (f : Flags), Quiet cl → f.files = false → cl.any LOp.isClearLoaders = true →
      (steps f (weave gap i cl)).files = false ∧ ∀ l, (steps f (weave gap i cl)).pipes l = false := by
  intro cl
  induction cl with
  | nil => intro i f _ _ h; simp at h
  | cons c cs ih =>
    intro i f hq hf hany
    have hc := quiet_cons hq
    simp only [weave, steps_append, steps]
    have hf1 := steps_files (gap i) f (hg i) hf
    by_cases hcl : c.isClearLoaders = true
    · cases c <;> simp [LOp.isClearLoaders] at hcl
      apply steps_clean _ _ (quiet_weave gap hg cs (i + 1) hc.2)
      · simpa [Flags.step] using hf1
      · intro l; simp [Flags.step]
    · have hany' : cs.any LOp.isClearLoaders = true := by
        simp only [List.any_cons, Bool.or_eq_true] at hany
        rcases hany with h | h
        · exact absurd h hcl
        · exact h
      exact ih (i + 1) _ hc.2 (step_files _ c hc.1 hf1) hany'

/-- `weave_inner_first`: inner layer before outer layer ⇒ after the whole sequence no layer holds anything
    made from a world that is gone — whatever the flags were before, whatever completes in the gaps. -/
theorem weave_inner_first (gap : Nat → List LOp) (hg : ∀ i, Quiet (gap i)) :
    ∀ (cl : List LOp) (i : Nat) (f : Flags), Quiet cl → innerFirst cl = true →
      (steps f (weave gap i cl)).files = false ∧ ∀ l, (steps f (weave gap i cl)).pipes l = false := by
  intro cl
  induction cl with
  | nil => intro i f _ h; simp [innerFirst] at h
  | cons c cs ih =>
    intro i f hq hin
    have hc := quiet_cons hq
    simp only [weave, steps_append, steps]
    by_cases hcf : c = .clearFiles
    · subst hcf
      simp only [innerFirst, Bool.or_eq_true] at hin
      rcases hin with h | h
      · exact weave_outer gap hg cs (i + 1) _ hc.2 (by simp [Flags.step]) h
      · exact ih (i + 1) _ hc.2 h
    · have hin' : innerFirst cs = true := by
        cases c <;> first | exact absurd rfl hcf | simpa [innerFirst] using hin
      exact ih (i + 1) _ hc.2 hin'

/-- quiet operations keep one loader's pipeline cache clean while `file_cache` is clean -/
theorem steps_pipe (l : Nat) : ∀ (ops : List LOp) (f : Flags), Quiet ops → f.files = false → f.pipes l = false →
    (steps f ops).pipes l = false := by
  intro ops
  induction ops with
  | nil => intro f _ _ h; exact h
  | cons op ops ih =>
    intro f hq hf hp
    have h := quiet_cons hq
    refine ih _ h.2 (step_files f op h.1 hf) ?_
    cases op with
    | run c l' r => simp only [Flags.step]; split <;> simp_all
    | world w => simp [LOp.isWorld] at h
    | clearPipes l' => cases l' <;> simp only [Flags.step] <;> (try split) <;> simp_all
    | _ => simp_all [Flags.step]

theorem quiet_clearPipes (ls : List Nat) : Quiet (ls.map fun x => LOp.clearPipes (some x)) := by
  intro o ho
  rcases List.mem_map.mp ho with ⟨x, _, rfl⟩
  rfl

/-- independent per-loader caches (`clear_pipes`): with `file_cache` clean before, clearing every loader's
    pipelines one after the other in ANY order leaves the cleared loaders clean -/
theorem weave_pipes (gap : Nat → List LOp) (hg : ∀ i, Quiet (gap i)) (l : Nat) :
    ∀ (ls : List Nat) (i : Nat) (f : Flags), f.files = false → (l ∈ ls ∨ f.pipes l = false) →
      (steps f (weave gap i (ls.map fun x => LOp.clearPipes (some x)))).pipes l = false := by
  have keep := steps_pipe l
  intro ls
  induction ls with
  | nil =>
    intro i f hf h
    rcases h with h | h
    · cases h
    · exact keep _ _ (hg i) hf h
  | cons x xs ih =>
    intro i f hf h
    simp only [List.map_cons, weave, steps_append, steps]
    have hf1 := steps_files (gap i) f (hg i) hf
    apply ih (i + 1) _ (by simpa [Flags.step] using hf1)
    by_cases hx : l = x
    · right; simp [Flags.step, hx]
    · rcases h with h | h
      · rcases List.mem_cons.mp h with h | h
        · exact absurd h hx
        · exact Or.inl h
      · right
        have := keep _ _ (hg i) hf h
        simp [Flags.step, hx, this]

end Pypyr.C13.Seq
