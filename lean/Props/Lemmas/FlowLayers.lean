/-
  One-layer lemmas about the decorator combinators of `PypyrModel/Flow/Layers.lean`,
  generic in the inner body. Used by Props/C02, C04, C05, C06, C07.
-/
import PypyrModel.Flow.Runner

namespace Pypyr.Flow

/-! ### invoke_step -/

theorem invokeStep_noncall (fr : Frame) (body : Body) (callee : CofCfg → Body) (s s1 : St) (r : Res)
    (hb : body s = (s1, r)) (hr : ∀ c, r ≠ .call c) :
    invokeStep fr body callee s = (s1, r) := by
  unfold invokeStep
  rw [hb]
  cases r <;> simp_all

theorem invokeStep_call (fr : Frame) (body : Body) (callee : CofCfg → Body) (s s1 s2 : St) (c : CofCfg) (r : Res)
    (hb : body s = (s1, .call c)) (hc : callee c s1 = (s2, r)) (hco : c.original.truthy = true) :
    invokeStep fr body callee s =
      (resetCounters fr c s2, match r with | .err e _ => .err e true | other => other) := by
  unfold invokeStep
  rw [hb]
  simp only [hc, hco, if_true]
  cases r <;> rfl

/-- the `assert call.original_config[1]` in the `finally` of `invoke_step`: when the raw configuration under
    the instruction's key is falsy (`call: ''`, `call: []`), whatever the called groups ended with is replaced
    by a fresh AssertionError - a plain error of the step, not marked as handled - raised after the loop
    counters were written back. -/
theorem invokeStep_call_assert (fr : Frame) (body : Body) (callee : CofCfg → Body) (s s1 s2 : St) (c : CofCfg) (r : Res)
    (hb : body s = (s1, .call c)) (hc : callee c s1 = (s2, r)) (hco : c.original.truthy = false)
    (hf : r ≠ .outOfFuel) :
    invokeStep fr body callee s = raiseNew (resetLoopCounters fr s2) "AssertionError" "" := by
  unfold invokeStep
  rw [hb]
  simp only [hc, hco, Bool.false_eq_true, if_false]

/-! ### retry -/

theorem retryIter_nonerr (cfg : RetryCfg) (fr : Frame) (inner : Frame → Body) (max : Option Int)
    (fuel k : Nat) (bo : BackoffState) (s s1 : St) (r : Res)
    (hi : inner { fr with retryC := some k } { s with ctx := Ctx.set s.ctx "retryCounter" (.int k) } = (s1, r))
    (hr : r.isErr = false) :
    retryIter cfg fr inner max (fuel + 1) k bo s = (s1, r) := by
  unfold retryIter
  simp only [hi]
  cases r <;> simp_all [Res.isErr]

/-! ### run / skip / swallow -/

theorem runConditional_nonerr (d : StepDef) (inner : Body) (s s1 : St) (r : Res)
    (hrun : fmtB s d.run = .ok true) (hskip : fmtB s d.skip = .ok false)
    (hi : inner s = (s1, r)) (hr : r.isErr = false) :
    runConditional d inner s = (s1, r) := by
  unfold runConditional
  simp only [hrun, hskip, hi]
  cases r <;> simp_all [Res.isErr]

theorem runConditional_run_false (d : StepDef) (inner : Body) (s : St)
    (hrun : fmtB s d.run = .ok false) : runConditional d inner s = (s, .ok) := by
  unfold runConditional; simp only [hrun]

theorem runConditional_skip_true (d : StepDef) (inner : Body) (s : St)
    (hrun : fmtB s d.run = .ok true) (hskip : fmtB s d.skip = .ok true) :
    runConditional d inner s = (s, .ok) := by
  unfold runConditional; simp only [hrun, hskip]

/-! ### foreach -/

theorem foreachItems_cons_nonok (fr : Frame) (inner : Frame → Body) (x : Val) (rest : List Val) (s s1 : St) (r : Res)
    (hi : inner { fr with forI := some x } { s with ctx := Ctx.set s.ctx "i" x } = (s1, r)) (hr : r ≠ .ok) :
    foreachItems fr inner (x :: rest) s = (s1, r) := by
  unfold foreachItems
  simp only [hi]
  cases r <;> simp_all

theorem foreachItems_cons_ok (fr : Frame) (inner : Frame → Body) (x : Val) (rest : List Val) (s s1 : St)
    (hi : inner { fr with forI := some x } { s with ctx := Ctx.set s.ctx "i" x } = (s1, .ok)) :
    foreachItems fr inner (x :: rest) s = foreachItems fr inner rest s1 := by
  conv => lhs; unfold foreachItems
  simp only [hi]

/-! ### while -/

theorem whileIter_nonok (cfg : WhileCfg) (fr : Frame) (inner : Frame → Body) (max : Option Nat) (sleep : Num)
    (eom : Bool) (fuel k : Nat) (s s1 : St) (r : Res)
    (hi : inner { fr with whileC := some k } { s with ctx := Ctx.set s.ctx "whileCounter" (.int k) } = (s1, r))
    (hr : r ≠ .ok) :
    whileIter cfg fr inner max sleep eom (fuel + 1) k s = (s1, r) := by
  unfold whileIter
  simp only [hi]
  cases r <;> simp_all

end Pypyr.Flow
