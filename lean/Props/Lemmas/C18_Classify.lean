/- Helper lemmas for C18: how `classify` (`ArgumentParser._parse_optional`) treats exact option strings,
   abbreviations, `flag=value`, and strings that start with `-` without being options. -/
import PypyrModel.Cli

namespace Pypyr.Cli

/-! ### the table -/

theorem table_keys_no_eq : ∀ p ∈ optionTableChars, '=' ∉ p.1 := by decide +kernel

theorem table_keys_dash : ∀ p ∈ optionTableChars, p.1.head? = some '-' := by decide +kernel

/-- `-h` is the only registered option string that does not start with two dashes. -/
theorem table_keys_long_or_h' : ∀ p ∈ optionTableChars, p.1 = ['-', 'h'] ∨ p.1.take 2 = ['-', '-'] := by
  decide +kernel

theorem table_keys_long_or_h : ∀ p ∈ optionTableChars, p.1 = ['-', 'h'] ∨ ∃ r, p.1 = '-' :: '-' :: r := by
  intro p hp
  rcases table_keys_long_or_h' p hp with h | h
  · exact .inl h
  · right
    refine ⟨p.1.drop 2, ?_⟩
    have := List.take_append_drop 2 p.1
    rw [h] at this
    simpa using this.symm

theorem lookupOpt_eq_none_of_eq (cs : List Char) (h : '=' ∈ cs) : lookupOpt cs = none := by
  simp only [lookupOpt, Option.map_eq_none_iff, List.find?_eq_none]
  intro p hp hpe
  have : p.1 = cs := by simpa using hpe
  exact table_keys_no_eq p hp (this ▸ h)

theorem lookupOpt_some_mem {cs : List Char} {o : OptName} (h : lookupOpt cs = some o) :
    (cs, o) ∈ optionTableChars := by
  simp only [lookupOpt, Option.map_eq_some_iff] at h
  obtain ⟨p, hp, ho⟩ := h
  have hm := List.mem_of_find?_eq_some hp
  have he : p.1 = cs := by simpa using List.find?_some hp
  obtain ⟨a, b⟩ := p
  simp only at he ho
  subst he; subst ho
  exact hm

/-! ### `split('=', 1)` -/

theorem splitEq_no_eq (f : List Char) (h : '=' ∉ f) : splitEq f = (f, none) := by
  induction f with
  | nil => rfl
  | cons c cs ih =>
    have hc : c ≠ '=' := fun e => h (by simp [e])
    have hcs : '=' ∉ cs := fun e => h (by simp [e])
    simp [splitEq, hc, ih hcs]

theorem splitEq_append (f v : List Char) (h : '=' ∉ f) : splitEq (f ++ '=' :: v) = (f, some v) := by
  induction f with
  | nil => simp [splitEq]
  | cons c cs ih =>
    have hc : c ≠ '=' := fun e => h (by simp [e])
    have hcs : '=' ∉ cs := fun e => h (by simp [e])
    simp [splitEq, hc, ih hcs]

/-! ### `flag=value` -/

theorem optCls_long (r : List Char) (o : OptName) (e : Option (List Char)) :
    optCls ('-' :: '-' :: r) o e = .opt o (e.map String.ofList) := by
  cases e <;> simp [optCls]

/-- A long flag (exact or abbreviated, no `=` in it) that argparse reads as option `o`, followed by
    `=` and any text, is option `o` with that text as its explicit argument. -/
theorem classifyChars_joined (r v : List Char) (o : OptName) (hne : '=' ∉ r)
    (hf : classifyChars ('-' :: '-' :: r) = .opt o none) :
    classifyChars ('-' :: '-' :: r ++ '=' :: v) = .opt o (some (String.ofList v)) := by
  have hne' : '=' ∉ ('-' :: '-' :: r) := by
    intro h
    simp only [List.mem_cons] at h
    rcases h with h | h | h
    · exact absurd h (by decide)
    · exact absurd h (by decide)
    · exact hne h
  have hr : r ≠ [] := by
    intro e
    subst e
    have : classifyChars ['-', '-'] = .dd := by decide +kernel
    rw [this] at hf
    cases hf
  have hlook : lookupOpt ('-' :: '-' :: r ++ '=' :: v) = none :=
    lookupOpt_eq_none_of_eq _ (by simp)
  have hsplit : splitEq ('-' :: '-' :: r ++ '=' :: v) = ('-' :: '-' :: r, some v) := by
    have := splitEq_append ('-' :: '-' :: r) v hne'
    simpa using this
  have hsplit0 := splitEq_no_eq _ hne'
  have hdd : ('-' :: '-' :: r ++ '=' :: v) ≠ ['-', '-'] := by simp
  have hdd0 : ('-' :: '-' :: r) ≠ ['-', '-'] := by simp [hr]
  -- the joined string
  have hjoined : classifyChars ('-' :: '-' :: r ++ '=' :: v) =
      match lookupOpt ('-' :: '-' :: r) with
      | some o' => .opt o' (some (String.ofList v))
      | none =>
        match (optionTableChars.filter fun p => isPrefixChars ('-' :: '-' :: r) p.1) with
        | [p] => optCls p.1 p.2 (some v)
        | _ :: _ :: _ => .ambiguous
        | [] => if hasNonAscii ('-' :: '-' :: r ++ '=' :: v) then .outside
                else if negNumber ('-' :: '-' :: r ++ '=' :: v) then .pos
                else if ('-' :: '-' :: r ++ '=' :: v).contains ' ' then .pos else .unknown := by
    have e1 : ('-' :: '-' :: r ++ '=' :: v) = '-' :: ('-' :: (r ++ '=' :: v)) := by simp
    rw [e1] at hlook hsplit hdd ⊢
    simp only [classifyChars, ne_eq, not_true_eq_false, if_false, hdd, hlook, hsplit, Option.isSome_some, if_true,
      List.isEmpty_cons, Bool.false_eq_true, List.head?_cons, longTuples]
    cases hl : lookupOpt ('-' :: '-' :: r) with
    | some o' => simp [optCls_long]
    | none =>
      simp only []
      cases hfil : (optionTableChars.filter fun p => isPrefixChars ('-' :: '-' :: r) p.1) with
      | nil => simp
      | cons p ps =>
        cases ps with
        | nil => simp
        | cons q qs => simp
  -- the flag alone
  have halone : classifyChars ('-' :: '-' :: r) =
      match lookupOpt ('-' :: '-' :: r) with
      | some o' => .opt o' none
      | none =>
        match (optionTableChars.filter fun p => isPrefixChars ('-' :: '-' :: r) p.1) with
        | [p] => optCls p.1 p.2 none
        | _ :: _ :: _ => .ambiguous
        | [] => if hasNonAscii ('-' :: '-' :: r) then .outside
                else if negNumber ('-' :: '-' :: r) then .pos
                else if ('-' :: '-' :: r).contains ' ' then .pos else .unknown := by
    simp only [classifyChars, ne_eq, not_true_eq_false, if_false, hdd0, hsplit0, Option.isSome_none,
      Bool.false_eq_true, List.isEmpty_cons, List.head?_cons, longTuples]
    cases hl : lookupOpt ('-' :: '-' :: r) with
    | some o' => simp
    | none =>
      simp only []
      cases hfil : (optionTableChars.filter fun p => isPrefixChars ('-' :: '-' :: r) p.1) with
      | nil => simp
      | cons p ps =>
        cases ps with
        | nil => simp
        | cons q qs => simp
  rw [hjoined]
  rw [halone] at hf
  cases hl : lookupOpt ('-' :: '-' :: r) with
  | some o' =>
    rw [hl] at hf
    simp only [Cls.opt.injEq, and_true] at hf
    simp [hf]
  | none =>
    rw [hl] at hf
    simp only [] at hf ⊢
    cases hfil : (optionTableChars.filter fun p => isPrefixChars ('-' :: '-' :: r) p.1) with
    | nil =>
      rw [hfil] at hf
      simp only [] at hf
      split at hf
      · exact absurd hf (by simp)
      · split at hf
        · exact absurd hf (by simp)
        · split at hf <;> exact absurd hf (by simp)
    | cons p ps =>
      rw [hfil] at hf
      cases ps with
      | cons q qs => simp at hf
      | nil =>
        simp only [] at hf ⊢
        have hp : p ∈ optionTableChars := by
          have : p ∈ (optionTableChars.filter fun p => isPrefixChars ('-' :: '-' :: r) p.1) := by simp [hfil]
          exact (List.mem_filter.mp this).1
        have hpre : isPrefixChars ('-' :: '-' :: r) p.1 = true := by
          have : p ∈ (optionTableChars.filter fun p => isPrefixChars ('-' :: '-' :: r) p.1) := by simp [hfil]
          exact (List.mem_filter.mp this).2
        rcases table_keys_long_or_h p hp with hh | ⟨r', hr'⟩
        · rw [hh] at hpre
          simp [isPrefixChars] at hpre
        · rw [hr', optCls_long] at hf ⊢
          simp only [Option.map_none, Cls.opt.injEq, and_true] at hf
          simp [hf]

/-- The same on strings: `flag ++ "=" ++ v`. -/
theorem classify_joined (flag v : String) (o : OptName) (r : List Char)
    (hflag : flag.toList = '-' :: '-' :: r) (hne : '=' ∉ r) (hf : classify flag = .opt o none) :
    classify (flag ++ "=" ++ v) = .opt o (some v) := by
  have h1 : (flag ++ "=" ++ v).toList = '-' :: '-' :: r ++ '=' :: v.toList := by
    simp [hflag]
  simp only [classify] at hf ⊢
  rw [hflag] at hf
  rw [h1, classifyChars_joined r v.toList o hne hf, String.ofList_toList]

/-! ### exact option strings and abbreviations -/

/-- Every registered option string is classified as the option whose table row contains it. -/
theorem classify_exact : ∀ p ∈ optionTable, classify p.1 = .opt p.2 none := by decide +kernel

/-- Every prefix of at least three characters of every long option string is classified as that
    option - except `--l` and `--lo`, which `--log`, `--loglevel` and `--logpath` share
    (`--log` itself is an exact match and wins, also as a prefix of `--logpath`). -/
theorem abbrev_complete :
    ∀ p ∈ optionTableChars, p.1 ≠ ['-', 'h'] → ∀ k ∈ List.range (p.1.length + 1), 3 ≤ k →
      classifyChars (p.1.take k) =
        if p.1.take k = ['-', '-', 'l'] ∨ p.1.take k = ['-', '-', 'l', 'o'] then .ambiguous
        else if p.1.take k = ['-', '-', 'l', 'o', 'g'] then .opt .log none
        else .opt p.2 none := by
  decide +kernel

/-! ### strings that start with `-` and are no option -/

theorem not_prefix_of_second (c : Char) (rest : List Char) (hc : c ≠ '-') (hh : c ≠ 'h') :
    ∀ p ∈ optionTableChars, p.1 ≠ ['-', c] ∧ isPrefixChars ('-' :: c :: rest) p.1 = false := by
  intro p hp
  rcases table_keys_long_or_h p hp with h | ⟨r, h⟩
  · rw [h]
    refine ⟨?_, ?_⟩
    · intro e
      simp only [List.cons.injEq, and_true, true_and] at e
      exact hh e.symm
    · have : ¬ (c = 'h') := hh
      simp [isPrefixChars, this]
  · rw [h]
    refine ⟨?_, ?_⟩
    · intro e
      simp only [List.cons.injEq, true_and] at e
      exact hc e.1.symm
    · have : ¬ (c = '-') := hc
      simp [isPrefixChars, this]

/-- A string `-c…` whose second character is neither `-` nor `h` and that has no `=`-prefix hit is
    never an option of this parser: it is an argument exactly when it looks like a negative number
    or contains a blank, otherwise an unknown option ("unrecognized arguments"). -/
theorem classifyChars_dash_other (c : Char) (rest : List Char) (hc : c ≠ '-') (hh : c ≠ 'h')
    (hascii : hasNonAscii ('-' :: c :: rest) = false) :
    classifyChars ('-' :: c :: rest) =
      if negNumber ('-' :: c :: rest) then .pos
      else if ('-' :: c :: rest).contains ' ' then .pos else .unknown := by
  have hnp := not_prefix_of_second c rest hc hh
  have hlookup : ∀ cs : List Char, cs.take 2 = ['-', c] → lookupOpt cs = none := by
    intro cs hcs
    simp only [lookupOpt, Option.map_eq_none_iff, List.find?_eq_none]
    intro p hp hpe
    have e : p.1 = cs := by simpa using hpe
    rcases table_keys_long_or_h p hp with h | ⟨r, h⟩
    · rw [← e, h] at hcs
      simp only [List.take_succ_cons, List.take_zero, List.cons.injEq, and_true, true_and] at hcs
      exact hh hcs.symm
    · rw [← e, h] at hcs
      simp only [List.take_succ_cons, List.take_zero, List.cons.injEq, and_true, true_and] at hcs
      exact hc hcs.symm
  have h1 : lookupOpt ('-' :: c :: rest) = none := hlookup _ (by simp)
  have hsplit1 : (splitEq ('-' :: c :: rest)).1.take 2 = ['-', c] ∨ c = '=' := by
    by_cases hce : c = '='
    · exact .inr hce
    · left
      simp [splitEq, hce]
  have h2 : (if (splitEq ('-' :: c :: rest)).2.isSome then lookupOpt (splitEq ('-' :: c :: rest)).1 else none) = none := by
    split
    · rcases hsplit1 with h | h
      · exact hlookup _ h
      · subst h
        simp only [lookupOpt, Option.map_eq_none_iff, List.find?_eq_none]
        intro p hp hpe
        have e : p.1 = (splitEq ('-' :: '=' :: rest)).1 := by simpa using hpe
        have : (splitEq ('-' :: '=' :: rest)).1 = ['-'] := by simp [splitEq]
        rw [this] at e
        rcases table_keys_long_or_h p hp with h | ⟨r, h⟩ <;> rw [h] at e <;> simp at e
    · rfl
  have hshort : shortTuples ('-' :: c :: rest) = [] := by
    simp only [shortTuples, List.filterMap_eq_nil_iff]
    intro p hp
    have := hnp p hp
    simp [this.1, this.2]
  simp only [classifyChars, ne_eq, not_true_eq_false, if_false, h1, List.isEmpty_cons, Bool.false_eq_true, h2]
  have hdd : ('-' :: c :: rest) ≠ ['-', '-'] := by
    intro e
    simp only [List.cons.injEq, true_and] at e
    exact hc e.1
  have hc' : ¬ (c = '-') := hc
  simp [hdd, hc', hshort, hascii]

end Pypyr.Cli
