/-
  Global invariants of the flow interpreter: the knot over the fuel-indexed mutual recursion
  `runStep / runSteps / runStepGroup / runGroupList / runFailureGroup / runGroups / runPipeline /
  pypeBody` of `Runner.lean`. For every global relation `R` (see `FlowGlobal.lean`), every
  program, every fuel, every argument and every state, each of the eight run-functions relates
  its input state to its output state.

  Instances at the end: the pipeline stack is balanced (`stackRel`), the probe trace only grows
  at its end (`tracePrefixRel`), and both together with the scripted-exception counter never
  decreasing (`balancedRel`).
-/
import Props.Lemmas.FlowGlobal

namespace Pypyr.Flow

variable {R : St → St → Prop}

/-- the eight run-functions at one fuel level all relate input state to output state -/
def AllPres (R : St → St → Prop) (n : Nat) (prog : Program) : Prop :=
  (∀ pipe d, Pres R (runStep n prog pipe d)) ∧
  (∀ pipe ds, Pres R (runSteps n prog pipe ds)) ∧
  (∀ pipe g rs, Pres R (runStepGroup n prog pipe g rs)) ∧
  (∀ pipe gs, Pres R (runGroupList n prog pipe gs)) ∧
  (∀ pipe g, Pres R (runFailureGroup n prog pipe g)) ∧
  (∀ pipe gs su fa, Pres R (runGroups n prog pipe gs su fa)) ∧
  (∀ pi, Pres R (runPipeline n prog pi)) ∧
  Pres R (pypeBody n prog)

theorem rel_errTail (a : St) (p : St × Res) (b : Bool) (h : R a p.1) :
    R a (match p with
         | (s2, .err e hd) => if b then (s2, Res.err e hd) else (s2, Res.ok)
         | other => other).1 := by
  obtain ⟨s1, r⟩ := p
  cases r <;> first | exact h | (simp only []; split <;> exact h)

theorem allPres_zero (G : GlobalRel R) (prog : Program) : AllPres R 0 prog := by
  refine ⟨?_, ?_, ?_, ?_, ?_, ?_, ?_, ?_⟩
  · intro pipe d s; unfold runStep; exact G.refl _
  · intro pipe ds s; unfold runSteps; exact G.refl _
  · intro pipe g rs s; unfold runStepGroup; exact G.refl _
  · intro pipe gs s; unfold runGroupList; exact G.refl _
  · intro pipe g s; unfold runFailureGroup; exact G.refl _
  · intro pipe gs su fa s; unfold runGroups; exact G.refl _
  · intro pi s; unfold runPipeline; exact G.refl _
  · intro s; unfold pypeBody; exact G.refl _

theorem allPres_succ (G : GlobalRel R) (prog : Program) (n : Nat) (ih : AllPres R n prog) :
    AllPres R (n + 1) prog := by
  obtain ⟨hStep, hSteps, hGroup, hList, hFail, hGroups, hPipe, hPype⟩ := ih
  refine ⟨?_, ?_, ?_, ?_, ?_, ?_, ?_, ?_⟩
  · -- runStep
    intro pipe d s
    unfold runStep
    simp only []
    split
    · exact rel_raiseNew G _ _ _
    · rename_i kind _
      apply runStepDescribed_rel G
      · cases kind <;> simp only []
        · exact probeStep_rel G
        · exact fun s => G.refl _
        · exact fun s => G.refl _
        · exact fun s => G.refl _
        · exact cofStep_rel G _ _
        · exact cofStep_rel G _ _
        · exact switchStep_rel G
        · exact setStep_rel G
        · exact contextClearStep_rel G
        · exact contextClearAllStep_rel G
        · exact hPype
      · intro c s'; exact hGroups _ _ _ _ s'
  · -- runSteps
    intro pipe ds s
    cases ds with
    | nil => unfold runSteps; exact G.refl _
    | cons d rest =>
      unfold runSteps
      generalize hr : runStep n prog pipe d s = p
      obtain ⟨s1, r⟩ := p
      have h1 : R s s1 := by have := hStep pipe d s; rw [hr] at this; exact this
      cases r with
      | ok => exact G.trans h1 (hSteps pipe rest s1)
      | _ => exact h1
  · -- runStepGroup
    intro pipe g rs s
    by_cases hg0 : g = ""
    · -- `assert step_group_name`
      subst hg0; rw [runStepGroup_empty_name]; exact rel_raiseNew G _ _ _
    cases hgs : getPipelineSteps prog pipe g with
    | error e =>
      -- a group body without a length: `get_pipeline_steps` raises, nothing ran
      obtain ⟨en, em⟩ := e
      rw [runStepGroup_unsized n prog pipe g rs s en em hgs hg0]
      exact rel_raiseNew G _ _ _
    | ok ss =>
      rw [runStepGroup_eq' n prog pipe g rs s ss hgs hg0]
      generalize hr : runSteps n prog pipe ss s = p
      obtain ⟨s1, r⟩ := p
      have h1 : R s s1 := by have := hSteps pipe ss s; rw [hr] at this; exact this
      cases r with
      | jump c => exact G.trans h1 (hGroups pipe _ _ _ s1)
      | stopGroup => simp only []; split <;> exact h1
      | _ => exact h1
  · -- runGroupList
    intro pipe gs s
    cases gs with
    | nil => unfold runGroupList; exact G.refl _
    | cons g rest =>
      unfold runGroupList
      generalize hr : runStepGroup n prog pipe g false s = p
      obtain ⟨s1, r⟩ := p
      have h1 : R s s1 := by have := hGroup pipe g false s; rw [hr] at this; exact this
      cases r with
      | ok => exact G.trans h1 (hList pipe rest s1)
      | _ => exact h1
  · -- runFailureGroup
    intro pipe g s
    unfold runFailureGroup
    split
    · exact G.refl _
    · rename_i name
      split
      · exact G.refl _
      · generalize hr : runStepGroup n prog pipe name true s = p
        obtain ⟨s1, r⟩ := p
        have h1 : R s s1 := by have := hGroup pipe name true s; rw [hr] at this; exact this
        cases r <;> exact h1
  · -- runGroups
    intro pipe gs su fa s
    cases gs with
    | nil => unfold runGroups; exact rel_raiseNew G _ _ _
    | cons g rest =>
      rw [runGroups_eq]
      have hmain : R s (mainPhase n prog pipe (g :: rest) su s).1 := by
        unfold mainPhase
        generalize hr : runGroupList n prog pipe (g :: rest) s = p
        obtain ⟨s1, r⟩ := p
        have h1 : R s s1 := by have := hList pipe (g :: rest) s; rw [hr] at this; exact this
        cases r with
        | ok =>
          simp only []
          split
          · split
            · exact h1
            · exact G.trans h1 (hGroup pipe _ false s1)
          · exact h1
        | _ => exact h1
      generalize hm : mainPhase n prog pipe (g :: rest) su s = p at hmain
      obtain ⟨s1, r⟩ := p
      cases r with
      | err e h =>
        simp only []
        split
        · generalize hf : runFailureGroup n prog pipe fa s1 = q
          obtain ⟨s2, r2⟩ := q
          have h2 : R s1 s2 := by have := hFail pipe fa s1; rw [hf] at this; exact this
          cases r2 <;> exact G.trans hmain h2
        · exact hmain
      | _ => exact hmain
  · -- runPipeline
    intro pi s
    cases hp : prog.find? pi.name with
    | none => rw [runPipeline_notFound n prog pi s hp]; exact rel_raiseNew G _ _ _
    | some pd =>
      by_cases hgb : pi.groupsBad = true
      · -- `groups` cannot be iterated: the TypeError, then the failure group
        rw [runPipeline_groupsBad n prog pi pd s hp hgb]
        simp only []
        refine G.scope s _ pi.name ?_
        generalize hr : prepareContext pd pi { s with stack := pi.name :: s.stack } = p
        obtain ⟨s1, r⟩ := p
        have h1 : R { s with stack := pi.name :: s.stack } s1 := by
          have := prepareContext_rel G pd pi { s with stack := pi.name :: s.stack }; rw [hr] at this; exact this
        cases r with
        | err e h =>
          simp only []
          generalize hf : runFailureGroup n prog pi.name pi.failure s1 = q
          obtain ⟨s2, r2⟩ := q
          have h2 : R s1 s2 := by have := hFail pi.name pi.failure s1; rw [hf] at this; exact this
          cases r2 <;> exact G.trans h1 h2
        | ok =>
          simp only []
          have h1' : R s1 (raiseNew s1 "TypeError" "~object is not iterable").1 := rel_raiseNew G _ _ _
          by_cases hf0 : hasFailureGroup pi.failure = true
          · simp only [hf0, if_true]
            generalize hf : runFailureGroup n prog pi.name pi.failure
              (raiseNew s1 "TypeError" "~object is not iterable").1 = q
            obtain ⟨s2, r2⟩ := q
            have h2 : R (raiseNew s1 "TypeError" "~object is not iterable").1 s2 := by
              have := hFail pi.name pi.failure (raiseNew s1 "TypeError" "~object is not iterable").1
              rw [hf] at this; exact this
            cases r2 <;> exact G.trans h1 (G.trans h1' h2)
          · simp only [hf0]; exact G.trans h1 h1'
        | _ => exact h1
      have hgb : pi.groupsBad = false := by simpa using hgb
      rw [runPipeline_eq n prog pi pd s hp hgb]
      simp only []
      refine G.scope s _ pi.name ?_
      generalize hr : prepareContext pd pi { s with stack := pi.name :: s.stack } = p
      obtain ⟨s1, r⟩ := p
      have h1 : R { s with stack := pi.name :: s.stack } s1 := by
        have := prepareContext_rel G pd pi { s with stack := pi.name :: s.stack }; rw [hr] at this; exact this
      cases r with
      | err e h =>
        simp only []
        generalize hf : runFailureGroup n prog pi.name (effectiveGroups pi).2.2 s1 = q
        obtain ⟨s2, r2⟩ := q
        have h2 : R s1 s2 := by have := hFail pi.name (effectiveGroups pi).2.2 s1; rw [hf] at this; exact this
        cases r2 <;> exact G.trans h1 h2
      | ok =>
        simp only []
        generalize hg : runGroups n prog pi.name (effectiveGroups pi).1 (effectiveGroups pi).2.1
          (effectiveGroups pi).2.2 s1 = q
        obtain ⟨s2, r2⟩ := q
        have h2 : R s1 s2 := by
          have := hGroups pi.name (effectiveGroups pi).1 (effectiveGroups pi).2.1 (effectiveGroups pi).2.2 s1
          rw [hg] at this; exact this
        cases r2 <;> exact G.trans h1 h2
      | _ => exact h1
  · -- pypeBody
    intro s
    unfold pypeBody
    simp only []
    split
    · exact rel_raiseNew G _ _ _
    · rename_i a _
      apply rel_errTail
      split
      · -- shared context
        refine G.trans ?_ (hPipe _ _)
        split
        · split
          · exact G.refl _
          · exact rel_ctx G _ _
        · exact G.refl _
      · -- own context
        generalize hpi : PipeInst.mk a.name a.groups a.success a.failure (!a.skipParse) a.pipeArg a.groupsBad = pi
        generalize hr : runPipeline n prog pi { s with ctx := a.args.getD [], stack := [] } = p
        obtain ⟨c1, r1⟩ := p
        have h1 : R { s with ctx := a.args.getD [], stack := [] } c1 := by
          have := hPipe pi { s with ctx := a.args.getD [], stack := [] }
          rw [hr] at this; exact this
        simp only []
        have hback : R s { c1 with ctx := s.ctx, stack := s.stack } := G.own s c1 _ h1
        cases r1 with
        | ok =>
          simp only []
          split
          · exact G.trans hback (writeOut_rel G _ _ _)
          · exact hback
        | _ => exact hback

/-- **Every run-function of the interpreter relates its input state to its output state**, for every
    global relation, every program and every amount of fuel. -/
theorem allPres (G : GlobalRel R) (prog : Program) : ∀ n, AllPres R n prog := by
  intro n
  induction n with
  | zero => exact allPres_zero G prog
  | succ n ih => exact allPres_succ G prog n ih

theorem runRoot_rel (G : GlobalRel R) (prog : Program) (n : Nat) (pi : PipeInst) : Pres R (runRoot n prog pi) := by
  intro s
  rw [runRoot_eq]
  generalize hr : runPipeline n prog pi s = p
  obtain ⟨s1, r⟩ := p
  have h1 : R s s1 := by have := (allPres G prog n).2.2.2.2.2.2.1 pi s; rw [hr] at this; exact this
  cases r <;> exact h1

/-! ### instances -/

/-- the pipeline stack after = the pipeline stack before -/
def stackRel (a b : St) : Prop := b.stack = a.stack

theorem stackRel_global : GlobalRel stackRel where
  refl := fun _ => rfl
  trans := fun h1 h2 => Eq.trans h2 h1
  frame := fun _ _ h _ _ _ _ => h
  emit := fun _ _ => rfl
  scope := by
    intro a b n h
    show (b.stack.drop 1) = a.stack
    have : b.stack = n :: a.stack := h
    rw [this]; rfl
  own := fun _ _ _ _ => rfl

/-- the trace before is a prefix of the trace after: events are never removed or reordered -/
def tracePrefixRel (a b : St) : Prop := ∃ evs, b.trace = a.trace ++ evs

theorem tracePrefixRel_global : GlobalRel tracePrefixRel where
  refl := fun _ => ⟨[], (List.append_nil _).symm⟩
  trans := by
    rintro a b c ⟨e1, h1⟩ ⟨e2, h2⟩
    exact ⟨e1 ++ e2, by rw [h2, h1, List.append_assoc]⟩
  frame := fun _ _ _ h _ _ _ => ⟨[], by rw [h, List.append_nil]⟩
  emit := fun _ ev => ⟨[ev], rfl⟩
  scope := fun _ _ _ h => h
  own := fun _ _ _ h => h

/-- everything that is global to a run only ever grows: the probe trace, the virtual clock's record of
    sleeps and the ghost log of escapes by appending, the exception counter by counting up; and the
    pipeline stack is what it was. -/
def GrewRel (a b : St) : Prop :=
  a.trace <+: b.trace ∧ a.sleeps <+: b.sleeps ∧ a.nextExc ≤ b.nextExc ∧ a.escapes <+: b.escapes ∧ b.stack = a.stack

theorem grewRel_global : GlobalRel GrewRel where
  refl := fun _ => ⟨List.prefix_refl _, List.prefix_refl _, Nat.le_refl _, List.prefix_refl _, rfl⟩
  trans := by
    rintro a b c ⟨h1, h2, h3, h4, h5⟩ ⟨g1, g2, g3, g4, g5⟩
    exact ⟨h1.trans g1, h2.trans g2, Nat.le_trans h3 g3, h4.trans g4, g5.trans h5⟩
  frame := fun _ _ hs ht h1 h2 h3 => ⟨by rw [ht]; exact List.prefix_refl _, h1, h2, h3, hs⟩
  emit := fun _ _ => ⟨List.prefix_append _ _, List.prefix_refl _, Nat.le_refl _, List.prefix_refl _, rfl⟩
  scope := by
    rintro a b n ⟨h1, h2, h3, h4, h5⟩
    refine ⟨h1, h2, h3, h4, ?_⟩
    show b.stack.drop 1 = a.stack
    have : b.stack = n :: a.stack := h5
    rw [this]; rfl
  own := fun _ _ _ ⟨h1, h2, h3, h4, _⟩ => ⟨h1, h2, h3, h4, rfl⟩

/-- the depth of the stack after = before, and the stack below the top entry is untouched
    (both consequences of `stackRel`; kept as the form the pype statements use) -/
theorem stackRel_head {a b : St} (h : stackRel a b) : b.stack.head? = a.stack.head? := by
  unfold stackRel at h; rw [h]

end Pypyr.Flow
