/- Helper lemmas for C19, sequences of look-ups in one process (`Resolve.request`, `runSess`):
   the warm pipeline cache is coherent with the file system it was filled from. -/
import Props.Lemmas.C19_Find

namespace Pypyr.Resolve

/-- every entry of the warm pipeline cache is what a cold look-up of its key yields in `fs` -/
def SCoh (parse : String → Name) (fs : Fs) (s : Sess) : Prop :=
  ∀ par ns p, ((par, ns), p) ∈ s.pipes → getPipelinePath fs (parse ns) par = .ok p

theorem scoh_init (parse : String → Name) (fs : Fs) (sp : List Path) : SCoh parse fs (Sess.init sp) := by
  intro par ns p h; simp [Sess.init] at h

theorem scoh_clear (parse : String → Name) (fs : Fs) (s : Sess) : SCoh parse fs s.clear := by
  intro par ns p h; simp [Sess.clear] at h

theorem lookup_mem {s : Sess} {k : SKey} {p : Path} (h : s.lookup k = some p) : (k, p) ∈ s.pipes := by
  unfold Sess.lookup at h
  cases hf : s.pipes.find? (fun e => e.1 == k) with
  | none => simp [hf] at h
  | some e =>
    simp only [hf, Option.map_some, Option.some.injEq] at h
    have hm := List.mem_of_find?_eq_some hf
    have hk := List.find?_some hf
    simp only [beq_iff_eq] at hk
    cases e with
    | mk a b =>
      simp only at h hk
      subst h hk
      exact hm

theorem getPipelineDefinition_fst (fs : Fs) (st : LoadState) (name : Name) (parent : Option Path) :
    (getPipelineDefinition fs st name parent).1 = getPipelinePath fs name parent := by
  unfold getPipelineDefinition
  cases getPipelinePath fs name parent with
  | error e => rfl
  | ok p => simp only; split <;> rfl

/-- with `no_cache` a look-up is a cold look-up and the pipeline cache is not touched -/
theorem request_noCache (parse : String → Name) (fs : Fs) (s : Sess) (r : Req) :
    (request parse fs true s r).1 = getPipelinePath fs (parse r.nameStr) r.parent ∧
    (request parse fs true s r).2.pipes = s.pipes := by
  unfold request
  simp only [if_true]
  cases getPipelinePath fs (parse r.nameStr) r.parent <;> simp

/-- through a coherent warm cache a look-up yields what a cold look-up yields, and leaves the
    cache coherent -/
theorem request_cold (parse : String → Name) (fs : Fs) (nc : Bool) (s : Sess) (r : Req)
    (h : SCoh parse fs s) :
    (request parse fs nc s r).1 = getPipelinePath fs (parse r.nameStr) r.parent ∧
    SCoh parse fs (request parse fs nc s r).2 := by
  cases nc with
  | true =>
    have := request_noCache parse fs s r
    refine ⟨this.1, ?_⟩
    intro par ns p hm
    rw [this.2] at hm
    exact h par ns p hm
  | false =>
    unfold request
    simp only [Bool.false_eq_true, if_false]
    cases hl : s.lookup (r.parent, r.nameStr) with
    | some p =>
      simp only
      exact ⟨(h _ _ _ (lookup_mem hl)).symm, h⟩
    | none =>
      simp only
      have hfst := getPipelineDefinition_fst fs s.load (parse r.nameStr) r.parent
      cases hd : getPipelineDefinition fs s.load (parse r.nameStr) r.parent with
      | mk res ld =>
        rw [hd] at hfst
        simp only at hfst
        cases res with
        | error e =>
          simp only
          refine ⟨hfst, ?_⟩
          intro par ns p hm
          exact h par ns p hm
        | ok p =>
          simp only
          refine ⟨hfst, ?_⟩
          intro par ns q hm
          simp only [List.mem_cons, Prod.mk.injEq] at hm
          rcases hm with ⟨⟨rfl, rfl⟩, rfl⟩ | hm
          · exact hfst.symm
          · exact h par ns q hm

/-! #### custom modules next to every pipeline served, also from the warm cache -/

/-- `Good` for the load state, and every file the warm cache can serve has its directory on
    `sys.path`. Independent of any file system. -/
structure SGood (s : Sess) : Prop where
  load : Good s.load
  served : ∀ k p, (k, p) ∈ s.pipes → dirOf p ∈ s.load.sysPath

theorem sgood_init (sp : List Path) : SGood (Sess.init sp) :=
  ⟨⟨by simp [Sess.init], by simp [Sess.init]⟩, by simp [Sess.init]⟩

theorem sgood_clear (s : Sess) (h : SGood s) : SGood s.clear :=
  ⟨⟨by simp [Sess.clear], h.load.known⟩, by simp [Sess.clear]⟩

theorem sgood_pyDir (fs : Fs) (s : Sess) (d : Path) (h : SGood s) : SGood (s.pyDir fs d) := by
  refine ⟨⟨?_, addSysPath_known fs _ _ h.load.known⟩, ?_⟩
  · intro x hx
    simp only [Sess.pyDir, addSysPath_fileCache] at hx
    exact addSysPath_mono fs _ _ _ (h.load.cached x hx)
  · intro k p hm
    exact addSysPath_mono fs _ _ _ (h.served k p hm)

end Pypyr.Resolve
