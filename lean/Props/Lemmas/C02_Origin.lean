/-
  C02 helper lemmas.

  (1) Origin WITH HISTORY. `FlowOrigin.lean` shows: a signal returned by a decorated step was returned
  by its module body (or by the groups it called) and the step ends in exactly the state of that
  moment. Here the state `s0` in which that body invocation STARTED is tied to the state `s` in which
  the step was entered: for every relation `R` closed under the step's own book-keeping between body
  invocations (`LoopRel`: setting a loop counter, one sleep, the `in` arguments) and preserved by the
  body and the callee, `R s s0`. With `R := Grew` (trace, sleeps, runErrors, escapes, exception counter
  only ever grow; the pipeline stack is untouched) this says what happened before the signal; the
  equation `body s0 = (s', σ)` says nothing happened after it.

  (2) Result classes by fuel induction: no `Call` ever leaves a step, no `Jump` ever leaves a
  step-group, neither ever leaves `run_step_groups`, a pipeline or a pype step - for every program
  and every fuel (so "jump / call never reach a failure handler or the caller" is a theorem, not a
  reading of the definitions).
-/
import Props.Lemmas.FlowGlobalRun
import Props.Lemmas.C04_Cond
import Props.Lemmas.C01_Runner
import Props.Lemmas.C11_Out

namespace Pypyr.Flow

/-! ## (1) origin with history -/

/-- what a relation between "state when the step was entered" and "state in which the body is invoked"
    must be closed under: the book-keeping the loops do between two invocations of the inner layer. -/
structure LoopRel (R : St → St → Prop) : Prop where
  refl : ∀ s, R s s
  trans : ∀ {a b c}, R a b → R b c → R a c
  /-- `context['i' | 'whileCounter' | 'retryCounter'] = …` -/
  counter : ∀ (a : St) (k : String) (v : Val), k = "i" ∨ k = "whileCounter" ∨ k = "retryCounter" →
    R a { a with ctx := Ctx.set a.ctx k v }
  /-- one `time.sleep`, the random source advanced -/
  slept : ∀ (a : St) (rnd : List Num) (d : Val), R a { a with rnd := rnd, sleeps := a.sleeps ++ [d] }

variable {R : St → St → Prop}

theorem retryIter_signal_origin_rel (L : LoopRel R) (cfg : RetryCfg) (fr : Frame) (inner : Frame → Body)
    (max : Option Int) (hi : ∀ fr, Pres R (inner fr)) :
    ∀ (fuel k : Nat) (bo : BackoffState) (s s' : St) (σ : Res),
      retryIter cfg fr inner max fuel k bo s = (s', σ) → σ.isSignal = true →
      ∃ k' s0, R s s0 ∧ inner { fr with retryC := some k' } s0 = (s', σ) := by
  intro fuel
  induction fuel with
  | zero => intro k bo s s' σ h hσ; simp [retryIter] at h; rw [← h.2] at hσ; simp [Res.isSignal] at hσ
  | succ n ih =>
    intro k bo s s' σ h hσ
    unfold retryIter at h
    simp only [] at h
    have h0 : R s { s with ctx := Ctx.set s.ctx "retryCounter" (.int k) } := L.counter _ _ _ (.inr (.inr rfl))
    have hp := hi { fr with retryC := some k } { s with ctx := Ctx.set s.ctx "retryCounter" (.int k) }
    generalize hin : inner { fr with retryC := some k } { s with ctx := Ctx.set s.ctx "retryCounter" (.int k) } = p at h hp
    obtain ⟨s1, r⟩ := p
    simp only [] at h
    cases r with
    | err e handled =>
      simp only [] at h
      repeat' (split at h)
      all_goals first
        | exact (ih _ _ _ _ _ h hσ).elim fun k' hk => hk.elim fun s0 hk' =>
            ⟨k', s0, L.trans h0 (L.trans hp (L.trans (L.slept s1 _ _) hk'.1)), hk'.2⟩
        | (have := raiseExc_not_signal _ _ _ _ h; simp_all)
        | (have := raiseNew_not_signal _ _ _ _ _ h; simp_all)
        | (simp at h; rw [← h.2] at hσ; simp [Res.isSignal] at hσ)
    | _ => simp at h; exact ⟨k, _, h0, by rw [hin]; simp [h]⟩

theorem retryFaulty_signal_origin_rel (L : LoopRel R) (cfg : RetryCfg) (fr : Frame) (inner : Frame → Body)
    (max : Option Int) (y : Bool) (s s' : St) (σ : Res)
    (h : retryFaulty cfg fr inner max y s = (s', σ)) (hσ : σ.isSignal = true) :
    ∃ k' s0, R s s0 ∧ inner { fr with retryC := some k' } s0 = (s', σ) := by
  unfold retryFaulty at h
  simp only [] at h
  have h0 : R s { s with ctx := Ctx.set s.ctx "retryCounter" (.int 1) } := L.counter _ _ _ (.inr (.inr rfl))
  generalize hin : inner { fr with retryC := some 1 } { s with ctx := Ctx.set s.ctx "retryCounter" (.int 1) } = p at h
  obtain ⟨s1, r⟩ := p
  simp only [] at h
  cases r with
  | err e handled =>
    simp only [] at h
    repeat' (split at h)
    all_goals first
      | (have := raiseExc_not_signal _ _ _ _ h; simp_all)
      | (have := raiseNew_not_signal _ _ _ _ _ h; simp_all)
      | (simp at h; rw [← h.2] at hσ; simp [Res.isSignal] at hσ)
  | _ => simp at h; exact ⟨1, _, h0, by rw [hin]; simp [h]⟩

theorem retryLoop_signal_origin_rel (L : LoopRel R) (cfg : RetryCfg) (fr : Frame) (inner : Frame → Body) (fuel : Nat)
    (hi : ∀ fr, Pres R (inner fr))
    (s s' : St) (σ : Res) (h : retryLoop cfg fr inner fuel s = (s', σ)) (hσ : σ.isSignal = true) :
    ∃ fr' s0, R s s0 ∧ inner fr' s0 = (s', σ) := by
  unfold retryLoop at h
  simp only [] at h
  have h0 : R s { s with ctx := Ctx.set s.ctx "retryCounter" (.int 0) } := L.counter _ _ _ (.inr (.inr rfl))
  repeat' (split at h)
  all_goals first
    | (have := raiseExc_not_signal _ _ _ _ h; simp_all)
    | (have := raiseNew_not_signal _ _ _ _ _ h; simp_all)
    | exact (retryIter_signal_origin_rel L _ _ _ _ hi _ _ _ _ _ _ h hσ).elim fun k hk => hk.elim fun s0 hk' =>
        ⟨_, s0, L.trans h0 hk'.1, hk'.2⟩
    | exact (retryFaulty_signal_origin_rel L _ _ _ _ _ _ _ _ h hσ).elim fun k hk => hk.elim fun s0 hk' =>
        ⟨_, s0, L.trans h0 hk'.1, hk'.2⟩
    | (simp at h; rw [← h.2] at hσ; simp [Res.isSignal] at hσ)

theorem foreachItems_signal_origin_rel (L : LoopRel R) (fr : Frame) (inner : Frame → Body)
    (hi : ∀ fr, Pres R (inner fr)) :
    ∀ (items : List Val) (s s' : St) (σ : Res),
      foreachItems fr inner items s = (s', σ) → σ.isSignal = true →
      ∃ x s0, R s s0 ∧ inner { fr with forI := some x } s0 = (s', σ) := by
  intro items
  induction items with
  | nil => intro s s' σ h hσ; simp [foreachItems] at h; rw [← h.2] at hσ; simp [Res.isSignal] at hσ
  | cons x rest ih =>
    intro s s' σ h hσ
    unfold foreachItems at h
    simp only [] at h
    have h0 : R s { s with ctx := Ctx.set s.ctx "i" x } := L.counter _ _ _ (.inl rfl)
    have hp := hi { fr with forI := some x } { s with ctx := Ctx.set s.ctx "i" x }
    generalize hin : inner { fr with forI := some x } { s with ctx := Ctx.set s.ctx "i" x } = p at h hp
    obtain ⟨s1, r⟩ := p
    cases r with
    | ok =>
      simp only [] at h
      obtain ⟨x', s0, hr, hk⟩ := ih _ _ _ h hσ
      exact ⟨x', s0, L.trans h0 (L.trans hp hr), hk⟩
    | _ => simp at h; exact ⟨x, _, h0, by rw [hin]; simp [h]⟩

theorem foreachOrConditional_signal_origin_rel (L : LoopRel R) (d : StepDef) (fr : Frame) (inner : Frame → Body)
    (hi : ∀ fr, Pres R (inner fr))
    (s s' : St) (σ : Res) (h : foreachOrConditional d fr inner s = (s', σ)) (hσ : σ.isSignal = true) :
    ∃ fr' s0, R s s0 ∧ inner fr' s0 = (s', σ) := by
  unfold foreachOrConditional at h
  cases hf : d.foreach with
  | none => rw [hf] at h; exact ⟨_, _, L.refl _, h⟩
  | some raw =>
    rw [hf] at h
    simp only [] at h
    by_cases ht : raw.truthy = true
    · rw [if_pos ht] at h
      unfold foreachLoop at h
      repeat' (split at h)
      all_goals first
        | (have := raiseExc_not_signal _ _ _ _ h; simp_all)
        | exact (foreachItems_signal_origin_rel L _ _ hi _ _ _ _ h hσ).elim fun x hx => hx.elim fun s0 hx' =>
            ⟨_, s0, hx'.1, hx'.2⟩
    · rw [if_neg ht] at h
      exact ⟨_, _, L.refl _, h⟩

theorem whileIter_signal_origin_rel (L : LoopRel R) (cfg : WhileCfg) (fr : Frame) (inner : Frame → Body)
    (max : Option Nat) (sleep : Num) (eom : Bool) (hi : ∀ fr, Pres R (inner fr)) :
    ∀ (fuel k : Nat) (s s' : St) (σ : Res),
      whileIter cfg fr inner max sleep eom fuel k s = (s', σ) → σ.isSignal = true →
      ∃ k' s0, R s s0 ∧ inner { fr with whileC := some k' } s0 = (s', σ) := by
  intro fuel
  induction fuel with
  | zero => intro k s s' σ h hσ; simp [whileIter] at h; rw [← h.2] at hσ; simp [Res.isSignal] at hσ
  | succ n ih =>
    intro k s s' σ h hσ
    unfold whileIter at h
    simp only [] at h
    have h0 : R s { s with ctx := Ctx.set s.ctx "whileCounter" (.int k) } := L.counter _ _ _ (.inr (.inl rfl))
    have hp := hi { fr with whileC := some k } { s with ctx := Ctx.set s.ctx "whileCounter" (.int k) }
    generalize hin : inner { fr with whileC := some k } { s with ctx := Ctx.set s.ctx "whileCounter" (.int k) } = p at h hp
    obtain ⟨s1, r⟩ := p
    cases r with
    | ok =>
      simp only [] at h
      repeat' (split at h)
      all_goals first
        | exact (ih _ _ _ _ h hσ).elim fun k' hk => hk.elim fun s0 hk' =>
            ⟨k', s0, L.trans h0 (L.trans hp (L.trans (L.slept s1 s1.rnd _) hk'.1)), hk'.2⟩
        | (have := raiseExc_not_signal _ _ _ _ h; simp_all)
        | (have := raiseNew_not_signal _ _ _ _ _ h; simp_all)
        | (simp at h; rw [← h.2] at hσ; simp [Res.isSignal] at hσ)
    | _ => simp at h; exact ⟨k, _, h0, by rw [hin]; simp [h]⟩

theorem whileLoop_signal_origin_rel (L : LoopRel R) (cfg : WhileCfg) (fr : Frame) (inner : Frame → Body) (fuel : Nat)
    (hi : ∀ fr, Pres R (inner fr))
    (s s' : St) (σ : Res) (h : whileLoop cfg fr inner fuel s = (s', σ)) (hσ : σ.isSignal = true) :
    ∃ fr' s0, R s s0 ∧ inner fr' s0 = (s', σ) := by
  unfold whileLoop at h
  simp only [] at h
  have h0 : R s { s with ctx := Ctx.set s.ctx "whileCounter" (.int 0) } := L.counter _ _ _ (.inr (.inl rfl))
  repeat' (split at h)
  all_goals first
    | (have := raiseExc_not_signal _ _ _ _ h; simp_all)
    | (have := raiseNew_not_signal _ _ _ _ _ h; simp_all)
    | exact (whileIter_signal_origin_rel L _ _ _ _ _ _ hi _ _ _ _ _ h hσ).elim fun k hk => hk.elim fun s0 hk' =>
        ⟨_, s0, L.trans h0 hk'.1, hk'.2⟩
    | (simp at h; rw [← h.2] at hσ; simp [Res.isSignal] at hσ)

/-- every global relation (`FlowGlobal.lean`) is closed under the loops' book-keeping. -/
theorem LoopRel.ofGlobal (G : GlobalRel R) : LoopRel R where
  refl := G.refl
  trans := G.trans
  counter := fun a k v _ => by frame_tac G
  slept := fun a rnd d => by frame_tac G

/-- **A signal returned by a decorated step, with history.** For every global relation `R` preserved by
    the module body and by the called groups: the signal was returned by the module body run in a
    state `s0` with `R s s0` - everything the step did before (earlier iterations, attempts, their
    sleeps, their recordings) is summed up by `R` - and the step's final state is exactly the state in
    which that body invocation (or the groups it called, plus the caller's counters written back)
    ended: nothing at all happened after the signal. -/
theorem runStepWith_signal_origin_rel (G : GlobalRel R) (d : StepDef) (body : Body) (callee : CofCfg → Body)
    (fuel : Nat) (hb : Pres R body) (hc : ∀ c, Pres R (callee c))
    (s s' : St) (σ : Res) (h : runStepWith d body callee fuel s = (s', σ)) (hσ : σ.isSignal = true) :
    (∃ s0, R s s0 ∧ body s0 = (s', σ)) ∨
    (∃ fr s0 s1 s2 c, R s s0 ∧ body s0 = (s1, .call c) ∧ callee c s1 = (s2, σ) ∧ s' = resetCounters fr c s2 ∧
      R s s2 ∧ c.original.truthy = true) := by
  have L := LoopRel.ofGlobal G
  have hinv : ∀ fr, Pres R (fun s => invokeStep fr body callee s) := fun fr => invokeStep_rel G fr body callee hb hc
  have hret : ∀ fr, Pres R (match d.retry with
      | some rc => retryLoop rc { fr with retryC := some 0 } (fun fr => invokeStep fr body callee) fuel
      | none => invokeStep fr body callee) := by
    intro fr
    split
    · exact retryLoop_rel G _ _ _ _ hinv
    · exact hinv fr
  have hcond : ∀ fr, Pres R (runConditional d (match d.retry with
      | some rc => retryLoop rc { fr with retryC := some 0 } (fun fr => invokeStep fr body callee) fuel
      | none => invokeStep fr body callee)) := fun fr => runConditional_rel G d _ (hret fr)
  -- from the invoke layer down to the body
  have hinvoke : ∀ (fr : Frame) (a : St), R s a → invokeStep fr body callee a = (s', σ) →
      (∃ s0, R s s0 ∧ body s0 = (s', σ)) ∨
      (∃ fr s0 s1 s2 c, R s s0 ∧ body s0 = (s1, .call c) ∧ callee c s1 = (s2, σ) ∧ s' = resetCounters fr c s2 ∧
        R s s2 ∧ c.original.truthy = true) := by
    intro fr a ha h2
    rcases invokeStep_signal_origin _ _ _ _ _ _ h2 hσ with hb' | ⟨s1, s2, c, hb', hc', he, hco⟩
    · exact .inl ⟨a, ha, hb'⟩
    · refine .inr ⟨fr, a, s1, s2, c, ha, hb', hc', he, ?_, hco⟩
      have h1 : R a s1 := by have := hb a; rw [hb'] at this; exact this
      have h2' : R s1 s2 := by have := hc c s1; rw [hc'] at this; exact this
      exact G.trans ha (G.trans h1 h2')
  have key : ∀ (fr0 : Frame) (st : St), R s st →
      foreachOrConditional d fr0 (fun fr => runConditional d
        (match d.retry with
         | some rc => retryLoop rc { fr with retryC := some 0 } (fun fr => invokeStep fr body callee) fuel
         | none => invokeStep fr body callee)) st = (s', σ) →
      (∃ s0, R s s0 ∧ body s0 = (s', σ)) ∨
      (∃ fr s0 s1 s2 c, R s s0 ∧ body s0 = (s1, .call c) ∧ callee c s1 = (s2, σ) ∧ s' = resetCounters fr c s2 ∧
        R s s2 ∧ c.original.truthy = true) := by
    intro fr0 st hst hk
    obtain ⟨fr1, s1, hr1, h1⟩ := foreachOrConditional_signal_origin_rel L d fr0 _ hcond st s' σ hk hσ
    have h2 := runConditional_signal_origin d _ s1 s' σ h1 hσ
    have hs1 : R s s1 := G.trans hst hr1
    cases hr : d.retry with
    | none =>
      rw [hr] at h2
      exact hinvoke _ _ hs1 h2
    | some rc =>
      rw [hr] at h2
      obtain ⟨fr2, s2, hr2, h3⟩ := retryLoop_signal_origin_rel L rc _ _ fuel hinv s1 s' σ h2 hσ
      exact hinvoke _ _ (G.trans hs1 hr2) h3
  unfold runStepWith at h
  simp only [] at h
  have hin : R s (setIn d s) := rel_setIn G d s
  cases hw : d.while_ with
  | none =>
    rw [hw] at h
    simp only [] at h
    split at h
    · simp at h; rw [← h.2] at hσ; simp [Res.isSignal] at hσ
    · exact key _ _ hin h
  | some wc =>
    rw [hw] at h
    simp only [] at h
    split at h
    · simp at h; rw [← h.2] at hσ; simp [Res.isSignal] at hσ
    · have hloop : ∀ fr, Pres R (fun st => foreachOrConditional d fr (fun fr => runConditional d
          (match d.retry with
           | some rc => retryLoop rc { fr with retryC := some 0 } (fun fr => invokeStep fr body callee) fuel
           | none => invokeStep fr body callee)) st) := fun fr => foreachOrConditional_rel G d fr _ hcond
      obtain ⟨fr1, st1, hr1, h1⟩ := whileLoop_signal_origin_rel L wc _ _ fuel hloop _ s' σ h hσ
      exact key fr1 st1 (G.trans hin hr1) h1

/-! ## (2) result classes: what never leaves a step, a group, `run_step_groups`, a pipeline -/

theorem invokeStep_ne_call (fr : Frame) (body : Body) (callee : CofCfg → Body)
    (hc : ∀ c s c', (callee c s).2 ≠ .call c') (s : St) (c' : CofCfg) :
    (invokeStep fr body callee s).2 ≠ .call c' := by
  unfold invokeStep
  generalize body s = p
  obtain ⟨s1, r⟩ := p
  cases r with
  | call c =>
    simp only []
    have := hc c s1 c'
    generalize callee c s1 = q at this
    obtain ⟨s2, r2⟩ := q
    split
    · cases r2 <;> simp_all
    · cases r2 <;> simp [raiseNew]
  | _ => simp

/-- a result class that every decorator layer hands on: anything the inner layer cannot return and that
    is neither `ok` nor an error cannot come out of the layer either. -/
def Avoids (bad : Res → Prop) (b : Body) : Prop := ∀ s, ¬ bad (b s).2

/-- `bad` is a class of instructions: not `ok`, not an error, not the model's out-of-fuel. -/
structure InstrClass (bad : Res → Prop) : Prop where
  notOk : ¬ bad .ok
  notErr : ∀ e h, ¬ bad (.err e h)
  notFuel : ¬ bad .outOfFuel

variable {bad : Res → Prop}

theorem avoids_raiseNew (B : InstrClass bad) (s : St) (n m : String) : ¬ bad (raiseNew s n m).2 := B.notErr _ _
theorem avoids_raiseExc (B : InstrClass bad) (s : St) (e : Exc) : ¬ bad (raiseExc s e).2 := B.notErr _ _

theorem retryIter_avoids (B : InstrClass bad) (cfg : RetryCfg) (fr : Frame) (inner : Frame → Body) (max : Option Int)
    (hi : ∀ fr, Avoids bad (inner fr)) :
    ∀ (fuel k : Nat) (bo : BackoffState), Avoids bad (retryIter cfg fr inner max fuel k bo) := by
  intro fuel
  induction fuel with
  | zero => intro k bo s; unfold retryIter; exact B.notFuel
  | succ n ih =>
    intro k bo s
    unfold retryIter
    simp only []
    have hp := hi { fr with retryC := some k } { s with ctx := Ctx.set s.ctx "retryCounter" (.int k) }
    generalize inner { fr with retryC := some k } { s with ctx := Ctx.set s.ctx "retryCounter" (.int k) } = p at hp
    obtain ⟨s1, r⟩ := p
    cases r with
    | err e handled =>
      simp only []
      repeat' split
      all_goals first
        | exact B.notErr _ _
        | exact ih _ _ _
    | _ => exact hp

theorem retryFaulty_avoids (B : InstrClass bad) (cfg : RetryCfg) (fr : Frame) (inner : Frame → Body) (max : Option Int)
    (y : Bool) (hi : ∀ fr, Avoids bad (inner fr)) : Avoids bad (retryFaulty cfg fr inner max y) := by
  intro s
  unfold retryFaulty
  simp only []
  have hp := hi { fr with retryC := some 1 } { s with ctx := Ctx.set s.ctx "retryCounter" (.int 1) }
  generalize inner { fr with retryC := some 1 } { s with ctx := Ctx.set s.ctx "retryCounter" (.int 1) } = p at hp
  obtain ⟨s1, r⟩ := p
  cases r with
  | err e handled =>
    simp only []
    repeat' split
    all_goals exact B.notErr _ _
  | _ => exact hp

theorem retryLoop_avoids (B : InstrClass bad) (cfg : RetryCfg) (fr : Frame) (inner : Frame → Body) (fuel : Nat)
    (hi : ∀ fr, Avoids bad (inner fr)) : Avoids bad (retryLoop cfg fr inner fuel) := by
  intro s
  unfold retryLoop
  simp only []
  repeat' split
  all_goals first
    | exact B.notErr _ _
    | exact retryIter_avoids B cfg fr inner _ hi _ _ _ _
    | exact retryFaulty_avoids B cfg fr inner _ _ hi _
    | exact B.notOk

theorem saveError_avoids (B : InstrClass bad) (d : StepDef) (s : St) (e : ExcV) (sw : Bool) :
    ¬ bad (saveError d s e sw).2 := by
  unfold saveError
  simp only []
  split
  · exact B.notErr _ _
  · split
    · exact B.notOk
    · exact B.notOk
    · exact B.notErr _ _

theorem runConditional_avoids (B : InstrClass bad) (d : StepDef) (inner : Body) (hi : Avoids bad inner) :
    Avoids bad (runConditional d inner) := by
  intro s
  unfold runConditional
  split
  · exact B.notErr _ _
  · exact B.notOk
  · split
    · exact B.notErr _ _
    · exact B.notOk
    · simp only []
      have hp := hi s
      generalize inner s = p at hp
      obtain ⟨s1, r⟩ := p
      cases r with
      | err e handled =>
        simp only []
        split
        · exact B.notErr _ _
        · rename_i sw _
          have hq : ¬ bad (if handled = true then (logEscape d s1 e handled, Res.ok)
              else saveError d (logEscape d s1 e handled) e sw).2 := by
            split
            · exact B.notOk
            · exact saveError_avoids B d _ e sw
          generalize (if handled = true then (logEscape d s1 e handled, Res.ok)
            else saveError d (logEscape d s1 e handled) e sw) = q at hq
          obtain ⟨s2, r2⟩ := q
          cases r2 <;> simp only [] <;> first
            | (split <;> first | exact B.notOk | exact B.notErr _ _)
            | exact hq
      | _ => exact hp

theorem foreachItems_avoids (B : InstrClass bad) (fr : Frame) (inner : Frame → Body)
    (hi : ∀ fr, Avoids bad (inner fr)) : ∀ items : List Val, Avoids bad (foreachItems fr inner items) := by
  intro items
  induction items with
  | nil => intro s; exact B.notOk
  | cons x rest ih =>
    intro s
    unfold foreachItems
    simp only []
    have hp := hi { fr with forI := some x } { s with ctx := Ctx.set s.ctx "i" x }
    generalize inner { fr with forI := some x } { s with ctx := Ctx.set s.ctx "i" x } = p at hp
    obtain ⟨s1, r⟩ := p
    cases r with
    | ok => exact ih s1
    | _ => exact hp

theorem foreachOrConditional_avoids (B : InstrClass bad) (d : StepDef) (fr : Frame) (inner : Frame → Body)
    (hi : ∀ fr, Avoids bad (inner fr)) : Avoids bad (foreachOrConditional d fr inner) := by
  unfold foreachOrConditional
  split
  · split
    · intro s
      unfold foreachLoop
      repeat' split
      all_goals first
        | exact B.notErr _ _
        | exact foreachItems_avoids B fr inner hi _ _
    · exact hi fr
  · exact hi fr

theorem whileIter_avoids (B : InstrClass bad) (cfg : WhileCfg) (fr : Frame) (inner : Frame → Body) (max : Option Nat)
    (sleep : Num) (eom : Bool) (hi : ∀ fr, Avoids bad (inner fr)) :
    ∀ (fuel k : Nat), Avoids bad (whileIter cfg fr inner max sleep eom fuel k) := by
  intro fuel
  induction fuel with
  | zero => intro k s; unfold whileIter; exact B.notFuel
  | succ n ih =>
    intro k s
    unfold whileIter
    simp only []
    have hp := hi { fr with whileC := some k } { s with ctx := Ctx.set s.ctx "whileCounter" (.int k) }
    generalize inner { fr with whileC := some k } { s with ctx := Ctx.set s.ctx "whileCounter" (.int k) } = p at hp
    obtain ⟨s1, r⟩ := p
    cases r with
    | ok =>
      simp only []
      repeat' split
      all_goals first
        | exact B.notOk
        | exact B.notErr _ _
        | exact ih _ _
    | _ => exact hp

theorem whileLoop_avoids (B : InstrClass bad) (cfg : WhileCfg) (fr : Frame) (inner : Frame → Body) (fuel : Nat)
    (hi : ∀ fr, Avoids bad (inner fr)) : Avoids bad (whileLoop cfg fr inner fuel) := by
  intro s
  unfold whileLoop
  simp only []
  repeat' split
  all_goals first
    | exact B.notOk
    | exact B.notErr _ _
    | exact whileIter_avoids B cfg fr inner _ _ _ hi _ _ _

/-- the decorator stack hands on only what `invoke_step` can return (besides `ok` and errors). -/
theorem runStepWith_avoids (B : InstrClass bad) (d : StepDef) (body : Body) (callee : CofCfg → Body) (fuel : Nat)
    (hinv : ∀ fr, Avoids bad (invokeStep fr body callee)) : Avoids bad (runStepWith d body callee fuel) := by
  intro s
  have hret : ∀ fr, Avoids bad (C04.retriedLayer d body callee fuel fr) := by
    intro fr
    unfold C04.retriedLayer
    split
    · exact retryLoop_avoids B _ _ _ _ hinv
    · exact hinv fr
  have hcond : ∀ fr, Avoids bad (C04.conditionalLayer d body callee fuel fr) :=
    fun fr => runConditional_avoids B d _ (hret fr)
  have hloop : ∀ fr, Avoids bad (C04.foreachLayer d body callee fuel fr) :=
    fun fr => foreachOrConditional_avoids B d fr _ hcond
  have key : ¬ bad (C04.stepCore d body callee fuel (setIn d s)).2 := by
    unfold C04.stepCore
    cases d.while_ with
    | some wc => exact whileLoop_avoids B _ _ _ _ hloop _
    | none => exact hloop {} _
  rw [C04.runStepWith_eq]
  generalize C04.stepCore d body callee fuel (setIn d s) = x at key
  obtain ⟨s1, r⟩ := x
  cases r <;> first | exact B.notOk | exact key

theorem runStepDescribed_avoids (B : InstrClass bad) (d : StepDef) (body : Body) (callee : CofCfg → Body) (fuel : Nat)
    (hinv : ∀ fr, Avoids bad (invokeStep fr body callee)) : Avoids bad (runStepDescribed d body callee fuel) := by
  intro s
  unfold runStepDescribed
  split
  · exact B.notErr _ _
  · split
    · exact B.notErr _ _
    · exact runStepWith_avoids B d body callee fuel hinv s

/-- the class "some `Call`" -/
def IsCall (r : Res) : Prop := ∃ c, r = .call c
/-- the class "some `Jump`" -/
def IsJump (r : Res) : Prop := ∃ c, r = .jump c

theorem isCall_class : InstrClass IsCall where
  notOk := by rintro ⟨_, h⟩; cases h
  notErr := by rintro _ _ ⟨_, h⟩; cases h
  notFuel := by rintro ⟨_, h⟩; cases h

theorem isJump_class : InstrClass IsJump where
  notOk := by rintro ⟨_, h⟩; cases h
  notErr := by rintro _ _ ⟨_, h⟩; cases h
  notFuel := by rintro ⟨_, h⟩; cases h

/-- **No `Call` ever leaves a step**: `invoke_step` consumes the `Call` its module body raises, and if the
    called groups never hand a `Call` back, no decorator layer can produce one. -/
theorem runStepWith_ne_call (d : StepDef) (body : Body) (callee : CofCfg → Body) (fuel : Nat)
    (hc : ∀ c s c', (callee c s).2 ≠ .call c') (s : St) (c' : CofCfg) :
    (runStepWith d body callee fuel s).2 ≠ .call c' := by
  intro h
  exact runStepWith_avoids isCall_class d body callee fuel
    (fun fr s ⟨c, hc'⟩ => invokeStep_ne_call fr body callee hc s c hc') s ⟨c', h⟩

theorem runStepDescribed_ne_call (d : StepDef) (body : Body) (callee : CofCfg → Body) (fuel : Nat)
    (hc : ∀ c s c', (callee c s).2 ≠ .call c') (s : St) (c' : CofCfg) :
    (runStepDescribed d body callee fuel s).2 ≠ .call c' := by
  intro h
  exact runStepDescribed_avoids isCall_class d body callee fuel
    (fun fr s ⟨c, hc'⟩ => invokeStep_ne_call fr body callee hc s c hc') s ⟨c', h⟩

/-- neither a `Call` nor a `Jump` -/
def NoCJ (r : Res) : Prop := (∀ c, r ≠ .call c) ∧ (∀ c, r ≠ .jump c)

theorem noCJ_ok : NoCJ .ok := ⟨fun _ h => (by cases h), fun _ h => (by cases h)⟩
theorem noCJ_err (e : ExcV) (h : Bool) : NoCJ (.err e h) := ⟨fun _ h => (by cases h), fun _ h => (by cases h)⟩
theorem noCJ_fuel : NoCJ .outOfFuel := ⟨fun _ h => (by cases h), fun _ h => (by cases h)⟩
theorem noCJ_stop : NoCJ .stop := ⟨fun _ h => (by cases h), fun _ h => (by cases h)⟩
theorem noCJ_stopPipeline : NoCJ .stopPipeline := ⟨fun _ h => (by cases h), fun _ h => (by cases h)⟩
theorem noCJ_stopGroup : NoCJ .stopGroup := ⟨fun _ h => (by cases h), fun _ h => (by cases h)⟩
theorem noCJ_raiseNew (s : St) (n m : String) : NoCJ (raiseNew s n m).2 := noCJ_err _ _

theorem noCJ_errTail (b : Bool) (p : St × Res) (h : NoCJ p.2) :
    NoCJ (match p with
          | (s2, .err e hd) => if b then (s2, Res.err e hd) else (s2, Res.ok)
          | other => other).2 := by
  obtain ⟨s1, r⟩ := p
  cases r <;> first | exact h | (simp only []; split <;> first | exact noCJ_err _ _ | exact noCJ_ok)

/-- `_prepare_context` ends normally or with an error -/
theorem prepareContext_ok_or_err (pd : PipeDef) (pi : PipeInst) (s : St) :
    (prepareContext pd pi s).2 = .ok ∨ ∃ e, (prepareContext pd pi s).2 = .err e false := by
  unfold prepareContext
  repeat' split
  all_goals first
    | exact .inl rfl
    | exact .inr ⟨_, rfl⟩

/-- what each run-function can NOT return, at one fuel level -/
def AllNoCJ (n : Nat) (prog : Program) : Prop :=
  (∀ pipe d s c, (runStep n prog pipe d s).2 ≠ .call c) ∧
  (∀ pipe ds s c, (runSteps n prog pipe ds s).2 ≠ .call c) ∧
  (∀ pipe g rs s, NoCJ (runStepGroup n prog pipe g rs s).2) ∧
  (∀ pipe gs s, NoCJ (runGroupList n prog pipe gs s).2) ∧
  (∀ pipe g s, NoCJ (runFailureGroup n prog pipe g s).2) ∧
  (∀ pipe gs su fa s, NoCJ (runGroups n prog pipe gs su fa s).2) ∧
  (∀ pi s, NoCJ (runPipeline n prog pi s).2) ∧
  (∀ s, NoCJ (pypeBody n prog s).2)

theorem allNoCJ_zero (prog : Program) : AllNoCJ 0 prog := by
  refine ⟨?_, ?_, ?_, ?_, ?_, ?_, ?_, ?_⟩
  · intro pipe d s c; unfold runStep; simp
  · intro pipe ds s c; unfold runSteps; simp
  · intro pipe g rs s; unfold runStepGroup; exact noCJ_fuel
  · intro pipe gs s; unfold runGroupList; exact noCJ_fuel
  · intro pipe g s; unfold runFailureGroup; exact noCJ_fuel
  · intro pipe gs su fa s; unfold runGroups; exact noCJ_fuel
  · intro pi s; unfold runPipeline; exact noCJ_fuel
  · intro s; unfold pypeBody; exact noCJ_fuel

theorem allNoCJ_succ (prog : Program) (n : Nat) (ih : AllNoCJ n prog) : AllNoCJ (n + 1) prog := by
  obtain ⟨hStep, hSteps, hGroup, hList, hFail, hGroups, hPipe, hPype⟩ := ih
  refine ⟨?_, ?_, ?_, ?_, ?_, ?_, ?_, ?_⟩
  · -- runStep: `invoke_step` consumes the Call
    intro pipe d s c
    unfold runStep
    simp only []
    split
    · simp [raiseNew]
    · exact runStepDescribed_ne_call d _ _ n (fun c s' c' => (hGroups _ _ _ _ s').1 c') s c
  · -- runSteps
    intro pipe ds s c
    cases ds with
    | nil => unfold runSteps; simp
    | cons d rest =>
      rw [runSteps_cons]
      have h1 := hStep pipe d s
      generalize runStep n prog pipe d s = p at h1
      obtain ⟨s1, r⟩ := p
      cases r <;> first | exact hSteps pipe rest s1 c | (simp only []; first | exact h1 c | simp)
  · -- runStepGroup: the Jump is consumed here
    intro pipe g rs s
    rw [runStepGroup_eq]
    split
    · exact noCJ_raiseNew _ _ _
    · split
      · exact noCJ_raiseNew _ _ _
      · have h1 := hSteps pipe (groupSteps prog pipe g) s
        generalize runSteps n prog pipe (groupSteps prog pipe g) s = p at h1
        obtain ⟨s1, r⟩ := p
        cases r with
        | jump c => exact hGroups _ _ _ _ s1
        | stopGroup => simp only []; split <;> first | exact noCJ_stopGroup | exact noCJ_ok
        | call c => exact absurd rfl (h1 c)
        | ok => exact noCJ_ok
        | err e h => exact noCJ_err e h
        | stop => exact noCJ_stop
        | stopPipeline => exact noCJ_stopPipeline
        | outOfFuel => exact noCJ_fuel
  · -- runGroupList
    intro pipe gs s
    cases gs with
    | nil => unfold runGroupList; exact noCJ_ok
    | cons g rest =>
      rw [runGroupList_cons]
      have h1 := hGroup pipe g false s
      generalize runStepGroup n prog pipe g false s = p at h1
      obtain ⟨s1, r⟩ := p
      cases r <;> first | exact hList pipe rest s1 | exact h1
  · -- runFailureGroup
    intro pipe g s
    rcases runFailureGroup_result (n + 1) prog pipe g s with h | h | h | h | h <;> rw [h]
    · exact noCJ_ok
    · exact noCJ_stop
    · exact noCJ_stopPipeline
    · exact noCJ_stopGroup
    · exact noCJ_fuel
  · -- runGroups
    intro pipe gs su fa s
    cases gs with
    | nil => unfold runGroups; exact noCJ_raiseNew _ _ _
    | cons g rest =>
      rw [runGroups_eq]
      have hmain : NoCJ (mainPhase n prog pipe (g :: rest) su s).2 := by
        unfold mainPhase
        have h1 := hList pipe (g :: rest) s
        generalize runGroupList n prog pipe (g :: rest) s = p at h1
        obtain ⟨s1, r⟩ := p
        cases r with
        | ok =>
          simp only []
          split
          · split
            · exact noCJ_ok
            · exact hGroup pipe _ false s1
          · exact noCJ_ok
        | _ => exact h1
      generalize mainPhase n prog pipe (g :: rest) su s = p at hmain
      obtain ⟨s1, r⟩ := p
      cases r with
      | err e h =>
        simp only []
        split
        · have h2 := hFail pipe fa s1
          generalize runFailureGroup n prog pipe fa s1 = q at h2
          obtain ⟨s2, r2⟩ := q
          cases r2 <;> first | exact noCJ_ok | exact noCJ_err _ _ | exact h2
        · exact noCJ_err _ _
      | _ => exact hmain
  · -- runPipeline
    intro pi s
    cases hp : prog.find? pi.name with
    | none => rw [runPipeline_notFound n prog pi s hp]; exact noCJ_raiseNew _ _ _
    | some pd =>
      have hprep := prepareContext_ok_or_err pd pi { s with stack := pi.name :: s.stack }
      by_cases hgb : pi.groupsBad = true
      · rw [runPipeline_groupsBad n prog pi pd s hp hgb]
        simp only []
        generalize prepareContext pd pi { s with stack := pi.name :: s.stack } = p at hprep
        obtain ⟨s1, r⟩ := p
        cases r with
        | err e h =>
          simp only []
          have h2 := hFail pi.name pi.failure s1
          generalize runFailureGroup n prog pi.name pi.failure s1 = q at h2
          obtain ⟨s2, r2⟩ := q
          cases r2 <;> first | exact noCJ_ok | exact noCJ_err _ _ | exact h2
        | ok =>
          simp only []
          by_cases hf0 : hasFailureGroup pi.failure = true
          · simp only [hf0, if_true]
            have h2 := hFail pi.name pi.failure (raiseNew s1 "TypeError" "~object is not iterable").1
            generalize runFailureGroup n prog pi.name pi.failure _ = q at h2
            obtain ⟨s2, r2⟩ := q
            cases r2 <;> first | exact noCJ_ok | exact noCJ_err _ _ | exact h2
          · simp only [hf0]; exact noCJ_err _ _
        | _ => simp at hprep
      · have hgb : pi.groupsBad = false := by simpa using hgb
        rw [runPipeline_eq n prog pi pd s hp hgb]
        simp only []
        generalize prepareContext pd pi { s with stack := pi.name :: s.stack } = p at hprep
        obtain ⟨s1, r⟩ := p
        cases r with
        | err e h =>
          simp only []
          have h2 := hFail pi.name (effectiveGroups pi).2.2 s1
          generalize runFailureGroup n prog pi.name (effectiveGroups pi).2.2 s1 = q at h2
          obtain ⟨s2, r2⟩ := q
          cases r2 <;> first | exact noCJ_ok | exact noCJ_err _ _ | exact h2
        | ok =>
          simp only []
          have h2 := hGroups pi.name (effectiveGroups pi).1 (effectiveGroups pi).2.1 (effectiveGroups pi).2.2 s1
          generalize runGroups n prog pi.name (effectiveGroups pi).1 (effectiveGroups pi).2.1
            (effectiveGroups pi).2.2 s1 = q at h2
          obtain ⟨s2, r2⟩ := q
          cases r2 <;> first | exact noCJ_ok | exact h2
        | _ => simp at hprep
  · -- pypeBody
    intro s
    unfold pypeBody
    simp only []
    cases getPypeArgs s with
    | error e => exact noCJ_raiseNew _ _ _
    | ok a =>
      simp only []
      apply noCJ_errTail
      by_cases hu : a.useParent = true
      · simp only [hu, if_true]
        exact hPipe _ _
      · have hu' : a.useParent = false := by simpa using hu
        simp only [hu', Bool.false_eq_true, if_false]
        have h2 := hPipe { name := a.name, groups := a.groups, success := a.success, failure := a.failure,
                           parseInput := !a.skipParse, contextArgs := a.pipeArg, groupsBad := a.groupsBad }
          { s with ctx := a.args.getD [], stack := [] }
        generalize runPipeline n prog _ _ = q at h2
        obtain ⟨c1, r1⟩ := q
        cases r1 with
        | ok =>
          simp only []
          cases a.out with
          | none => exact noCJ_ok
          | some o =>
            simp only []
            rcases C11.writeOut_result o { c1 with ctx := s.ctx, stack := s.stack } c1 with hw | ⟨e, hw⟩ <;> rw [hw]
            · exact noCJ_ok
            · exact noCJ_err _ _
        | _ => exact h2

theorem allNoCJ (prog : Program) : ∀ n, AllNoCJ n prog := by
  intro n
  induction n with
  | zero => exact allNoCJ_zero prog
  | succ n ih => exact allNoCJ_succ prog n ih

end Pypyr.Flow
