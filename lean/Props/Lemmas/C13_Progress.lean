/- Progress / deadlock freedom of the one-lock cache transition system (`CacheTS.step`).

   Everything in `C13_Inv.lean` is SAFETY. Here: a termination measure (`work`: micro-steps the
   programs still have to make, at most 8 per operation), "an enabled move strictly decreases it",
   "a state in which nobody can move is the all-done state with the lock free" (this is where the
   release step of `toRelease` is needed: see `stuck_needs_coherence` in `Props/C13.lean`), and the
   bounded schedulers (`finish`, any `drain` with a pick function that never idles while somebody
   can move) therefore end in the quiescent state. -/
import Props.Lemmas.C13_Inv

namespace Pypyr.CacheTS

/-- micro-steps the operation in progress still has to make (upper bound) -/
def Pc.weight : Pc → Nat
  | .idle => 0
  | .wantLock _ => 7
  | .locked _ => 6
  | .inCreator _ _ => 5
  | .exiting _ _ => 4
  | .created _ _ => 3
  | .toRelease _ => 2
  | .released _ => 1
  | .bpCreator _ _ => 3
  | .bpExiting _ _ => 2
  | .bpDone _ => 1

/-- micro-steps a thread still has to make: at most 8 per operation not yet started -/
def Thread.work (th : Thread) : Nat := th.pc.weight + 8 * th.ops.length

/-- micro-steps threads `0..n-1` still have to make -/
def work (st : State) : Nat → Nat
  | 0 => 0
  | n + 1 => work st n + (st.threads n).work

/-- every thread is idle with nothing left to do and the lock is free -/
def Quiescent (st : State) : Prop :=
  st.lock = none ∧ ∀ t, (st.threads t).pc = .idle ∧ (st.threads t).ops = []

/-- threads `n, n+1, …` do not exist: idle, empty program -/
def Outside (n : Nat) (st : State) : Prop := ∀ t, n ≤ t → (st.threads t).pc = .idle ∧ (st.threads t).ops = []

/-! #### one micro-step -/

theorem step_other (cfg : Cfg) (st : State) (t u : Tid) (h : u ≠ t) :
    (step cfg st t).threads u = st.threads u := by
  cases hpc : (st.threads t).pc <;> simp only [step, hpc]
  all_goals (try split)
  all_goals (try split)
  all_goals (try split)
  all_goals (simp [h])

/-- a thread that is not enabled does not move -/
theorem step_disabled (cfg : Cfg) (st : State) (t : Tid) (h : enabled st t = false) : step cfg st t = st := by
  cases hpc : (st.threads t).pc <;> simp only [enabled, hpc] at h <;> simp only [step, hpc]
  all_goals (try (cases h; done))
  · cases hops : (st.threads t).ops <;> simp_all
  · cases hl : st.lock <;> simp_all

/-- an enabled thread's micro-step strictly decreases its remaining work -/
theorem step_work_lt (cfg : Cfg) (st : State) (t : Tid) (h : enabled st t = true) :
    ((step cfg st t).threads t).work < (st.threads t).work := by
  cases hpc : (st.threads t).pc <;> simp only [enabled, hpc] at h <;> simp only [step, hpc]
  all_goals (try split)
  all_goals (try split)
  all_goals (try split)
  all_goals (simp_all [Thread.work, Pc.weight])
  all_goals (try omega)

theorem step_work_le (cfg : Cfg) (st : State) (t u : Tid) :
    ((step cfg st t).threads u).work ≤ (st.threads u).work := by
  by_cases hut : u = t
  · subst hut
    cases he : enabled st u
    · rw [step_disabled cfg st u he]; exact Nat.le_refl _
    · exact Nat.le_of_lt (step_work_lt cfg st u he)
  · rw [step_other cfg st t u hut]; exact Nat.le_refl _

theorem work_step_le (cfg : Cfg) (st : State) (t : Tid) : ∀ n, work (step cfg st t) n ≤ work st n := by
  intro n
  induction n with
  | zero => exact Nat.le_refl _
  | succ n ih => simp only [work]; exact Nat.add_le_add ih (step_work_le cfg st t n)

theorem work_step_lt (cfg : Cfg) (st : State) (t : Tid) (h : enabled st t = true) :
    ∀ n, t < n → work (step cfg st t) n < work st n := by
  intro n
  induction n with
  | zero => intro h; cases h
  | succ n ih =>
    intro htn
    simp only [work]
    by_cases hlt : t < n
    · exact Nat.add_lt_add_of_lt_of_le (ih hlt) (step_work_le cfg st t n)
    · have : t = n := Nat.eq_of_lt_succ_of_not_lt htn hlt
      subst this
      exact Nat.add_lt_add_of_le_of_lt (work_step_le cfg st t t) (step_work_lt cfg st t h)

theorem work_run_le (cfg : Cfg) (n : Nat) : ∀ (sched : List Tid) st, work (run cfg st sched) n ≤ work st n := by
  intro sched
  induction sched with
  | nil => intro st; exact Nat.le_refl _
  | cons t ts ih => intro st; exact Nat.le_trans (ih _) (work_step_le cfg st t n)

theorem outside_step (cfg : Cfg) (n : Nat) (st : State) (t : Tid) (h : Outside n st) : Outside n (step cfg st t) := by
  intro u hu
  by_cases hut : u = t
  · subst hut
    have he : enabled st u = false := by simp [enabled, (h u hu).1, (h u hu).2]
    rw [step_disabled cfg st u he]; exact h u hu
  · rw [step_other cfg st t u hut]; exact h u hu

theorem outside_run (cfg : Cfg) (n : Nat) : ∀ (sched : List Tid) st, Outside n st → Outside n (run cfg st sched) := by
  intro sched
  induction sched with
  | nil => intro st h; exact h
  | cons t ts ih => intro st h; exact ih _ (outside_step cfg n st t h)

/-! #### deadlock freedom: stuck ⇒ done -/

theorem inCS_enabled (st : State) (t : Tid) (h : (st.threads t).pc.inCS = true) : enabled st t = true := by
  cases hpc : (st.threads t).pc <;> simp_all [Pc.inCS, enabled]

/-- `stuck_is_done`: in a lock-coherent state (every reachable state is one) in which none of the
    threads can move, every thread has finished its program and the lock is free. There is no
    deadlock and no lost lock. -/
theorem stuck_is_done (n : Nat) (st : State) (hm : Mutex st) (ho : Outside n st)
    (hstuck : ∀ t, t < n → enabled st t = false) : Quiescent st := by
  have hlock : st.lock = none := by
    cases hl : st.lock with
    | none => rfl
    | some u =>
      have hcs := (hm u).2 hl
      have hen := inCS_enabled st u hcs
      by_cases hu : u < n
      · rw [hstuck u hu] at hen; cases hen
      · have := (ho u (Nat.le_of_not_lt hu)).1
        rw [this] at hcs; cases hcs
  refine ⟨hlock, fun t => ?_⟩
  by_cases ht : t < n
  · have hd := hstuck t ht
    cases hpc : (st.threads t).pc <;> simp only [enabled, hpc] at hd
    all_goals (try (cases hd; done))
    · exact ⟨rfl, by cases hops : (st.threads t).ops <;> simp_all⟩
    · simp [hlock] at hd
  · exact ho t (Nat.le_of_not_lt ht)

/-! #### bounded schedulers -/

/-- a move of the scheduler: thread `t` makes at least one micro-step, possibly more of its own -/
def IsMove (cfg : Cfg) (mv : State → Tid → State) : Prop :=
  ∀ st t, ∃ s, mv st t = run cfg st (t :: s)

theorem step_isMove (cfg : Cfg) : IsMove cfg (step cfg) := fun _ _ => ⟨[], rfl⟩

theorem turn_isMove (cfg : Cfg) : IsMove cfg (turn cfg) := by
  intro st t
  obtain ⟨s, hs⟩ := settle_is_run cfg t 3 (step cfg st t)
  exact ⟨s, hs⟩

/-- any scheduler: `pick` names the thread that moves next; stop when it names none; at most
    `fuel` moves -/
def drain (mv : State → Tid → State) (pick : State → Option Tid) : Nat → State → State
  | 0, st => st
  | fuel + 1, st =>
    match pick st with
    | none => st
    | some t => drain mv pick fuel (mv st t)

/-- the scheduler never idles while one of threads `0..n-1` can move, and only picks such threads -/
def NeverIdles (n : Nat) (pick : State → Option Tid) : Prop :=
  ∀ st, (pick st = none → ∀ t, t < n → enabled st t = false) ∧
        (∀ t, pick st = some t → t < n ∧ enabled st t = true)

theorem lowestEnabled_neverIdles (n : Nat) : NeverIdles n (fun st => (List.range n).find? (enabled st)) := by
  intro st
  refine ⟨fun h t ht => ?_, fun t h => ?_⟩
  · have := List.find?_eq_none.mp h t (List.mem_range.mpr ht)
    simpa using this
  · exact ⟨List.mem_range.mp (List.mem_of_find?_eq_some h), List.find?_some h⟩

theorem finish_eq_drain (cfg : Cfg) (n : Nat) : ∀ fuel st,
    finish cfg n fuel st = drain (turn cfg) (fun st => (List.range n).find? (enabled st)) fuel st := by
  intro fuel
  induction fuel with
  | zero => intro st; rfl
  | succ fuel ih =>
    intro st
    simp only [finish, drain]
    cases h : (List.range n).find? (enabled st) with
    | none => rfl
    | some t => exact ih _

/-- `drain_quiescent`: from a lock-coherent state, ANY scheduler that never idles while somebody
    can move reaches, within `work st n` moves, the state where every thread has finished and the
    lock is free. -/
theorem drain_quiescent (cfg : Cfg) (n : Nat) (mv : State → Tid → State) (hmv : IsMove cfg mv)
    (pick : State → Option Tid) (hp : NeverIdles n pick) :
    ∀ fuel st, Inv cfg st → Outside n st → work st n ≤ fuel → Quiescent (drain mv pick fuel st) := by
  intro fuel
  induction fuel with
  | zero =>
    intro st hi ho hw
    -- no work left: nobody is enabled
    apply stuck_is_done n st hi.mutex ho
    intro t ht
    cases he : enabled st t with
    | false => rfl
    | true =>
      have := work_step_lt cfg st t he n ht
      omega
  | succ fuel ih =>
    intro st hi ho hw
    simp only [drain]
    cases hpk : pick st with
    | none => exact stuck_is_done n st hi.mutex ho ((hp st).1 hpk)
    | some t =>
      obtain ⟨htn, hen⟩ := (hp st).2 t hpk
      obtain ⟨s, hs⟩ := hmv st t
      simp only []
      rw [hs]
      apply ih
      · exact inv_run cfg (t :: s) st hi
      · exact outside_run cfg n (t :: s) st ho
      · have h1 : work (run cfg st (t :: s)) n ≤ work (step cfg st t) n := work_run_le cfg n s _
        have h2 := work_step_lt cfg st t hen n htn
        omega

/-- whatever a scheduler does is a micro-step schedule -/
theorem drain_is_run (cfg : Cfg) (mv : State → Tid → State) (hmv : IsMove cfg mv) (pick : State → Option Tid) :
    ∀ fuel st, ∃ s, drain mv pick fuel st = run cfg st s := by
  intro fuel
  induction fuel with
  | zero => intro st; exact ⟨[], rfl⟩
  | succ fuel ih =>
    intro st
    simp only [drain]
    cases pick st with
    | none => exact ⟨[], rfl⟩
    | some t =>
      obtain ⟨s1, h1⟩ := hmv st t
      obtain ⟨s2, h2⟩ := ih (mv st t)
      refine ⟨(t :: s1) ++ s2, ?_⟩
      simp only []
      rw [h2, h1, run_append]

/-! #### the initial amount of work -/

def totalOps (prog : Tid → List Op) : Nat → Nat
  | 0 => 0
  | n + 1 => totalOps prog n + (prog n).length

theorem work_init (cfg : Cfg) (prog : Tid → List Op) : ∀ n, work (init cfg prog) n = 8 * totalOps prog n := by
  intro n
  induction n with
  | zero => rfl
  | succ n ih => simp only [work, totalOps, ih]; simp [init, Thread.work, Pc.weight]; omega

theorem outside_init (cfg : Cfg) (prog : Tid → List Op) (n : Nat) (h : ∀ t, n ≤ t → prog t = []) :
    Outside n (init cfg prog) := fun t ht => ⟨rfl, h t ht⟩

/-! #### every operation returns: kinds of the results -/

/-- the kind (`get` or `clear`) of the operation in progress -/
def Pc.pendingKind : Pc → List Bool
  | .idle => []
  | .wantLock op | .locked op => [op.isGet]
  | .inCreator _ _ | .exiting _ _ | .created _ _ | .bpCreator _ _ | .bpExiting _ _ => [true]
  | .toRelease r | .released r | .bpDone r => [r.ofGet]

/-- results so far, the operation in progress, the operations to come — together they are the
    program, kind by kind: a `get` yields a value or the creator's exception, a `clear` yields
    `cleared`, nothing is skipped or answered twice -/
def Kinds (prog : Tid → List Op) (st : State) : Prop :=
  ∀ t, (st.threads t).results.reverse.map Res.ofGet ++ (st.threads t).pc.pendingKind ++
        (st.threads t).ops.map Op.isGet = (prog t).map Op.isGet

theorem kinds_init (cfg : Cfg) (prog : Tid → List Op) : Kinds prog (init cfg prog) := by
  intro t; simp [init, Pc.pendingKind]

theorem kinds_step (cfg : Cfg) (prog : Tid → List Op) (st : State) (t : Tid) (h : Kinds prog st) :
    Kinds prog (step cfg st t) := by
  intro u
  have hu := h u
  have ht := h t
  cases hpc : (st.threads t).pc <;> simp only [step, hpc]
  all_goals (try split)
  all_goals (try split)
  all_goals (try split)
  all_goals (by_cases hut : u = t <;> simp_all [Pc.pendingKind, Op.isGet, Res.ofGet])

theorem kinds_run (cfg : Cfg) (prog : Tid → List Op) : ∀ (sched : List Tid) st, Kinds prog st →
    Kinds prog (run cfg st sched) := by
  intro sched
  induction sched with
  | nil => intro st h; exact h
  | cons t ts ih => intro st h; exact ih _ (kinds_step cfg prog st t h)

end Pypyr.CacheTS
