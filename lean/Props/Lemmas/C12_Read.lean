/-
  C12 helper lemmas, part 4: the object-level READING of steps (`RunHeap.Instr`, `opsOf`) and
  schedules at step granularity (`stepK`, `execK`).

  * `opsOf_fixed`: whatever the context holds, the reading of every step kind is a list of operations
    of the fixed language (copies, in-place writes through paths of the run's own context).
  * `opsOf_twin`: the reading depends on the heap through `kindAt` only, and twins have the same kinds
    at the same paths – two runs in twin states READ THE SAME OPERATIONS from the same step.
  * `stepK_*`, `execK_*`: the step-granular analogues of `step_sep`, `step_twin`, `exec_proj_twin`.
-/
import Props.Lemmas.C12_Twin

namespace Pypyr.C12
open Pypyr.RunHeap

deriving instance DecidableEq for PyForm
deriving instance DecidableEq for Instr

/-! ### every reading is in the fixed language -/

theorem mop_fixed (m : MOp) : m.toOp.fixed = true := by
  cases m with
  | set path k v => cases path <;> rfl
  | extend path vs => rfl

theorem pyForm_fixed (f : PyForm) : ∀ o ∈ f.ops, o.fixed = true := by
  intro o ho
  cases f with
  | append path w => cases path <;> simp [PyForm.ops] at ho <;> subst ho <;> rfl
  | extend path ws => simp [PyForm.ops] at ho; subst ho; rfl
  | setItem path k w => cases path <;> simp [PyForm.ops] at ho <;> subst ho <;> rfl
  | add path a => simp [PyForm.ops] at ho; subst ho; rfl
  | alias src dst => simp [PyForm.ops] at ho; subst ho; rfl
  | raise => simp [PyForm.ops] at ho

theorem bindAll_fixed (pairs : List (String × Val)) : ∀ o ∈ bindAll pairs, o.fixed = true := by
  intro o ho
  obtain ⟨kv, _, rfl⟩ := List.mem_map.1 ho
  rfl

theorem opsOfK_fixed (rd : Path → Option Kind) {i : Instr} {ops : List Op} (h : opsOfK rd i = some ops) :
    ∀ o ∈ ops, o.fixed = true := by
  intro o ho
  cases i with
  | ctxStart v => simp only [opsOfK, Option.some.injEq] at h; subst h; simp at ho; subst ho; rfl
  | shortcutArgs src dictIn =>
    simp only [opsOfK, Option.some.injEq] at h; subst h
    rcases List.mem_cons.1 ho with rfl | ho
    · rfl
    rcases List.mem_cons.1 ho with rfl | ho
    · rfl
    · exact bindAll_fixed _ o ho
  | parserList args => simp only [opsOfK, Option.some.injEq] at h; subst h; simp at ho; subst ho; rfl
  | enter ins =>
    simp only [opsOfK, Option.some.injEq] at h; subst h
    obtain ⟨kv, _, rfl⟩ := List.mem_map.1 ho; rfl
  | leave keys =>
    simp only [opsOfK, Option.some.injEq] at h; subst h
    obtain ⟨k, _, rfl⟩ := List.mem_map.1 ho; rfl
  | foreachItem src => simp only [opsOfK, Option.some.injEq] at h; subst h; simp at ho; subst ho; rfl
  | counter name n => simp only [opsOfK, Option.some.injEq] at h; subst h; simp at ho; subst ho; rfl
  | append K W unpack =>
    simp only [opsOfK] at h
    split at h
    · simp only [Option.some.injEq] at h; subst h
      simp only [List.mem_singleton] at ho; subst ho
      (repeat' split) <;> rfl
    · simp only [Option.some.injEq] at h; subst h
      simp only [List.mem_singleton] at ho; subst ho
      (repeat' split) <;> rfl
    · cases h
  | add K a =>
    simp only [opsOfK, Option.some.injEq] at h; subst h
    simp only [List.mem_singleton] at ho; subst ho
    (repeat' split) <;> rfl
  | set pairs =>
    simp only [opsOfK, Option.some.injEq] at h; subst h
    rcases List.mem_cons.1 ho with rfl | ho
    · rfl
    · exact bindAll_fixed _ o ho
  | setf pairs => simp only [opsOfK, Option.some.injEq] at h; subst h; exact bindAll_fixed _ o ho
  | setff dst src =>
    simp only [opsOfK, Option.some.injEq] at h; subst h
    simp only [List.mem_cons, List.not_mem_nil, or_false] at ho
    rcases ho with rfl | rfl <;> rfl
  | contextcopy dst src => simp only [opsOfK, Option.some.injEq] at h; subst h; simp at ho; subst ho; rfl
  | default v =>
    cases v with
    | dict kvs =>
      simp only [opsOfK, Option.some.injEq] at h; subst h
      obtain ⟨m, _, rfl⟩ := List.mem_map.1 ho
      exact mop_fixed m
    | _ => cases h
  | merge v =>
    cases v with
    | dict kvs =>
      simp only [opsOfK, Option.map_eq_some_iff] at h
      obtain ⟨ms, _, rfl⟩ := h
      obtain ⟨m, _, rfl⟩ := List.mem_map.1 ho
      exact mop_fixed m
    | _ => cases h
  | py forms =>
    simp only [opsOfK, Option.some.injEq] at h; subst h
    obtain ⟨f, _, hf⟩ := List.mem_flatMap.1 ho
    exact pyForm_fixed f o hf
  | configvars => simp only [opsOfK, Option.some.injEq] at h; subst h; simp at ho; subst ho; rfl
  | saveError failure onError =>
    simp only [opsOfK, Option.some.injEq] at h; subst h
    rcases List.mem_append.1 ho with ho | ho
    · split at ho
      · simp at ho
      · simp at ho
      · simp at ho; subst ho; rfl
    · simp only [List.mem_cons, List.not_mem_nil, or_false] at ho
      rcases ho with rfl | rfl
      · rfl
      · cases onError <;> rfl
  | raise => simp only [opsOfK, Option.some.injEq] at h; subst h; simp at ho; subst ho; rfl

theorem opsOf_fixed {h : Heap} {r : Nat} {i : Instr} {ops : List Op} (he : opsOf h r i = some ops) :
    ∀ o ∈ ops, o.fixed = true := opsOfK_fixed _ he

/-! ### twins read the same operations -/

theorem kind_renCell (r1 r2 : Nat) (c : Cell) : (renCell r1 r2 c).kind = c.kind := by
  cases c <;> simp [renCell, CellOf.mapRefs, Cell.kind]

theorem kindAt_twin {r1 r2 : Nat} {h h' : Heap} (hS : Sep h) (hT : HTwin r1 r2 h h') (p : Path) :
    kindAt h' r2 p = kindAt h r1 p := by
  unfold kindAt
  rw [twin_resolve_root hS hT]
  cases hx : resolve h (root r1) p with
  | none => rfl
  | some x =>
    simp only [Option.map_some]
    rw [twin_get hT (resolve_reg hS hx)]
    cases h.get? x with
    | none => rfl
    | some c => simp [kind_renCell]

/-- `opsOf_twin`: equal reads under `Twin` – the operations are literally the same list. -/
theorem opsOf_twin {r1 r2 : Nat} {h h' : Heap} (hS : Sep h) (hT : HTwin r1 r2 h h') (i : Instr) :
    opsOf h' r2 i = opsOf h r1 i := by
  unfold opsOf
  have : kindAt h' r2 = kindAt h r1 := funext (kindAt_twin hS hT)
  rw [this]

/-! ### step granularity -/

theorem exec_solo_other {r : Nat} {ops : List Op} (hf : ∀ o ∈ ops, o.fixed = true) {st : State}
    (hS : Sep st.heap) :
    (∀ g, g ≠ .run r → (exec (solo r ops) st).heap.arena g = st.heap.arena g) ∧
    (∀ r', r' ≠ r → (exec (solo r ops) st).dead r' = st.dead r') := by
  induction ops generalizing st with
  | nil => exact ⟨fun _ _ => rfl, fun _ _ => rfl⟩
  | cons o rest ih =>
    have ho := hf o List.mem_cons_self
    obtain ⟨hA, hD⟩ := ih (fun o' ho' => hf o' (List.mem_cons_of_mem _ ho')) (step_sep hS r ho)
    refine ⟨?_, ?_⟩
    · intro g hg; show (exec (solo r rest) (step st r o)).heap.arena g = _
      rw [hA g hg, step_arena_other hS r ho hg]
    · intro r' hr'; show (exec (solo r rest) (step st r o)).dead r' = _
      rw [hD r' hr', step_dead_other st o hr']

theorem stepK_sep {st : State} (hS : Sep st.heap) (r : Nat) (i : Instr) : Sep (stepK st r i).heap := by
  unfold stepK
  cases he : opsOf st.heap r i with
  | none => exact hS
  | some ops => exact exec_sep (schedFixed_solo (opsOf_fixed he)) hS

theorem stepK_other {st : State} (hS : Sep st.heap) (r : Nat) (i : Instr) :
    (∀ g, g ≠ .run r → (stepK st r i).heap.arena g = st.heap.arena g) ∧
    (∀ r', r' ≠ r → (stepK st r i).dead r' = st.dead r') := by
  unfold stepK
  cases he : opsOf st.heap r i with
  | none => exact ⟨fun _ _ => rfl, fun _ _ => rfl⟩
  | some ops => exact exec_solo_other (opsOf_fixed he) hS

/-- One step keeps two runs twins: they read the same operations and perform them alike. -/
theorem stepK_twin {r1 r2 : Nat} {st st' : State} (hS : Sep st.heap) (hT : Twin r1 r2 st st') (i : Instr) :
    Twin r1 r2 (stepK st r1 i) (stepK st' r2 i) := by
  unfold stepK
  rw [opsOf_twin hS hT.heap i]
  cases he : opsOf st.heap r1 i with
  | none => exact hT
  | some ops => exact exec_solo_twin (opsOf_fixed he) hS hT

theorem twin_stepK_other {r r' : Nat} {st st' : State} (hS : Sep st.heap) (hT : Twin r r st st') (i : Instr)
    (hr : r' ≠ r) : Twin r r (stepK st r' i) st' := by
  obtain ⟨hA, hD⟩ := stepK_other hS r' i
  refine ⟨⟨?_, ?_⟩, ?_⟩
  · intro g hg; rw [hA g (shared_ne_run hg r')]; exact hT.heap.shared g hg
  · have hne : Region.run r ≠ Region.run r' := by intro e; cases e; exact hr rfl
    rw [hA _ hne]; exact hT.heap.own
  · rw [hD r (Ne.symm hr)]; exact hT.dead

theorem execK_sep (s : KSched) {st : State} (hS : Sep st.heap) : Sep (execK s st).heap := by
  induction s generalizing st with
  | nil => exact hS
  | cons e rest ih => exact ih (stepK_sep hS e.1 e.2)

theorem execK_arena_shared (s : KSched) {st : State} (hS : Sep st.heap) {g : Region} (hg : g.isShared = true) :
    (execK s st).heap.arena g = st.heap.arena g := by
  induction s generalizing st with
  | nil => rfl
  | cons e rest ih =>
    simp only [execK]
    rw [ih (stepK_sep hS e.1 e.2), (stepK_other hS e.1 e.2).1 g (shared_ne_run hg e.1)]

theorem execK_soloK_twin {r1 r2 : Nat} (is : List Instr) {st st' : State} (hS : Sep st.heap)
    (hT : Twin r1 r2 st st') : Twin r1 r2 (execK (soloK r1 is) st) (execK (soloK r2 is) st') := by
  induction is generalizing st st' with
  | nil => exact hT
  | cons i rest ih => exact ih (stepK_sep hS r1 i) (stepK_twin hS hT i)

theorem execK_proj_twin {r : Nat} (s : KSched) {st st' : State} (hS : Sep st.heap) (hT : Twin r r st st') :
    Twin r r (execK s st) (execK (projK r s) st') := by
  induction s generalizing st st' with
  | nil => exact hT
  | cons e rest ih =>
    obtain ⟨r', i⟩ := e
    have hS1 := stepK_sep hS r' i
    by_cases hr : r' = r
    · subst hr
      have : projK r' ((r', i) :: rest) = (r', i) :: projK r' rest := by simp [projK]
      rw [this]
      exact ih hS1 (stepK_twin hS hT i)
    · have : projK r ((r', i) :: rest) = projK r rest := by simp [projK, hr]
      rw [this]
      exact ih hS1 (twin_stepK_other hS hT i hr)

/-- What an observer sees of twin runs is the same. -/
theorem obsOf_twin {r1 r2 : Nat} {st st' : State} (hS : Sep st.heap) (hT : Twin r1 r2 st st') (n : Nat) :
    obsOf n st' r2 = obsOf n st r1 := by
  unfold obsOf
  have := deepVal_twin hS hT.heap n (x := root r1) rfl
  rw [ren_root] at this
  rw [this, hT.dead]

theorem traceK_twin {r1 r2 : Nat} (n : Nat) (is : List Instr) {st st' : State} (hS : Sep st.heap)
    (hT : Twin r1 r2 st st') : traceK n r2 is st' = traceK n r1 is st := by
  induction is generalizing st st' with
  | nil => rfl
  | cons i rest ih =>
    have hT1 := stepK_twin hS hT i
    have hS1 := stepK_sep hS r1 i
    simp only [traceK, obsOf_twin hS1 hT1 n, ih hS1 hT1]

/-- The observations of run `r` in a log. -/
def obsFor (r : Nat) (log : List (Nat × Val × Bool)) : List (Val × Bool) :=
  (log.filter fun e => e.1 = r).map (·.2)

theorem logK_proj_twin {r : Nat} (n : Nat) (s : KSched) {st st' : State} (hS : Sep st.heap)
    (hT : Twin r r st st') :
    obsFor r (logK n s st) = traceK n r ((projK r s).map (·.2)) st' := by
  induction s generalizing st st' with
  | nil => rfl
  | cons e rest ih =>
    obtain ⟨r', i⟩ := e
    have hS1 := stepK_sep hS r' i
    by_cases hr : r' = r
    · subst hr
      have hT1 := stepK_twin hS hT i
      have hp : projK r' ((r', i) :: rest) = (r', i) :: projK r' rest := by simp [projK]
      simp only [logK, obsFor, hp, List.map_cons, traceK, List.filter_cons, decide_true, if_true]
      rw [obsOf_twin hS1 hT1 n]
      congr 1
      exact ih hS1 hT1
    · have hp : projK r ((r', i) :: rest) = projK r rest := by simp [projK, hr]
      simp only [logK, obsFor, hp, List.filter_cons, hr, decide_false]
      exact ih hS1 (twin_stepK_other hS hT i hr)

end Pypyr.C12
