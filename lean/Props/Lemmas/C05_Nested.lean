/-
  C05 helper definitions and lemmas for the closed form of `while > foreach > logging body`:
  the body `logIW tag g` appends one event showing the `i` and the `whileCounter` it finds in the
  context and then applies an arbitrary context transformation `g` that leaves `whileCounter`
  alone (`KeepsCounter g`; it may do anything to `i` and to every other key). Induction on the
  item list (inside one while iteration) and on the number of while iterations.
-/
import Props.Lemmas.C05_Loops

namespace Pypyr.C05
open Pypyr Pypyr.Flow Pypyr.C04

/-- the event of the logging body: the `i` and the `whileCounter` it saw in the context. -/
def iwEvent (tag : String) (i w : Option Val) : Event :=
  { tag := tag, i := i, w := w, r := none, nerr := 0, pipe := "", depth := 0, keys := [] }

/-- a body that logs `(tag, context['i'], context['whileCounter'])` and then does `g` to the context. -/
def logIW (tag : String) (g : Ctx → Ctx) : Frame → Body := fun _ s =>
  ({ s with ctx := g s.ctx,
            trace := s.trace ++ [iwEvent tag (Ctx.get? s.ctx "i") (Ctx.get? s.ctx "whileCounter")] }, .ok)

/-- `g` does not write `whileCounter` (the while decorator sets it once per while iteration, before
    the foreach: a body that overwrites it is seen by the later items of that iteration). -/
def KeepsCounter (g : Ctx → Ctx) : Prop :=
  ∀ c, Ctx.get? (g c) "whileCounter" = Ctx.get? c "whileCounter"

/-- the events of one complete foreach sequence in while-iteration number `w`. -/
def sweep (tag : String) (xs : List Val) (w : Option Val) : List Event :=
  xs.map fun x => iwEvent tag (some x) w

theorem itemOut_logIW (tag : String) (g : Ctx → Ctx) (fr : Frame) (x : Val) (s : St) :
    itemOut fr (logIW tag g) x s =
      ({ (setI x s) with ctx := g (setI x s).ctx,
                         trace := s.trace ++ [iwEvent tag (some x) (Ctx.get? s.ctx "whileCounter")] }, .ok) := by
  have h1 : Ctx.get? (setI x s).ctx "i" = some x := setI_i x s
  have h2 : Ctx.get? (setI x s).ctx "whileCounter" = Ctx.get? s.ctx "whileCounter" :=
    ctx_get_set_ne s.ctx "whileCounter" "i" x (by decide)
  show logIW tag g _ (setI x s) = _
  unfold logIW
  rw [h1, h2]
  rfl

/-- one foreach sequence of the logging body, entered in `s`: completes normally, appends exactly
    one event per item, in order, each with that item and the `whileCounter` of `s`; no sleep, no
    exception object, `whileCounter` unchanged. Any list. -/
theorem foreachItems_logIW (tag : String) (g : Ctx → Ctx) (hg : KeepsCounter g) (fr : Frame) :
    ∀ (xs : List Val) (s : St),
      (foreachItems fr (logIW tag g) xs s).2 = .ok ∧
      (foreachItems fr (logIW tag g) xs s).1.trace = s.trace ++ sweep tag xs (Ctx.get? s.ctx "whileCounter") ∧
      (foreachItems fr (logIW tag g) xs s).1.sleeps = s.sleeps ∧
      (foreachItems fr (logIW tag g) xs s).1.nextExc = s.nextExc := by
  intro xs
  induction xs with
  | nil => intro s; simp [foreachItems, sweep]
  | cons x rest ih =>
    intro s
    have h := itemOut_logIW tag g fr x s
    rw [foreachItems_cons_of_ok _ _ _ _ _ (by rw [h]), h]
    simp only []
    obtain ⟨e1, e2, e3, e4⟩ := ih
      { (setI x s) with ctx := g (setI x s).ctx,
                        trace := s.trace ++ [iwEvent tag (some x) (Ctx.get? s.ctx "whileCounter")] }
    have hw : Ctx.get? (g (setI x s).ctx) "whileCounter" = Ctx.get? s.ctx "whileCounter" := by
      rw [hg]; exact ctx_get_set_ne s.ctx "whileCounter" "i" x (by decide)
    refine ⟨e1, ?_, e3, e4⟩
    rw [e2]
    simp only [hw, sweep, List.map_cons, List.append_assoc, List.singleton_append]

/-- the events of while-iterations `k, k+1, …, k+n`, each a complete foreach sequence. -/
def sweeps (tag : String) (xs : List Val) (k n : Nat) : List Event :=
  (List.range n).flatMap fun j => sweep tag xs (some (.int ((k + j : Nat) : Int)))

theorem sweeps_succ (tag : String) (xs : List Val) (k n : Nat) :
    sweeps tag xs k (n + 1) = sweep tag xs (some (.int (k : Int))) ++ sweeps tag xs (k + 1) n := by
  unfold sweeps
  rw [List.range_succ_eq_map, List.flatMap_cons, List.flatMap_map]
  have e : (fun a => sweep tag xs (some (.int ((k + Nat.succ a : Nat) : Int)))) =
      fun j => sweep tag xs (some (.int ((k + 1 + j : Nat) : Int))) := by
    funext j
    have : k + Nat.succ j = k + 1 + j := by omega
    rw [this]
  rw [e]
  rfl

/-- iteration `k+n` of `while > foreach > logging body` (all earlier ones having happened):
    completes normally; the trace so far is the start trace followed by the complete foreach
    sequences of iterations `k .. k+n`, in that order; exactly `n` sleeps; no exception object. -/
theorem whileOut_nested (tag : String) (g : Ctx → Ctx) (hg : KeepsCounter g) (fr : Frame) (xs : List Val)
    (sleep : Num) :
    ∀ (n k : Nat) (s : St),
      (whileOut fr (fun fr' => foreachItems fr' (logIW tag g) xs) sleep n k s).2 = .ok ∧
      (whileOut fr (fun fr' => foreachItems fr' (logIW tag g) xs) sleep n k s).1.trace =
        s.trace ++ sweeps tag xs k (n + 1) ∧
      (whileOut fr (fun fr' => foreachItems fr' (logIW tag g) xs) sleep n k s).1.sleeps =
        s.sleeps ++ List.replicate n (numToVal sleep) ∧
      (whileOut fr (fun fr' => foreachItems fr' (logIW tag g) xs) sleep n k s).1.nextExc = s.nextExc := by
  have h0 : ∀ (k : Nat) (s : St),
      (iterOut fr (fun fr' => foreachItems fr' (logIW tag g) xs) k s).2 = .ok ∧
      (iterOut fr (fun fr' => foreachItems fr' (logIW tag g) xs) k s).1.trace =
        s.trace ++ sweep tag xs (some (.int (k : Int))) ∧
      (iterOut fr (fun fr' => foreachItems fr' (logIW tag g) xs) k s).1.sleeps = s.sleeps ∧
      (iterOut fr (fun fr' => foreachItems fr' (logIW tag g) xs) k s).1.nextExc = s.nextExc := by
    intro k s
    obtain ⟨e1, e2, e3, e4⟩ := foreachItems_logIW tag g hg { fr with whileC := some k } xs (setW k s)
    rw [setW_counter] at e2
    exact ⟨e1, e2, e3, e4⟩
  intro n
  induction n with
  | zero =>
    intro k s
    obtain ⟨e1, e2, e3, e4⟩ := h0 k s
    refine ⟨e1, ?_, ?_, e4⟩
    · show (iterOut _ _ k s).1.trace = _
      rw [e2, sweeps_succ]
      simp [sweeps]
    · show (iterOut _ _ k s).1.sleeps = _
      rw [e3]; simp
  | succ n ih =>
    intro k s
    obtain ⟨e1, e2, e3, e4⟩ := h0 k s
    obtain ⟨f1, f2, f3, f4⟩ := ih (k + 1)
      (addSleep sleep (iterOut fr (fun fr' => foreachItems fr' (logIW tag g) xs) k s).1)
    refine ⟨f1, ?_, ?_, ?_⟩
    · show (whileOut _ _ sleep n (k + 1) (addSleep sleep (iterOut _ _ k s).1)).1.trace = _
      rw [f2, sweeps_succ tag xs k (n + 1)]
      show (iterOut _ _ k s).1.trace ++ _ = _
      rw [e2, List.append_assoc]
    · show (whileOut _ _ sleep n (k + 1) (addSleep sleep (iterOut _ _ k s).1)).1.sleeps = _
      rw [f3]
      show ((iterOut _ _ k s).1.sleeps ++ [numToVal sleep]) ++ _ = _
      rw [e3, List.append_assoc, List.replicate_succ]
      rfl
    · show (whileOut _ _ sleep n (k + 1) (addSleep sleep (iterOut _ _ k s).1)).1.nextExc = _
      rw [f4]
      exact e4

end Pypyr.C05
