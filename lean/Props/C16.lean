/-
  C16 — structured file steps round-trip and format every string node.

  Model: `PypyrModel/Codec.lean`. What is proved here is pypyr's glue and the string-node map, for
  EVERY document tree, context, nesting depth and recursion budget:

  * `fmtDoc_maps_strings` — the formatter applied to a document replaces every string node (keys
    included) by its formatted value and leaves every other node as it is (`DocMap`);
  * `fileformat_doc_spec` — `parse (fileformatX src) = fmtDoc (parse src)`;
  * `write_fetch_roundtrip` (+ `_at_key`, `_at_root`, `file_parser_roundtrip`) — fetch after write
    stores exactly the payload the write step serialised, and that payload is the formatted input;
  * file level, with encodings (`fileWriteStored`, `fetchStored`, `fileParserArgs`):
    `parser_roundtrip_iff_encoding` — the file context parser reads with `config.default_encoding`
    (it has no encoding option): it returns the written mapping iff that is the encoding the write
    step wrote in, else `UnicodeDecodeError`; `write_fetch_roundtrip_every_encoding` — the fetch step
    with the same `encoding` entry round-trips for every encoding; `parser_path_is_space_join`,
    `parser_no_args_table`, `parser_non_mapping_typeerror`; witness `utf16_parser_fails_fetch_succeeds`;
    `write_error_class` — the class of the error when the serialiser refuses the payload, per format
    and cause;
  * fetch to the context root (`storeRoot`, several steps on one context `runC`):
    `fetch_root_is_toplevel_update` / `fetch_root_entries` — the no-key branch is `dict.update`: afterwards
    `context[k] = parsed[k]` for every top-level key of the file, whatever the context held there, every
    other key unchanged; `fetch_root_twice_last_wins`, `fetch_root_idempotent` — base then override, a
    re-fetch; `fetch_root_no_formatting` — nothing that was read is formatted (never raises on braces);
    counter-models `additive_merge_differs_from_update`, `formatting_merge_differs_from_update`;
  * the write steps without `payload` (`payloadFor`): `write_whole_eq_explicit_payload` — no payload = the
    formatted context mapping given as payload, json, yaml and toml alike (`whole_context_truthy`,
    `fileWriteStored_congr`); `write_whole_formats_keys` — the top-level key names are formatted too;
    counter-model `whole_keys_verbatim_differs`;
  both under the explicit codec hypothesis `c.RoundTrips d` (`∃ t, enc d = some t ∧ dec t = some d`).
  For YAML (ruamel.yaml) and TOML (tomli_w/tomllib) that hypothesis is validated by generation only
  (harness/props/c16.py checks it directly on every generated payload; known failure: U+0085).
  For JSON it is DISCHARGED, for every `config.json_indent` / `config.json_ascii` setting:
  `json_roundtrip_coerce : Json.parse (Json.print o d) = .ok (Json.coerceKeys d) []` for every document
  `json.dump` accepts (str/int/float/bool/None keys — written as strings, so coerced —, arrays, strings,
  ints, bools, null, floats with a short exact decimal expansion), `json_roundtrip` (`= .ok d []`) for the
  string-keyed ones (`Props/Lemmas/C16_Json*.lean`), hence `json_codec_roundtrips` and the hypothesis-free
  `write_fetch_roundtrip_json` / `write_fetch_json_coerce`, `fileformatjson_doc_spec` / `_coerce`.
-/
import Props.Lemmas.C16_Glue
import Props.Lemmas.C16_Root
import Props.Lemmas.C16_JsonRoundTrip
import Props.Lemmas.C16_JsonCoerce
import Props.Lemmas.C09_Sim

namespace Pypyr.C16
open Pypyr.Codec

instance {ε α} [DecidableEq ε] [DecidableEq α] : DecidableEq (Except ε α) := fun a b =>
  match a, b with
  | .ok x, .ok y => if h : x = y then isTrue (by rw [h]) else isFalse (by intro h'; cases h'; exact h rfl)
  | .error x, .error y => if h : x = y then isTrue (by rw [h]) else isFalse (by intro h'; cases h'; exact h rfl)
  | .ok _, .error _ => isFalse (by intro h; cases h)
  | .error _, .ok _ => isFalse (by intro h; cases h)

instance {α} [DecidableEq α] : DecidableEq (Json.PR α) := fun a b =>
  match a, b with
  | .ok x r, .ok y q =>
      if h : x = y ∧ r = q then isTrue (by rw [h.1, h.2])
      else isFalse (by intro h'; cases h'; exact h ⟨rfl, rfl⟩)
  | .bad, .bad => isTrue rfl
  | .outside, .outside => isTrue rfl
  | .ok _ _, .bad => isFalse (by intro h; cases h)
  | .ok _ _, .outside => isFalse (by intro h; cases h)
  | .bad, .ok _ _ => isFalse (by intro h; cases h)
  | .bad, .outside => isFalse (by intro h; cases h)
  | .outside, .ok _ _ => isFalse (by intro h; cases h)
  | .outside, .bad => isFalse (by intro h; cases h)

private def ctxEx : Ctx := [("k1", .str "v1"), ("k2", .int 42)]
private def docEx : Val :=
  .dict [(.str "a{k1}", .list [.str "x{k1}", .str "{k2}", .int 1, .none]), (.str "true", .str "true")]

/-- **fmtDoc_maps_strings.** For every document tree `d`: if formatting succeeds with result `d'`
    then `DocMap ctx d d'` — every string node, keys included, is replaced by its formatted value,
    lists and mappings are rebuilt entry by entry in order (so the shape is preserved), and every
    other node is unchanged. -/
theorem fmtDoc_maps_strings (fuel : Nat) (ctx : Ctx) (d d' : Val) (hd : isDoc d = true)
    (h : fmtDoc fuel ctx d = .ok d') : DocMap ctx d d' :=
  fmtIter_docMap ctx fuel d d' hd h

example : fmtDoc 8 ctxEx docEx =
    .ok (.dict [(.str "av1", .list [.str "xv1", .int 42, .int 1, .none]), (.str "true", .str "true")]) := by
  decide +kernel

/-- Shape: a list keeps its length… -/
theorem fmtDoc_list_length (fuel : Nat) (ctx : Ctx) (xs : List Val) (d' : Val)
    (hd : isDoc (.list xs) = true) (h : fmtDoc fuel ctx (.list xs) = .ok d') :
    ∃ ys, d' = .list ys ∧ ys.length = xs.length := by
  have := fmtDoc_maps_strings fuel ctx _ _ hd h
  simp only [DocMap] at this
  obtain ⟨ys, rfl, hl⟩ := this
  exact ⟨ys, rfl, hl.length⟩

/-- …and a mapping whose formatted keys stay pairwise distinct keeps exactly its entries, in order,
    key and value formatted. -/
theorem fmtDoc_dict_entries (fuel : Nat) (ctx : Ctx) (kvs : List (Val × Val)) (d' : Val)
    (hd : isDoc (.dict kvs) = true) (h : fmtDoc fuel ctx (.dict kvs) = .ok d') :
    ∃ kvs', DocMapPairs ctx kvs kvs' ∧ kvs'.length = kvs.length ∧ d' = .dict (rebuildDict kvs') ∧
      ((keysOf kvs').Nodup → d' = .dict kvs') := by
  have := fmtDoc_maps_strings fuel ctx _ _ hd h
  simp only [DocMap] at this
  obtain ⟨kvs', rfl, hp⟩ := this
  exact ⟨kvs', hp, hp.length, rfl, fun hn => by rw [rebuildDict_distinct kvs' hn]⟩

/-- Nodes that are not strings or containers are left exactly as they are. -/
theorem fmtDoc_scalar_unchanged (fuel : Nat) (ctx : Ctx) (d d' : Val)
    (hs : d = .none ∨ (∃ b, d = .bool b) ∨ (∃ i, d = .int i) ∨ ∃ n k, d = .flt n k)
    (h : fmtDoc fuel ctx d = .ok d') : d' = d := by
  rcases hs with rfl | ⟨b, rfl⟩ | ⟨i, rfl⟩ | ⟨n, k, rfl⟩ <;>
    · have := fmtDoc_maps_strings fuel ctx _ _ (by simp [isDoc]) h
      simpa [DocMap] using this

/-- **fileformat_doc_spec.** `ObjectRewriter` at value level: if the source parses to the document
    `d`, formatting `d` gives `d'`, and the codec round-trips `d'` (the hypothesis), then the step
    succeeds and its output parses to `d'`, which is `d` with every string node formatted. -/
theorem fileformat_doc_spec {τ} (c : Codec τ) (fuel : Nat) (ctx : Ctx) (src : τ) (d d' : Val)
    (hsrc : c.dec src = some d) (hd : isDoc d = true) (hfmt : fmtDoc fuel ctx d = .ok d')
    (hc : c.RoundTrips d') :
    ∃ out, fileFormatDoc c fuel ctx src = .ok out ∧ c.dec out = some d' ∧ DocMap ctx d d' := by
  obtain ⟨t, he, hdec⟩ := hc
  exact ⟨t, by simp [fileFormatDoc, hsrc, hfmt, he], hdec, fmtDoc_maps_strings fuel ctx d d' hd hfmt⟩

example : fileFormatDoc Codec.ideal 8 ctxEx docEx =
    .ok (.dict [(.str "av1", .list [.str "xv1", .int 42, .int 1, .none]), (.str "true", .str "true")]) := by
  decide +kernel

/-- **write_fetch_roundtrip.** If the write step hands payload `p'` to the serialiser for `path`,
    the codec round-trips `p'` (the hypothesis), and the fetch step is pointed at the same path, then
    the write succeeds and the fetch step stores exactly `p'` (at the key, or merged at root). -/
theorem write_fetch_roundtrip {τ} (f : Format) (c : Codec τ) (fuel fuel2 : Nat) (ctx ctx2 : Ctx)
    (files : Files τ) (path : String) (p' : Val) (key : Option Val)
    (hw : writePayload f fuel ctx = .ok (path, p')) (hc : c.RoundTrips p')
    (hf : fetchArgs f fuel2 ctx2 = .ok (path, key)) :
    ∃ files', fileWrite f c fuel ctx files = .ok files' ∧
      fetch f c fuel2 ctx2 files' = store ctx2 key p' := by
  obtain ⟨t, he, hd⟩ := hc
  exact ⟨files.set path t, fileWrite_ok f c fuel ctx files path p' t hw he,
    fetch_eq_store f c fuel2 ctx2 _ path key t p' hf (Files.get?_set_self files path t) hd⟩

/-- Round trip into a destination key: `context[key]` is the payload that was written. -/
theorem write_fetch_roundtrip_at_key {τ} (f : Format) (c : Codec τ) (fuel fuel2 : Nat) (ctx ctx2 : Ctx)
    (files : Files τ) (path k : String) (p' : Val) (hk : k ≠ "")
    (hw : writePayload f fuel ctx = .ok (path, p')) (hc : c.RoundTrips p')
    (hf : fetchArgs f fuel2 ctx2 = .ok (path, some (.str k))) :
    ∃ files' ctx', fileWrite f c fuel ctx files = .ok files' ∧
      fetch f c fuel2 ctx2 files' = .ok ctx' ∧ ctx'.get? k = some p' ∧
      ∀ k2, k2 ≠ k → ctx'.get? k2 = ctx2.get? k2 := by
  obtain ⟨files', h1, h2⟩ := write_fetch_roundtrip f c fuel fuel2 ctx ctx2 files path p' _ hw hc hf
  refine ⟨files', Ctx.set ctx2 k p', h1, ?_, Ctx.get?_set_self ctx2 k p',
    fun k2 h => Ctx.get?_set_other ctx2 k k2 p' h⟩
  rw [h2]
  simp [store, Val.truthy, hk]

/-- Round trip merged at context root (no key, or an empty key): every entry of the written
    mapping is in the context afterwards. -/
theorem write_fetch_roundtrip_at_root {τ} (f : Format) (c : Codec τ) (fuel fuel2 : Nat) (ctx ctx2 : Ctx)
    (files : Files τ) (path : String) (kvs : List (Val × Val)) (es : List (String × Val))
    (key : Option Val) (hkey : key = none ∨ key = some (.str ""))
    (hes : strEntries kvs = some es) (hnd : (es.map (·.1)).Nodup)
    (hw : writePayload f fuel ctx = .ok (path, .dict kvs)) (hc : c.RoundTrips (.dict kvs))
    (hf : fetchArgs f fuel2 ctx2 = .ok (path, key)) :
    ∃ files' ctx', fileWrite f c fuel ctx files = .ok files' ∧
      fetch f c fuel2 ctx2 files' = .ok ctx' ∧ ∀ kv ∈ es, ctx'.get? kv.1 = some kv.2 := by
  obtain ⟨files', h1, h2⟩ := write_fetch_roundtrip f c fuel fuel2 ctx ctx2 files path _ key hw hc hf
  refine ⟨files', Ctx.update ctx2 es, h1, ?_, Ctx.get?_update es ctx2 hnd⟩
  rw [h2]
  rcases hkey with rfl | rfl <;> simp [store, storeRoot, hes, Val.truthy]

/-- The payload the write step serialises is the `payload` entry of the step's input with every
    string node of the input formatted — or, when no payload is given, the whole formatted context. -/
theorem write_payload_is_formatted (f : Format) (fuel : Nat) (ctx : Ctx) (raw : List (Val × Val))
    (path : String) (p' : Val) (hin : ctx.get? f.writeKey = some (.dict raw))
    (hraw : isDocPairs raw = true) (hw : writePayload f fuel ctx = .ok (path, p')) :
    ∃ input, DocMapPairs ctx raw input ∧
      (dictGet? (rebuildDict input) (.str "payload") = some p' ∨
       (dictGet? (rebuildDict input) (.str "payload") = none ∧ fmtDoc fuel ctx (Ctx.toVal ctx) = .ok p')) := by
  simp only [writePayload, formattedInput, hin] at hw
  cases hfm : fmtVal fuel ctx (.dict raw) with
  | error e => simp [hfm] at hw
  | ok v =>
    have hm := fmtDoc_maps_strings fuel ctx (.dict raw) v (by simpa [isDoc] using hraw) hfm
    simp only [DocMap] at hm
    obtain ⟨input, rfl, hp⟩ := hm
    refine ⟨input, hp, ?_⟩
    simp only [hfm] at hw
    cases hpath : pathOf (rebuildDict input) with
    | error e => simp [hpath] at hw
    | ok pth =>
      simp only [hpath] at hw
      cases hpl : dictGet? (rebuildDict input) (.str "payload") with
      | none =>
        simp only [hpl] at hw
        right
        refine ⟨rfl, ?_⟩
        cases hwh : fmtVal fuel ctx (Ctx.toVal ctx) with
        | error e => simp [hwh] at hw
        | ok whole =>
          simp only [hwh, Except.ok.injEq, Prod.mk.injEq] at hw
          simp [fmtDoc, hwh, hw.2]
      | some payload =>
        simp only [hpl] at hw
        left
        split at hw
        · cases hw
        · simp only [Except.ok.injEq, Prod.mk.injEq] at hw
          simp [hw.2]

/-- The file context parsers: a file written from a mapping payload is parsed back to it. -/
theorem file_parser_roundtrip {τ} (f : Format) (c : Codec τ) (fuel : Nat) (ctx : Ctx) (files : Files τ)
    (path : String) (kvs : List (Val × Val))
    (hw : writePayload f fuel ctx = .ok (path, .dict kvs)) (hc : c.RoundTrips (.dict kvs)) :
    ∃ files' t, fileWrite f c fuel ctx files = .ok files' ∧ files'.get? path = some t ∧
      fileParser c t = .ok (.dict kvs) := by
  obtain ⟨t, he, hd⟩ := hc
  exact ⟨files.set path t, t, fileWrite_ok f c fuel ctx files path _ t hw he,
    Files.get?_set_self files path t, by simp [fileParser, hd]⟩

private def wctxEx : Ctx :=
  [("k1", .str "v1"),
   ("fileWriteJson", .dict [(.str "path", .str "out/f.json"),
      (.str "payload", .dict [(.str "a", .str "x{k1}"), (.str "n", .list [.int 1, .none])])])]
private def fctxEx : Ctx :=
  [("fetchJson", .dict [(.str "path", .str "out/f.json"), (.str "key", .str "out")])]

example : writePayload .json 8 wctxEx =
    .ok ("out/f.json", .dict [(.str "a", .str "xv1"), (.str "n", .list [.int 1, .none])]) ∧
    fetchArgs .json 8 fctxEx = .ok ("out/f.json", some (.str "out")) := by
  decide +kernel

/-- The defect repaired by 37680ff, as a witness: with the OLD closing log statement
    (`len(payload)` unguarded) fetching a top-level number into a key raised, although the file
    had been written and parsed (the value is JSON-representable). -/
theorem fetch_scalar_raises_pre_fix :
    fetchWith false .json Codec.ideal 8 fctxEx [("out/f.json", Val.int 42)]
      = .error (typeError "object has no len()") ∧
    fetch .json Codec.ideal 8 fctxEx [("out/f.json", Val.int 42)]
      = .ok (Ctx.set fctxEx "out" (.int 42)) := by
  decide +kernel

/-! ### Fetch to the context root is a TOP-LEVEL update (nothing read is merged into or formatted)

  "parsed object stored at key or merged at root": the no-key branch of the three fetch steps is
  `context.update(payload)`. Stated for every context (whatever it already holds under the same
  names), every parsed mapping (duplicates, any nesting, strings with braces) and every history. -/

/-- **fetch_root_is_toplevel_update.** A fetch step without destination key (or with a falsy one) on a
    file that parses to a mapping with entries `es` succeeds whatever the context holds, the context
    afterwards is `ctx.update es`, and key by key: a top-level key of the file holds the value of the
    file (the LAST one if the key occurs twice) — whatever was there before, container or not — and
    every other key holds what it held. -/
theorem fetch_root_is_toplevel_update {τ} (f : Format) (c : Codec τ) (fuel : Nat) (ctx : Ctx) (files : Files τ)
    (path : String) (key : Option Val) (t : τ) (kvs : List (Val × Val)) (es : List (String × Val))
    (hkey : key = none ∨ key = some (.str ""))
    (hf : fetchArgs f fuel ctx = .ok (path, key)) (hfile : files.get? path = some t)
    (hd : c.dec t = some (.dict kvs)) (hes : strEntries kvs = some es) :
    fetch f c fuel ctx files = .ok (ctx.update es) ∧
    (∀ k v, lastOf es k = some v → (ctx.update es).get? k = some v) ∧
    (∀ k, lastOf es k = none → (ctx.update es).get? k = ctx.get? k) := by
  refine ⟨?_, fun k v h => by rw [Ctx.get?_update_eq, h], fun k h => by rw [Ctx.get?_update_eq, h]⟩
  rw [fetch_eq_store f c fuel ctx files path key t _ hf hfile hd]
  rcases hkey with rfl | rfl <;> simp [store, storeRoot, hes, Val.truthy]

/-- Pairwise distinct top-level keys (what a json/yaml/toml loader returns): after the step
    `context[k] == parsed[k]` for EVERY top-level key of the file, and every key the file does not have
    is unchanged. -/
theorem fetch_root_entries {τ} (f : Format) (c : Codec τ) (fuel : Nat) (ctx : Ctx) (files : Files τ)
    (path : String) (key : Option Val) (t : τ) (kvs : List (Val × Val)) (es : List (String × Val))
    (hkey : key = none ∨ key = some (.str ""))
    (hf : fetchArgs f fuel ctx = .ok (path, key)) (hfile : files.get? path = some t)
    (hd : c.dec t = some (.dict kvs)) (hes : strEntries kvs = some es) (hnd : (es.map (·.1)).Nodup) :
    ∃ ctx', fetch f c fuel ctx files = .ok ctx' ∧ (∀ kv ∈ es, ctx'.get? kv.1 = some kv.2) ∧
      ∀ k, k ∉ es.map (·.1) → ctx'.get? k = ctx.get? k := by
  obtain ⟨h1, h2, h3⟩ := fetch_root_is_toplevel_update f c fuel ctx files path key t kvs es hkey hf hfile hd hes
  exact ⟨_, h1, fun kv hkv => h2 _ _ (lastOf_mem_nodup es hnd kv hkv),
    fun k hk => h3 k (lastOf_none_of_not_mem es k hk)⟩

/-- **fetch_root_twice_last_wins.** Two fetches to the root one after the other (a base file then an
    override file, a re-fetch of a file that changed, a fetch inside a loop): a key of the second
    file holds the SECOND file's value — not the first one's extended or merged —, a key only the first
    file has keeps the first file's value, any other key is as it was. -/
theorem fetch_root_twice_last_wins (ctx c1 c2 : Ctx) (kvs1 kvs2 : List (Val × Val)) (es1 es2 : List (String × Val))
    (h1 : strEntries kvs1 = some es1) (h2 : strEntries kvs2 = some es2)
    (hs1 : storeRoot ctx (.dict kvs1) = .ok c1) (hs2 : storeRoot c1 (.dict kvs2) = .ok c2) (k : String) :
    c2.get? k = match lastOf es2 k with
      | some v => some v
      | none => match lastOf es1 k with
        | some v => some v
        | none => ctx.get? k := by
  simp only [storeRoot, h1, h2, Except.ok.injEq] at hs1 hs2
  subst hs1 hs2
  rw [Ctx.get?_update_eq, Ctx.get?_update_eq]
  cases lastOf es2 k <;> cases lastOf es1 k <;> rfl

/-- Fetching the same file to the root again changes nothing (a fetch in `foreach` / `retry`). -/
theorem fetch_root_idempotent (ctx c1 c2 : Ctx) (kvs : List (Val × Val))
    (hs1 : storeRoot ctx (.dict kvs) = .ok c1) (hs2 : storeRoot c1 (.dict kvs) = .ok c2) (k : String) :
    c2.get? k = c1.get? k := by
  cases hes : strEntries kvs with
  | none => simp [storeRoot, hes] at hs1
  | some es =>
    rw [fetch_root_twice_last_wins ctx c1 c2 kvs kvs es es hes hes hs1 hs2 k]
    simp only [storeRoot, hes, Except.ok.injEq] at hs1
    subst hs1
    rw [Ctx.get?_update_eq]
    cases lastOf es k <;> rfl

/-- **fetch_root_no_formatting.** The root update never fails on a string-keyed mapping and never looks
    at what the strings say: whatever the context holds (so also when `{customer}` names no key of it),
    each top-level value of the file is in the context afterwards node for node as it was parsed. -/
theorem fetch_root_no_formatting (ctx : Ctx) (kvs : List (Val × Val)) (es : List (String × Val))
    (hes : strEntries kvs = some es) :
    ∃ ctx', storeRoot ctx (.dict kvs) = .ok ctx' ∧ ∀ k v, lastOf es k = some v → ctx'.get? k = some v :=
  ⟨ctx.update es, by simp [storeRoot, hes], fun k v h => by rw [Ctx.get?_update_eq, h]⟩

private def ctxLayer : Ctx :=
  [("servers", .list [.str "alpha", .str "beta"]), ("db", .dict [(.str "host", .str "db1"), (.str "port", .int 5432)]),
   ("keep", .str "{untouched}")]
private def overrideDoc : Val :=
  .dict [(.str "servers", .list [.str "gamma"]), (.str "db", .dict [(.str "host", .str "db2")]),
         (.str "template", .str "Dear {customer}, order {{id}}")]

example : storeRoot ctxLayer overrideDoc =
    .ok [("servers", .list [.str "gamma"]), ("db", .dict [(.str "host", .str "db2")]), ("keep", .str "{untouched}"),
         ("template", .str "Dear {customer}, order {{id}}")] := by decide +kernel

/-- The same through the steps, on ONE context (`runC`): base file to the root, then the override
    file to the root — lists and tables of the override REPLACE those of the base. -/
example : runC (fun _ => Codec.ideal) 8 [("env", .str "prod")]
      [("base.toml", Val.dict [(.str "servers", .list [.str "alpha", .str "beta"]), (.str "title", .str "t{env}")]),
       ("over.toml", Val.dict [(.str "servers", .list [.str "gamma"])])]
      [.fetch .toml (.dict [(.str "path", .str "base.toml")]), .fetch .toml (.str "over.toml")] =
    [.ok [("env", .str "prod"), ("servers", .list [.str "alpha", .str "beta"]), ("title", .str "t{env}")],
     .ok [("env", .str "prod"), ("servers", .list [.str "gamma"]), ("title", .str "t{env}")]] := by decide +kernel

/-- Counter-model: an ADDITIVE (deep) merge at the root is a different function — on the layered
    example it appends to the list and keeps the table entry the override no longer has. -/
theorem additive_merge_differs_from_update :
    additiveUpdate ctxLayer [("servers", .list [.str "gamma"]), ("db", .dict [(.str "host", .str "db2")])] =
      [("servers", .list [.str "alpha", .str "beta", .str "gamma"]),
       ("db", .dict [(.str "host", .str "db2"), (.str "port", .int 5432)]), ("keep", .str "{untouched}")] ∧
    Ctx.update ctxLayer [("servers", .list [.str "gamma"]), ("db", .dict [(.str "host", .str "db2")])] =
      [("servers", .list [.str "gamma"]), ("db", .dict [(.str "host", .str "db2")]), ("keep", .str "{untouched}")] := by
  decide +kernel

/-- Counter-model: a root merge that FORMATS what it read raises on a text with literal braces
    (`{customer}` is no key) or substitutes it; the update stores it verbatim. -/
theorem formatting_merge_differs_from_update :
    formattingUpdate 8 ctxLayer [("template", .str "Dear {customer}")] = .error (keyNotInContext "customer") ∧
    formattingUpdate 8 ctxLayer [("template", .str "see {keep} {{id}}")] =
      .ok (ctxLayer ++ [("template", .str "see {untouched} {id}")]) ∧
    storeRoot ctxLayer (.dict [(.str "template", .str "see {keep} {{id}}")]) =
      .ok (ctxLayer ++ [("template", .str "see {keep} {{id}}")]) := by
  decide +kernel

/-! ### The whole-context branch of the write steps (no `payload` given) -/

/-- **write_whole_eq_explicit_payload.** For every format: the step without a `payload` entry hands the
    serialiser exactly what it would hand it had the formatted context mapping been given as the
    (formatted) `payload` — the whole-context branch is not a second way of formatting. (`htoml`: TOML
    refuses a falsy explicit payload; the formatted context is never empty — `whole_context_truthy`.) -/
theorem write_whole_eq_explicit_payload (f : Format) (fuel : Nat) (ctx : Ctx) (input : List (Val × Val)) (w : Val)
    (hno : dictGet? input (.str "payload") = none) (hw : fmtVal fuel ctx (Ctx.toVal ctx) = .ok w)
    (htoml : f = .toml → w.truthy = true) :
    payloadFor f fuel ctx input = .ok w ∧
    payloadFor f fuel ctx (dictSet input (.str "payload") w) = .ok w := by
  refine ⟨by simp [payloadFor, hno, hw], ?_⟩
  simp only [payloadFor, dictGet?_dictSet_self]
  by_cases hf : f = .toml
  · simp [hf, htoml hf]
  · simp [hf]

/-- The formatted whole context of a step that is running is a non-empty mapping (the step's own
    input is in it), so `htoml` above always holds. -/
theorem whole_context_truthy (fuel : Nat) (ctx : Ctx) (w : Val) (hne : ctx ≠ [])
    (hdoc : ∀ kv ∈ ctx, isDoc kv.2 = true) (hw : fmtVal fuel ctx (Ctx.toVal ctx) = .ok w) : w.truthy = true := by
  have hm := fmtDoc_maps_strings fuel ctx (Ctx.toVal ctx) w
    (by simpa [Ctx.toVal, isDoc] using isDocPairs_toVal ctx hdoc) hw
  simp only [Ctx.toVal, DocMap] at hm
  obtain ⟨kvs', rfl, hp⟩ := hm
  have hlen := hp.length
  have : kvs' ≠ [] := by
    intro h
    subst h
    exact hne (List.eq_nil_of_length_eq_zero (by simpa using hlen.symm))
  have := rebuildDict_ne_nil kvs' this
  cases hr : rebuildDict kvs' with
  | nil => exact absurd hr this
  | cons a as => simp [Val.truthy]

/-- **write_whole_formats_keys.** What the step without `payload` serialises is the context mapping with
    every string node formatted, the TOP-LEVEL KEY NAMES included: for every entry `k ↦ v` of the
    context the written mapping is built from a pair (formatted `k`, formatted `v`). -/
theorem write_whole_formats_keys (f : Format) (fuel : Nat) (ctx : Ctx) (raw : List (Val × Val)) (path : String) (w : Val)
    (hin : ctx.get? f.writeKey = some (.dict raw)) (hraw : isDocPairs raw = true)
    (hdoc : ∀ kv ∈ ctx, isDoc kv.2 = true)
    (hnop : ∀ input, DocMapPairs ctx raw input → dictGet? (rebuildDict input) (.str "payload") = none)
    (hw : writePayload f fuel ctx = .ok (path, w)) :
    ∃ kvs', w = .dict (rebuildDict kvs') ∧ kvs'.length = ctx.length ∧
      ∀ kv ∈ ctx, ∃ k' v', (k', v') ∈ kvs' ∧ DocMap ctx (.str kv.1) k' ∧ DocMap ctx kv.2 v' := by
  obtain ⟨input, hp, hor⟩ := write_payload_is_formatted f fuel ctx raw path w hin hraw hw
  rcases hor with h | ⟨_, hwhole⟩
  · rw [hnop input hp] at h
    cases h
  · have hm := fmtDoc_maps_strings fuel ctx (Ctx.toVal ctx) w
      (by simpa [Ctx.toVal, isDoc] using isDocPairs_toVal ctx hdoc) hwhole
    simp only [Ctx.toVal, DocMap] at hm
    obtain ⟨kvs', rfl, hpairs⟩ := hm
    refine ⟨kvs', rfl, by simpa using hpairs.length, ?_⟩
    intro kv hkv
    exact DocMapPairs.mem hpairs (Val.str kv.1, kv.2) (List.mem_map.mpr ⟨kv, hkv, rfl⟩)

/-- The file the write step leaves depends on the context only through (path, payload handed to the
    serialiser, encoding): two steps that agree on these leave the same file — with
    `write_whole_eq_explicit_payload`: no payload = the formatted context given as payload, json, yaml and
    toml alike. -/
theorem fileWriteStored_congr {τ} (f : Format) (c : Codec τ) (fuel fuel2 : Nat) (ctx ctx2 : Ctx)
    (dflt dflt2 : Option String) (files : Files (Stored τ))
    (hp : writePayload f fuel ctx = writePayload f fuel2 ctx2)
    (he : writeEncoding f fuel ctx dflt = writeEncoding f fuel2 ctx2 dflt2) :
    fileWriteStored f c fuel ctx dflt files = fileWriteStored f c fuel2 ctx2 dflt2 files := by
  simp only [fileWriteStored, hp, he]

private def ctxTemplated : Ctx :=
  [("env", .str "prod"), ("{env}_url", .str "https://{env}.example"),
   ("fileWriteYaml", .dict [(.str "path", .str "out/{env}.yaml")])]

example : writePayload .yaml 8 ctxTemplated =
    .ok ("out/prod.yaml", .dict [(.str "env", .str "prod"), (.str "prod_url", .str "https://prod.example"),
      (.str "fileWriteYaml", .dict [(.str "path", .str "out/prod.yaml")])]) := by decide +kernel

/-- Counter-model: a whole-context dump that formats the values but copies the top-level key names
    verbatim writes another document as soon as a key name carries an expression. -/
theorem whole_keys_verbatim_differs :
    wholeKeysVerbatim 8 ctxTemplated =
      .ok (.dict [(.str "env", .str "prod"), (.str "{env}_url", .str "https://prod.example"),
        (.str "fileWriteYaml", .dict [(.str "path", .str "out/prod.yaml")])]) ∧
    fmtDoc 8 ctxTemplated (Ctx.toVal ctxTemplated) =
      .ok (.dict [(.str "env", .str "prod"), (.str "prod_url", .str "https://prod.example"),
        (.str "fileWriteYaml", .dict [(.str "path", .str "out/prod.yaml")])]) := by
  decide +kernel

/-! ### Encodings: the output is in the OUT encoding on every route -/

/-- **fileformat_file_spec.** `ObjectRewriter.in_to_out` at file level, for every combination of
    `encoding` / `encodingIn` / `encodingOut` and for BOTH routes (`out` another path: written straight
    to it; no `out`, an empty `out` or `out` equal to `in`: the temp file that replaces `in`): if the
    source is stored in the IN encoding and parses to `d`, the step succeeds, and the file at the
    target path is stored in the OUT encoding, reads back with the OUT encoding, and parses to `d` with
    every string node formatted. -/
theorem fileformat_file_spec {τ} (c : Codec τ) (fuel : Nat) (ctx : Ctx) (files : Files (Stored τ))
    (inp : String) (out : Option String) (o : EncOpts) (dflt : String) (src : τ) (d d' : Val)
    (hfile : files.get? inp = some ⟨o.inEnc dflt, src⟩)
    (hsrc : c.dec src = some d) (hd : isDoc d = true) (hfmt : fmtDoc fuel ctx d = .ok d')
    (hc : c.RoundTrips d') :
    ∃ files' t, fileFormatFile c fuel ctx files inp out o dflt = .ok files' ∧
      files'.get? (targetOf inp out) = some ⟨o.outEnc dflt, t⟩ ∧
      (Stored.mk (o.outEnc dflt) t).readAs (o.outEnc dflt) = some t ∧
      c.dec t = some d' ∧ DocMap ctx d d' := by
  obtain ⟨t, hok, hdec, hmap⟩ := fileformat_doc_spec c fuel ctx src d d' hsrc hd hfmt hc
  refine ⟨files.set (targetOf inp out) ⟨o.outEnc dflt, t⟩, t, ?_, Files.get?_set_self _ _ _, ?_, hdec, hmap⟩
  · simp [fileFormatFile, hfile, Stored.readAs, hok]
  · simp [Stored.readAs]

/-- The options: `encodingIn` / `encodingOut` win over `encoding`, which wins over the default; the
    two derived encodings are independent of each other. -/
theorem encopts_spec (o : EncOpts) (dflt : String) :
    (∀ e, o.encodingOut = some e → o.outEnc dflt = e) ∧
    (∀ e, o.encodingIn = some e → o.inEnc dflt = e) ∧
    (o.encodingOut = none → ∀ e, o.encoding = some e → o.outEnc dflt = e) ∧
    (o.encodingIn = none → ∀ e, o.encoding = some e → o.inEnc dflt = e) ∧
    (o.encodingOut = none → o.encoding = none → o.outEnc dflt = dflt) ∧
    (o.encodingIn = none → o.encoding = none → o.inEnc dflt = dflt) := by
  refine ⟨?_, ?_, ?_, ?_, ?_, ?_⟩ <;> intros <;> simp_all [EncOpts.outEnc, EncOpts.inEnc]

/-- **inplace_route_same_as_out_equal_in.** No `out`, an empty `out` and `out` equal to `in` are one
    and the same rewrite: same target, same text, same encoding. -/
theorem inplace_route_same_as_out_equal_in {τ} (c : Codec τ) (fuel : Nat) (ctx : Ctx)
    (files : Files (Stored τ)) (inp : String) (o : EncOpts) (dflt : String) :
    fileFormatFile c fuel ctx files inp none o dflt = fileFormatFile c fuel ctx files inp (some inp) o dflt ∧
    fileFormatFile c fuel ctx files inp none o dflt = fileFormatFile c fuel ctx files inp (some "") o dflt := by
  constructor
  · by_cases h : inp = "" <;> simp [fileFormatFile, targetOf, h]
  · simp [fileFormatFile, targetOf]

private def utf16to8 : EncOpts := { encodingIn := some "utf-16", encodingOut := some "utf-8" }

/-- A UTF-16 document converted to UTF-8 while formatting, in place: the file that replaces the
    source is stored in UTF-8 (not in the encoding it was read with). -/
example : fileFormatFile Codec.ideal 8 ctxEx [("legacy.json", ⟨"utf-16", docEx⟩)] "legacy.json" none utf16to8 "utf-8"
      = .ok [("legacy.json", ⟨"utf-8",
          .dict [(.str "av1", .list [.str "xv1", .int 42, .int 1, .none]), (.str "true", .str "true")]⟩)] ∧
    utf16to8.inEnc "utf-8" = "utf-16" ∧ utf16to8.outEnc "utf-8" = "utf-8" := by
  decide +kernel

/-! ### Sessions: a round trip does not depend on what the process did before

  In the model a codec is a pair of functions (`Codec.enc`, `Codec.dec`): the result of a read is a
  function of the text. `runSession` threads nothing but the files from one operation to the next.
  That the REAL loaders are used statelessly is an assumption about the implementation; the
  correspondence checks it (sessions of several operations in one process, each compared with the
  same operation in a fresh process). -/

theorem runSession_append {τ} (c : Format → Codec τ) (fuel : Nat) (pre post : List SOp) :
    ∀ files : Files τ, runSession c fuel files (pre ++ post) =
      ((runSession c fuel (runSession c fuel files pre).1 post).1,
       (runSession c fuel files pre).2 ++ (runSession c fuel (runSession c fuel files pre).1 post).2) := by
  induction pre with
  | nil => intro files; simp [runSession]
  | cons op ops ih => intro files; simp [runSession, ih]

/-- **roundtrip_after_any_history.** Whatever operations `pre` ran before in the same session — reads
    of files with whatever content, writes, rewrites, in any number — and whatever files existed, a
    write step followed by a fetch step pointed at the same path observes exactly what the pair
    observes on its own: the write succeeds and the fetch stores the payload that was written. -/
theorem roundtrip_after_any_history {τ} (c : Format → Codec τ) (f : Format) (fuel : Nat) (ctx ctx2 : Ctx)
    (files0 : Files τ) (pre : List SOp) (path : String) (p' : Val) (key : Option Val)
    (hw : writePayload f fuel ctx = .ok (path, p')) (hc : (c f).RoundTrips p')
    (hf : fetchArgs f fuel ctx2 = .ok (path, key)) :
    (runSession c fuel files0 (pre ++ [.write f ctx, .fetch f ctx2])).2 =
      (runSession c fuel files0 pre).2 ++
        [.wrote, match store ctx2 key p' with
                 | .ok cx => .fetched cx
                 | .error e => .failed e] := by
  rw [runSession_append]
  obtain ⟨files', h1, h2⟩ := write_fetch_roundtrip f (c f) fuel fuel ctx ctx2
    (runSession c fuel files0 pre).1 path p' key hw hc hf
  simp only [runSession, stepS, h1, h2]
  cases store ctx2 key p' <;> rfl

/-- The same for a rewrite: after any history, formatting a file whose text parses to `d` leaves at
    the target a text that parses to `d` with every string node formatted. -/
theorem fileformat_after_any_history {τ} (c : Format → Codec τ) (f : Format) (fuel : Nat) (ctx : Ctx)
    (files0 : Files τ) (pre : List SOp) (inp : String) (out : Option String) (src : τ) (d d' : Val)
    (hfile : (runSession c fuel files0 pre).1.get? inp = some src)
    (hsrc : (c f).dec src = some d) (hd : isDoc d = true) (hfmt : fmtDoc fuel ctx d = .ok d')
    (hc : (c f).RoundTrips d') :
    ∃ t, (runSession c fuel files0 (pre ++ [.format f ctx inp out])).1.get? (targetOf inp out) = some t ∧
      (c f).dec t = some d' ∧ DocMap ctx d d' := by
  rw [runSession_append]
  obtain ⟨t, hok, hdec, hmap⟩ := fileformat_doc_spec (c f) fuel ctx src d d' hsrc hd hfmt hc
  refine ⟨t, ?_, hdec, hmap⟩
  simp only [runSession, stepS, hfile, hok]
  exact Files.get?_set_self _ _ _

/-- A session: fetch a legacy file, then round-trip a payload of type look-alikes. -/
example : (runSession (fun _ => Codec.ideal) 8 [("legacy.yaml", Val.dict [(.str "name", .str "legacy")])]
      [.fetch .yaml [("fetchYaml", .dict [(.str "path", .str "legacy.yaml"), (.str "key", .str "old")])],
       .write .yaml [("fileWriteYaml", .dict [(.str "path", .str "o.yaml"),
          (.str "payload", .dict [(.str "answer", .str "yes"), (.str "no", .str "12:30:00")])])],
       .fetch .yaml [("fetchYaml", .dict [(.str "path", .str "o.yaml"), (.str "key", .str "back")])]]).1
    = [("legacy.yaml", Val.dict [(.str "name", .str "legacy")]),
       ("o.yaml", Val.dict [(.str "answer", .str "yes"), (.str "no", .str "12:30:00")])] := by
  decide +kernel

/-! ### Encodings of the write step, the fetch step and the file context parser

  `filewrite{json,yaml}` write in `input.get('encoding', config.default_encoding)`; `fetch{json,yaml}`
  read with the same expression over their own input; the file context parsers take NO encoding option
  and read with `config.default_encoding`; toml is bytes (UTF-8) on every side. The model keeps the NAME
  of the encoding next to the text (`Stored`) and `Stored.readAs` is idealised: reading with the same
  name gives the text, reading with another name is a `UnicodeDecodeError`. REAL codecs may instead
  decode to garbage for some pairs (latin-1 decodes any bytes; utf-8-sig reads plain utf-8; ASCII-only
  text is the same bytes in utf-8 and latin-1): the correspondence therefore takes "raises, or returns
  something else than what was written" as the negative side, on payloads with non-ASCII content. -/

private def payload16 : Val := .dict [(.str "título", .str "Señor é"), (.str "l", .list [.str "ü", .int 1])]
private def wctx16 : Ctx :=
  [("fileWriteJson", .dict [(.str "path", .str "my file.json"), (.str "payload", payload16),
      (.str "encoding", .str "utf-16")])]
private def fctx16 : Ctx :=
  [("fetchJson", .dict [(.str "path", .str "my file.json"), (.str "key", .str "out"),
      (.str "encoding", .str "utf-16")])]

/-- **parser_roundtrip_iff_encoding.** A mapping payload is written by `filewriteX` (config default
    `wd` at that time; the step writes in `we`) and the codec round-trips it (the hypothesis of
    `file_parser_roundtrip`). The matching file context parser, invoked under config default `pd` with
    arguments whose single-space join is the path, returns exactly the written mapping IF AND ONLY IF the
    encoding the file was written in equals the encoding the parser reads with (`parserEnc`: the config
    default, `None` = platform utf-8; for toml always utf-8) — otherwise it raises `UnicodeDecodeError`
    (idealised `readAs`, see the section comment). The parser has no `encoding` option: a file written
    with `encoding: utf-16` is NOT read back by it unless `config.default_encoding` is utf-16 too. -/
theorem parser_roundtrip_iff_encoding {τ} (f : Format) (c : Codec τ) (fuel : Nat) (ctx : Ctx)
    (files : Files (Stored τ)) (wd pd : Option String) (path we : String) (kvs : List (Val × Val))
    (args : List String)
    (hw : writePayload f fuel ctx = .ok (path, .dict kvs)) (hc : c.RoundTrips (.dict kvs))
    (hwe : writeEncoding f fuel ctx wd = .ok we) (hne : args ≠ []) (hj : joinArgs args = path) :
    ∃ files', fileWriteStored f c fuel ctx wd files = .ok files' ∧
      (fileParserArgs f c pd (some args) files' = .ok (some (.dict kvs)) ↔ we = parserEnc f pd) ∧
      (we ≠ parserEnc f pd →
        fileParserArgs f c pd (some args) files' = .error ⟨"UnicodeDecodeError", path⟩) := by
  obtain ⟨t, he, hd⟩ := hc
  refine ⟨files.set path ⟨we, t⟩, fileWriteStored_ok f c fuel ctx wd files path we _ t hw hwe he, ?_, ?_⟩
  · rw [fileParserArgs_cons f c pd args _ hne, hj]
    simp only [fileParserPath, Files.get?_set_self]
    by_cases h : we = parserEnc f pd
    · simp [Stored.readAs, h, fileParserF_dict f c t kvs hd]
    · simp [Stored.readAs, h]
  · intro h
    rw [fileParserArgs_cons f c pd args _ hne, hj]
    simp [fileParserPath, Files.get?_set_self, Stored.readAs, h]

/-- The hypotheses are satisfiable, on both sides of the iff. -/
example : writePayload .json 8 wctx16 = .ok ("my file.json", payload16) ∧
    writeEncoding .json 8 wctx16 none = .ok "utf-16" ∧ joinArgs ["my", "file.json"] = "my file.json" ∧
    parserEnc .json none = "utf-8" ∧ parserEnc .json (some "utf-16") = "utf-16" := by
  decide +kernel

/-- TOML has no encodings: the toml parser reads back what `filewritetoml` wrote whatever
    `config.default_encoding` is, at write time and at parse time. -/
theorem toml_parser_roundtrip_any_default {τ} (c : Codec τ) (fuel : Nat) (ctx : Ctx)
    (files : Files (Stored τ)) (wd pd : Option String) (path : String) (kvs : List (Val × Val))
    (args : List String)
    (hw : writePayload .toml fuel ctx = .ok (path, .dict kvs)) (hc : c.RoundTrips (.dict kvs))
    (hne : args ≠ []) (hj : joinArgs args = path) :
    ∃ files', fileWriteStored .toml c fuel ctx wd files = .ok files' ∧
      fileParserArgs .toml c pd (some args) files' = .ok (some (.dict kvs)) := by
  obtain ⟨files', h1, h2, _⟩ := parser_roundtrip_iff_encoding .toml c fuel ctx files wd pd path "utf-8" kvs args
    hw hc rfl hne hj
  exact ⟨files', h1, h2.mpr rfl⟩

/-- json / yaml: no `encoding` option on the write step and the same config default on both sides
    (both `None` counts: platform utf-8): the parser reads the file back. -/
theorem parser_roundtrip_default_encoding {τ} (f : Format) (c : Codec τ) (fuel : Nat) (ctx : Ctx)
    (files : Files (Stored τ)) (dflt : Option String) (path : String) (kvs input : List (Val × Val))
    (args : List String)
    (hin : formattedInput fuel ctx f.writeKey = .ok (.dict input))
    (hopt : dictGet? input (.str "encoding") = none)
    (hw : writePayload f fuel ctx = .ok (path, .dict kvs)) (hc : c.RoundTrips (.dict kvs))
    (hne : args ≠ []) (hj : joinArgs args = path) :
    ∃ files', fileWriteStored f c fuel ctx dflt files = .ok files' ∧
      fileParserArgs f c dflt (some args) files' = .ok (some (.dict kvs)) := by
  have hwe : writeEncoding f fuel ctx dflt = .ok (parserEnc f dflt) := by
    cases f <;> simp [writeEncoding, hin, encodingOpt, hopt, parserEnc]
  obtain ⟨files', h1, h2, _⟩ := parser_roundtrip_iff_encoding f c fuel ctx files dflt dflt path _ kvs args
    hw hc hwe hne hj
  exact ⟨files', h1, h2.mpr rfl⟩

private def wctxToml : Ctx :=
  [("k1", .str "v1"),
   ("fileWriteToml", .dict [(.str "path", .str "out dir/my file.toml"),
      (.str "payload", .dict [(.str "título", .str "Señor {k1}")])])]

/-- The hypotheses of the two corollaries on concrete inputs: a toml write (under ANY config default
    the file is utf-8 and the parser reads utf-8), and a step input without an `encoding` entry. -/
example : writePayload .toml 8 wctxToml = .ok ("out dir/my file.toml", .dict [(.str "título", .str "Señor v1")]) ∧
    joinArgs ["out", "dir/my", "file.toml"] = "out dir/my file.toml" ∧
    writeEncoding .toml 8 wctxToml (some "utf-16") = .ok "utf-8" ∧ parserEnc .toml (some "latin-1") = "utf-8" ∧
    formattedInput 8 wctxToml Format.toml.writeKey =
      .ok (.dict [(.str "path", .str "out dir/my file.toml"),
                  (.str "payload", .dict [(.str "título", .str "Señor v1")])]) ∧
    dictGet? [(.str "path", .str "out dir/my file.toml"),
              (.str "payload", .dict [(.str "título", .str "Señor v1")])] (.str "encoding") = none := by
  decide +kernel

/-- **write_fetch_stored_roundtrip** (the contrast): the fetch step reads with ITS `encoding` option;
    whenever that is the encoding the file was written in, it stores exactly the payload written — for
    every encoding name. -/
theorem write_fetch_stored_roundtrip {τ} (f : Format) (c : Codec τ) (fuel fuel2 : Nat) (ctx ctx2 : Ctx)
    (files : Files (Stored τ)) (wd fd : Option String) (path we : String) (p' : Val) (key : Option Val)
    (hw : writePayload f fuel ctx = .ok (path, p')) (hc : c.RoundTrips p')
    (hwe : writeEncoding f fuel ctx wd = .ok we)
    (hf : fetchArgs f fuel2 ctx2 = .ok (path, key)) (hfe : fetchEncoding f fuel2 ctx2 fd = .ok we) :
    ∃ files', fileWriteStored f c fuel ctx wd files = .ok files' ∧
      fetchStored f c fuel2 ctx2 fd files' = store ctx2 key p' := by
  obtain ⟨t, he, hd⟩ := hc
  exact ⟨files.set path ⟨we, t⟩, fileWriteStored_ok f c fuel ctx wd files path we _ t hw hwe he,
    fetchStored_eq_store f c fuel2 ctx2 fd _ path we key t p' hf hfe (Files.get?_set_self _ _ _) hd⟩

/-- …and with another encoding the fetch step fails like the parser does (idealised `readAs`). -/
theorem write_fetch_stored_other_encoding {τ} (f : Format) (c : Codec τ) (fuel fuel2 : Nat) (ctx ctx2 : Ctx)
    (files : Files (Stored τ)) (wd fd : Option String) (path we fe : String) (p' : Val) (key : Option Val)
    (hw : writePayload f fuel ctx = .ok (path, p')) (hc : c.RoundTrips p')
    (hwe : writeEncoding f fuel ctx wd = .ok we)
    (hf : fetchArgs f fuel2 ctx2 = .ok (path, key)) (hfe : fetchEncoding f fuel2 ctx2 fd = .ok fe)
    (hne : we ≠ fe) :
    ∃ files', fileWriteStored f c fuel ctx wd files = .ok files' ∧
      fetchStored f c fuel2 ctx2 fd files' = .error ⟨"UnicodeDecodeError", path⟩ := by
  obtain ⟨t, he, _⟩ := hc
  exact ⟨files.set path ⟨we, t⟩, fileWriteStored_ok f c fuel ctx wd files path we _ t hw hwe he,
    fetchStored_other_encoding f c fuel2 ctx2 fd _ path fe we key t hf hfe (Files.get?_set_self _ _ _) hne⟩

/-- **write_fetch_roundtrip_every_encoding.** The same `encoding` entry (any string, `None`, or none at
    all) in the inputs of the write step and of the fetch step, under one config default: the round
    trip holds — for EVERY encoding the steps accept, unlike the parser. -/
theorem write_fetch_roundtrip_every_encoding {τ} (f : Format) (c : Codec τ) (fuel fuel2 : Nat) (ctx ctx2 : Ctx)
    (files : Files (Stored τ)) (dflt : Option String) (path we : String) (p' : Val) (key : Option Val)
    (inputW inputF : List (Val × Val))
    (hW : formattedInput fuel ctx f.writeKey = .ok (.dict inputW))
    (hF : formattedInput fuel2 ctx2 f.fetchKey = .ok (.dict inputF))
    (hsame : dictGet? inputF (.str "encoding") = dictGet? inputW (.str "encoding"))
    (hw : writePayload f fuel ctx = .ok (path, p')) (hc : c.RoundTrips p')
    (hwe : writeEncoding f fuel ctx dflt = .ok we)
    (hf : fetchArgs f fuel2 ctx2 = .ok (path, key)) :
    ∃ files', fileWriteStored f c fuel ctx dflt files = .ok files' ∧
      fetchStored f c fuel2 ctx2 dflt files' = store ctx2 key p' :=
  write_fetch_stored_roundtrip f c fuel fuel2 ctx ctx2 files dflt dflt path we p' key hw hc hwe hf
    (by rw [fetchEncoding_eq_writeEncoding f fuel fuel2 ctx ctx2 dflt inputW inputF hW hF hsame, hwe])

/-- The hypotheses on concrete inputs: the fetch input names utf-16 like the write input (so both
    steps agree whatever the config default is); a fetch step told utf-8 does not (`we ≠ fe`). -/
example : fetchArgs .json 8 fctx16 = .ok ("my file.json", some (.str "out")) ∧
    fetchEncoding .json 8 fctx16 none = .ok "utf-16" ∧
    fetchEncoding .json 8 fctx16 (some "latin-1") = .ok "utf-16" ∧
    writeEncoding .json 8 wctx16 (some "latin-1") = .ok "utf-16" ∧
    (∃ inputW inputF, formattedInput 8 wctx16 Format.json.writeKey = .ok (.dict inputW) ∧
      formattedInput 8 fctx16 Format.json.fetchKey = .ok (.dict inputF) ∧
      dictGet? inputF (.str "encoding") = dictGet? inputW (.str "encoding")) ∧
    fetchEncoding .json 8 [("fetchJson", .str "my file.json")] none = .ok "utf-8" ∧
    "utf-16" ≠ "utf-8" := by
  refine ⟨by decide +kernel, by decide +kernel, by decide +kernel, by decide +kernel,
    ⟨[(.str "path", .str "my file.json"), (.str "payload", payload16), (.str "encoding", .str "utf-16")],
     [(.str "path", .str "my file.json"), (.str "key", .str "out"), (.str "encoding", .str "utf-16")],
     by decide +kernel, by decide +kernel, by decide +kernel⟩, by decide +kernel, by decide +kernel⟩

/-- The `encoding` option, as both steps read it: a string is that encoding; a present `None` is the
    platform default whatever the config default is; absent is the config default (platform default
    when that is not set). A plain-string fetch input has no option. -/
theorem encoding_option_table (input : List (Val × Val)) (dflt : Option String) :
    (∀ e, dictGet? input (.str "encoding") = some (.str e) → encodingOpt input dflt = .ok (some e)) ∧
    (dictGet? input (.str "encoding") = some .none → encodingOpt input dflt = .ok none) ∧
    (dictGet? input (.str "encoding") = none → encodingOpt input dflt = .ok dflt) ∧
    platformEnc none = "utf-8" ∧ (∀ e, platformEnc (some e) = e) := by
  refine ⟨?_, ?_, ?_, rfl, fun _ => rfl⟩ <;> intros <;> simp_all [encodingOpt]

/-- **parser_path_is_space_join.** With arguments, the parser opens the single-space join of ALL of
    them: a path containing a space may arrive split over several arguments (`my file.json` as
    `['my', 'file.json']`), and two argument lists with the same join are the same call. -/
theorem parser_path_is_space_join {τ} (f : Format) (c : Codec τ) (dflt : Option String)
    (files : Files (Stored τ)) (args args' : List String) (hne : args ≠ []) :
    (fileParserArgs f c dflt (some args) files =
      match fileParserPath f c dflt (joinArgs args) files with
      | .error e => .error e
      | .ok v => .ok (some v)) ∧
    (args' ≠ [] → joinArgs args' = joinArgs args →
      fileParserArgs f c dflt (some args') files = fileParserArgs f c dflt (some args) files) ∧
    (files.get? (joinArgs args) = none →
      fileParserArgs f c dflt (some args) files = .error ⟨"FileNotFoundError", joinArgs args⟩) := by
  refine ⟨fileParserArgs_cons f c dflt args files hne, ?_, ?_⟩
  · intro hne' hj
    rw [fileParserArgs_cons f c dflt args files hne, fileParserArgs_cons f c dflt args' files hne', hj]
  · intro h
    rw [fileParserArgs_cons f c dflt args files hne]
    simp [fileParserPath, h]

/-- `' '.join`: one argument is the path itself; more are joined by exactly one space each. -/
theorem joinArgs_spec (a b : String) (rest : List String) :
    joinArgs [] = "" ∧ joinArgs [a] = a ∧ joinArgs (a :: b :: rest) = a ++ " " ++ joinArgs (b :: rest) :=
  ⟨rfl, rfl, rfl⟩

example : joinArgs ["my", "file.json"] = "my file.json" ∧ joinArgs ["my file.json"] = "my file.json" ∧
    joinArgs ["a", "", "b"] = "a  b" := by decide +kernel

/-- **parser_no_args_table.** No context arguments (`None` or an empty list): the json and the yaml
    parser raise `AssertionError`; the toml parser returns `None` — no initial context, no error. No
    file is looked at. -/
theorem parser_no_args_table {τ} (c : Codec τ) (dflt : Option String) (files : Files (Stored τ))
    (args : Option (List String)) (h : args = none ∨ args = some []) :
    (∃ m, fileParserArgs .json c dflt args files = .error ⟨"AssertionError", m⟩) ∧
    (∃ m, fileParserArgs .yaml c dflt args files = .error ⟨"AssertionError", m⟩) ∧
    fileParserArgs .toml c dflt args files = .ok none := by
  rcases h with rfl | rfl <;> exact ⟨⟨_, rfl⟩, ⟨_, rfl⟩, rfl⟩

/-- **parser_non_mapping_typeerror.** json / yaml: a file that reads and parses, but not to a mapping
    (a list, a string, a number, null), is a `TypeError`. -/
theorem parser_non_mapping_typeerror {τ} (f : Format) (c : Codec τ) (dflt : Option String)
    (files : Files (Stored τ)) (args : List String) (t : τ) (d : Val)
    (hf : f ≠ .toml) (hne : args ≠ [])
    (hfile : files.get? (joinArgs args) = some ⟨parserEnc f dflt, t⟩)
    (hdec : c.dec t = some d) (hnm : ∀ kvs, d ≠ .dict kvs) :
    ∃ m, fileParserArgs f c dflt (some args) files = .error (typeError m) := by
  rw [fileParserArgs_cons f c dflt args files hne]
  simp only [fileParserPath, hfile, Stored.readAs_self, fileParserF_eq_fileParser f c t hf, fileParser, hdec]
  cases d with
  | dict kvs => exact absurd rfl (hnm kvs)
  | _ => exact ⟨_, rfl⟩

example : fileParserArgs .yaml Codec.ideal none (some ["l.yaml"]) [("l.yaml", ⟨"utf-8", Val.list [.int 1]⟩)]
      = .error (typeError "input should describe a mapping at the top level") ∧
    fileParserArgs .toml Codec.ideal none (some ["l.toml"]) [("l.toml", ⟨"utf-8", Val.dict []⟩)]
      = .ok (some (.dict [])) := by
  decide +kernel

/-- **The witness.** `filewritejson` with `encoding: utf-16` under the default configuration: the file
    context parser (default utf-8) cannot read the file back, although the arguments name it; the fetch
    step with `encoding: utf-16` stores exactly the payload; and the parser does read it once
    `config.default_encoding` is utf-16. -/
theorem utf16_parser_fails_fetch_succeeds :
    fileWriteStored .json Codec.ideal 8 wctx16 none [] = .ok [("my file.json", ⟨"utf-16", payload16⟩)] ∧
    fileParserArgs .json Codec.ideal none (some ["my", "file.json"]) [("my file.json", ⟨"utf-16", payload16⟩)]
      = .error ⟨"UnicodeDecodeError", "my file.json"⟩ ∧
    fetchStored .json Codec.ideal 8 fctx16 none [("my file.json", ⟨"utf-16", payload16⟩)]
      = .ok (Ctx.set fctx16 "out" payload16) ∧
    fileParserArgs .json Codec.ideal (some "utf-16") (some ["my", "file.json"])
      [("my file.json", ⟨"utf-16", payload16⟩)] = .ok (some payload16) := by
  decide +kernel

/-! ### The class of the error when the serialiser refuses the payload -/

/-- **write_error_class.** When the write step got as far as the serialiser and the serialiser refuses
    the payload, the step fails with the serialiser's own exception, whose class depends on the format
    and on the cause: json `TypeError`; yaml ruamel's `RepresenterError`; toml `AttributeError` when the
    top level is not a mapping (tomli_w calls `payload.items()`), `TypeError` when a node inside a
    mapping has no TOML type or a key is not a string. The file level agrees with the value level. -/
theorem write_error_class {τ} (f : Format) (c : Codec τ) (fuel : Nat) (ctx : Ctx) (files : Files τ)
    (filesS : Files (Stored τ)) (dflt : Option String) (we path : String) (payload : Val)
    (hw : writePayload f fuel ctx = .ok (path, payload)) (he : c.enc payload = none)
    (hwe : writeEncoding f fuel ctx dflt = .ok we) :
    fileWrite f c fuel ctx files = .error (serialiseError f payload) ∧
    fileWriteStored f c fuel ctx dflt filesS = .error (serialiseError f payload) ∧
    (f = .json → (serialiseError f payload).name = "TypeError") ∧
    (f = .yaml → (serialiseError f payload).name = "ruamel.yaml.representer.RepresenterError") ∧
    (f = .toml → (∃ kvs, payload = .dict kvs) → (serialiseError f payload).name = "TypeError") ∧
    (f = .toml → (∀ kvs, payload ≠ .dict kvs) → (serialiseError f payload).name = "AttributeError") := by
  have h1 : fileWrite f c fuel ctx files = .error (serialiseError f payload) := by
    simp [fileWrite, hw, he]
  refine ⟨h1, fileWriteStored_error_eq f c fuel ctx dflt filesS files we _ hwe h1, ?_, ?_, ?_, ?_⟩
  · rintro rfl; rfl
  · rintro rfl; rfl
  · rintro rfl ⟨kvs, rfl⟩; rfl
  · rintro rfl hn
    cases payload with
    | dict kvs => exact absurd rfl (hn kvs)
    | _ => rfl

/-- A serialiser that, like tomli_w, refuses a top level that is not a mapping and `None` below it. -/
private def tomlLike : Codec Val :=
  { enc := fun d => match d with
      | .dict kvs => if kvs.all (fun kv => kv.2 != .none) then some d else none
      | _ => none
    dec := some }

private def tomlCtx (payload : Val) : Ctx :=
  [("fileWriteToml", .dict [(.str "path", .str "o.toml"), (.str "payload", payload)])]

/-- The table on concrete payloads (toml): list / str / int → `AttributeError`; a mapping holding
    `None` → `TypeError`; the falsy ones never reach the serialiser (`KeyInContextHasNoValueError`). -/
example :
    fileWrite .toml tomlLike 8 (tomlCtx (.list [.int 1, .int 2])) [] = .error (attributeError "object has no attribute 'items'") ∧
    fileWrite .toml tomlLike 8 (tomlCtx (.str "x")) [] = .error (attributeError "object has no attribute 'items'") ∧
    fileWrite .toml tomlLike 8 (tomlCtx (.int 42)) [] = .error (attributeError "object has no attribute 'items'") ∧
    fileWrite .toml tomlLike 8 (tomlCtx (.dict [(.str "a", .none)])) [] = .error (typeError "Object is not TOML serializable") ∧
    fileWrite .toml tomlLike 8 (tomlCtx (.list [])) [] =
      .error (keyHasNoValue "payload must have a value to write to output TOML document.") ∧
    fileWrite .toml tomlLike 8 (tomlCtx (.dict [(.str "a", .int 1)])) [] = .ok [("o.toml", .dict [(.str "a", .int 1)])] := by
  decide +kernel

/-! ### JSON: the codec hypothesis discharged

  `Json.print o` mirrors `json.dump(d, f, indent=config.json_indent, ensure_ascii=config.json_ascii)`
  for every setting `o` (`o.ind = some n`: an int indent, `none`: `indent=None`; `o.ascii`), `Json.parse`
  mirrors `json.load` (both tied by correspondence, byte for byte / value for value). Domain
  `Json.isJsonK true`: mappings with str/int/float/bool/None keys (duplicates after coercion allowed),
  sequences, strings (every `Char`: all of Unicode but lone surrogates), ints, bools, null, and the
  floats of `Json.fltOk` (canonical dyadic `n/2^k`, at most 15 digits, `|x| ≥ 1e-4` or 0: the floats
  whose `repr` is their exact decimal expansion — `0.1`, exponent forms, `-0.0`, NaN/Infinity are not
  covered and the parser answers `outside` for them). -/

/-- **json_roundtrip_coerce.** For every document `json.dump` accepts and every indent / ensure_ascii
    setting, parsing what the printer prints consumes all the text and gives the document with every
    mapping key replaced by the string `json.dump` writes for it (`42` → `"42"`, `True` → `"true"`,
    `None` → `"null"`, `1.5` → `"1.5"`), mappings rebuilt as `dict(pairs)` does (two keys written as the
    same string: first position, last value). Non-string keys do NOT survive a JSON round trip as
    themselves — this is what really comes back. -/
theorem json_roundtrip_coerce (o : Json.Opts) (d : Val) (h : Json.isJsonK true d = true) :
    Json.parse (Json.print o d) = .ok (Json.coerceKeys d) [] :=
  Json.parse_print_coerce o d h

/-- **json_roundtrip.** With string keys, pairwise distinct in every mapping (`Json.strKeys`: the
    JSON-representable payloads of the property), the document itself comes back — floats included. -/
theorem json_roundtrip (o : Json.Opts) (d : Val) (h : Json.isJsonK true d = true)
    (hk : Json.strKeys d = true) : Json.parse (Json.print o d) = .ok d [] :=
  Json.parse_print o d h hk

/-- On string-keyed documents key coercion changes nothing. -/
theorem json_coerceKeys_id (d : Val) (hk : Json.strKeys d = true) : Json.coerceKeys d = d :=
  Json.coerceKeys_id d hk

/-- **json_roundtrip_stable.** The keys are coerced once, by the first `json.dump`: the value that came
    back is string-keyed, still in the domain, and from then on round-trips exactly — under every
    setting, also another one than it was first written with. -/
theorem json_roundtrip_stable (o : Json.Opts) (d : Val) (h : Json.isJsonK true d = true) :
    Json.strKeys (Json.coerceKeys d) = true ∧ Json.isJsonK true (Json.coerceKeys d) = true ∧
    Json.coerceKeys (Json.coerceKeys d) = Json.coerceKeys d ∧
    Json.parse (Json.print o (Json.coerceKeys d)) = .ok (Json.coerceKeys d) [] :=
  ⟨Json.coerceKeys_strKeys d, Json.coerceKeys_isJsonK true d h, Json.coerceKeys_idem d,
   Json.parse_print_stable o d h⟩

/-- The model's float printer is the shared `fltRepr` (`float.__repr__` on its domain), for all `n k`. -/
theorem json_prFlt_is_fltRepr (n : Int) (k : Nat) : Json.prFlt n k = (fltRepr n k).toList :=
  Json.prFlt_eq_fltRepr n k

/-- The JSON codec, under every setting, satisfies the hypothesis of the theorems above on the
    string-keyed documents. -/
theorem json_codec_roundtrips (o : Json.Opts) (d : Val) (h : Json.isJsonK true d = true)
    (hk : Json.strKeys d = true) : (Json.codec o).RoundTrips d := by
  refine ⟨Json.print o d, ?_, ?_⟩
  · simp [Json.codec, Json.isJsonK_mono d h]
  · simp [Json.codec, json_roundtrip o d h hk]

/-- **write_fetch for JSON, without hypothesis on the codec, any keys `json.dump` accepts.** The
    fetch step stores the payload with its keys coerced (`o`: settings at write time; reading does
    not depend on them). -/
theorem write_fetch_json_coerce (o : Json.Opts) (fuel fuel2 : Nat) (ctx ctx2 : Ctx)
    (files : Files (List Char)) (path : String) (p' : Val) (key : Option Val)
    (hw : writePayload .json fuel ctx = .ok (path, p')) (hj : Json.isJsonK true p' = true)
    (hf : fetchArgs .json fuel2 ctx2 = .ok (path, key)) :
    ∃ files', fileWrite .json (Json.codec o) fuel ctx files = .ok files' ∧
      fetch .json (Json.codec o) fuel2 ctx2 files' = store ctx2 key (Json.coerceKeys p') := by
  refine ⟨files.set path (Json.print o p'), ?_, ?_⟩
  · exact fileWrite_ok .json _ fuel ctx files path p' _ hw (by simp [Json.codec, Json.isJsonK_mono p' hj])
  · exact fetch_eq_store .json _ fuel2 ctx2 _ path key _ _ hf (Files.get?_set_self files path _)
      (by simp [Json.codec, json_roundtrip_coerce o p' hj])

/-- **write_fetch_roundtrip for JSON, without hypothesis on the codec** (string keys: the payload itself). -/
theorem write_fetch_roundtrip_json (o : Json.Opts) (fuel fuel2 : Nat) (ctx ctx2 : Ctx)
    (files : Files (List Char)) (path : String) (p' : Val) (key : Option Val)
    (hw : writePayload .json fuel ctx = .ok (path, p')) (hj : Json.isJsonK true p' = true)
    (hk : Json.strKeys p' = true)
    (hf : fetchArgs .json fuel2 ctx2 = .ok (path, key)) :
    ∃ files', fileWrite .json (Json.codec o) fuel ctx files = .ok files' ∧
      fetch .json (Json.codec o) fuel2 ctx2 files' = store ctx2 key p' :=
  write_fetch_roundtrip .json (Json.codec o) fuel fuel2 ctx ctx2 files path p' key hw
    (json_codec_roundtrips o p' hj hk) hf

/-- **fileformat_doc_spec for JSON, without hypothesis on the codec**: the output parses to the
    formatted document with its keys coerced (a key `'{k2}'` that formats to the int 42 is `"42"`)… -/
theorem fileformatjson_doc_coerce (o : Json.Opts) (fuel : Nat) (ctx : Ctx) (src : List Char) (d d' : Val)
    (hsrc : (Json.codec o).dec src = some d) (hd : isDoc d = true) (hfmt : fmtDoc fuel ctx d = .ok d')
    (hj : Json.isJsonK true d' = true) :
    ∃ out, fileFormatDoc (Json.codec o) fuel ctx src = .ok out ∧
      (Json.codec o).dec out = some (Json.coerceKeys d') ∧ DocMap ctx d d' := by
  have he : (Json.codec o).enc d' = some (Json.print o d') := by
    simp [Json.codec, Json.isJsonK_mono d' hj]
  refine ⟨Json.print o d', ?_, ?_, fmtDoc_maps_strings fuel ctx d d' hd hfmt⟩
  · simp only [fileFormatDoc, hsrc, hfmt, he]
  · simp [Json.codec, json_roundtrip_coerce o d' hj]

/-- …and to the formatted document itself when all its keys are (distinct) strings. -/
theorem fileformatjson_doc_spec (o : Json.Opts) (fuel : Nat) (ctx : Ctx) (src : List Char) (d d' : Val)
    (hsrc : (Json.codec o).dec src = some d) (hd : isDoc d = true) (hfmt : fmtDoc fuel ctx d = .ok d')
    (hj : Json.isJsonK true d' = true) (hk : Json.strKeys d' = true) :
    ∃ out, fileFormatDoc (Json.codec o) fuel ctx src = .ok out ∧ (Json.codec o).dec out = some d' ∧
      DocMap ctx d d' :=
  fileformat_doc_spec (Json.codec o) fuel ctx src d d' hsrc hd hfmt (json_codec_roundtrips o d' hj hk)

/-- The hypotheses hold of the example document, and the round trip computes (default settings). -/
example : Json.isJsonK true docEx = true ∧ Json.strKeys docEx = true := by decide +kernel

example : Json.print {} docEx =
    "{\n  \"a{k1}\": [\n    \"x{k1}\",\n    \"{k2}\",\n    1,\n    null\n  ],\n  \"true\": \"true\"\n}".toList ∧
    Json.parse (Json.print {} docEx) = .ok docEx [] := by
  decide +kernel

/-- Non-string keys (two of them written as the same string), floats, a non-BMP character and DEL. -/
private def docK : Val :=
  .dict [(.int 42, .flt (-5) 2), (.str "42", .list [.flt 1 0, .flt 131073 1, .str "😀\x7fé"]),
         (.bool true, .none), (.none, .int (-7)), (.flt 3 1, .dict [(.int 1, .str "a"), (.str "1", .str "b")])]

example : Json.isJsonK true docK = true ∧ Json.strKeys docK = false := by decide +kernel

example : Json.coerceKeys docK =
    .dict [(.str "42", .list [.flt 1 0, .flt 131073 1, .str "😀\x7fé"]), (.str "true", .none),
           (.str "null", .int (-7)), (.str "1.5", .dict [(.str "1", .str "b")])] := by decide +kernel

/-- `indent=None, ensure_ascii=True`: one line, `\uXXXX` escapes, a surrogate pair — and it reads back. -/
example : Json.print { ind := none, ascii := true } docK =
    ("{\"42\": -1.25, \"42\": [1.0, 65536.5, \"\\ud83d\\ude00\\u007f\\u00e9\"], \"true\": null, " ++
     "\"null\": -7, \"1.5\": {\"1\": \"a\", \"1\": \"b\"}}").toList ∧
    Json.parse (Json.print { ind := none, ascii := true } docK) = .ok (Json.coerceKeys docK) [] := by
  decide +kernel

/-- `indent=0`: newlines, no blanks. -/
example : Json.print { ind := some 0 } (.list [.int 1, .dict [(.str "a", .flt 1 1)]]) =
    "[\n1,\n{\n\"a\": 0.5\n}\n]".toList := by decide +kernel


/-! ## Position independence, entry order, and what a failed fileformat leaves (fourth round)

  Entry ORDER is carried by the model: documents are association LISTS, `fmtDoc` rebuilds a mapping entry by entry in
  order (`fmtDoc_dict_entries`: pairwise distinct formatted keys => exactly the formatted entries, in order), the JSON
  printer writes members in list order and `json_roundtrip_coerce` is an equality of lists - so formatting a key (to a
  string or to an int / bool / None / float that `coerceKeys` then spells as json.dump does) never moves its entry, and
  a serialiser that sorted the members (or refused keys of mixed types) is not this model: the check compares the
  entry order of every output document with the source's and reports a step that raises on a representable document.
  `fmtDoc_in_list` / `fmtDoc_under_key`: a mapping is formatted the same wherever it sits in the tree.
  `fileFormatFileS`: the files after a step that raised - the source is intact on every route
  (`failed_fileformat_keeps_source`), in place nothing changes (`failed_fileformat_inplace_changes_nothing`); with an
  `out` path the out file is left truncated (opened before formatting: compared by the harness as an observation). -/

theorem Files.get?_set_other' {τ} (files : Files τ) (p q : String) (t : τ) (h : p ≠ q) :
    (files.set p t).get? q = files.get? q := by
  induction files with
  | nil => simp [Files.set, Files.get?, h]
  | cons a as ih =>
    obtain ⟨k, v⟩ := a
    by_cases hk : k = p
    · subst hk; simp [Files.set, Files.get?, h]
    · by_cases hq : k = q
      · subst hq; simp [Files.set, Files.get?, hk]
      · simp [Files.set, Files.get?, hk, hq, ih]

/-- A mapping inside a list is formatted as it is formatted on its own: position in the tree does not matter. -/
theorem fmtDoc_in_list (fuel : Nat) (ctx : Ctx) (d r : Val)
    (h : fmtDoc (fuel + 1) ctx (.list [d]) = .ok r) :
    ∃ d', r = .list [d'] ∧ fmtDoc (fuel + 1) ctx d = .ok d' := by
  simp only [fmtDoc, fmtVal, fmtIter, mapE] at h
  cases hd : fmtIter fuel ctx false d with
  | error e => simp [hd, Except.map] at h
  | ok d' =>
    simp [hd, Except.map] at h
    exact ⟨d', h.symm, C09.fmtIter_mono (Nat.le_succ _) hd⟩

/-- …and so is a mapping under a key; the key itself goes through the same formatter. -/
theorem fmtDoc_under_key (fuel : Nat) (ctx : Ctx) (k d r : Val)
    (h : fmtDoc (fuel + 1) ctx (.dict [(k, d)]) = .ok r) :
    ∃ fk d', r = .dict [(fk, d')] ∧ fmtDoc (fuel + 1) ctx k = .ok fk ∧ fmtDoc (fuel + 1) ctx d = .ok d' := by
  simp only [fmtDoc, fmtVal, fmtIter, mapE] at h
  cases hk : fmtIter fuel ctx false k with
  | error e => simp [hk] at h
  | ok fk =>
    cases hv : fmtIter fuel ctx false d with
    | error e => simp [hk, hv] at h
    | ok fv =>
      simp [hk, hv, rebuildDict, dictSet] at h
      exact ⟨fk, fv, h.symm, C09.fmtIter_mono (Nat.le_succ _) hk, C09.fmtIter_mono (Nat.le_succ _) hv⟩

/-- `ObjectRewriter.in_to_out` when it RAISES: what is on disk afterwards. A failure before the source is loaded
    (missing, undecodable, unparsable) touches nothing. After that, with an `out` path that is another file, the
    code has opened it for writing BEFORE the document is formatted and dumped: a failure of either leaves it
    truncated (`trunc`: empty or partial text); in place, the temp file is removed and nothing changes. -/
def fileFormatFileS {τ} (c : Codec τ) (fuel : Nat) (ctx : Ctx) (files : Files (Stored τ))
    (inp : String) (out : Option String) (o : EncOpts) (dflt : String) (trunc : τ) :
    Files (Stored τ) × Option Exc :=
  match fileFormatFile c fuel ctx files inp out o dflt with
  | .ok fs => (fs, none)
  | .error e =>
    match files.get? inp with
    | none => (files, some e)
    | some s =>
      match s.readAs (o.inEnc dflt) with
      | none => (files, some e)
      | some src =>
        match c.dec src with
        | none => (files, some e)
        | some _ =>
          if targetOf inp out = inp then (files, some e)
          else (files.set (targetOf inp out) ⟨o.outEnc dflt, trunc⟩, some e)

/-- A fileformat step that raised leaves the SOURCE file exactly as it was, on every route. -/
theorem failed_fileformat_keeps_source {τ} (c : Codec τ) (fuel : Nat) (ctx : Ctx) (files : Files (Stored τ))
    (inp : String) (out : Option String) (o : EncOpts) (dflt : String) (trunc : τ) (e : Exc)
    (h : (fileFormatFileS c fuel ctx files inp out o dflt trunc).2 = some e) :
    (fileFormatFileS c fuel ctx files inp out o dflt trunc).1.get? inp = files.get? inp := by
  unfold fileFormatFileS at h ⊢
  split
  · rename_i fs hok; simp [hok] at h
  · split
    · rfl
    · split
      · rfl
      · split
        · rfl
        · split
          · rfl
          · rename_i hne
            exact Files.get?_set_other' _ _ _ _ hne

/-- In place (no out / out names the source) a failed step changes no file at all. -/
theorem failed_fileformat_inplace_changes_nothing {τ} (c : Codec τ) (fuel : Nat) (ctx : Ctx)
    (files : Files (Stored τ)) (inp : String) (out : Option String) (o : EncOpts) (dflt : String) (trunc : τ)
    (e : Exc) (hin : targetOf inp out = inp)
    (h : (fileFormatFileS c fuel ctx files inp out o dflt trunc).2 = some e) :
    (fileFormatFileS c fuel ctx files inp out o dflt trunc).1 = files := by
  unfold fileFormatFileS at h ⊢
  split
  · rename_i fs hok; simp [hok] at h
  · split
    · rfl
    · split
      · rfl
      · split
        · rfl
        · simp [hin]


end Pypyr.C16
