import PypyrModel.Codec
namespace Pypyr.C16
theorem placeholder : True := trivial
end Pypyr.C16
