/-
  C16 — structured file steps round-trip and format every string node.

  Model: `PypyrModel/Codec.lean`. What is proved here is pypyr's glue and the string-node map, for
  EVERY document tree, context, nesting depth and recursion budget:

  * `fmtDoc_maps_strings` — the formatter applied to a document replaces every string node (keys
    included) by its formatted value and leaves every other node as it is (`DocMap`);
  * `fileformat_doc_spec` — `parse (fileformatX src) = fmtDoc (parse src)`;
  * `write_fetch_roundtrip` (+ `_at_key`, `_at_root`, `file_parser_roundtrip`) — fetch after write
    stores exactly the payload the write step serialised, and that payload is the formatted input;
  both under the explicit codec hypothesis `c.RoundTrips d` (`∃ t, enc d = some t ∧ dec t = some d`).
  For YAML (ruamel.yaml) and TOML (tomli_w/tomllib) that hypothesis is validated by generation only
  (harness/props/c16.py checks it directly on every generated payload; known failure: U+0085).
  For JSON it is DISCHARGED: `json_roundtrip : Json.parse (Json.print d) = .ok d []` for every document
  of objects with distinct string keys, arrays, strings, ints, bools, null (`Props/Lemmas/C16_Json*.lean`),
  hence `json_codec_roundtrips` and the hypothesis-free `write_fetch_roundtrip_json`.
-/
import Props.Lemmas.C16_Glue
import Props.Lemmas.C16_JsonRoundTrip

namespace Pypyr.C16
open Pypyr.Codec

instance {ε α} [DecidableEq ε] [DecidableEq α] : DecidableEq (Except ε α) := fun a b =>
  match a, b with
  | .ok x, .ok y => if h : x = y then isTrue (by rw [h]) else isFalse (by intro h'; cases h'; exact h rfl)
  | .error x, .error y => if h : x = y then isTrue (by rw [h]) else isFalse (by intro h'; cases h'; exact h rfl)
  | .ok _, .error _ => isFalse (by intro h; cases h)
  | .error _, .ok _ => isFalse (by intro h; cases h)

instance {α} [DecidableEq α] : DecidableEq (Json.PR α) := fun a b =>
  match a, b with
  | .ok x r, .ok y q =>
      if h : x = y ∧ r = q then isTrue (by rw [h.1, h.2])
      else isFalse (by intro h'; cases h'; exact h ⟨rfl, rfl⟩)
  | .bad, .bad => isTrue rfl
  | .outside, .outside => isTrue rfl
  | .ok _ _, .bad => isFalse (by intro h; cases h)
  | .ok _ _, .outside => isFalse (by intro h; cases h)
  | .bad, .ok _ _ => isFalse (by intro h; cases h)
  | .bad, .outside => isFalse (by intro h; cases h)
  | .outside, .ok _ _ => isFalse (by intro h; cases h)
  | .outside, .bad => isFalse (by intro h; cases h)

private def ctxEx : Ctx := [("k1", .str "v1"), ("k2", .int 42)]
private def docEx : Val :=
  .dict [(.str "a{k1}", .list [.str "x{k1}", .str "{k2}", .int 1, .none]), (.str "true", .str "true")]

/-- **fmtDoc_maps_strings.** For every document tree `d`: if formatting succeeds with result `d'`
    then `DocMap ctx d d'` — every string node, keys included, is replaced by its formatted value,
    lists and mappings are rebuilt entry by entry in order (so the shape is preserved), and every
    other node is unchanged. -/
theorem fmtDoc_maps_strings (fuel : Nat) (ctx : Ctx) (d d' : Val) (hd : isDoc d = true)
    (h : fmtDoc fuel ctx d = .ok d') : DocMap ctx d d' :=
  fmtIter_docMap ctx fuel d d' hd h

example : fmtDoc 8 ctxEx docEx =
    .ok (.dict [(.str "av1", .list [.str "xv1", .int 42, .int 1, .none]), (.str "true", .str "true")]) := by
  decide +kernel

/-- Shape: a list keeps its length… -/
theorem fmtDoc_list_length (fuel : Nat) (ctx : Ctx) (xs : List Val) (d' : Val)
    (hd : isDoc (.list xs) = true) (h : fmtDoc fuel ctx (.list xs) = .ok d') :
    ∃ ys, d' = .list ys ∧ ys.length = xs.length := by
  have := fmtDoc_maps_strings fuel ctx _ _ hd h
  simp only [DocMap] at this
  obtain ⟨ys, rfl, hl⟩ := this
  exact ⟨ys, rfl, hl.length⟩

/-- …and a mapping whose formatted keys stay pairwise distinct keeps exactly its entries, in order,
    key and value formatted. -/
theorem fmtDoc_dict_entries (fuel : Nat) (ctx : Ctx) (kvs : List (Val × Val)) (d' : Val)
    (hd : isDoc (.dict kvs) = true) (h : fmtDoc fuel ctx (.dict kvs) = .ok d') :
    ∃ kvs', DocMapPairs ctx kvs kvs' ∧ kvs'.length = kvs.length ∧ d' = .dict (rebuildDict kvs') ∧
      ((keysOf kvs').Nodup → d' = .dict kvs') := by
  have := fmtDoc_maps_strings fuel ctx _ _ hd h
  simp only [DocMap] at this
  obtain ⟨kvs', rfl, hp⟩ := this
  exact ⟨kvs', hp, hp.length, rfl, fun hn => by rw [rebuildDict_distinct kvs' hn]⟩

/-- Nodes that are not strings or containers are left exactly as they are. -/
theorem fmtDoc_scalar_unchanged (fuel : Nat) (ctx : Ctx) (d d' : Val)
    (hs : d = .none ∨ (∃ b, d = .bool b) ∨ (∃ i, d = .int i) ∨ ∃ n k, d = .flt n k)
    (h : fmtDoc fuel ctx d = .ok d') : d' = d := by
  rcases hs with rfl | ⟨b, rfl⟩ | ⟨i, rfl⟩ | ⟨n, k, rfl⟩ <;>
    · have := fmtDoc_maps_strings fuel ctx _ _ (by simp [isDoc]) h
      simpa [DocMap] using this

/-- **fileformat_doc_spec.** `ObjectRewriter` at value level: if the source parses to the document
    `d`, formatting `d` gives `d'`, and the codec round-trips `d'` (the hypothesis), then the step
    succeeds and its output parses to `d'`, which is `d` with every string node formatted. -/
theorem fileformat_doc_spec {τ} (c : Codec τ) (fuel : Nat) (ctx : Ctx) (src : τ) (d d' : Val)
    (hsrc : c.dec src = some d) (hd : isDoc d = true) (hfmt : fmtDoc fuel ctx d = .ok d')
    (hc : c.RoundTrips d') :
    ∃ out, fileFormatDoc c fuel ctx src = .ok out ∧ c.dec out = some d' ∧ DocMap ctx d d' := by
  obtain ⟨t, he, hdec⟩ := hc
  exact ⟨t, by simp [fileFormatDoc, hsrc, hfmt, he], hdec, fmtDoc_maps_strings fuel ctx d d' hd hfmt⟩

example : fileFormatDoc Codec.ideal 8 ctxEx docEx =
    .ok (.dict [(.str "av1", .list [.str "xv1", .int 42, .int 1, .none]), (.str "true", .str "true")]) := by
  decide +kernel

/-- **write_fetch_roundtrip.** If the write step hands payload `p'` to the serialiser for `path`,
    the codec round-trips `p'` (the hypothesis), and the fetch step is pointed at the same path, then
    the write succeeds and the fetch step stores exactly `p'` (at the key, or merged at root). -/
theorem write_fetch_roundtrip {τ} (f : Format) (c : Codec τ) (fuel fuel2 : Nat) (ctx ctx2 : Ctx)
    (files : Files τ) (path : String) (p' : Val) (key : Option Val)
    (hw : writePayload f fuel ctx = .ok (path, p')) (hc : c.RoundTrips p')
    (hf : fetchArgs f fuel2 ctx2 = .ok (path, key)) :
    ∃ files', fileWrite f c fuel ctx files = .ok files' ∧
      fetch f c fuel2 ctx2 files' = store ctx2 key p' := by
  obtain ⟨t, he, hd⟩ := hc
  exact ⟨files.set path t, fileWrite_ok f c fuel ctx files path p' t hw he,
    fetch_eq_store f c fuel2 ctx2 _ path key t p' hf (Files.get?_set_self files path t) hd⟩

/-- Round trip into a destination key: `context[key]` is the payload that was written. -/
theorem write_fetch_roundtrip_at_key {τ} (f : Format) (c : Codec τ) (fuel fuel2 : Nat) (ctx ctx2 : Ctx)
    (files : Files τ) (path k : String) (p' : Val) (hk : k ≠ "")
    (hw : writePayload f fuel ctx = .ok (path, p')) (hc : c.RoundTrips p')
    (hf : fetchArgs f fuel2 ctx2 = .ok (path, some (.str k))) :
    ∃ files' ctx', fileWrite f c fuel ctx files = .ok files' ∧
      fetch f c fuel2 ctx2 files' = .ok ctx' ∧ ctx'.get? k = some p' ∧
      ∀ k2, k2 ≠ k → ctx'.get? k2 = ctx2.get? k2 := by
  obtain ⟨files', h1, h2⟩ := write_fetch_roundtrip f c fuel fuel2 ctx ctx2 files path p' _ hw hc hf
  refine ⟨files', Ctx.set ctx2 k p', h1, ?_, Ctx.get?_set_self ctx2 k p',
    fun k2 h => Ctx.get?_set_other ctx2 k k2 p' h⟩
  rw [h2]
  simp [store, Val.truthy, hk]

/-- Round trip merged at context root (no key, or an empty key): every entry of the written
    mapping is in the context afterwards. -/
theorem write_fetch_roundtrip_at_root {τ} (f : Format) (c : Codec τ) (fuel fuel2 : Nat) (ctx ctx2 : Ctx)
    (files : Files τ) (path : String) (kvs : List (Val × Val)) (es : List (String × Val))
    (key : Option Val) (hkey : key = none ∨ key = some (.str ""))
    (hes : strEntries kvs = some es) (hnd : (es.map (·.1)).Nodup)
    (hw : writePayload f fuel ctx = .ok (path, .dict kvs)) (hc : c.RoundTrips (.dict kvs))
    (hf : fetchArgs f fuel2 ctx2 = .ok (path, key)) :
    ∃ files' ctx', fileWrite f c fuel ctx files = .ok files' ∧
      fetch f c fuel2 ctx2 files' = .ok ctx' ∧ ∀ kv ∈ es, ctx'.get? kv.1 = some kv.2 := by
  obtain ⟨files', h1, h2⟩ := write_fetch_roundtrip f c fuel fuel2 ctx ctx2 files path _ key hw hc hf
  refine ⟨files', Ctx.update ctx2 es, h1, ?_, Ctx.get?_update es ctx2 hnd⟩
  rw [h2]
  rcases hkey with rfl | rfl <;> simp [store, hes, Val.truthy]

/-- The payload the write step serialises is the `payload` entry of the step's input with every
    string node of the input formatted — or, when no payload is given, the whole formatted context. -/
theorem write_payload_is_formatted (f : Format) (fuel : Nat) (ctx : Ctx) (raw : List (Val × Val))
    (path : String) (p' : Val) (hin : ctx.get? f.writeKey = some (.dict raw))
    (hraw : isDocPairs raw = true) (hw : writePayload f fuel ctx = .ok (path, p')) :
    ∃ input, DocMapPairs ctx raw input ∧
      (dictGet? (rebuildDict input) (.str "payload") = some p' ∨
       (dictGet? (rebuildDict input) (.str "payload") = none ∧ fmtDoc fuel ctx (Ctx.toVal ctx) = .ok p')) := by
  simp only [writePayload, formattedInput, hin] at hw
  cases hfm : fmtVal fuel ctx (.dict raw) with
  | error e => simp [hfm] at hw
  | ok v =>
    have hm := fmtDoc_maps_strings fuel ctx (.dict raw) v (by simpa [isDoc] using hraw) hfm
    simp only [DocMap] at hm
    obtain ⟨input, rfl, hp⟩ := hm
    refine ⟨input, hp, ?_⟩
    simp only [hfm] at hw
    cases hpath : pathOf (rebuildDict input) with
    | error e => simp [hpath] at hw
    | ok pth =>
      simp only [hpath] at hw
      cases hpl : dictGet? (rebuildDict input) (.str "payload") with
      | none =>
        simp only [hpl] at hw
        right
        refine ⟨rfl, ?_⟩
        cases hwh : fmtVal fuel ctx (Ctx.toVal ctx) with
        | error e => simp [hwh] at hw
        | ok whole =>
          simp only [hwh, Except.ok.injEq, Prod.mk.injEq] at hw
          simp [fmtDoc, hwh, hw.2]
      | some payload =>
        simp only [hpl] at hw
        left
        split at hw
        · cases hw
        · simp only [Except.ok.injEq, Prod.mk.injEq] at hw
          simp [hw.2]

/-- The file context parsers: a file written from a mapping payload is parsed back to it. -/
theorem file_parser_roundtrip {τ} (f : Format) (c : Codec τ) (fuel : Nat) (ctx : Ctx) (files : Files τ)
    (path : String) (kvs : List (Val × Val))
    (hw : writePayload f fuel ctx = .ok (path, .dict kvs)) (hc : c.RoundTrips (.dict kvs)) :
    ∃ files' t, fileWrite f c fuel ctx files = .ok files' ∧ files'.get? path = some t ∧
      fileParser c t = .ok (.dict kvs) := by
  obtain ⟨t, he, hd⟩ := hc
  exact ⟨files.set path t, t, fileWrite_ok f c fuel ctx files path _ t hw he,
    Files.get?_set_self files path t, by simp [fileParser, hd]⟩

private def wctxEx : Ctx :=
  [("k1", .str "v1"),
   ("fileWriteJson", .dict [(.str "path", .str "out/f.json"),
      (.str "payload", .dict [(.str "a", .str "x{k1}"), (.str "n", .list [.int 1, .none])])])]
private def fctxEx : Ctx :=
  [("fetchJson", .dict [(.str "path", .str "out/f.json"), (.str "key", .str "out")])]

example : writePayload .json 8 wctxEx =
    .ok ("out/f.json", .dict [(.str "a", .str "xv1"), (.str "n", .list [.int 1, .none])]) ∧
    fetchArgs .json 8 fctxEx = .ok ("out/f.json", some (.str "out")) := by
  decide +kernel

/-- The defect repaired by 37680ff, as a witness: with the OLD closing log statement
    (`len(payload)` unguarded) fetching a top-level number into a key raised, although the file
    had been written and parsed (the value is JSON-representable). -/
theorem fetch_scalar_raises_pre_fix :
    fetchWith false .json Codec.ideal 8 fctxEx [("out/f.json", Val.int 42)]
      = .error (typeError "object has no len()") ∧
    fetch .json Codec.ideal 8 fctxEx [("out/f.json", Val.int 42)]
      = .ok (Ctx.set fctxEx "out" (.int 42)) := by
  decide +kernel

/-! ### Encodings: the output is in the OUT encoding on every route -/

/-- **fileformat_file_spec.** `ObjectRewriter.in_to_out` at file level, for every combination of
    `encoding` / `encodingIn` / `encodingOut` and for BOTH routes (`out` another path: written straight
    to it; no `out`, an empty `out` or `out` equal to `in`: the temp file that replaces `in`): if the
    source is stored in the IN encoding and parses to `d`, the step succeeds, and the file at the
    target path is stored in the OUT encoding, reads back with the OUT encoding, and parses to `d` with
    every string node formatted. -/
theorem fileformat_file_spec {τ} (c : Codec τ) (fuel : Nat) (ctx : Ctx) (files : Files (Stored τ))
    (inp : String) (out : Option String) (o : EncOpts) (dflt : String) (src : τ) (d d' : Val)
    (hfile : files.get? inp = some ⟨o.inEnc dflt, src⟩)
    (hsrc : c.dec src = some d) (hd : isDoc d = true) (hfmt : fmtDoc fuel ctx d = .ok d')
    (hc : c.RoundTrips d') :
    ∃ files' t, fileFormatFile c fuel ctx files inp out o dflt = .ok files' ∧
      files'.get? (targetOf inp out) = some ⟨o.outEnc dflt, t⟩ ∧
      (Stored.mk (o.outEnc dflt) t).readAs (o.outEnc dflt) = some t ∧
      c.dec t = some d' ∧ DocMap ctx d d' := by
  obtain ⟨t, hok, hdec, hmap⟩ := fileformat_doc_spec c fuel ctx src d d' hsrc hd hfmt hc
  refine ⟨files.set (targetOf inp out) ⟨o.outEnc dflt, t⟩, t, ?_, Files.get?_set_self _ _ _, ?_, hdec, hmap⟩
  · simp [fileFormatFile, hfile, Stored.readAs, hok]
  · simp [Stored.readAs]

/-- The options: `encodingIn` / `encodingOut` win over `encoding`, which wins over the default; the
    two derived encodings are independent of each other. -/
theorem encopts_spec (o : EncOpts) (dflt : String) :
    (∀ e, o.encodingOut = some e → o.outEnc dflt = e) ∧
    (∀ e, o.encodingIn = some e → o.inEnc dflt = e) ∧
    (o.encodingOut = none → ∀ e, o.encoding = some e → o.outEnc dflt = e) ∧
    (o.encodingIn = none → ∀ e, o.encoding = some e → o.inEnc dflt = e) ∧
    (o.encodingOut = none → o.encoding = none → o.outEnc dflt = dflt) ∧
    (o.encodingIn = none → o.encoding = none → o.inEnc dflt = dflt) := by
  refine ⟨?_, ?_, ?_, ?_, ?_, ?_⟩ <;> intros <;> simp_all [EncOpts.outEnc, EncOpts.inEnc]

/-- **inplace_route_same_as_out_equal_in.** No `out`, an empty `out` and `out` equal to `in` are one
    and the same rewrite: same target, same text, same encoding. -/
theorem inplace_route_same_as_out_equal_in {τ} (c : Codec τ) (fuel : Nat) (ctx : Ctx)
    (files : Files (Stored τ)) (inp : String) (o : EncOpts) (dflt : String) :
    fileFormatFile c fuel ctx files inp none o dflt = fileFormatFile c fuel ctx files inp (some inp) o dflt ∧
    fileFormatFile c fuel ctx files inp none o dflt = fileFormatFile c fuel ctx files inp (some "") o dflt := by
  constructor
  · by_cases h : inp = "" <;> simp [fileFormatFile, targetOf, h]
  · simp [fileFormatFile, targetOf]

private def utf16to8 : EncOpts := { encodingIn := some "utf-16", encodingOut := some "utf-8" }

/-- A UTF-16 document converted to UTF-8 while formatting, in place: the file that replaces the
    source is stored in UTF-8 (not in the encoding it was read with). -/
example : fileFormatFile Codec.ideal 8 ctxEx [("legacy.json", ⟨"utf-16", docEx⟩)] "legacy.json" none utf16to8 "utf-8"
      = .ok [("legacy.json", ⟨"utf-8",
          .dict [(.str "av1", .list [.str "xv1", .int 42, .int 1, .none]), (.str "true", .str "true")]⟩)] ∧
    utf16to8.inEnc "utf-8" = "utf-16" ∧ utf16to8.outEnc "utf-8" = "utf-8" := by
  decide +kernel

/-! ### Sessions: a round trip does not depend on what the process did before

  In the model a codec is a pair of functions (`Codec.enc`, `Codec.dec`): the result of a read is a
  function of the text. `runSession` threads nothing but the files from one operation to the next.
  That the REAL loaders are used statelessly is an assumption about the implementation; the
  correspondence checks it (sessions of several operations in one process, each compared with the
  same operation in a fresh process). -/

theorem runSession_append {τ} (c : Format → Codec τ) (fuel : Nat) (pre post : List SOp) :
    ∀ files : Files τ, runSession c fuel files (pre ++ post) =
      ((runSession c fuel (runSession c fuel files pre).1 post).1,
       (runSession c fuel files pre).2 ++ (runSession c fuel (runSession c fuel files pre).1 post).2) := by
  induction pre with
  | nil => intro files; simp [runSession]
  | cons op ops ih => intro files; simp [runSession, ih]

/-- **roundtrip_after_any_history.** Whatever operations `pre` ran before in the same session — reads
    of files with whatever content, writes, rewrites, in any number — and whatever files existed, a
    write step followed by a fetch step pointed at the same path observes exactly what the pair
    observes on its own: the write succeeds and the fetch stores the payload that was written. -/
theorem roundtrip_after_any_history {τ} (c : Format → Codec τ) (f : Format) (fuel : Nat) (ctx ctx2 : Ctx)
    (files0 : Files τ) (pre : List SOp) (path : String) (p' : Val) (key : Option Val)
    (hw : writePayload f fuel ctx = .ok (path, p')) (hc : (c f).RoundTrips p')
    (hf : fetchArgs f fuel ctx2 = .ok (path, key)) :
    (runSession c fuel files0 (pre ++ [.write f ctx, .fetch f ctx2])).2 =
      (runSession c fuel files0 pre).2 ++
        [.wrote, match store ctx2 key p' with
                 | .ok cx => .fetched cx
                 | .error e => .failed e] := by
  rw [runSession_append]
  obtain ⟨files', h1, h2⟩ := write_fetch_roundtrip f (c f) fuel fuel ctx ctx2
    (runSession c fuel files0 pre).1 path p' key hw hc hf
  simp only [runSession, stepS, h1, h2]
  cases store ctx2 key p' <;> rfl

/-- The same for a rewrite: after any history, formatting a file whose text parses to `d` leaves at
    the target a text that parses to `d` with every string node formatted. -/
theorem fileformat_after_any_history {τ} (c : Format → Codec τ) (f : Format) (fuel : Nat) (ctx : Ctx)
    (files0 : Files τ) (pre : List SOp) (inp : String) (out : Option String) (src : τ) (d d' : Val)
    (hfile : (runSession c fuel files0 pre).1.get? inp = some src)
    (hsrc : (c f).dec src = some d) (hd : isDoc d = true) (hfmt : fmtDoc fuel ctx d = .ok d')
    (hc : (c f).RoundTrips d') :
    ∃ t, (runSession c fuel files0 (pre ++ [.format f ctx inp out])).1.get? (targetOf inp out) = some t ∧
      (c f).dec t = some d' ∧ DocMap ctx d d' := by
  rw [runSession_append]
  obtain ⟨t, hok, hdec, hmap⟩ := fileformat_doc_spec (c f) fuel ctx src d d' hsrc hd hfmt hc
  refine ⟨t, ?_, hdec, hmap⟩
  simp only [runSession, stepS, hfile, hok]
  exact Files.get?_set_self _ _ _

/-- A session: fetch a legacy file, then round-trip a payload of type look-alikes. -/
example : (runSession (fun _ => Codec.ideal) 8 [("legacy.yaml", Val.dict [(.str "name", .str "legacy")])]
      [.fetch .yaml [("fetchYaml", .dict [(.str "path", .str "legacy.yaml"), (.str "key", .str "old")])],
       .write .yaml [("fileWriteYaml", .dict [(.str "path", .str "o.yaml"),
          (.str "payload", .dict [(.str "answer", .str "yes"), (.str "no", .str "12:30:00")])])],
       .fetch .yaml [("fetchYaml", .dict [(.str "path", .str "o.yaml"), (.str "key", .str "back")])]]).1
    = [("legacy.yaml", Val.dict [(.str "name", .str "legacy")]),
       ("o.yaml", Val.dict [(.str "answer", .str "yes"), (.str "no", .str "12:30:00")])] := by
  decide +kernel

/-! ### JSON: the codec hypothesis discharged -/

/-- **json_roundtrip.** For every document of objects with pairwise distinct string keys, arrays,
    strings, ints, bools and null (floats excluded), parsing what the printer prints gives the
    document back, with nothing left over. The printer mirrors
    `json.dump(d, f, indent=2, ensure_ascii=False)`, the parser `json.load` (tied by correspondence). -/
theorem json_roundtrip (d : Val) (h : Json.isJson false d = true) :
    Json.parse (Json.print d) = .ok d [] :=
  Json.parse_print d h

/-- The JSON codec satisfies the hypothesis of the theorems above on its whole (float-free) domain. -/
theorem json_codec_roundtrips (d : Val) (h : Json.isJson false d = true) : Json.codec.RoundTrips d := by
  refine ⟨Json.print d, ?_, ?_⟩
  · simp [Json.codec, Json.isJson_mono d h]
  · simp [Json.codec, json_roundtrip d h]

/-- **write_fetch_roundtrip for JSON, without hypothesis on the codec.** -/
theorem write_fetch_roundtrip_json (fuel fuel2 : Nat) (ctx ctx2 : Ctx) (files : Files (List Char))
    (path : String) (p' : Val) (key : Option Val)
    (hw : writePayload .json fuel ctx = .ok (path, p')) (hj : Json.isJson false p' = true)
    (hf : fetchArgs .json fuel2 ctx2 = .ok (path, key)) :
    ∃ files', fileWrite .json Json.codec fuel ctx files = .ok files' ∧
      fetch .json Json.codec fuel2 ctx2 files' = store ctx2 key p' :=
  write_fetch_roundtrip .json Json.codec fuel fuel2 ctx ctx2 files path p' key hw
    (json_codec_roundtrips p' hj) hf

/-- **fileformat_doc_spec for JSON, without hypothesis on the codec.** -/
theorem fileformatjson_doc_spec (fuel : Nat) (ctx : Ctx) (src : List Char) (d d' : Val)
    (hsrc : Json.codec.dec src = some d) (hd : isDoc d = true) (hfmt : fmtDoc fuel ctx d = .ok d')
    (hj : Json.isJson false d' = true) :
    ∃ out, fileFormatDoc Json.codec fuel ctx src = .ok out ∧ Json.codec.dec out = some d' ∧ DocMap ctx d d' :=
  fileformat_doc_spec Json.codec fuel ctx src d d' hsrc hd hfmt (json_codec_roundtrips d' hj)

/-- The hypothesis of `json_roundtrip` holds of the example document, and the round trip computes. -/
example : Json.isJson false docEx = true := by decide +kernel

example : Json.print docEx =
    "{\n  \"a{k1}\": [\n    \"x{k1}\",\n    \"{k2}\",\n    1,\n    null\n  ],\n  \"true\": \"true\"\n}".toList ∧
    Json.parse (Json.print docEx) = .ok docEx [] := by
  decide +kernel

end Pypyr.C16
