/-
  C02 — Control-of-flow signals are never treated as errors and unwind their scope.

  Model: PypyrModel/Flow/*. `Res.stop / stopPipeline / stopGroup / jump c / call c` are the
  instructions; `Res.err` is a failure. Everything below is for arbitrary step definitions
  (any subset of in/run/skip/swallow/retry/foreach/while, any values), arbitrary module bodies,
  arbitrary called groups, arbitrary programs, states and fuel.
-/
import Props.Lemmas.FlowRunner
import Props.Lemmas.C02_Origin
import Props.Lemmas.C11_Pype

namespace Pypyr.C02
open Pypyr Pypyr.Flow

/-! ## never an error, never swallowed, never retried, never recorded -/

/-- retry: an attempt that ends in an instruction ends the retry loop at once with that
    instruction and the state of that moment — no further attempt, no sleep. -/
theorem retry_never_reattempts_signal (cfg : RetryCfg) (fr : Frame) (inner : Frame → Body) (max : Option Int)
    (fuel k : Nat) (bo : BackoffState) (s s1 : St) (σ : Res)
    (hi : inner { fr with retryC := some k } { s with ctx := Ctx.set s.ctx "retryCounter" (.int k) } = (s1, σ))
    (hσ : σ.isSignal = true) :
    retryIter cfg fr inner max (fuel + 1) k bo s = (s1, σ) :=
  retryIter_nonerr cfg fr inner max fuel k bo s s1 σ hi (signal_not_err hσ)

/-- run/skip/swallow: an instruction passes `run_conditional_decorators` unchanged: `swallow` is not
    consulted (its value is irrelevant, even an expression that would fail), `save_error` is not
    called (the state is exactly the inner body's state, so no `runErrors` entry). -/
theorem swallow_never_suppresses_signal (d : StepDef) (inner : Body) (s s1 : St) (σ : Res)
    (hrun : fmtB s d.run = .ok true) (hskip : fmtB s d.skip = .ok false)
    (hi : inner s = (s1, σ)) (hσ : σ.isSignal = true) :
    runConditional d inner s = (s1, σ) :=
  runConditional_nonerr d inner s s1 σ hrun hskip hi (signal_not_err hσ)

/-- foreach: the iteration in which an instruction is raised is the last one. -/
theorem foreach_ends_on_signal (fr : Frame) (inner : Frame → Body) (x : Val) (rest : List Val) (s s1 : St) (σ : Res)
    (hi : inner { fr with forI := some x } { s with ctx := Ctx.set s.ctx "i" x } = (s1, σ))
    (hσ : σ.isSignal = true) :
    foreachItems fr inner (x :: rest) s = (s1, σ) :=
  foreachItems_cons_nonok fr inner x rest s s1 σ hi (signal_ne_ok hσ)

/-- while: likewise; the stop condition is not evaluated, nothing sleeps. -/
theorem while_ends_on_signal (cfg : WhileCfg) (fr : Frame) (inner : Frame → Body) (max : Option Nat) (sleep : Num)
    (eom : Bool) (fuel k : Nat) (s s1 : St) (σ : Res)
    (hi : inner { fr with whileC := some k } { s with ctx := Ctx.set s.ctx "whileCounter" (.int k) } = (s1, σ))
    (hσ : σ.isSignal = true) :
    whileIter cfg fr inner max sleep eom (fuel + 1) k s = (s1, σ) :=
  whileIter_nonok cfg fr inner max sleep eom fuel k s s1 σ hi (signal_ne_ok hσ)

/-- invoke: an instruction raised by the step module itself leaves `invoke_step` unchanged. -/
theorem invoke_passes_signal (fr : Frame) (body : Body) (callee : CofCfg → Body) (s s1 : St) (σ : Res)
    (hb : body s = (s1, σ)) (hσ : σ.isSignal = true) :
    invokeStep fr body callee s = (s1, σ) :=
  invokeStep_noncall fr body callee s s1 σ hb (by intro c hc; subst hc; simp [Res.isSignal] at hσ)

/-- invoke: an instruction coming **out of the groups a call step ran** leaves the calling step as that
    instruction — not wrapped as an error (the clause repaired by fix e55e305). (`hco`: the raw
    configuration under the instruction's key is truthy - for `call: ''` / `call: []` the `assert` in the
    `finally` of `invoke_step` fails; the groups such a configuration names never end in an instruction,
    see `falsy_call_config_never_signals`.) -/
theorem invoke_call_passes_signal (fr : Frame) (body : Body) (callee : CofCfg → Body) (s s1 s2 : St)
    (c : CofCfg) (σ : Res) (hb : body s = (s1, .call c)) (hc : callee c s1 = (s2, σ)) (hσ : σ.isSignal = true)
    (hco : c.original.truthy = true) :
    invokeStep fr body callee s = (resetCounters fr c s2, σ) := by
  rw [invokeStep_call fr body callee s s1 s2 c σ hb hc hco]
  cases σ <;> simp_all [Res.isSignal]

/-- **Whole step, any decorator stack**: whenever a step returns an instruction, that very instruction
    was returned by its module body or by the groups it called, and the step's final state is the state
    of that moment (plus the caller's counters written back): nothing was recorded in `runErrors`,
    nothing slept, no further attempt or iteration ran, `swallow` had no say. -/
theorem decorated_step_signal (d : StepDef) (body : Body) (callee : CofCfg → Body) (fuel : Nat)
    (s s' : St) (σ : Res) (h : runStepWith d body callee fuel s = (s', σ)) (hσ : σ.isSignal = true) :
    (∃ s0, body s0 = (s', σ)) ∨
    (∃ fr s0 s1 s2 c, body s0 = (s1, .call c) ∧ callee c s1 = (s2, σ) ∧ s' = resetCounters fr c s2) :=
  runStepWith_signal_origin d body callee fuel s s' σ h hσ

/-- **… with history: what the step did before the signal, and that it did nothing after it.**
    `decorated_step_signal` alone leaves the state `s0` in which the signalling body invocation started
    unconstrained. Here, for every relation `R` that is global in the sense of `Props/Lemmas/FlowGlobal.lean`
    and preserved by the module body and by the called groups: `R s s0` - and, when the signal came out of
    called groups, `R s s2` for the state `s2` in which they ended. The step's final state is the body's
    (`s'`), respectively `s2` with the caller's counters and call config written back - so whatever `R`
    says about `s ↦ s0` (`s ↦ s2`) is ALL that happened: nothing after the signal. -/
theorem decorated_step_signal_history {R : St → St → Prop} (G : GlobalRel R) (d : StepDef) (body : Body)
    (callee : CofCfg → Body) (fuel : Nat) (hb : Pres R body) (hc : ∀ c, Pres R (callee c))
    (s s' : St) (σ : Res) (h : runStepWith d body callee fuel s = (s', σ)) (hσ : σ.isSignal = true) :
    (∃ s0, R s s0 ∧ body s0 = (s', σ)) ∨
    (∃ fr s0 s1 s2 c, R s s0 ∧ body s0 = (s1, .call c) ∧ callee c s1 = (s2, σ) ∧ s' = resetCounters fr c s2 ∧
      R s s2 ∧ c.original.truthy = true) :=
  runStepWith_signal_origin_rel G d body callee fuel hb hc s s' σ h hσ

/-- … instantiated with `GrewRel` (trace, sleeps, ghost log of escapes: only appended to; exception counter:
    only counted up; pipeline stack: untouched): **the state in which a decorated step returns a signal has
    exactly the trace, the sleeps, the escapes, the exception counter and the stack of the moment the signal
    was produced** (`sσ`: the state the module body - or the groups it called - returned with σ), and that
    moment's records extend those the step was entered with. In particular: no sleep, no event, no escape
    (hence no `runErrors` entry, `C07.runErrors_are_the_escapes`) was added after the signal. -/
theorem decorated_step_signal_state (d : StepDef) (body : Body) (callee : CofCfg → Body) (fuel : Nat)
    (hb : Pres GrewRel body) (hc : ∀ c, Pres GrewRel (callee c))
    (s s' : St) (σ : Res) (h : runStepWith d body callee fuel s = (s', σ)) (hσ : σ.isSignal = true) :
    ∃ sσ, GrewRel s sσ ∧
      s'.trace = sσ.trace ∧ s'.sleeps = sσ.sleeps ∧ s'.escapes = sσ.escapes ∧ s'.nextExc = sσ.nextExc ∧
      s'.stack = sσ.stack ∧
      ((∃ s0, body s0 = (sσ, σ) ∧ s' = sσ) ∨
       (∃ fr s0 s1 c, body s0 = (s1, .call c) ∧ callee c s1 = (sσ, σ) ∧ s' = resetCounters fr c sσ)) := by
  rcases decorated_step_signal_history grewRel_global d body callee fuel hb hc s s' σ h hσ with
    ⟨s0, hr, hb'⟩ | ⟨fr, s0, s1, s2, c, _, hb', hc', he, hr2, _⟩
  · have hg : GrewRel s0 s' := by have := hb s0; rw [hb'] at this; exact this
    exact ⟨s', grewRel_global.trans hr hg, rfl, rfl, rfl, rfl, rfl, .inl ⟨s0, hb', rfl⟩⟩
  · refine ⟨s2, hr2, ?_, ?_, ?_, ?_, ?_, .inr ⟨fr, s0, s1, c, hb', hc', he⟩⟩ <;> rw [he] <;> rfl

/-- the hypotheses of `decorated_step_signal_state` for the three stop steps: their bodies change nothing. -/
theorem stop_bodies_preserve (σ : Res) : Pres GrewRel (fun s => (s, σ)) := fun s => grewRel_global.refl s

/-- … and for the real callee of every step, the complete interpreter `run_step_groups`: for every program,
    pipeline and fuel. -/
theorem groups_callee_preserves (fuel : Nat) (prog : Program) (pipe : String) :
    ∀ c : CofCfg, Pres GrewRel (fun s' => runGroups fuel prog (s'.stack.head?.getD pipe) c.groups c.success c.failure s') :=
  fun c s' => (allPres grewRel_global prog fuel).2.2.2.2.2.1 _ _ _ _ s'

/-- **The two falsy call configurations never produce a signal**: the groups `call: ''` names (`['']`) and
    those `call: []` names (`[]`), run without a failure handler (a string / list configuration has none),
    always end in an error - `''` is no group name, an empty list is "no groups" - (or, a model artefact,
    out of fuel). So the side condition `hco` of `invoke_call_passes_signal` excludes no signal at all. -/
theorem falsy_call_config_never_signals (fuel : Nat) (prog : Program) (pipe : String) (su : Option String) (s : St) :
    (runGroups fuel prog pipe [] su none s).2.isSignal = false ∧
    (runGroups fuel prog pipe [""] su none s).2.isSignal = false := by
  constructor
  · cases fuel with
    | zero => unfold runGroups; rfl
    | succ n => unfold runGroups; rfl
  · cases fuel with
    | zero => unfold runGroups; rfl
    | succ n =>
      rw [runGroups_eq]
      have hm : (mainPhase n prog pipe [""] su s).2.isErr = true ∨ (mainPhase n prog pipe [""] su s).2 = .outOfFuel := by
        unfold mainPhase
        cases n with
        | zero => right; unfold runGroupList; rfl
        | succ m =>
          rw [runGroupList_cons]
          cases m with
          | zero => right; unfold runStepGroup; rfl
          | succ k => left; rw [runStepGroup_empty_name]; rfl
      generalize mainPhase n prog pipe [""] su s = p at hm
      obtain ⟨s1, r⟩ := p
      cases r <;> simp_all [Res.isErr, Res.isSignal, hasFailureGroup]

/-- what `pypyr.steps.call` puts into the instruction for those two configurations (the raw configuration
    is what the context holds under `call`; it formats to itself). -/
theorem falsy_call_configs (s : St) :
    (Ctx.get? s.ctx "call" = some (.str "") →
      cofStep "call" true s = (s, .call { groups := [""], success := none, failure := none, key := "call",
                                           original := .str "" })) ∧
    (Ctx.get? s.ctx "call" = some (.list []) →
      cofStep "call" true s = (s, .call { groups := [], success := none, failure := none, key := "call",
                                           original := .list [] })) := by
  have hne : ∀ v, Ctx.get? s.ctx "call" = some v → s.ctx.isEmpty = false := by
    intro v h
    cases hc : s.ctx with
    | nil => rw [hc] at h; simp [Ctx.get?] at h
    | cons _ _ => rfl
  constructor
  · intro h
    have h1 : fmtAtKey s (.str "") = .ok (.str "") := by
      unfold fmtAtKey fmtV fmtVal
      have : fmtIter FMT_FUEL s.ctx false (.str "") = .ok (.str "") := rfl
      rw [this]
    unfold cofStep assertKeyHasValue
    simp only [hne _ h, h, h1, Bool.false_eq_true, if_false]
    rfl
  · intro h
    have h1 : fmtAtKey s (.list []) = .ok (.list []) := by
      unfold fmtAtKey fmtV fmtVal
      have : fmtIter FMT_FUEL s.ctx false (.list []) = .ok (.list []) := rfl
      rw [this]
    unfold cofStep assertKeyHasValue
    simp only [hne _ h, h, h1, Bool.false_eq_true, if_false]
    rfl

/-- writing the counters back touches only `whileCounter`, `i`, `retryCounter` and the call key:
    in particular it never creates a `runErrors` entry. -/
theorem resetCounters_keeps_runErrors (fr : Frame) (c : CofCfg) (s : St)
    (hk : c.key ≠ "runErrors") :
    Ctx.get? (resetCounters fr c s).ctx "runErrors" = Ctx.get? s.ctx "runErrors" := by
  have hset : ∀ (cx : Ctx) (k : String) (v : Val), k ≠ "runErrors" →
      Ctx.get? (Ctx.set cx k v) "runErrors" = Ctx.get? cx "runErrors" := by
    intro cx k v hne
    induction cx with
    | nil => simp [Ctx.set, Ctx.get?, hne]
    | cons kv rest ih =>
      obtain ⟨k', v'⟩ := kv
      by_cases hkk : k' = k
      · subst hkk; simp [Ctx.set, Ctx.get?, hne]
      · by_cases hkr : k' = "runErrors"
        · subst hkr
          have : ¬ ("runErrors" = k) := fun h => hne h.symm
          simp [Ctx.set, Ctx.get?, this]
        · simp [Ctx.set, Ctx.get?, hkk, hkr, ih]
  unfold resetCounters
  simp only []
  cases fr.whileC <;> cases fr.forI <;> cases fr.retryC <;> simp only [] <;>
    split <;> simp [hset, hk]

/-! ## each instruction unwinds exactly its scope -/

/-- `stopstepgroup` ends only the step-group it was raised in: the group call returns normally, so the
    next requested group and the success handler still run. -/
theorem stopGroup_ends_only_its_group (fuel : Nat) (prog : Program) (pipe g : String) (s s1 : St)
    (h : runSteps fuel prog pipe (groupSteps prog pipe g) s = (s1, .stopGroup)) (hg0 : g ≠ "") :
    runStepGroup (fuel + 1) prog pipe g false s = (s1, .ok) := by
  rw [runStepGroup_of_run fuel prog pipe g false s s1 _ h (by simp) (by simp) hg0]; rfl

theorem stopGroup_next_group_runs (fuel : Nat) (prog : Program) (pipe g : String) (rest : List String) (s s1 : St)
    (h : runSteps fuel prog pipe (groupSteps prog pipe g) s = (s1, .stopGroup)) (hg0 : g ≠ "") :
    runGroupList (fuel + 2) prog pipe (g :: rest) s = runGroupList (fuel + 1) prog pipe rest s1 := by
  rw [runGroupList_cons, stopGroup_ends_only_its_group fuel prog pipe g s s1 h hg0]

/-- in a failure handler the same instruction is what turns the failure into a quiet end. -/
theorem stopGroup_in_failure_handler_is_quiet_end (fuel : Nat) (prog : Program) (pipe g : String) (gs : List String)
    (success failure : Option String) (s s1 s2 : St) (e : ExcV) (hd : Bool)
    (hm : mainPhase fuel prog pipe (g :: gs) success s = (s1, .err e hd))
    (hf : hasFailureGroup failure = true)
    (hh : runFailureGroup fuel prog pipe failure s1 = (s2, .stopGroup)) :
    runGroups (fuel + 1) prog pipe (g :: gs) success failure s = (s2, .ok) := by
  rw [runGroups_eq, hm]; simp only [hf, if_true, hh]

/-- Stop and StopPipeline raised in the requested groups or the success group never start the
    failure handler; the group runner hands them on unchanged. -/
theorem stop_skips_failure_handler (fuel : Nat) (prog : Program) (pipe g : String) (gs : List String)
    (success failure : Option String) (s s1 : St) (σ : Res)
    (hm : mainPhase fuel prog pipe (g :: gs) success s = (s1, σ)) (hσ : σ = .stop ∨ σ = .stopPipeline) :
    runGroups (fuel + 1) prog pipe (g :: gs) success failure s = (s1, σ) := by
  rw [runGroups_eq, hm]; rcases hσ with h | h <;> subst h <;> rfl

/-- `stoppipeline` ends only the current pipeline: whoever ran it sees a normal completion,
    and its entry is gone from the pipeline stack. -/
theorem stopPipeline_ends_only_its_pipeline (fuel : Nat) (prog : Program) (pi : PipeInst) (pd : PipeDef)
    (s s1 s2 : St) (hp : prog.find? pi.name = some pd) (hgb : pi.groupsBad = false)
    (hprep : prepareContext pd pi { s with stack := pi.name :: s.stack } = (s1, .ok))
    (hg : runGroups fuel prog pi.name (effectiveGroups pi).1 (effectiveGroups pi).2.1 (effectiveGroups pi).2.2 s1
            = (s2, .stopPipeline)) :
    runPipeline (fuel + 1) prog pi s = ({ s2 with stack := s2.stack.drop 1 }, .ok) := by
  rw [runPipeline_eq fuel prog pi pd s hp hgb]
  simp only [hprep, hg]

/-- … also when it is issued by the failure handler that runs after a failed context parser
    (the case repaired by fix 89ea24a). -/
theorem stopPipeline_from_parser_failure_handler (fuel : Nat) (prog : Program) (pi : PipeInst) (pd : PipeDef)
    (s s1 s2 : St) (e : ExcV) (hd : Bool) (hp : prog.find? pi.name = some pd) (hgb : pi.groupsBad = false)
    (hprep : prepareContext pd pi { s with stack := pi.name :: s.stack } = (s1, .err e hd))
    (hh : runFailureGroup fuel prog pi.name (effectiveGroups pi).2.2 s1 = (s2, .stopPipeline)) :
    runPipeline (fuel + 1) prog pi s = ({ s2 with stack := s2.stack.drop 1 }, .ok) := by
  rw [runPipeline_eq fuel prog pi pd s hp hgb]
  simp only [hprep, hh]

/-- `stop` is handed on unchanged by the pipeline (only the root turns it into success). -/
theorem stop_leaves_pipeline (fuel : Nat) (prog : Program) (pi : PipeInst) (pd : PipeDef)
    (s s1 s2 : St) (hp : prog.find? pi.name = some pd) (hgb : pi.groupsBad = false)
    (hprep : prepareContext pd pi { s with stack := pi.name :: s.stack } = (s1, .ok))
    (hg : runGroups fuel prog pi.name (effectiveGroups pi).1 (effectiveGroups pi).2.1 (effectiveGroups pi).2.2 s1
            = (s2, .stop)) :
    runPipeline (fuel + 1) prog pi s = ({ s2 with stack := s2.stack.drop 1 }, .stop) := by
  rw [runPipeline_eq fuel prog pi pd s hp hgb]
  simp only [hprep, hg]

/-! ## jump and call never reach a failure handler, a pipeline, the caller -/

/-- **No `Call` ever leaves a step** (it is consumed by `invoke_step`), whatever the decorators, provided
    the callee never hands one back - which the real callee never does (`no_call_no_jump_escapes`). -/
theorem step_never_returns_call (d : StepDef) (body : Body) (callee : CofCfg → Body) (fuel : Nat)
    (hc : ∀ c s c', (callee c s).2 ≠ .call c') (s : St) (c' : CofCfg) :
    (runStepWith d body callee fuel s).2 ≠ .call c' :=
  runStepWith_ne_call d body callee fuel hc s c'

/-- **Result classes, for every program, every fuel, every state**: a step and a step list never return a
    `Call`; a step-group, the loop over the requested groups, the failure handler, `run_step_groups`, a
    pipeline and the pype step never return a `Call` NOR a `Jump` (the `Jump` is consumed by the step-group
    it was raised in). So neither instruction can ever be the "error" `run_step_groups` reacts to with a
    failure handler, nor reach a parent pipeline or the API caller. By mutual induction on the fuel. -/
theorem no_call_no_jump_escapes (prog : Program) (fuel : Nat) :
    (∀ pipe d s c, (runStep fuel prog pipe d s).2 ≠ .call c) ∧
    (∀ pipe ds s c, (runSteps fuel prog pipe ds s).2 ≠ .call c) ∧
    (∀ pipe g rs s, NoCJ (runStepGroup fuel prog pipe g rs s).2) ∧
    (∀ pipe gs s, NoCJ (runGroupList fuel prog pipe gs s).2) ∧
    (∀ pipe g s, NoCJ (runFailureGroup fuel prog pipe g s).2) ∧
    (∀ pipe gs su fa s, NoCJ (runGroups fuel prog pipe gs su fa s).2) ∧
    (∀ pi s, NoCJ (runPipeline fuel prog pi s).2) ∧
    (∀ s, NoCJ (pypeBody fuel prog s).2) :=
  allNoCJ prog fuel

theorem runStepGroup_ne_jump (fuel : Nat) (prog : Program) (pipe g : String) (rs : Bool) (s : St) (c : CofCfg) :
    (runStepGroup fuel prog pipe g rs s).2 ≠ .jump c := ((allNoCJ prog fuel).2.2.1 pipe g rs s).2 c

theorem runGroups_ne_jump_call (fuel : Nat) (prog : Program) (pipe : String) (gs : List String)
    (su fa : Option String) (s : St) (c : CofCfg) :
    (runGroups fuel prog pipe gs su fa s).2 ≠ .jump c ∧ (runGroups fuel prog pipe gs su fa s).2 ≠ .call c :=
  ⟨((allNoCJ prog fuel).2.2.2.2.2.1 pipe gs su fa s).2 c, ((allNoCJ prog fuel).2.2.2.2.2.1 pipe gs su fa s).1 c⟩

theorem runPipeline_ne_jump_call (fuel : Nat) (prog : Program) (pi : PipeInst) (s : St) (c : CofCfg) :
    (runPipeline fuel prog pi s).2 ≠ .jump c ∧ (runPipeline fuel prog pi s).2 ≠ .call c :=
  ⟨((allNoCJ prog fuel).2.2.2.2.2.2.1 pi s).2 c, ((allNoCJ prog fuel).2.2.2.2.2.2.1 pi s).1 c⟩

/-- the API caller never sees a jump or a call either. -/
theorem runRoot_ne_jump_call (fuel : Nat) (prog : Program) (pi : PipeInst) (s : St) (c : CofCfg) :
    (runRoot fuel prog pi s).2 ≠ .jump c ∧ (runRoot fuel prog pi s).2 ≠ .call c := by
  have h := runPipeline_ne_jump_call fuel prog pi s c
  rw [runRoot_eq]
  generalize runPipeline fuel prog pi s = p at h
  obtain ⟨s1, r⟩ := p
  cases r <;> simp_all

/-! ## across pipelines (pype): StopPipeline ends only the child, Stop every parent -/

/-- **`stoppipeline` in a pyped child: the parent carries on with its next step.** The child pipeline turns
    the StopPipeline raised in its groups into a normal end (`stopPipeline_ends_only_its_pipeline`); the
    pype step that ran it therefore completes normally (no `out` to copy, or the copy succeeds) - and
    `run_pipeline_steps` of the parent goes on with the step after the pype step. -/
theorem child_stopPipeline_parent_carries_on (fuel : Nat) (prog : Program) (s : St) (a : PypeArgs)
    (ha : getPypeArgs s = .ok a) (ho : a.out = none)
    (hend : (if a.useParent then runPipeline fuel prog (C11.pypeInst a) (C11.mergeArgs a s)
             else runPipeline fuel prog (C11.pypeInst a) (C11.childStart a s)).2 = .ok) :
    (pypeBody (fuel + 1) prog s).2 = .ok := by
  rw [C11.pypeBody_eq, ha]
  simp only [C11.pypeWith]
  cases hu : a.useParent with
  | true =>
    rw [hu] at hend
    simp only [if_true] at hend ⊢
    unfold C11.pypeShared
    generalize runPipeline fuel prog (C11.pypeInst a) (C11.mergeArgs a s) = p at hend
    obtain ⟨s1, r⟩ := p
    simp only [] at hend; subst hend; rfl
  | false =>
    rw [hu] at hend
    simp only [Bool.false_eq_true, if_false] at hend ⊢
    generalize hp : runPipeline fuel prog (C11.pypeInst a) (C11.childStart a s) = p at hend
    obtain ⟨c1, r⟩ := p
    simp only [] at hend; subst hend
    rw [C11.pypeOwn_ok_noout a _ s c1 hp ho]; rfl

/-- **`stop` in a pyped child ends every parent**: the child pipeline hands the Stop on
    (`stop_leaves_pipeline`), the pype step hands it on (it is no error: `raiseError` has no say, nothing is
    copied out), and so does every layer above it (`decorated` layers: `swallow_never_suppresses_signal` …,
    the group runner: `stop_skips_failure_handler`, the parent pipeline: `stop_leaves_pipeline`) up to the
    root, which reports success (`root_reports_success`). -/
theorem child_stop_leaves_pype_step (fuel : Nat) (prog : Program) (s : St) (a : PypeArgs)
    (ha : getPypeArgs s = .ok a)
    (hend : (if a.useParent then runPipeline fuel prog (C11.pypeInst a) (C11.mergeArgs a s)
             else runPipeline fuel prog (C11.pypeInst a) (C11.childStart a s)).2 = .stop) :
    (pypeBody (fuel + 1) prog s).2 = .stop := by
  rw [C11.pypeBody_eq, ha]
  simp only [C11.pypeWith]
  cases hu : a.useParent with
  | true =>
    rw [hu] at hend
    simp only [if_true] at hend ⊢
    unfold C11.pypeShared
    generalize runPipeline fuel prog (C11.pypeInst a) (C11.mergeArgs a s) = p at hend
    obtain ⟨s1, r⟩ := p
    simp only [] at hend; subst hend; rfl
  | false =>
    rw [hu] at hend
    simp only [Bool.false_eq_true, if_false] at hend ⊢
    generalize hp : runPipeline fuel prog (C11.pypeInst a) (C11.childStart a s) = p at hend
    obtain ⟨c1, r⟩ := p
    simp only [] at hend; subst hend
    rw [C11.pypeOwn_nonok a _ s c1 .stop hp (by simp)]; rfl

/-- a pipeline never hands a StopPipeline to whoever ran it, a pype step never to its parent
    (`C11.stopPipeline_never_leaves_a_pipeline`, restated here). -/
theorem stopPipeline_never_reaches_a_parent (fuel : Nat) (prog : Program) :
    (∀ pi s, (runPipeline fuel prog pi s).2 ≠ .stopPipeline) ∧ (∀ s, (pypeBody fuel prog s).2 ≠ .stopPipeline) :=
  ⟨C11.runPipeline_ne_stopPipeline fuel prog, C11.pypeBody_ne_stopPipeline fuel prog⟩

/-- the run reports success to its caller for every Stop-family instruction that reaches the root. -/
theorem root_reports_success (fuel : Nat) (prog : Program) (pi : PipeInst) (s s1 : St) (σ : Res)
    (h : runPipeline fuel prog pi s = (s1, σ)) (hσ : σ.isStopFamily = true) :
    runRoot fuel prog pi s = (s1, .ok) := by
  rw [runRoot_eq, h]; cases σ <;> simp_all [Res.isStopFamily]

/-! ## non-vacuity: a concrete pipeline in which Stop is raised under swallow + retry inside a called group -/

def demoProg : Program := ⟨[{ name := "main", groups := [
  ("steps", .steps [
    { name := some "pypyr.steps.call", inArgs := some [("call", .str "sg")], swallow := .bool true,
      retry := some { max := some (.int 3) } },
    { name := some "vprobe", inArgs := some [("p", .dict [(.str "tag", .str "after")])] }]),
  ("sg", .steps [{ name := some "pypyr.steps.stop", simple := true }])] }]⟩

/-- the run ends successfully, the step after the call never runs, nothing is recorded, nothing slept. -/
example :
    let r := runRoot 50 demoProg { name := "main" } {}
    r.2 = .ok ∧ r.1.trace = [] ∧ Ctx.get? r.1.ctx "runErrors" = none ∧ r.1.sleeps = [] := by
  decide +kernel

end Pypyr.C02
