/-
  C02 — Control-of-flow signals are never treated as errors and unwind their scope.

  Model: PypyrModel/Flow/*. `Res.stop / stopPipeline / stopGroup / jump c / call c` are the
  instructions; `Res.err` is a failure. Everything below is for arbitrary step definitions
  (any subset of in/run/skip/swallow/retry/foreach/while, any values), arbitrary module bodies,
  arbitrary called groups, arbitrary programs, states and fuel.
-/
import Props.Lemmas.FlowRunner

namespace Pypyr.C02
open Pypyr Pypyr.Flow

/-! ## never an error, never swallowed, never retried, never recorded -/

/-- retry: an attempt that ends in an instruction ends the retry loop at once with that
    instruction and the state of that moment — no further attempt, no sleep. -/
theorem retry_never_reattempts_signal (cfg : RetryCfg) (fr : Frame) (inner : Frame → Body) (max : Option Nat)
    (fuel k : Nat) (bo : BackoffState) (s s1 : St) (σ : Res)
    (hi : inner { fr with retryC := some k } { s with ctx := Ctx.set s.ctx "retryCounter" (.int k) } = (s1, σ))
    (hσ : σ.isSignal = true) :
    retryIter cfg fr inner max (fuel + 1) k bo s = (s1, σ) :=
  retryIter_nonerr cfg fr inner max fuel k bo s s1 σ hi (signal_not_err hσ)

/-- run/skip/swallow: an instruction passes `run_conditional_decorators` unchanged: `swallow` is not
    consulted (its value is irrelevant, even an expression that would fail), `save_error` is not
    called (the state is exactly the inner body's state, so no `runErrors` entry). -/
theorem swallow_never_suppresses_signal (d : StepDef) (inner : Body) (s s1 : St) (σ : Res)
    (hrun : fmtB s d.run = .ok true) (hskip : fmtB s d.skip = .ok false)
    (hi : inner s = (s1, σ)) (hσ : σ.isSignal = true) :
    runConditional d inner s = (s1, σ) :=
  runConditional_nonerr d inner s s1 σ hrun hskip hi (signal_not_err hσ)

/-- foreach: the iteration in which an instruction is raised is the last one. -/
theorem foreach_ends_on_signal (fr : Frame) (inner : Frame → Body) (x : Val) (rest : List Val) (s s1 : St) (σ : Res)
    (hi : inner { fr with forI := some x } { s with ctx := Ctx.set s.ctx "i" x } = (s1, σ))
    (hσ : σ.isSignal = true) :
    foreachItems fr inner (x :: rest) s = (s1, σ) :=
  foreachItems_cons_nonok fr inner x rest s s1 σ hi (signal_ne_ok hσ)

/-- while: likewise; the stop condition is not evaluated, nothing sleeps. -/
theorem while_ends_on_signal (cfg : WhileCfg) (fr : Frame) (inner : Frame → Body) (max : Option Nat) (sleep : Num)
    (eom : Bool) (fuel k : Nat) (s s1 : St) (σ : Res)
    (hi : inner { fr with whileC := some k } { s with ctx := Ctx.set s.ctx "whileCounter" (.int k) } = (s1, σ))
    (hσ : σ.isSignal = true) :
    whileIter cfg fr inner max sleep eom (fuel + 1) k s = (s1, σ) :=
  whileIter_nonok cfg fr inner max sleep eom fuel k s s1 σ hi (signal_ne_ok hσ)

/-- invoke: an instruction raised by the step module itself leaves `invoke_step` unchanged. -/
theorem invoke_passes_signal (fr : Frame) (body : Body) (callee : CofCfg → Body) (s s1 : St) (σ : Res)
    (hb : body s = (s1, σ)) (hσ : σ.isSignal = true) :
    invokeStep fr body callee s = (s1, σ) :=
  invokeStep_noncall fr body callee s s1 σ hb (by intro c hc; subst hc; simp [Res.isSignal] at hσ)

/-- invoke: an instruction coming **out of the groups a call step ran** leaves the calling step as that
    instruction — not wrapped as an error (the clause repaired by fix e55e305). -/
theorem invoke_call_passes_signal (fr : Frame) (body : Body) (callee : CofCfg → Body) (s s1 s2 : St)
    (c : CofCfg) (σ : Res) (hb : body s = (s1, .call c)) (hc : callee c s1 = (s2, σ)) (hσ : σ.isSignal = true) :
    invokeStep fr body callee s = (resetCounters fr c s2, σ) := by
  rw [invokeStep_call fr body callee s s1 s2 c σ hb hc]
  cases σ <;> simp_all [Res.isSignal]

/-- **Whole step, any decorator stack**: whenever a step returns an instruction, that very instruction
    was returned by its module body or by the groups it called, and the step's final state is the state
    of that moment (plus the caller's counters written back): nothing was recorded in `runErrors`,
    nothing slept, no further attempt or iteration ran, `swallow` had no say. -/
theorem decorated_step_signal (d : StepDef) (body : Body) (callee : CofCfg → Body) (fuel : Nat)
    (s s' : St) (σ : Res) (h : runStepWith d body callee fuel s = (s', σ)) (hσ : σ.isSignal = true) :
    (∃ s0, body s0 = (s', σ)) ∨
    (∃ fr s0 s1 s2 c, body s0 = (s1, .call c) ∧ callee c s1 = (s2, σ) ∧ s' = resetCounters fr c s2) :=
  runStepWith_signal_origin d body callee fuel s s' σ h hσ

/-- writing the counters back touches only `whileCounter`, `i`, `retryCounter` and the call key:
    in particular it never creates a `runErrors` entry. -/
theorem resetCounters_keeps_runErrors (fr : Frame) (c : CofCfg) (s : St)
    (hk : c.key ≠ "runErrors") :
    Ctx.get? (resetCounters fr c s).ctx "runErrors" = Ctx.get? s.ctx "runErrors" := by
  have hset : ∀ (cx : Ctx) (k : String) (v : Val), k ≠ "runErrors" →
      Ctx.get? (Ctx.set cx k v) "runErrors" = Ctx.get? cx "runErrors" := by
    intro cx k v hne
    induction cx with
    | nil => simp [Ctx.set, Ctx.get?, hne]
    | cons kv rest ih =>
      obtain ⟨k', v'⟩ := kv
      by_cases hkk : k' = k
      · subst hkk; simp [Ctx.set, Ctx.get?, hne]
      · by_cases hkr : k' = "runErrors"
        · subst hkr
          have : ¬ ("runErrors" = k) := fun h => hne h.symm
          simp [Ctx.set, Ctx.get?, this]
        · simp [Ctx.set, Ctx.get?, hkk, hkr, ih]
  unfold resetCounters
  simp only []
  cases fr.whileC <;> cases fr.forI <;> cases fr.retryC <;> simp only [] <;>
    split <;> simp [hset, hk]

/-! ## each instruction unwinds exactly its scope -/

/-- `stopstepgroup` ends only the step-group it was raised in: the group call returns normally, so the
    next requested group and the success handler still run. -/
theorem stopGroup_ends_only_its_group (fuel : Nat) (prog : Program) (pipe g : String) (s s1 : St)
    (h : runSteps fuel prog pipe (groupSteps prog pipe g) s = (s1, .stopGroup)) :
    runStepGroup (fuel + 1) prog pipe g false s = (s1, .ok) := by
  rw [runStepGroup_of_run fuel prog pipe g false s s1 _ h (by simp) (by simp)]; rfl

theorem stopGroup_next_group_runs (fuel : Nat) (prog : Program) (pipe g : String) (rest : List String) (s s1 : St)
    (h : runSteps fuel prog pipe (groupSteps prog pipe g) s = (s1, .stopGroup)) :
    runGroupList (fuel + 2) prog pipe (g :: rest) s = runGroupList (fuel + 1) prog pipe rest s1 := by
  rw [runGroupList_cons, stopGroup_ends_only_its_group fuel prog pipe g s s1 h]

/-- in a failure handler the same instruction is what turns the failure into a quiet end. -/
theorem stopGroup_in_failure_handler_is_quiet_end (fuel : Nat) (prog : Program) (pipe g : String) (gs : List String)
    (success failure : Option String) (s s1 s2 : St) (e : ExcV) (hd : Bool)
    (hm : mainPhase fuel prog pipe (g :: gs) success s = (s1, .err e hd))
    (hf : hasFailureGroup failure = true)
    (hh : runFailureGroup fuel prog pipe failure s1 = (s2, .stopGroup)) :
    runGroups (fuel + 1) prog pipe (g :: gs) success failure s = (s2, .ok) := by
  rw [runGroups_eq, hm]; simp only [hf, if_true, hh]

/-- Stop and StopPipeline raised in the requested groups or the success group never start the
    failure handler; the group runner hands them on unchanged. -/
theorem stop_skips_failure_handler (fuel : Nat) (prog : Program) (pipe g : String) (gs : List String)
    (success failure : Option String) (s s1 : St) (σ : Res)
    (hm : mainPhase fuel prog pipe (g :: gs) success s = (s1, σ)) (hσ : σ = .stop ∨ σ = .stopPipeline) :
    runGroups (fuel + 1) prog pipe (g :: gs) success failure s = (s1, σ) := by
  rw [runGroups_eq, hm]; rcases hσ with h | h <;> subst h <;> rfl

/-- `stoppipeline` ends only the current pipeline: whoever ran it sees a normal completion,
    and its entry is gone from the pipeline stack. -/
theorem stopPipeline_ends_only_its_pipeline (fuel : Nat) (prog : Program) (pi : PipeInst) (pd : PipeDef)
    (s s1 s2 : St) (hp : prog.find? pi.name = some pd)
    (hprep : prepareContext pd pi { s with stack := pi.name :: s.stack } = (s1, .ok))
    (hg : runGroups fuel prog pi.name (effectiveGroups pi).1 (effectiveGroups pi).2.1 (effectiveGroups pi).2.2 s1
            = (s2, .stopPipeline)) :
    runPipeline (fuel + 1) prog pi s = ({ s2 with stack := s2.stack.drop 1 }, .ok) := by
  rw [runPipeline_eq fuel prog pi pd s hp]
  simp only [hprep, hg]

/-- … also when it is issued by the failure handler that runs after a failed context parser
    (the case repaired by fix 89ea24a). -/
theorem stopPipeline_from_parser_failure_handler (fuel : Nat) (prog : Program) (pi : PipeInst) (pd : PipeDef)
    (s s1 s2 : St) (e : ExcV) (hd : Bool) (hp : prog.find? pi.name = some pd)
    (hprep : prepareContext pd pi { s with stack := pi.name :: s.stack } = (s1, .err e hd))
    (hh : runFailureGroup fuel prog pi.name (effectiveGroups pi).2.2 s1 = (s2, .stopPipeline)) :
    runPipeline (fuel + 1) prog pi s = ({ s2 with stack := s2.stack.drop 1 }, .ok) := by
  rw [runPipeline_eq fuel prog pi pd s hp]
  simp only [hprep, hh]

/-- `stop` is handed on unchanged by the pipeline (only the root turns it into success). -/
theorem stop_leaves_pipeline (fuel : Nat) (prog : Program) (pi : PipeInst) (pd : PipeDef)
    (s s1 s2 : St) (hp : prog.find? pi.name = some pd)
    (hprep : prepareContext pd pi { s with stack := pi.name :: s.stack } = (s1, .ok))
    (hg : runGroups fuel prog pi.name (effectiveGroups pi).1 (effectiveGroups pi).2.1 (effectiveGroups pi).2.2 s1
            = (s2, .stop)) :
    runPipeline (fuel + 1) prog pi s = ({ s2 with stack := s2.stack.drop 1 }, .stop) := by
  rw [runPipeline_eq fuel prog pi pd s hp]
  simp only [hprep, hg]

/-- the run reports success to its caller for every Stop-family instruction that reaches the root. -/
theorem root_reports_success (fuel : Nat) (prog : Program) (pi : PipeInst) (s s1 : St) (σ : Res)
    (h : runPipeline fuel prog pi s = (s1, σ)) (hσ : σ.isStopFamily = true) :
    runRoot fuel prog pi s = (s1, .ok) := by
  rw [runRoot_eq, h]; cases σ <;> simp_all [Res.isStopFamily]

/-! ## non-vacuity: a concrete pipeline in which Stop is raised under swallow + retry inside a called group -/

def demoProg : Program := ⟨[{ name := "main", groups := [
  ("steps", .steps [
    { name := some "pypyr.steps.call", inArgs := some [("call", .str "sg")], swallow := .bool true,
      retry := some { max := some (.int 3) } },
    { name := some "vprobe", inArgs := some [("p", .dict [(.str "tag", .str "after")])] }]),
  ("sg", .steps [{ name := some "pypyr.steps.stop", simple := true }])] }]⟩

/-- the run ends successfully, the step after the call never runs, nothing is recorded, nothing slept. -/
example :
    let r := runRoot 50 demoProg { name := "main" } {}
    r.2 = .ok ∧ r.1.trace = [] ∧ Ctx.get? r.1.ctx "runErrors" = none ∧ r.1.sleeps = [] := by
  decide +kernel

end Pypyr.C02
