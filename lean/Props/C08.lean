/-
  C08 — formatting expressions resolve by the documented substitution/recursion rules.

  Property theorems only (helper lemmas: Props/Lemmas/C08_Parse.lean, C08_Nested.lean, C08_Model.lean,
  C08_Aux.lean).
  Model: PypyrModel/FmtParse.lean (CPython's parser), Format.lean (code-shaped model of
  `_format_keep_type` / `_get_formatted_iterable`), FormatSpec.lean (`Spec`, the documented rules).

  Every statement is for all strings / contexts / fuel. Strings are quantified in one of two ways:
  * through their parse (`parseTuples s = (ts, none)`): any string CPython's parser accepts;
  * through the grammar (`Chunk`): literal text, `{{`, `}}`, `{name!conv:spec}` in any number and
    order, `spec` any text whose braces balance (nested replacement fields to any depth included) —
    `parse_grammar` shows each such string parses to exactly the tuples of its chunks.
  The only hypothesis on the expressions is `NamedTups`: TOP-LEVEL field names are not empty / all
  digits (those are positional arguments; formatting with a context has none). Format specs are
  unrestricted: `Spec` works on the *expanded* spec (`Spec.expandSpec`: nested fields replaced by their
  formatted values), and `vfmt2_expandSpec` shows the base-class `_vformat` computes exactly that.
  Names are qualified (`Format.fmtIter`) because the basic model `Pypyr.fmtIter` lives in the parent namespace.
-/
import Props.Lemmas.C08_Parse
import Props.Lemmas.C08_Model
import Props.Lemmas.C08_Aux
import Props.Lemmas.C08_PreFix
import Props.Lemmas.C08_Session

namespace Pypyr.C08
open Pypyr.Format

/-! ## the grammar -/

/-- Every string of the grammar (any number of literal, `{{`, `}}` and expression chunks, field names
    with dotted/indexed paths, conversions, specs with balanced braces — so nested replacement fields
    to any depth) parses without error to the tuples its chunks describe; in particular `{{` and `}}`
    never start a field, and a nested field stays part of the spec text of its expression. -/
theorem parse_grammar (chunks : List Chunk) (h : ∀ c ∈ chunks, c.WellFormed) :
    parseTuples (render chunks) = (tuplesOf chunks, none) :=
  parse_render chunks h

example : parseTuples "a{{b}} {x.y[0]!r:>5}{z[k:v]}".toList =
    ([⟨"a{".toList, none⟩, ⟨"b}".toList, none⟩, ⟨" ".toList, some ⟨"x.y[0]".toList, ">5".toList, some 'r'⟩⟩,
      ⟨[], some ⟨"z[k:v]".toList, [], none⟩⟩], none) := by rfl

example : (∀ c ∈ [Chunk.text "w=".toList, Chunk.expr ⟨"i".toList, "{w:{d[k]}}>{{}}".toList, some 'r'⟩], c.WellFormed) ∧
    parseTuples "w={i!r:{w:{d[k]}}>{{}}}".toList =
      ([⟨"w=".toList, some ⟨"i".toList, "{w:{d[k]}}>{{}}".toList, some 'r'⟩⟩], none) := by
  refine ⟨?_, by rfl⟩
  intro c hc
  simp only [List.mem_cons, List.not_mem_nil, or_false] at hc
  rcases hc with rfl | rfl
  · show NoBrace _; decide
  · exact ⟨by rfl, by rfl⟩

/-! ## refinement: the code-shaped model computes the documented result -/

/-- `_format_keep_type` = `Spec.format` on every string that parses and whose TOP-LEVEL expressions are
    named references (not empty / all-digit) — any format specs, nested replacement fields included —
    for every context, fuel, recursion flag. (Before /repo commit db7f4e2 this failed for a single
    expression with a conversion: see `single_conversion_formats_converted_text_pre_fix`.) -/
theorem fmtKeepType_refines_spec (fuel : Nat) (ctx : Ctx) (isRec : Bool) (s : List Char) (ts : List Tup)
    (hp : parseTuples s = (ts, none)) (hg : NamedTups ts) :
    Format.fmtKeepType (fuel + 1) ctx isRec s =
      Spec.format (fun r v => Format.fmtIter fuel ctx r v) ctx isRec (parts ts) := by
  unfold Format.fmtKeepType
  exact keepType_refines_spec _ ctx isRec s ts hp hg

/-- The same over the grammar: no parse hypothesis left. -/
theorem fmtKeepType_refines_spec_grammar (fuel : Nat) (ctx : Ctx) (isRec : Bool) (chunks : List Chunk)
    (hw : ∀ c ∈ chunks, c.WellFormed) (hg : NamedTups (tuplesOf chunks)) :
    Format.fmtKeepType (fuel + 1) ctx isRec (render chunks) =
      Spec.format (fun r v => Format.fmtIter fuel ctx r v) ctx isRec (parts (tuplesOf chunks)) :=
  fmtKeepType_refines_spec fuel ctx isRec _ _ (parse_render chunks hw) hg

/-- … and at the API: `Context.get_formatted_value(s)` for a str `s`. -/
theorem fmtVal_str_refines_spec (fuel : Nat) (ctx : Ctx) (s : String) (ts : List Tup)
    (hp : parseTuples s.toList = (ts, none)) (hg : NamedTups ts) :
    Format.fmtVal (fuel + 2) ctx (.str s) =
      Spec.format (fun r v => Format.fmtIter fuel ctx r v) ctx false (parts ts) := by
  unfold Format.fmtVal
  rw [Format.fmtIter]
  exact fmtKeepType_refines_spec fuel ctx false _ ts hp hg

def exCtx : Ctx :=
  [("a", .str "x{b}"), ("b", .int 5), ("l", .list [.int 1, .str "{b}"]), ("s", .sic "{raw}"),
   ("n", .dict [(.str "k", .str "{a}")])]

example : parseTuples "-{a}-{l[1]:rf}|{b:>4}".toList =
      ([⟨['-'], some ⟨['a'], [], none⟩⟩, ⟨['-'], some ⟨"l[1]".toList, ['r', 'f'], none⟩⟩,
        ⟨['|'], some ⟨['b'], ['>', '4'], none⟩⟩], none) ∧
    NamedTups [⟨['-'], some ⟨['a'], [], none⟩⟩, ⟨['-'], some ⟨"l[1]".toList, ['r', 'f'], none⟩⟩,
        ⟨['|'], some ⟨['b'], ['>', '4'], none⟩⟩] ∧
    Format.fmtVal 8 exCtx (.str "-{a}-{l[1]:rf}|{b:>4}") = .ok (.str "-x{b}-5|   5") := by
  refine ⟨by rfl, namedTups_of_check _ (by rfl), by rfl⟩

/-- On `specInDomain` the model's `format(v, spec)` never answers "outside the modelled domain".
    `specInDomain` is the exact domain predicate: every str / int / bool value with any spec of the standard
    mini-language `[[fill]align][sign][z][#][0][width][,|_][.precision][type]`, except the float presentation
    types on an int, non-ASCII characters outside the fill position, widths / precisions of more than 4 digits
    and `c` on a surrogate; the empty spec on every kind; no non-empty spec on a float. -/
theorem formatField_in_domain (v : Val) (spec : List Char) (h : specInDomain v spec = true) (e : Exc)
    (he : formatField v spec = .error e) : e.name ≠ "OutOfDomain" := by
  unfold specInDomain at h
  rw [he] at h
  simpa using h

example : specInDomain (.int (-5)) "x=+6".toList = true ∧ formatField (.int (-5)) "x=+6".toList = .ok "-xxxx5".toList ∧
    specInDomain (.str "ab") "^7".toList = true ∧ formatField (.str "ab") "^7".toList = .ok "  ab   ".toList ∧
    specInDomain (.int 5) ".2f".toList = false ∧ specInDomain (.flt 3 1) "5".toList = false ∧
    specInDomain (.int 55296) "c".toList = false ∧ specInDomain (.int 5) "12345".toList = false := by
  refine ⟨by rfl, by rfl, by rfl, by rfl, by rfl, by rfl, by rfl, by rfl⟩

/-- grouping, alternate form, integer presentation types, precision — values and error texts as CPython's -/
example :
    formatField (.int 1234567) ",".toList = .ok "1,234,567".toList ∧
    formatField (.int 1234567) "_".toList = .ok "1_234_567".toList ∧
    -- zero padding continues the grouping into the zeros (and may overshoot the width by one)
    formatField (.int 1234) "08,".toList = .ok "0,001,234".toList ∧
    formatField (.int 1234) "07,".toList = .ok "001,234".toList ∧
    formatField (.int (-1234)) "=+012_".toList = .ok "-000_001_234".toList ∧
    formatField (.int 255) "#x".toList = .ok "0xff".toList ∧
    formatField (.int (-255)) "+#X".toList = .ok "-0XFF".toList ∧
    formatField (.int 255) "#012_b".toList = .ok "0b0_1111_1111".toList ∧
    formatField (.int 255) "*^+9o".toList = .ok "**+377***".toList ∧
    formatField (.int 65) "c".toList = .ok "A".toList ∧
    formatField (.int 65) "05c".toList = .ok "0000A".toList ∧
    formatField (.bool true) "+05d".toList = .ok "+0001".toList ∧
    formatField (.int 1234567) "n".toList = .ok "1234567".toList ∧
    formatField (.str "abcdef") ".3".toList = .ok "abc".toList ∧
    formatField (.str "abcdef") "*^7.2".toList = .ok "**ab***".toList ∧
    formatField (.int 5) ".2".toList = .error (valueError "Precision not allowed in integer format specifier") ∧
    formatField (.int 5) ",x".toList = .error (valueError "Cannot specify ',' with 'x'.") ∧
    formatField (.int 5) ",_".toList = .error (valueError "Cannot specify both ',' and '_'.") ∧
    formatField (.str "a") ",".toList = .error (valueError "Cannot specify ',' with 's'.") ∧
    formatField (.str "a") ".".toList = .error (valueError "Format specifier missing precision") ∧
    formatField (.str "a") "#".toList = .error (valueError "Alternate form (#) not allowed in string format specifier") ∧
    formatField (.int 65) "+c".toList = .error (valueError "Sign not allowed with integer format specifier 'c'") ∧
    formatField (.int (-1)) "c".toList = .error ⟨"OverflowError", "%c arg not in range(0x110000)"⟩ ∧
    formatField (.int 5) "zd".toList = .error (valueError "Negative zero coercion (z) not allowed in integer format specifier") := by
  refine ⟨by rfl, by rfl, by rfl, by rfl, by rfl, by rfl, by rfl, by rfl, by rfl, by rfl, by rfl, by rfl, by rfl, by rfl,
    by rfl, by rfl, by rfl, by rfl, by rfl, by rfl, by rfl, by rfl, by rfl, by rfl⟩

/-- attributes of the special-tag objects: `.value`, `.yaml_tag` -/
example :
    Format.fmtVal 8 exCtx (.str "{s.value:ff}") = .ok (.str "{raw}") ∧
    Format.fmtVal 8 exCtx (.str "{s.yaml_tag:ff}") = .ok (.str "!sic") ∧
    Format.fmtVal 8 (("p", .py (.binop .add (.name "b") (.const (.int 1)))) :: exCtx) (.str "{p.value}|{p.yaml_tag}") =
      .ok (.str "(b + 1)|!py") ∧
    Format.fmtVal 8 (("j", .jsonify (.list [.int 1, .str "{b}"])) :: exCtx) (.str "v={j.value[1]:rf}") = .ok (.str "v=5") ∧
    Format.fmtVal 8 exCtx (.str "{b.value}") = .error ⟨"AttributeError", "'int' object has no attribute 'value'"⟩ := by
  refine ⟨by rfl, by rfl, by rfl, by rfl, by rfl⟩

/-! ## a string that is exactly one expression -/

/-- A string that is exactly one expression `{name!conv:spec}` (any spec of the grammar, nested fields
    included): look the object up, expand the spec, then `Spec.singleObj` — the object itself,
    recursively formatted unless the expanded spec says `ff`, converted, and made text only by a
    format spec proper. -/
theorem single_field (fuel : Nat) (ctx : Ctx) (isRec : Bool) (f : FieldT) (hw : f.WellFormed) (hnamed : Named f.name) :
    Format.fmtKeepType (fuel + 1) ctx isRec f.text =
      (match getField ctx f.name with
       | .error e => .error e
       | .ok obj => match Spec.expandSpec ctx f.spec with
         | .error e => .error e
         | .ok spec => Spec.singleObj (fun r v => Format.fmtIter fuel ctx r v) isRec f.conv obj spec) := by
  have hw' : ∀ c ∈ [Chunk.expr f], c.WellFormed := by
    intro c hc; simp at hc; subst hc; exact hw
  have hg : NamedTups (tuplesOf [Chunk.expr f]) := by
    intro t ht g hg
    simp [tuplesOf, tuplesFrom] at ht; subst ht; simp at hg; subst hg
    exact hnamed
  have := fmtKeepType_refines_spec_grammar fuel ctx isRec _ hw' hg
  simp only [render, Chunk.render, List.append_nil] at this
  rw [this]
  simp only [tuplesOf, tuplesFrom, List.nil_append, parts, Tup.parts, if_true, List.append_nil,
    Spec.format, formatSingle_eq]
  cases getField ctx f.name with
  | error e => rfl
  | ok obj => simp only []; cases Spec.expandSpec ctx f.spec <;> rfl

/-- `'{name}'` yields the referenced object itself, recursively formatted — whatever its kind
    (no cast to str). -/
theorem single_expression_keeps_type (fuel : Nat) (ctx : Ctx) (name : List Char)
    (hn : isFieldName false name = true) (hnamed : Named name) :
    Format.fmtKeepType (fuel + 1) ctx false ('{' :: (name ++ ['}'])) =
      (match getField ctx name with
       | .error e => .error e
       | .ok obj => Format.fmtIter fuel ctx false obj) := by
  have := single_field fuel ctx false ⟨name, [], none⟩ ⟨hn, by rfl⟩ hnamed
  simp only [FieldT.text, FieldT.tail, if_true, List.nil_append] at this
  rw [this, expandSpec_plain ctx [] noBrace_nil]
  cases getField ctx name with
  | error e => rfl
  | ok obj =>
    simp only [Spec.singleObj, Spec.isRf, Spec.isFf, Spec.specBody, bind, Except.bind, pure, Except.pure, convertField]
    simp
    cases Format.fmtIter fuel ctx false obj <;> rfl

/-- The type is preserved: a referenced int / None / bool / float / opaque object comes back as it is,
    a referenced list as a list of formatted members, … -/
theorem single_expression_scalar (fuel : Nat) (ctx : Ctx) (k : String) (v : Val)
    (hn : isFieldName false k.toList = true) (hnamed : Named k.toList)
    (hk : getField ctx k.toList = .ok v)
    (hv : (∃ i, v = .int i) ∨ v = .none ∨ (∃ b, v = .bool b) ∨ (∃ n d, v = .flt n d) ∨ (∃ i, v = .obj i)) :
    Format.fmtKeepType (fuel + 2) ctx false ('{' :: (k.toList ++ ['}'])) = .ok v := by
  rw [single_expression_keeps_type (fuel + 1) ctx _ hn hnamed, hk]
  rcases hv with ⟨i, rfl⟩ | rfl | ⟨b, rfl⟩ | ⟨n, d, rfl⟩ | ⟨i, rfl⟩ <;> simp [Format.fmtIter]

example : Format.fmtVal 8 exCtx (.str "{l}") = .ok (.list [.int 1, .int 5]) ∧
    Format.fmtVal 8 exCtx (.str "{b}") = .ok (.int 5) ∧
    Format.fmtVal 9 exCtx (.str "{n}") = .ok (.dict [(.str "k", .str "x5")]) := by
  refine ⟨by rfl, by rfl, by rfl⟩

/-- A single expression with a conversion, `'{name!c}'`: the referenced object is formatted
    recursively and the *result* is converted (what `:rf` always did). -/
theorem single_conversion_converts_formatted_object (fuel : Nat) (ctx : Ctx) (name : List Char) (c : Char)
    (hn : isFieldName false name = true) (hnamed : Named name) :
    Format.fmtKeepType (fuel + 1) ctx false ('{' :: (name ++ ['!', c, '}'])) =
      (match getField ctx name with
       | .error e => .error e
       | .ok obj => match Format.fmtIter fuel ctx false obj with
         | .error e => .error e
         | .ok o => convertField o (some c)) := by
  have := single_field fuel ctx false ⟨name, [], some c⟩ ⟨hn, by rfl⟩ hnamed
  simp only [FieldT.text, FieldT.tail, if_true, List.nil_append, List.cons_append] at this
  rw [this, expandSpec_plain ctx [] noBrace_nil]
  cases getField ctx name with
  | error e => rfl
  | ok obj =>
    simp only [Spec.singleObj, Spec.isRf, Spec.isFf, Spec.specBody, bind, Except.bind, pure, Except.pure]
    simp
    cases Format.fmtIter fuel ctx false obj with
    | error e => rfl
    | ok o => simp only []; cases convertField o (some c) <;> rfl

/-- **HISTORICAL witness — the ordering before /repo commit db7f4e2, not the current code.**
    `PreFix.keepType` is `_format_keep_type` as it was: a single expression with a conversion and
    without `rf`/`ff` was converted first, and then the *converted text* was formatted as a format
    string. With a dict or set that text has braces of its own: `'{d!s}'` for `d = {}` parsed the
    text `{}` as an auto-numbered field and raised `TypeError`; `'{e!r}'` for `e = {'k': 1}` raised
    `KeyNotInContextError("'k' …")`. The check's monitor "single-conversion" flags this behaviour. -/
theorem single_conversion_formats_converted_text_pre_fix (fi : Bool → Val → Except Exc Val) (ctx : Ctx)
    (name : List Char) (c : Char) (hn : isFieldName false name = true) (hnamed : Named name) :
    PreFix.keepType fi ctx false ('{' :: (name ++ ['!', c, '}'])) =
      (match getField ctx name with
       | .error e => .error e
       | .ok obj => match convertField obj (some c) with
         | .error e => .error e
         | .ok txt => fi false txt) := by
  have hw : ∀ ch ∈ [Chunk.expr ⟨name, [], some c⟩], ch.WellFormed := by
    intro ch hc; simp at hc; subst hc; exact ⟨hn, by rfl⟩
  have hp := parse_render _ hw
  simp only [render, Chunk.render, FieldT.text, FieldT.tail, List.append_nil, if_true, List.nil_append,
    List.cons_append, tuplesOf, tuplesFrom] at hp
  unfold PreFix.keepType
  simp only [hp]
  unfold PreFix.ktLoop
  simp only [if_true]
  unfold PreFix.ktField
  rw [autoNumber_named _ _ hnamed]
  simp only []
  cases getField ctx name with
  | error e => rfl
  | ok obj =>
    simp only []
    rw [vfmt_plain 1 ctx [] (some 0) (by intro c hc; simp at hc)]
    have h1 : Spec.isRf ([] : List Char) = false := by decide
    have h2 : Spec.isFf ([] : List Char) = false := by decide
    have h3 : Spec.specBody ([] : List Char) = [] := by decide
    simp only [RSpec.parse_eq, h1, h2, h3, Bool.false_or, Bool.false_and, Bool.false_eq_true, if_false]
    cases convertField obj (some c) with
    | error e => rfl
    | ok txt =>
      simp only [List.nil_append]
      unfold PreFix.ktLoop
      simp only []
      rw [ktFinish_single_go _ _ _ (by rfl)]
      cases fi false txt <;> simp [finText, convertField_none]

example :
    -- before the fix: the text `{}` was parsed again
    PreFix.fmtVal 8 [("d", .dict [])] (.str "{d!s}") = .error errArgsNone ∧
    PreFix.fmtVal 8 [("e", .dict [(.str "k", .int 1)])] (.str "{e!r}") = .error (keyNotInContext "'k'") ∧
    PreFix.fmtVal 8 [("l", .list [.int 1, .str "{i}"]), ("i", .int 5)] (.str "{l!r}") = .ok (.str "[1, '5']") ∧
    -- the current code, the documented rule, and Python's own '{d!s}'.format(d={})
    Format.fmtVal 8 [("d", .dict [])] (.str "{d!s}") = .ok (.str "{}") ∧
    Format.fmtVal 8 [("e", .dict [(.str "k", .int 1)])] (.str "{e!r}") = .ok (.str "{'k': 1}") ∧
    Format.fmtVal 8 [("l", .list [.int 1, .str "{i}"]), ("i", .int 5)] (.str "{l!r}") = .ok (.str "[1, 5]") ∧
    Format.fmtVal 8 [("l", .list [.int 1, .str "{i}"]), ("i", .int 5)] (.str "{l!r:ff}") = .ok (.str "[1, '{i}']") ∧
    -- a mixed string: one level, the unformatted object is converted — before and after
    Format.fmtVal 8 [("l", .list [.int 1, .str "{i}"]), ("i", .int 5)] (.str "x {l!r} y") = .ok (.str "x [1, '{i}'] y") ∧
    PreFix.fmtVal 8 [("l", .list [.int 1, .str "{i}"]), ("i", .int 5)] (.str "x {l!r} y") = .ok (.str "x [1, '{i}'] y") := by
  refine ⟨by rfl, by rfl, by rfl, by rfl, by rfl, by rfl, by rfl, by rfl, by rfl⟩

/-! ## strings mixing text and expressions -/

/-- **≥ 2 parts (or none) ⇒ a str, each expression formatted one level deep**: the result is Python's own
    `str.format` of the parts (`Spec.pyFormat`: `format(convert(lookup), spec)` concatenated with the
    literals); whatever braces the referenced strings contain stay as they are, because nothing referenced
    is formatted again (`pyFormat` has no access to the recursive formatter). "No `rf`" is a statement
    about the EXPANDED specs (`{s:{k}}` with `k = 'rf'` is recursive); for a spec without nested fields
    that is the spec as written (`expandSpec_plain`). -/
theorem mixed_is_flat_str (fuel : Nat) (ctx : Ctx) (s : List Char) (ts : List Tup)
    (hp : parseTuples s = (ts, none)) (hg : NamedTups ts)
    (hlen : (parts ts).length ≠ 1)
    (hnorf : ∀ f, Part.fld f ∈ parts ts → ∀ spec, Spec.expandSpec ctx f.spec = .ok spec → Spec.isRf spec = false) :
    Format.fmtKeepType (fuel + 1) ctx false s = Spec.pyFormat ctx (parts ts) ∧
    (∀ v, Format.fmtKeepType (fuel + 1) ctx false s = .ok v → ∃ t, v = .str t) := by
  have hfmt : Format.fmtKeepType (fuel + 1) ctx false s = Spec.pyFormat ctx (parts ts) := by
    rw [fmtKeepType_refines_spec fuel ctx false s ts hp hg]
    unfold Spec.pyFormat
    have hflat : ∀ deep, Spec.format deep ctx false (parts ts) = Spec.formatFlat deep ctx false (parts ts) := by
      intro deep
      match hps : parts ts with
      | [] => rfl
      | [p] => rw [hps] at hlen; simp at hlen
      | p :: q :: rest => cases p <;> rfl
    rw [hflat]
    simp only [Spec.formatFlat]
    rw [resolve_flat _ (fun _ v => pure v) ctx _ hnorf]
  refine ⟨hfmt, ?_⟩
  intro v hv
  rw [hfmt] at hv
  simp only [Spec.pyFormat, Spec.formatFlat, bind, Except.bind, pure, Except.pure] at hv
  split at hv
  · cases hv
  · split at hv
    · cases hv
    · cases hv; exact ⟨_, rfl⟩

example : Format.fmtVal 8 exCtx (.str "<{a}> {b:>3}") = .ok (.str "<x{b}>   5") := by rfl

/-! ## rf / ff -/

/-- `:rf` — the referenced object is formatted recursively (`deep true`) before conversion and
    `format()`, in a single expression and in a mixed string alike; so is every expression met inside a
    recursive format unless it says `:ff` (`isRec = true`: the flag the recursion hands down).
    `rf` / `ff` are read off the expanded spec `spec`. -/
theorem rf_recurses (deep : Bool → Val → Except Exc Val) (ctx : Ctx) (isRec : Bool) (f : FieldT) (spec : List Char)
    (hx : Spec.expandSpec ctx f.spec = .ok spec)
    (h : Spec.isRf spec = true ∨ (isRec = true ∧ Spec.isFf spec = false)) :
    Spec.fieldObj deep ctx isRec f =
      (match getField ctx f.name with
       | .error e => .error e
       | .ok obj => match deep true obj with
         | .error e => .error e
         | .ok o => match convertField o f.conv with
           | .error e => .error e
           | .ok o' => .ok (o', none, spec)) := by
  rw [fieldObj_eq, hx]
  cases getField ctx f.name with
  | error e => rfl
  | ok obj =>
    simp only []
    apply mode_rec
    rcases h with h | ⟨h1, h2⟩ <;> simp [*]

/-- `'{name:rf}'`: the referenced object, formatted with the recursive flag on (so that mixed strings
    inside it recurse too), type kept. -/
theorem rf_single (fuel : Nat) (ctx : Ctx) (isRec : Bool) (name : List Char)
    (hn : isFieldName false name = true) (hnamed : Named name) :
    Format.fmtKeepType (fuel + 1) ctx isRec ('{' :: (name ++ [':', 'r', 'f', '}'])) =
      (match getField ctx name with
       | .error e => .error e
       | .ok obj => Format.fmtIter fuel ctx true obj) := by
  have := single_field fuel ctx isRec ⟨name, ['r', 'f'], none⟩ ⟨hn, by rfl⟩ hnamed
  simp only [FieldT.text, FieldT.tail, List.nil_append] at this
  have e : (if (['r', 'f'] : List Char) = [] then [] else ':' :: ['r', 'f']) ++ ['}'] = [':', 'r', 'f', '}'] := by decide
  rw [e] at this
  rw [this, expandSpec_plain ctx ['r', 'f'] (by decide)]
  have h0 : Spec.isFf ['r', 'f'] = false := by decide
  have h1 : Spec.isRf ['r', 'f'] = true := by decide
  have h2 : Spec.specBody ['r', 'f'] = [] := by decide
  cases hgf : getField ctx name with
  | error e => rfl
  | ok obj =>
    simp only [Spec.singleObj, h0, h1, h2, Bool.true_or, if_true, Bool.false_eq_true, if_false, bind, Except.bind,
      pure, Except.pure, convertField]
    cases Format.fmtIter fuel ctx true obj <;> simp

/-- `:ff` — the referenced object is never formatted, not even inside a recursive format. -/
theorem ff_is_flat (deep : Bool → Val → Except Exc Val) (ctx : Ctx) (isRec : Bool) (f : FieldT) (spec : List Char)
    (hx : Spec.expandSpec ctx f.spec = .ok spec) (h : Spec.isFf spec = true) :
    Spec.fieldObj deep ctx isRec f =
      (match getField ctx f.name with
       | .error e => .error e
       | .ok obj => match convertField obj f.conv with
         | .error e => .error e
         | .ok o => .ok (o, none, spec)) := by
  rw [fieldObj_eq, hx]
  cases getField ctx f.name with
  | error e => rfl
  | ok obj => simp only []; exact mode_ff deep isRec f.conv obj spec h

/-- `'{name:ff}'` returns the referenced object itself, unformatted, for a single expression too. -/
theorem ff_single (fuel : Nat) (ctx : Ctx) (isRec : Bool) (name : List Char)
    (hn : isFieldName false name = true) (hnamed : Named name) :
    Format.fmtKeepType (fuel + 1) ctx isRec ('{' :: (name ++ [':', 'f', 'f', '}'])) = getField ctx name := by
  have := single_field fuel ctx isRec ⟨name, ['f', 'f'], none⟩ ⟨hn, by rfl⟩ hnamed
  simp only [FieldT.text, FieldT.tail, List.nil_append] at this
  have e : (if (['f', 'f'] : List Char) = [] then [] else ':' :: ['f', 'f']) ++ ['}'] = [':', 'f', 'f', '}'] := by decide
  rw [e] at this
  rw [this, expandSpec_plain ctx ['f', 'f'] (by decide)]
  have h1 : Spec.isFf ['f', 'f'] = true := by decide
  have h2 : Spec.specBody ['f', 'f'] = [] := by decide
  cases getField ctx name with
  | error e => rfl
  | ok obj =>
    simp only [Spec.singleObj, h1, h2, if_true, bind, Except.bind, pure, Except.pure, convertField]

example : Format.fmtVal 8 exCtx (.str "{n:rf}") = .ok (.dict [(.str "k", .str "x5")]) ∧
    Format.fmtVal 8 exCtx (.str "{n:ff}") = .ok (.dict [(.str "k", .str "{a}")]) ∧
    Format.fmtVal 8 exCtx (.str "v={a:rf}") = .ok (.str "v=x5") ∧
    Format.fmtVal 8 exCtx (.str "v={a:ff}") = .ok (.str "v=x{b}") := by
  refine ⟨by rfl, by rfl, by rfl, by rfl⟩

/-! ## replacement fields nested in a format spec -/

/-- **What the base class does with a format spec is the documented expansion**: `_format_keep_type`
    (recursion depth 2) hands the spec to `Formatter._vformat` with depth 1; on the numbering state of a
    string whose expressions so far had names, that call returns `Spec.expandSpec` — literals with
    `{{`/`}}` unescaped, each nested field replaced by `format(convert(lookup), its own expanded spec)`,
    a field inside the spec of a nested field failing with "Max string recursion exceeded" (after its
    lookup and conversion), the first failing piece deciding, a syntax error last — and hands the numbering state back unchanged. For every context and spec text. -/
theorem nested_spec_expansion (ctx : Ctx) (spec : List Char) :
    vfmt 2 ctx spec (some 0) =
      (match Spec.expandSpec ctx spec with
       | .error e => .error e
       | .ok t => .ok (t, some 0)) :=
  vfmt2_expandSpec ctx spec

/-- a spec without nested fields is its own expansion (so the corollaries about `{name}`, `{name:rf}`, …
    speak about the spec as written) -/
theorem plain_spec_unchanged (ctx : Ctx) (spec : List Char) (h : NoBrace spec) : Spec.expandSpec ctx spec = .ok spec :=
  expandSpec_plain ctx spec h

/-- **`'{name:{w}}'`** — a single expression whose whole spec is taken from the context: the referenced
    object, recursively formatted (type kept when `str(ctx[w])` is empty / `rf`, flat when it says `ff`),
    then `format(object, str(ctx[w]))`. `'{x:>{w}}'` likewise with `>` in front (`expandSpec_one_field`). -/
theorem nested_spec_single (fuel : Nat) (ctx : Ctx) (name w : List Char)
    (hn : isFieldName false name = true) (hnamed : Named name)
    (hw : isFieldName false w = true) (hwb : NoBrace w) (hwn : Named w) :
    Format.fmtKeepType (fuel + 1) ctx false ('{' :: (name ++ ':' :: '{' :: (w ++ ['}', '}']))) =
      (match getField ctx name with
       | .error e => .error e
       | .ok obj => match getField ctx w with
         | .error e => .error e
         | .ok wv => match formatField wv [] with
           | .error e => .error e
           | .ok spec => Spec.singleObj (fun r v => Format.fmtIter fuel ctx r v) false none obj spec) := by
  have hbal : specBalanced 0 ('{' :: (w ++ ['}'])) = true := by
    have : ∀ (cs : List Char) (d : Nat), NoBrace cs → specBalanced (d + 1) (cs ++ ['}']) = specBalanced d [] := by
      intro cs
      induction cs with
      | nil => intro d _; simp [specBalanced]
      | cons c cs ih =>
        intro d h
        have hc := h c (by simp)
        simp only [List.cons_append, specBalanced, hc.1, hc.2, if_false]
        exact ih d (fun x hx => h x (by simp [hx]))
    simp only [specBalanced, if_true]
    rw [this w 0 hwb]; rfl
  have := single_field fuel ctx false ⟨name, '{' :: (w ++ ['}']), none⟩ ⟨hn, hbal⟩ hnamed
  simp only [FieldT.text, FieldT.tail, List.nil_append, reduceCtorEq, if_false, List.cons_append, List.append_assoc] at this
  rw [this]
  have hx := expandSpec_one_field ctx w hw hwn [] [] noBrace_nil noBrace_nil
  simp only [List.nil_append, List.append_nil] at hx
  rw [hx]
  cases getField ctx name with
  | error e => rfl
  | ok obj =>
    simp only []
    cases getField ctx w with
    | error e => rfl
    | ok wv => simp only []; cases formatField wv [] <;> rfl

/-- concrete nested specs: width / whole spec / `rf` / `ff` taken from the context, a nested field with a
    spec of its own, fields at the second level -/
def nestCtx : Ctx :=
  [("i", .int 42), ("x", .str "ab"), ("w", .int 6), ("sp", .str "*^8"), ("rfk", .str "rf"),
   ("s", .str "v={i}"), ("ffk", .str "ff"), ("one", .int 1)]

example : Format.fmtVal 8 nestCtx (.str "{i:{w}}") = .ok (.str "    42") ∧
    Format.fmtVal 8 nestCtx (.str "{x:>{w}}|") = .ok (.str "    ab|") ∧
    Format.fmtVal 8 nestCtx (.str "{i:*<{w}}") = .ok (.str "42****") ∧
    Format.fmtVal 8 nestCtx (.str "[{x:{sp}}]") = .ok (.str "[***ab***]") ∧
    -- the spec expands to `rf`: the mixed string formats `s` recursively; without it, one level
    Format.fmtVal 8 nestCtx (.str "a {s:{rfk}}") = .ok (.str "a v=42") ∧
    Format.fmtVal 8 nestCtx (.str "a {s}") = .ok (.str "a v={i}") ∧
    -- … to `ff`: a single expression stays unformatted
    Format.fmtVal 8 nestCtx (.str "{s:{ffk}}") = .ok (.str "v={i}") ∧
    Format.fmtVal 8 nestCtx (.str "{s}") = .ok (.str "v=42") ∧
    -- a nested field may have a spec of its own, as long as that has no field: `{w:>3}` = '  6' is no spec …
    Format.fmtVal 8 nestCtx (.str "{i:{w:>3}}") = .error (errInvalidSpec "  6".toList "int") ∧
    -- … `{one:0>2}` = '01' is: width 1
    Format.fmtVal 8 nestCtx (.str "{x:>{w}}{i:{one:0>2}}|") = .ok (.str "    ab42|") ∧
    -- a field at the second level always fails: expanding its spec (even an empty one) is one level too deep
    Format.fmtVal 8 nestCtx (.str "{i:{w:{one}}}") = .error errMaxRecursion ∧
    Format.fmtVal 8 nestCtx (.str "{i:{w:{w:{w}}}}") = .error errMaxRecursion ∧
    Spec.expandSpec nestCtx "{w:{w:{w}}}".toList = .error errMaxRecursion ∧
    -- … but it is looked up first: a missing key at the second level is the key-lookup error
    Format.fmtVal 8 nestCtx (.str "{i:{w:{zz}}}") = .error (keyNotInContext "zz") ∧
    -- `{}` / `{0}` inside a spec: positional arguments, there are none
    Format.fmtVal 8 nestCtx (.str "{i:{}}") = .error errArgsNone ∧
    Format.fmtVal 8 nestCtx (.str "{i:{0}}") = .error errArgsNone ∧
    -- lazy parser: the lookup error of the first nested field wins over the syntax error after it
    Spec.expandSpec nestCtx "{zz}{".toList = .error (keyNotInContext "zz") ∧
    Spec.expandSpec nestCtx ">{w}{{}}".toList = .ok ">6{}".toList := by
  refine ⟨by rfl, by rfl, by rfl, by rfl, by rfl, by rfl, by rfl, by rfl, by rfl, by rfl, by rfl, by rfl, by rfl, by rfl,
    by rfl, by rfl, by rfl, by rfl⟩

/-! ## escapes -/

/-- **Escapes**: a string made of literal text, `{{` and `}}` formats to that text with `{` for `{{`
    and `}` for `}}` — for every context (so no field is ever started: nothing is looked up), every
    recursion flag, any fuel ≥ 1. -/
theorem escapes (fuel : Nat) (ctx : Ctx) (isRec : Bool) (chunks : List Chunk) (h : LiteralOnly chunks) :
    Format.fmtKeepType (fuel + 1) ctx isRec (render chunks) = .ok (.str (String.ofList (unescape chunks))) := by
  have hw : ∀ c ∈ chunks, c.WellFormed := by
    intro c hc
    rcases h c hc with ⟨cs, rfl, hcs⟩ | rfl | rfl
    · exact hcs
    · trivial
    · trivial
  have hl := tuplesFrom_literal chunks h [] [] (by intro p hp; simp [parts] at hp)
  have hg : NamedTups (tuplesOf chunks) := by
    intro t ht f hf
    -- a tuple with a field contributes a `.fld` part, but all parts are literals
    obtain ⟨t', ht'⟩ := hl.1 _ (fld_mem_parts _ t f ht hf)
    cases ht'
  rw [fmtKeepType_refines_spec_grammar fuel ctx isRec chunks hw hg]
  simp only [tuplesOf]
  rw [format_lits _ _ _ _ hl.1]
  have := hl.2
  simp only [parts, litsText, List.nil_append] at this
  rw [this]

example : Format.fmtVal 3 [] (.str "{{x}} }}{{ a") = .ok (.str "{x} }{ a") := by rfl

/-! ## special tags -/

/-- `!sic` is returned verbatim, braces and all; nothing in it is looked up. -/
theorem sic_verbatim (fuel : Nat) (ctx : Ctx) (isRec : Bool) (s : String) :
    Format.fmtIter (fuel + 1) ctx isRec (.sic s) = .ok (.str s) := by
  unfold Format.fmtIter; rfl

/-- … also when reached through a reference: `'{k}'` with `context[k] = !sic s` gives `s`. -/
theorem sic_verbatim_through_reference (fuel : Nat) (ctx : Ctx) (k : String) (s : String)
    (hn : isFieldName false k.toList = true) (hnamed : Named k.toList)
    (hk : getField ctx k.toList = .ok (.sic s)) :
    Format.fmtKeepType (fuel + 2) ctx false ('{' :: (k.toList ++ ['}'])) = .ok (.str s) := by
  rw [single_expression_keeps_type (fuel + 1) ctx _ hn hnamed, hk]
  exact sic_verbatim fuel ctx false s

/-- `!py` evaluates as Python with the context keys as variables (`evalPy`: names resolve to the raw
    context values). -/
theorem py_evaluates (fuel : Nat) (ctx : Ctx) (isRec : Bool) (e : PyExpr) :
    Format.fmtIter (fuel + 1) ctx isRec (.py e) = evalPy ctx e := by
  unfold Format.fmtIter; rfl

/-- `!jsonify` yields the JSON text of the *formatted* value (formatted as a fresh top-level call). -/
theorem jsonify_is_json_of_formatted (fuel : Nat) (ctx : Ctx) (isRec : Bool) (v : Val) :
    Format.fmtIter (fuel + 1) ctx isRec (.jsonify v) =
      (match Format.fmtVal fuel ctx v with
       | .error e => .error e
       | .ok fv => match jsonDumps fv with
         | some s => .ok (.str s)
         | none => .error errNotJson) := by
  rw [Format.fmtIter]; rfl

example : Format.fmtVal 8 exCtx (.str "{s}") = .ok (.str "{raw}") ∧
    Format.fmtVal 8 exCtx (.py (.binop .add (.name "b") (.const (.int 1)))) = .ok (.int 6) ∧
    Format.fmtVal 8 exCtx (.jsonify (.dict [(.str "k", .list [.str "{b}", .str "{a}"])])) =
      .ok (.str "{\"k\": [5, \"x5\"]}") := by
  refine ⟨by rfl, by rfl, by rfl⟩

/-! ## a reference to a key that is not in context -/

/-- **Never a partial result.** If formatting a string returns a value at all, then every expression
    of the string refers (by its first name) to a key that is in the context — equivalently: one
    missing key anywhere in the string makes the whole call fail, whatever else the string holds
    (any specs, conversions, nested specs, parse state). For all strings, contexts, fuel, flags. -/
theorem missing_key_is_error (fuel : Nat) (ctx : Ctx) (isRec : Bool) (s : List Char) (v : Val)
    (h : Format.fmtKeepType fuel ctx isRec s = .ok v) :
    ∀ t ∈ (parseTuples s).1, ∀ f, t.field = some f → Named f.name →
      ∀ k, firstKey f.name = some k → (Ctx.get? ctx k).isSome = true := by
  cases fuel with
  | zero => simp [Format.fmtKeepType] at h
  | succ n =>
    unfold Format.fmtKeepType keepType at h
    simp only at h
    cases hl : ktLoop (fun r v => Format.fmtIter n ctx r v) ctx isRec (parseTuples s).1 (parseTuples s).2 (some 0) [] with
    | error e => simp [hl] at h
    | ok es => exact ktLoop_ok_keys _ ctx isRec _ _ _ _ es hl

/-- The error is the key-lookup error when the missing reference is the first expression of the
    string (only literal text before it): `KeyNotInContextError("<k> not found in the pypyr context.")`. -/
theorem missing_key_first_field (fuel : Nat) (ctx : Ctx) (isRec : Bool) (s : List Char)
    (lit : List Char) (f : FieldT) (rest : List Tup) (perr : Option Exc)
    (hp : parseTuples s = (⟨lit, some f⟩ :: rest, perr)) (hn : Named f.name) (k : String)
    (hk : firstKey f.name = some k) (hmiss : Ctx.get? ctx k = none)
    (hascii : f.name.any (fun c => c.toNat ≥ 128) = false) :
    Format.fmtKeepType (fuel + 1) ctx isRec s = .error (keyNotInContext k) := by
  unfold Format.fmtKeepType keepType
  simp only [hp]
  rw [ktLoop_cons]
  simp only [ktField_missing _ ctx isRec f _ hn k hk hmiss hascii]

/-- **The key-lookup error at ANY position.** The string parses to the tuples `pre`, then an expression
    `f` whose first name `k` is not a context key, then anything (`rest`, and a syntax error `perr` or
    none). If every expression before `f` is a named reference that *resolves* — its lookup, the
    expansion of its format spec, its `rf` recursion and the conversion that goes with it succeed
    (`Spec.fieldObj … = .ok _`, the documented meaning of the expression) — then formatting raises
    exactly `KeyNotInContextError(k)`: no partial result, and no other error can pre-empt it — not a
    `format()` error of an earlier expression (all expressions are resolved before the first
    `format()` call), not whatever comes after `f`, not a syntax error further right (the parser is
    lazy). For all strings, contexts, fuel, flags. -/
theorem missing_key_any_field (fuel : Nat) (ctx : Ctx) (isRec : Bool) (s : List Char)
    (pre : List Tup) (lit : List Char) (f : FieldT) (rest : List Tup) (perr : Option Exc)
    (hp : parseTuples s = (pre ++ ⟨lit, some f⟩ :: rest, perr))
    (hpre : ∀ t ∈ pre, ∀ g, t.field = some g →
      Named g.name ∧ ∃ r, Spec.fieldObj (fun r v => Format.fmtIter fuel ctx r v) ctx isRec g = .ok r)
    (hn : Named f.name) (k : String)
    (hk : firstKey f.name = some k) (hmiss : Ctx.get? ctx k = none)
    (hascii : f.name.any (fun c => c.toNat ≥ 128) = false) :
    Format.fmtKeepType (fuel + 1) ctx isRec s = .error (keyNotInContext k) := by
  unfold Format.fmtKeepType keepType
  simp only [hp]
  obtain ⟨result', hr⟩ := ktLoop_prefix (fun r v => Format.fmtIter fuel ctx r v) ctx isRec pre
    (⟨lit, some f⟩ :: rest) perr [] hpre
  rw [hr, ktLoop_cons]
  simp only [ktField_missing _ ctx isRec f _ hn k hk hmiss hascii]

/-- the missing key is the third expression; the first has a conversion and a nested spec, the second an
    `rf`; the first would fail in `format()` (`>{w}` with `w = 'q'` is no spec for a str: "Invalid format
    specifier") and the string ends in a syntax error — the key-lookup error wins over both -/
example : parseTuples "a{l!r:>{q}} {r:rf}|{zz[0]:>4}{b:q} {".toList =
      ([⟨['a'], some ⟨['l'], ">{q}".toList, some 'r'⟩⟩, ⟨[' '], some ⟨['r'], ['r', 'f'], none⟩⟩] ++
        ⟨['|'], some ⟨"zz[0]".toList, ">4".toList, none⟩⟩ ::
        [⟨[], some ⟨['b'], ['q'], none⟩⟩], some errSingleOpen) ∧
    Spec.fieldObj (fun r v => Format.fmtIter 6 (("r", .str "{b}") :: ("q", .str "qq") :: exCtx) r v)
      (("r", .str "{b}") :: ("q", .str "qq") :: exCtx) false ⟨['l'], ">{q}".toList, some 'r'⟩ =
        .ok (.list [.int 1, .str "{b}"], some 'r', ">qq".toList) ∧
    Spec.fieldObj (fun r v => Format.fmtIter 6 (("r", .str "{b}") :: ("q", .str "qq") :: exCtx) r v)
      (("r", .str "{b}") :: ("q", .str "qq") :: exCtx) false ⟨['r'], ['r', 'f'], none⟩ = .ok (.int 5, none, ['r', 'f']) ∧
    firstKey "zz[0]".toList = some "zz" ∧
    Format.fmtVal 8 (("r", .str "{b}") :: ("q", .str "qq") :: exCtx) (.str "a{l!r:>{q}} {r:rf}|{zz[0]:>4}{b:q} {") =
      .error (keyNotInContext "zz") := by
  refine ⟨by rfl, by rfl, by rfl, by rfl, by rfl⟩

/-- … also through recursion: `'{a}'` where `context[a]` is a string with an expression whose key is
    missing never yields a value. -/
theorem missing_key_through_reference (fuel : Nat) (ctx : Ctx) (a : String) (s2 : String)
    (hn : isFieldName false a.toList = true) (hnamed : Named a.toList)
    (ha : getField ctx a.toList = .ok (.str s2))
    (t : Tup) (f : FieldT) (ht : t ∈ (parseTuples s2.toList).1) (hf : t.field = some f) (hfn : Named f.name)
    (k : String) (hk : firstKey f.name = some k) (hmiss : Ctx.get? ctx k = none) (v : Val) :
    Format.fmtKeepType (fuel + 1) ctx false ('{' :: (a.toList ++ ['}'])) ≠ .ok v := by
  intro h
  rw [single_expression_keeps_type fuel ctx _ hn hnamed, ha] at h
  simp only at h
  cases fuel with
  | zero => simp [Format.fmtIter] at h
  | succ n =>
    unfold Format.fmtIter at h
    simp only at h
    have := missing_key_is_error n ctx false s2.toList v h t ht f hf hfn k hk
    rw [hmiss] at this
    simp at this

example : Format.fmtVal 8 exCtx (.str "ok {b} then {zz} and {a}") = .error (keyNotInContext "zz") ∧
    Format.fmtVal 8 (("r", .str "{zz}") :: exCtx) (.str "{r}") = .error (keyNotInContext "zz") ∧
    Format.fmtVal 8 exCtx (.str "{zz[0]!r:>{b}}") = .error (keyNotInContext "zz") := by
  refine ⟨by rfl, by rfl, by rfl⟩

/-! ## `!py` with assignment expressions, and sessions of calls on one context

`PypyrModel/FormatSession.lean`: `evalPyW` is `evalPy` plus `(x := a)`; every evaluation
(`getEvalString`) starts with nothing bound, binds into its own scratch and drops it.
`runCalls` is a sequence of formatting calls and context updates on one context. -/

/-- Conservative extension: a `!py` expression without an assignment expression evaluates, as a
    top-level call of a session, to exactly what `py_evaluates` says it does inside a formatted
    value. For every context and expression. -/
theorem py_call_agrees_with_py_evaluates (fuel : Nat) (ctx : Ctx) (isRec : Bool) (e : PyExpr) :
    getEvalString ctx (PyW.ofPy e) = Format.fmtIter (fuel + 1) ctx isRec (.py e) := by
  rw [py_evaluates]
  unfold getEvalString
  rw [evalPyW_ofPy]
  cases evalPy ctx e <;> rfl

/-- A name that the evaluation has not bound itself is the context key of that name … -/
theorem py_name_is_context_key (ctx : Ctx) (n : String) (v : Val) (h : Ctx.get? ctx n = some v) :
    getEvalString ctx (.name n) = .ok v := by
  simp [getEvalString, evalPyW, lookupName_nil, h]

/-- … and a name that is not a context key raises NameError — whatever earlier evaluations bound
    (`getEvalString` has no other argument through which they could matter). -/
theorem py_missing_name_is_NameError (ctx : Ctx) (n : String) (h : Ctx.get? ctx n = none) :
    getEvalString ctx (.name n) = .error (nameError n) := by
  simp [getEvalString, evalPyW, lookupName_nil, h]

/-- An assignment expression has the value of its operand and binds the name for the REST of the
    same evaluation: a later read of `x` in the same expression sees it, also when `x` is a
    context key (locals are consulted before the context). -/
theorem walrus_binds_within_the_evaluation (ctx : Ctx) (s s1 : Scratch) (x : String) (a : PyW) (v : Val)
    (h : evalPyW ctx s a = .ok (v, s1)) :
    evalPyW ctx s (.walrus x a) = .ok (v, Ctx.set s1 x v) ∧
    evalPyW ctx (Ctx.set s1 x v) (.name x) = .ok (v, Ctx.set s1 x v) := by
  constructor
  · simp [evalPyW, h]
  · simp [evalPyW, lookupName, ctx_get_set_same]

/-- An assignment expression to `x` does not disturb reads of other names. -/
theorem walrus_leaves_other_names (ctx : Ctx) (s : Scratch) (x y : String) (v : Val) (hxy : x ≠ y) :
    lookupName ctx (Ctx.set s x v) y = lookupName ctx s y := by
  simp [lookupName, ctx_get_set_other _ _ _ _ hxy]

/-- An evaluation without assignment expressions binds nothing. -/
theorem no_walrus_binds_nothing (ctx : Ctx) (e : PyW) (h : e.hasWalrus = false) (s s' : Scratch) (v : Val)
    (hv : evalPyW ctx s e = .ok (v, s')) : s' = s :=
  evalPyW_noWalrus_scratch ctx e h s v s' hv

/-- **Sessions.** Splitting a session anywhere: the calls after the split give exactly the results
    they give as a session of their own on the context as updated by the `set`/`del` calls before
    the split — the formatting calls before it (with or without assignment expressions, opaque or
    not) leave nothing behind. For all sessions, contexts, fuel. -/
theorem session_split (fuel : Nat) (ctx : Ctx) (pre rest : List Call) :
    runCalls fuel ctx (pre ++ rest) = runCalls fuel ctx pre ++ runCalls fuel (ctxAfter ctx pre) rest := by
  induction pre generalizing ctx with
  | nil => rfl
  | cons c cs ih =>
    cases c <;> simp [runCalls, ctxAfter, ih]

/-- Formatting calls do not change the context that later calls see. -/
theorem eval_calls_keep_context (ctx : Ctx) (pre : List Call) (h : pre.all Call.isEval = true) :
    ctxAfter ctx pre = ctx := by
  induction pre with
  | nil => rfl
  | cons c cs ih =>
    simp only [List.all_cons, Bool.and_eq_true] at h
    cases c <;> simp_all [ctxAfter, Call.isEval]

/-- **No leak between evaluations.** After any number of formatting calls on a context — among them
    `!py` strings with assignment expressions to any names — a `!py` expression evaluates to what it
    evaluates to on that context alone, and a formatted value likewise. -/
theorem earlier_calls_do_not_matter (fuel : Nat) (ctx : Ctx) (pre : List Call) (c : Call)
    (h : pre.all Call.isEval = true) :
    runCalls fuel ctx (pre ++ [c]) = runCalls fuel ctx pre ++ runCalls fuel ctx [c] := by
  rw [session_split, eval_calls_keep_context ctx pre h]

/-- hypotheses satisfiable, non-trivially: `!py (limit := 10) + 1`, then `!py limit * 2` and
    `'{limit}'` with `limit = 3` in context, then with `limit` removed. -/
example : runCalls 8 [("limit", .int 3), ("items", .list [.int 3, .int 8])]
    [.py (.binop .add (.walrus "limit" (.const (.int 10))) (.const (.int 1))),
     .py (.binop .mul (.name "limit") (.const (.int 2))),
     .fmt (.str "{limit}"),
     .py (.binop .add (.walrus "n" (.len (.name "items"))) (.name "n")),
     .py (.name "n"),
     .del "limit",
     .py (.name "limit"),
     .fmt (.str "{limit}")] =
    [some (.ok (.int 11)), some (.ok (.int 6)), some (.ok (.int 3)), some (.ok (.int 4)),
     some (.error (nameError "n")), none, some (.error (nameError "limit")),
     some (.error (keyNotInContext "limit"))] := by rfl

example : getEvalString [("x", .int 5)] (.binop .add (.name "x") (.binop .add (.walrus "x" (.const (.int 1))) (.name "x")))
    = .ok (.int 7) := by rfl

example : getEvalString [] (.binop .and (.const (.bool false)) (.walrus "x" (.const (.int 1)))) = .ok (.bool false) ∧
    getEvalString [] (.binop .add (.binop .and (.const (.bool false)) (.walrus "x" (.const (.int 1)))) (.name "x"))
      = .error (nameError "x") := by
  constructor <;> rfl

end Pypyr.C08
