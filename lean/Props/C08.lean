import PypyrModel.Format
import PypyrModel.FormatSpec
namespace Pypyr.C08
open Pypyr.Format
theorem sic_verbatim (fuel : Nat) (ctx : Ctx) (isRec : Bool) (s : String) :
    fmtIter (fuel + 1) ctx isRec (.sic s) = .ok (.str s) := by
  unfold fmtIter; rfl
end Pypyr.C08
